(* C14: the result of a reader tree does not depend on how the reader delivers the bytes
   (short reads, interrupted reads), and an injected I/O error comes back as that error.
   Generic theorems for every tree of IT, then lifted to the loader. *)
From Ase Require Export Proofs.Truncation Model.Sched.

(* ------------------------------------------------------------------ *)
(* vocabulary for schedules (used in the statements of Props/C14.v) *)

(* no hard I/O error in the schedule *)
Definition no_hard (s : list ev) : Prop :=
  Forall (fun e => match e with Hard _ => False | _ => True end) s.
(* an upper bound for the bytes the events of s can deliver: the sum of the Short sizes *)
Fixpoint capacity (s : list ev) : Z :=
  match s with
  | [] => 0
  | Short n :: t => Z.pos n + capacity t
  | _ :: t => capacity t
  end.
(* a lower bound for the bytes the events of s deliver when all of them are used and enough
   data is there: the number of Short events (each delivers at least one byte) *)
Fixpoint count_short (s : list ev) : Z :=
  match s with
  | [] => 0
  | Short _ :: t => 1 + count_short t
  | _ :: t => count_short t
  end.

Lemma no_hard_app a b : no_hard (a ++ b) <-> no_hard a /\ no_hard b.
Proof. apply Forall_app. Qed.
Lemma no_hard_not_in s k : no_hard s -> ~ In (Hard k) s.
Proof. intros H Hin. unfold no_hard in H. rewrite Forall_forall in H. exact (H _ Hin). Qed.
Lemma capacity_nonneg s : 0 <= capacity s.
Proof. induction s as [|[n| |k] s IH]; cbn [capacity]; lia. Qed.
Lemma count_short_nonneg s : 0 <= count_short s.
Proof. induction s as [|[n| |k] s IH]; cbn [count_short]; lia. Qed.
Lemma count_le_capacity s : count_short s <= capacity s.
Proof. induction s as [|[n| |k] s IH]; cbn [count_short capacity]; lia. Qed.

(* ------------------------------------------------------------------ *)
(* read_exact over a schedule *)

(* one short read that cannot be served in full takes everything that is left *)
Lemma split_z_min_some want n data a r :
  split_z want data = Some (a, r) -> 0 < want ->
  exists a1 r1 a2,
    split_z (Z.min want (Z.pos n)) data = Some (a1, r1) /\
    zlen a1 = Z.min want (Z.pos n) /\
    split_z (want - Z.min want (Z.pos n)) r1 = Some (a2, r) /\ a = a1 ++ a2.
Proof.
  intros S Hw. set (m := Z.min want (Z.pos n)). assert (0 < m <= want) as Hm by lia.
  pose proof (split_z_len _ _ _ _ S ltac:(lia)) as [Hl Hd].
  destruct (split_z m data) as [[a1 r1]|] eqn:S1.
  - pose proof (split_z_len _ _ _ _ S1 ltac:(lia)) as [Hl1 _].
    rewrite (split_z_split m want _ _ _ ltac:(lia) ltac:(lia) S1) in S.
    destruct (split_z (want - m) r1) as [[a2 r2]|] eqn:S2; [|discriminate].
    injection S as <- <-. exists a1, r1, a2. split; [reflexivity|].
    split; [exact Hl1|]. split; [exact S2|reflexivity].
  - apply split_z_none_short in S1. subst data. rewrite zlen_app in S1.
    pose proof (zlen_nonneg r). lia.
Qed.

(* what rx does on any schedule: it fails with the kind of a Hard event of the schedule,
   or it behaves like split_z and leaves a suffix of the schedule *)
Lemma rx_spec sched : forall want acc data,
  (exists k, In (Hard k) sched /\ rx want acc data sched = Err (EIo k)) \/
  match split_z want data with
  | Some (a, r) => exists s', rx want acc data sched = Ok (acc ++ a, r, s') /\
                              exists pre, sched = pre ++ s'
  | None => rx want acc data sched = Err eof
  end.
Proof.
  induction sched as [|e s IH]; intros want acc data.
  - right. cbn [rx]. destruct (Z.leb_spec want 0) as [Hw|Hw].
    + rewrite split_z_nonpos by lia. exists []. rewrite app_nil_r. split; [reflexivity|].
      exists []. reflexivity.
    + destruct (split_z want data) as [[a r]|]; [|reflexivity].
      exists []. split; [reflexivity|]. exists []. reflexivity.
  - cbn [rx]. destruct (Z.leb_spec want 0) as [Hw|Hw].
    + right. rewrite split_z_nonpos by lia. exists (e :: s). rewrite app_nil_r.
      split; [reflexivity|]. exists []. reflexivity.
    + destruct e as [n| |k].
      * cbn [read1]. set (m := Z.min want (Z.pos n)). assert (0 < m <= want) as Hm by lia.
        destruct (split_z m data) as [[a r]|] eqn:S.
        -- pose proof (split_z_len _ _ _ _ S ltac:(lia)) as [Hl ->].
           destruct a as [|a0 a']; [rewrite zlen_nil in Hl; lia|].
           rewrite (split_z_split m want _ _ _ ltac:(lia) ltac:(lia) S).
           specialize (IH (want - zlen (a0 :: a')) (acc ++ a0 :: a') r). rewrite Hl in *.
           destruct IH as [(k & Hin & Hrx)|IH].
           ++ left. exists k. split; [right; exact Hin|exact Hrx].
           ++ right. destruct (split_z (want - m) r) as [[a2 r2]|].
              ** destruct IH as (s' & -> & pre & ->). exists s'. rewrite app_assoc.
                 split; [reflexivity|]. exists (Short n :: pre). reflexivity.
              ** exact IH.
        -- (* fewer than m bytes left: deliver all, then EOF on the next read *)
           apply split_z_none_short in S.
           rewrite (split_z_short data want) by lia.
           destruct data as [|d0 d']; [right; reflexivity|].
           specialize (IH (want - zlen (d0 :: d')) (acc ++ d0 :: d') []).
           assert (split_z (want - zlen (d0 :: d')) [] = None) as E.
           { cbn [split_z]. destruct (Z.leb_spec (want - zlen (d0 :: d')) 0); [lia|reflexivity]. }
           rewrite E in IH. destruct IH as [(k & Hin & Hrx)|IH].
           ++ left. exists k. split; [right; exact Hin|exact Hrx].
           ++ right. exact IH.
      * cbn [read1]. destruct (IH want acc data) as [(k & Hin & Hrx)|IH'].
        -- left. exists k. split; [right; exact Hin|exact Hrx].
        -- right. destruct (split_z want data) as [[a r]|].
           ++ destruct IH' as (s' & Hrx & pre & ->). exists s'. split; [exact Hrx|].
              exists (Intr :: pre). reflexivity.
           ++ exact IH'.
      * left. exists k. split; [left; reflexivity|reflexivity].
Qed.

(* read_exact under a schedule without hard errors = plain split *)
Lemma rx_plain sched : no_hard sched -> forall want acc data,
  match split_z want data with
  | Some (a, r) => exists s', rx want acc data sched = Ok (acc ++ a, r, s') /\ no_hard s'
  | None => rx want acc data sched = Err eof
  end.
Proof.
  intros H want acc data. destruct (rx_spec sched want acc data) as [(k & Hin & _)|R].
  - exfalso. exact (no_hard_not_in _ _ H Hin).
  - destruct (split_z want data) as [[a r]|]; [|exact R].
    destruct R as (s' & Hrx & pre & ->). exists s'. split; [exact Hrx|].
    apply no_hard_app in H. exact (proj2 H).
Qed.

(* a hard-error-free prefix `pre` of the schedule, followed by anything: either the request
   is served from pre, using at most capacity and at least count_short of it per byte, or
   pre is used up first, and then a Hard event that follows is what the request returns *)
Lemma rx_prefix pre : no_hard pre -> forall post want acc data a r,
  split_z want data = Some (a, r) ->
  (exists pre', rx want acc data (pre ++ post) = Ok (acc ++ a, r, pre' ++ post) /\
                no_hard pre' /\
                capacity pre' + zlen a <= capacity pre /\
                count_short pre <= count_short pre' + zlen a)
  \/ (count_short pre < zlen a /\
      forall k post', post = Hard k :: post' -> rx want acc data (pre ++ post) = Err (EIo k)).
Proof.
  induction 1 as [|e pre0 He Hpre IH]; intros post want acc data a r S.
  - cbn [app]. destruct (Z.le_gt_cases want 0) as [Hw|Hw].
    + left. rewrite split_z_nonpos in S by exact Hw. injection S as <- <-.
      exists []. rewrite app_nil_r. cbn [app capacity count_short]. rewrite !(@zlen_nil Z).
      repeat split; try lia; [|constructor].
      destruct post as [|e s]; cbn [rx]; destruct (Z.leb_spec want 0); try lia; reflexivity.
    + right. pose proof (split_z_len _ _ _ _ S ltac:(lia)) as [Hl _].
      cbn [count_short]. split; [lia|]. intros k post' ->. cbn [rx read1].
      destruct (Z.leb_spec want 0); [lia|reflexivity].
  - cbn [app]. destruct (Z.le_gt_cases want 0) as [Hw|Hw].
    + left. rewrite split_z_nonpos in S by exact Hw. injection S as <- <-.
      exists (e :: pre0). rewrite app_nil_r, !(@zlen_nil Z). cbn [rx app].
      destruct (Z.leb_spec want 0); [|lia].
      repeat split; try lia. constructor; assumption.
    + cbn [rx]. destruct (Z.leb_spec want 0); [lia|].
      destruct e as [n| |k]; [| |contradiction].
      * destruct (split_z_min_some want n data a r S Hw) as (a1 & r1 & a2 & S1 & Hl1 & S2 & ->).
        cbn [read1]. rewrite S1.
        destruct a1 as [|a0 a1']; [rewrite zlen_nil in Hl1; lia|].
        rewrite Hl1.
        destruct (IH post _ (acc ++ a0 :: a1') r1 a2 r S2) as [(pre' & Hrx & Hnh & Hcap & Hcnt)|(Hcnt & Hrx)].
        -- left. exists pre'. rewrite Hrx, <- app_assoc. split; [reflexivity|].
           split; [exact Hnh|]. cbn [capacity count_short]. rewrite zlen_app, Hl1. split; lia.
        -- right. cbn [count_short]. rewrite zlen_app, Hl1. split; [lia|].
           intros k post' Hp. exact (Hrx k post' Hp).
      * cbn [read1 capacity count_short].
        exact (IH post want acc data a r S).
Qed.

(* ------------------------------------------------------------------ *)
(* run_s against run *)

(* any schedule: the plain result, or the kind of a Hard event of the schedule *)
Theorem run_s_cases {A} (t : IT A) : forall data sched,
  run_s t data sched = run t data \/
  exists k, In (Hard k) sched /\ run_s t data sched = Err (EIo k).
Proof.
  induction t as [a|e|s|n k IH]; intros data sched; cbn [run run_s]; try (left; reflexivity).
  destruct (rx_spec sched n [] data) as [(kd & Hin & Hrx)|R].
  - right. exists kd. rewrite Hrx. split; [exact Hin|reflexivity].
  - destruct (split_z n data) as [[a r]|].
    + destruct R as (s' & -> & pre & ->). cbn [app].
      destruct (IH a r s') as [Heq|(kd & Hin & Hrs)].
      * left. exact Heq.
      * right. exists kd. split; [apply in_or_app; right; exact Hin|exact Hrs].
    + left. rewrite R. reflexivity.
Qed.

Theorem run_sched_indep {A} (t : IT A) data sched :
  no_hard sched -> run_s t data sched = run t data.
Proof.
  intros H. destruct (run_s_cases t data sched) as [Heq|(k & Hin & _)]; [exact Heq|].
  exfalso. exact (no_hard_not_in _ _ H Hin).
Qed.

(* in the words of the work package: the result is that of the plain run or an injected
   error; never a different value, never a panic the plain run does not have *)
Corollary run_s_hard {A} (t : IT A) data sched r :
  run_s t data sched = r ->
  r = run t data \/ exists k, In (Hard k) sched /\ r = Err (EIo k).
Proof. intros <-. apply run_s_cases. Qed.
Corollary run_s_ok_inv {A} (t : IT A) data sched v :
  run_s t data sched = Ok v -> run t data = Ok v.
Proof.
  intros H. destruct (run_s_cases t data sched) as [Heq|(k & _ & Hrs)].
  - rewrite <- Heq. exact H.
  - rewrite Hrs in H. discriminate.
Qed.
Corollary run_s_panic_inv {A} (t : IT A) data sched s :
  run_s t data sched = Panic s -> run t data = Panic s.
Proof.
  intros H. destruct (run_s_cases t data sched) as [Heq|(k & _ & Hrs)].
  - rewrite <- Heq. exact H.
  - rewrite Hrs in H. discriminate.
Qed.

(* a Hard event that comes before the needed bytes can have been delivered is returned *)
Theorem run_s_hard_before {A} (t : IT A) k post : forall data pre a rest,
  run t data = Ok (a, rest) -> no_hard pre ->
  capacity pre < Z.of_nat (length data - length rest) ->
  run_s t data (pre ++ Hard k :: post) = Err (EIo k).
Proof.
  induction t as [a0|e|s|n kk IH]; intros data pre a rest; cbn [run run_s]; try discriminate.
  - intros [= <- <-] _ Hc. pose proof (capacity_nonneg pre). lia.
  - destruct (split_z n data) as [[c r]|] eqn:S; [|discriminate]. intros Hr Hnh Hc.
    pose proof (split_z_app _ _ _ _ S) as ->.
    pose proof (run_rest_len _ _ _ _ Hr) as Hlen. rewrite app_length in Hc.
    destruct (rx_prefix pre Hnh (Hard k :: post) n [] _ c r S)
      as [(pre' & Hrx & Hnh' & Hcap & _)|(_ & Hrx)].
    + rewrite Hrx. cbn [app]. eapply IH; [exact Hr|exact Hnh'|].
      unfold zlen in Hcap. lia.
    + rewrite (Hrx k post eq_refl). reflexivity.
Qed.

(* whatever follows a hard-error-free prefix that is long enough to deliver the needed
   bytes (at least one byte per Short event) does not matter *)
Theorem run_s_hard_after {A} (t : IT A) post : forall data pre a rest,
  run t data = Ok (a, rest) -> no_hard pre ->
  Z.of_nat (length data - length rest) <= count_short pre ->
  run_s t data (pre ++ post) = Ok (a, rest).
Proof.
  induction t as [a0|e|s|n kk IH]; intros data pre a rest; cbn [run run_s]; try discriminate.
  - intros H _ _. exact H.
  - destruct (split_z n data) as [[c r]|] eqn:S; [|discriminate]. intros Hr Hnh Hc.
    pose proof (split_z_app _ _ _ _ S) as ->.
    pose proof (run_rest_len _ _ _ _ Hr) as Hlen. rewrite app_length in Hc.
    destruct (rx_prefix pre Hnh post n [] _ c r S)
      as [(pre' & Hrx & Hnh' & _ & Hcnt)|(Hcnt & _)].
    + rewrite Hrx. cbn [app]. eapply IH; [exact Hr|exact Hnh'|].
      unfold zlen in Hcnt. lia.
    + unfold zlen in Hcnt. lia.
Qed.

(* ------------------------------------------------------------------ *)
(* a reader that fails once `limit` bytes have been delivered *)

Lemma run_with_eof {A} (t : IT A) : forall bs, run_with eof t bs = run t bs.
Proof.
  induction t as [a|e|s|n k IH]; intros bs; cbn [run run_with]; try reflexivity.
  destruct (split_z n bs) as [[a r]|]; [apply IH|reflexivity].
Qed.

(* run_with differs from run only where run hits the end of the input *)
Lemma run_with_cases {A} e (t : IT A) : forall bs,
  run_with e t bs = run t bs \/ (run_with e t bs = Err e /\ run t bs = Err eof).
Proof.
  induction t as [a|e0|s|n k IH]; intros bs; cbn [run run_with]; try (left; reflexivity).
  destruct (split_z n bs) as [[a r]|]; [apply IH|]. right. split; reflexivity.
Qed.

Lemma run_with_ok {A} e (t : IT A) bs r : run t bs = Ok r -> run_with e t bs = Ok r.
Proof.
  intros H. destruct (run_with_cases e t bs) as [Heq|[_ Hr]].
  - rewrite Heq. exact H.
  - rewrite Hr in H. discriminate.
Qed.
Lemma run_with_ok_inv {A} e (t : IT A) bs r : run_with e t bs = Ok r -> run t bs = Ok r.
Proof.
  intros H. destruct (run_with_cases e t bs) as [Heq|[Hw _]].
  - rewrite <- Heq. exact H.
  - rewrite Hw in H. discriminate.
Qed.
Lemma run_with_err {A} e (t : IT A) bs x : run_with e t bs = Err x -> x = e \/ run t bs = Err x.
Proof.
  intros H. destruct (run_with_cases e t bs) as [Heq|[Hw _]].
  - right. rewrite <- Heq. exact H.
  - left. rewrite Hw in H. injection H as H. symmetry. exact H.
Qed.
Lemma run_with_panic {A} e (t : IT A) bs s : run_with e t bs = Panic s <-> run t bs = Panic s.
Proof.
  destruct (run_with_cases e t bs) as [Heq|[Hw Hr]].
  - rewrite Heq. reflexivity.
  - rewrite Hw, Hr. split; discriminate.
Qed.

Lemma split_z_firstn_none n bs m : split_z n bs = None -> split_z n (firstn m bs) = None.
Proof.
  intros S. apply split_z_none_short in S. apply split_z_short.
  unfold zlen in *. rewrite firstn_length. lia.
Qed.

(* cutting the input and reporting the cut as `e`: the plain value, or `e` *)
Lemma run_with_firstn {A} e (t : IT A) : forall bs m,
  rmap fst (run_with e t (firstn m bs)) = rmap fst (run t bs) \/
  run_with e t (firstn m bs) = Err e.
Proof.
  induction t as [a|e0|s|n k IH]; intros bs m; cbn [run run_with]; try (left; reflexivity).
  destruct (split_z n bs) as [[c r]|] eqn:S.
  - destruct (Nat.lt_ge_cases m (length c)) as [Hlt|Hge].
    + right. erewrite split_z_prefix; [reflexivity|exact S|exact Hlt].
    + erewrite split_z_firstn_ge; [|exact S|exact Hge]. apply IH.
  - right. rewrite split_z_firstn_none by exact S. reflexivity.
Qed.

Lemma run_with_truncated {A} e (t : IT A) : forall bs a rest m,
  run t bs = Ok (a, rest) -> (m < length bs - length rest)%nat ->
  run_with e t (firstn m bs) = Err e.
Proof.
  induction t as [a0|e0|s|n k IH]; intros bs a rest m; cbn [run run_with]; try discriminate.
  - intros [= <- <-]. lia.
  - destruct (split_z n bs) as [[c r]|] eqn:S; [|discriminate]. intros Hr Hm.
    pose proof (split_z_app _ _ _ _ S) as ->.
    destruct (Nat.lt_ge_cases m (length c)) as [Hlt|Hge].
    + erewrite split_z_prefix; [reflexivity|exact S|exact Hlt].
    + erewrite split_z_firstn_ge; [|exact S|exact Hge].
      pose proof (run_rest_len _ _ _ _ Hr) as Hlen. rewrite app_length in Hm.
      eapply IH; [exact Hr|]. lia.
Qed.

(* the fault position against the bytes the run needs *)
Theorem run_fault_spec_strong {A} (t : IT A) data (limit : nat) kind a rest :
  run t data = Ok (a, rest) ->
  let consumed := (length data - length rest)%nat in
  ((consumed <= limit)%nat ->
     run_fault t data (Z.of_nat limit) kind = Ok (a, firstn (limit - consumed) rest)) /\
  ((limit < consumed)%nat -> run_fault t data (Z.of_nat limit) kind = Err (EIo kind)).
Proof.
  intros H consumed. unfold run_fault. rewrite Nat2Z.id. split; intros Hl.
  - apply run_with_ok. apply run_prefix_ok; [exact H|exact Hl].
  - eapply run_with_truncated; [exact H|exact Hl].
Qed.

Theorem run_fault_spec {A} (t : IT A) data (limit : nat) kind a rest :
  run t data = Ok (a, rest) ->
  let consumed := (length data - length rest)%nat in
  ((consumed <= limit)%nat -> exists rest', run_fault t data (Z.of_nat limit) kind = Ok (a, rest')) /\
  ((limit < consumed)%nat -> run_fault t data (Z.of_nat limit) kind = Err (EIo kind)).
Proof.
  intros H consumed. destruct (run_fault_spec_strong t data limit kind a rest H) as [H1 H2].
  split; [|exact H2]. intros Hl. eexists. apply H1. exact Hl.
Qed.

(* whatever the input and the fault position: the plain value, or the injected error *)
Theorem run_fault_cases {A} (t : IT A) data limit kind :
  rmap fst (run_fault t data limit kind) = rmap fst (run t data) \/
  run_fault t data limit kind = Err (EIo kind).
Proof. unfold run_fault. apply run_with_firstn. Qed.

(* ------------------------------------------------------------------ *)
(* the loader *)

Section Load.
Variable inflate : list Z -> Z -> zres.

Lemma finish_fst (r1 r2 : res (header * pinfo * list Z)) :
  rmap fst r1 = rmap fst r2 -> finish r1 = finish r2.
Proof.
  destruct r1 as [[[h1 p1] x1]|e1|s1], r2 as [[[h2 p2] x2]|e2|s2];
    cbn [rmap rbind fst snd finish]; try discriminate.
  - intros [= <- <-]. reflexivity.
  - intros [= <-]. reflexivity.
  - intros [= <-]. reflexivity.
Qed.

Lemma load_finish bs : load inflate bs = finish (run (parse_file inflate) bs).
Proof.
  unfold load, load_rest, finish.
  destruct (run (parse_file inflate) bs) as [[[h p] r]|e|s]; cbn [rmap rbind fst snd]; try reflexivity.
  destruct (validate h p) as [f|e|s]; reflexivity.
Qed.

Lemma finish_err e : finish (Err e) = Err e.
Proof. reflexivity. Qed.

Theorem run_sched_load_indep data sched :
  no_hard sched -> run_sched_load inflate data sched = load inflate data.
Proof.
  intros H. unfold run_sched_load. rewrite run_sched_indep by exact H.
  symmetry. apply load_finish.
Qed.

Theorem run_sched_load_cases data sched :
  run_sched_load inflate data sched = load inflate data \/
  exists k, In (Hard k) sched /\ run_sched_load inflate data sched = Err (EIo k).
Proof.
  unfold run_sched_load.
  destruct (run_s_cases (parse_file inflate) data sched) as [Heq|(k & Hin & Hrs)].
  - left. rewrite Heq. symmetry. apply load_finish.
  - right. exists k. rewrite Hrs. split; [exact Hin|reflexivity].
Qed.

Theorem run_sched_load_hard_before data f rest pre k post :
  load_rest inflate data = Ok (f, rest) -> no_hard pre ->
  capacity pre < Z.of_nat (length data - length rest) ->
  run_sched_load inflate data (pre ++ Hard k :: post) = Err (EIo k).
Proof.
  intros H Hnh Hc. apply load_rest_ok_inv in H. destruct H as (h & p & Hr & _).
  unfold run_sched_load. rewrite (run_s_hard_before _ k post _ _ _ _ Hr Hnh Hc). reflexivity.
Qed.

Theorem run_sched_load_hard_after data f rest pre post :
  load_rest inflate data = Ok (f, rest) -> no_hard pre ->
  Z.of_nat (length data - length rest) <= count_short pre ->
  run_sched_load inflate data (pre ++ post) = Ok f.
Proof.
  intros H Hnh Hc. pose proof (load_of_load_rest _ _ _ _ H) as Hl.
  apply load_rest_ok_inv in H. destruct H as (h & p & Hr & _).
  unfold run_sched_load. rewrite (run_s_hard_after _ post _ _ _ _ Hr Hnh Hc).
  rewrite <- Hr, <- load_finish. exact Hl.
Qed.

Theorem run_fault_load_cases data limit kind :
  run_fault_load inflate data limit kind = load inflate data \/
  run_fault_load inflate data limit kind = Err (EIo kind).
Proof.
  unfold run_fault_load.
  destruct (run_fault_cases (parse_file inflate) data limit kind) as [Heq|Herr].
  - left. rewrite load_finish. apply finish_fst. exact Heq.
  - right. rewrite Herr. reflexivity.
Qed.

Theorem run_fault_load_spec data (limit : nat) kind f rest :
  load_rest inflate data = Ok (f, rest) ->
  ((length data - length rest <= limit)%nat ->
     run_fault_load inflate data (Z.of_nat limit) kind = Ok f) /\
  ((limit < length data - length rest)%nat ->
     run_fault_load inflate data (Z.of_nat limit) kind = Err (EIo kind)).
Proof.
  intros H. pose proof (load_of_load_rest _ _ _ _ H) as Hl.
  apply load_rest_ok_inv in H. destruct H as (h & p & Hr & Hv).
  destruct (run_fault_spec_strong _ data limit kind _ _ Hr) as [H1 H2].
  unfold run_fault_load. split; intros Hlim.
  - rewrite (H1 Hlim). cbn [finish rbind fst snd]. exact Hv.
  - rewrite (H2 Hlim). reflexivity.
Qed.

(* the statements of Props/C14.v, assembled *)
Theorem fault_offset_thm data (limit : nat) kind :
  (run_fault_load inflate data (Z.of_nat limit) kind = load inflate data \/
   run_fault_load inflate data (Z.of_nat limit) kind = Err (EIo kind)) /\
  (forall f rest, load_rest inflate data = Ok (f, rest) ->
     ((length data - length rest <= limit)%nat ->
        run_fault_load inflate data (Z.of_nat limit) kind = Ok f) /\
     ((limit < length data - length rest)%nat ->
        run_fault_load inflate data (Z.of_nat limit) kind = Err (EIo kind))).
Proof.
  split; [apply run_fault_load_cases|]. intros f rest H. apply run_fault_load_spec. exact H.
Qed.

Theorem fault_event_thm data sched :
  (run_sched_load inflate data sched = load inflate data \/
   exists k, In (Hard k) sched /\ run_sched_load inflate data sched = Err (EIo k)) /\
  (forall f rest pre k post,
     load_rest inflate data = Ok (f, rest) -> sched = pre ++ Hard k :: post -> no_hard pre ->
     (capacity pre < Z.of_nat (length data - length rest) ->
        run_sched_load inflate data sched = Err (EIo k)) /\
     (Z.of_nat (length data - length rest) <= count_short pre ->
        run_sched_load inflate data sched = Ok f)).
Proof.
  split; [apply run_sched_load_cases|]. intros f rest pre k post H -> Hnh. split; intros Hc.
  - eapply run_sched_load_hard_before; [exact H|exact Hnh|exact Hc].
  - eapply run_sched_load_hard_after; [exact H|exact Hnh|exact Hc].
Qed.

End Load.

(* ------------------------------------------------------------------ *)
(* non-vacuity *)

Definition demo_data : list Z := [3; 0; 10; 20; 30; 99; 98].
Definition demo_sched : list ev := [Short 1; Intr; Short 1; Intr; Intr; Short 2; Short 7].

Example demo_sched_no_hard : no_hard demo_sched.
Proof. repeat constructor. Qed.
Example demo_sched_run : run_s demo_tree demo_data demo_sched = Ok ((3, [10; 20; 30]), [99; 98]).
Proof. vm_compute. reflexivity. Qed.
Example demo_sched_same : run_s demo_tree demo_data demo_sched = run demo_tree demo_data.
Proof. apply run_sched_indep. exact demo_sched_no_hard. Qed.
(* a Hard error after two delivered bytes, five needed: the error is returned *)
Example demo_hard_early :
  run_s demo_tree demo_data ([Short 1; Intr; Short 1] ++ Hard 5 :: [Short 9]) = Err (EIo 5).
Proof. vm_compute. reflexivity. Qed.
Example demo_hard_early_thm :
  run_s demo_tree demo_data ([Short 1; Intr; Short 1] ++ Hard 5 :: [Short 9]) = Err (EIo 5).
Proof.
  eapply run_s_hard_before; [exact demo_ok|repeat constructor|vm_compute; reflexivity].
Qed.
(* a Hard error after the five needed bytes: not reached *)
Example demo_hard_late :
  run_s demo_tree demo_data ([Short 1; Short 1; Short 1; Intr; Short 1; Short 1] ++ [Hard 5])
  = Ok ((3, [10; 20; 30]), [99; 98]).
Proof. vm_compute. reflexivity. Qed.
Example demo_hard_late_thm :
  run_s demo_tree demo_data ([Short 1; Short 1; Short 1; Intr; Short 1; Short 1] ++ [Hard 5])
  = Ok ((3, [10; 20; 30]), [99; 98]).
Proof.
  eapply run_s_hard_after; [exact demo_ok|repeat constructor|vm_compute; discriminate].
Qed.
(* fault by offset: limits 0..4 give the injected kind, 5.. the value *)
Example demo_fault :
  map (fun l => rmap fst (run_fault demo_tree demo_data l 7)) [0; 1; 2; 3; 4; 5; 6; 7; 8]
  = [Err (EIo 7); Err (EIo 7); Err (EIo 7); Err (EIo 7); Err (EIo 7);
     Ok (3, [10; 20; 30]); Ok (3, [10; 20; 30]); Ok (3, [10; 20; 30]); Ok (3, [10; 20; 30])].
Proof. vm_compute. reflexivity. Qed.

(* the minimal file under a one-byte-at-a-time schedule with interrupts, and with faults *)
Definition one_by_one (n : nat) : list ev := flat_map (fun _ => [Intr; Short 1]) (seq 0 n).
Example mini_sched :
  rmap (fun f => (f_width f, f_height f, f_nframes f))
       (run_sched_load no_inflate mini_file (one_by_one 144)) = Ok (1, 1, 1).
Proof. vm_compute. reflexivity. Qed.
Example mini_sched_hard_early :
  run_sched_load no_inflate mini_file (one_by_one 143 ++ Hard 9 :: one_by_one 10) = Err (EIo 9).
Proof. vm_compute. reflexivity. Qed.
Example mini_sched_hard_late :
  is_ok (run_sched_load no_inflate mini_file (one_by_one 144 ++ [Hard 9])) = true.
Proof. vm_compute. reflexivity. Qed.
Example mini_fault_all_offsets :
  forallb (fun l => match run_fault_load no_inflate mini_file (Z.of_nat l) 9 with
                    | Err (EIo 9) => true | _ => false end) (seq 0 144) = true
  /\ is_ok (run_fault_load no_inflate mini_file 144 9) = true.
Proof. vm_compute. split; reflexivity. Qed.
