(* C01 end to end: the conditions of load_serialize_total_ts are NECESSARY as well.  A serialised well-formed program
   loads if and only if sprite_ok_ts holds of it - so sprite_ok_ts is exactly the "well-formed sprite" of the property,
   read off the program, and everything it excludes is refused (the C15 side). *)
From Ase Require Import Model.Api Spec.Serialize.
From Ase Require Import Proofs.ITLemmas Proofs.ArrLemmas Proofs.RoundTrip Proofs.PaletteProofs.
From Ase Require Import Proofs.Factor Proofs.Neutral Proofs.UserData Proofs.Layers Proofs.EndToEnd Proofs.NoPanicLoad.
From Ase Require Import Proofs.EndToEndTotal Proofs.EndToEndTilesets Proofs.EndToEndCels Proofs.EndToEndTotalTs.

(* ------------------------------------------------------------------ *)
(* 1. the fold: a step that succeeds was allowed *)

Lemma nthz_app_left {A} (l r : list A) i : i < zlen l -> nthz (l ++ r) i = nthz l i.
Proof.
  intros Hi. destruct (Z.ltb_spec i 0) as [Hn|Hn]; [rewrite !nthz_neg by exact Hn; reflexivity|].
  rewrite !nthz_nth_error by exact Hn. apply nth_error_app1. unfold zlen in Hi. lia.
Qed.

Lemma nthz_repeat_none {A} k i x : nthz (@repeat_none A k) i = Some x -> x = None.
Proof.
  revert i. induction k as [|k IH]; intros i; cbn [repeat_none]; [rewrite nthz_nil; discriminate|].
  destruct (Z.eq_dec i 0) as [->|Hne]; [rewrite nthz_cons_0; intros [= <-]; reflexivity|].
  intros H. pose proof (nthz_some _ _ _ H) as Hr. rewrite nthz_cons_pos in H by lia. exact (IH _ H).
Qed.

Lemma step_ok_inv n d done p e p1 :
  Forall ev_wf done -> rfold step done (pinfo_new n d) = Ok p -> ev_wf e ->
  step p e = Ok p1 -> ev_ok n done e.
Proof.
  intros Hw Hf Hwe Hs.
  destruct (Inv_final n d done p Hw Hf) as ((WL & WS) & HNL & HNS & HCTX & _).
  pose proof (rfold_nframes _ _ _ Hf) as HNF. cbn [pinfo_new pi_nframes] in HNF.
  pose proof (cel_of_history n d done p Hw Hf) as Hcel.
  destruct e as [l|fr c|sl|ts|o|o|u]; cbn [step ev_ok] in *; try exact I.
  - (* cel *)
    destruct Hwe as (Hfr0 & _). unfold add_cel in Hs. rewrite HNL in Hs.
    destruct (Z.leb_spec (count_layers (rev done)) (cc_layer (c_data c))) as [H|Hl]; [discriminate|].
    apply rbind_ok in Hs. destruct Hs as (t' & Ht & _). unfold table_add_cel in Ht. rewrite HNF in Ht.
    destruct (Z.leb_spec n fr) as [H|Hfr]; [discriminate|].
    set (L := cc_layer (c_data c)) in *. set (r0 := get_row (pi_cels p) fr) in *.
    set (r := if zlen r0 <? L + 1 then r0 ++ repeat_none (Z.to_nat (L + 1 - zlen r0)) else r0) in *.
    destruct (nthz r L) as [[c0|]|] eqn:En; try discriminate.
    pose proof (nthz_some _ _ _ En) as HL.
    split; [lia|]. split; [lia|].
    specialize (Hcel fr L).
    assert (cel_of p fr L = None) as Hnone.
    { unfold cel_of, cel_slot. fold r0. destruct (nthz r0 L) as [[c1|]|] eqn:E0; try reflexivity. exfalso.
      pose proof (nthz_some _ _ _ E0) as H0. subst r.
      destruct (zlen r0 <? L + 1); [rewrite nthz_app_left in En by lia|]; rewrite E0 in En; discriminate. }
    rewrite Hnone in Hcel. cbn [option_map] in Hcel.
    destruct (cel_at (flat_map ev_cel done) fr L); [discriminate|reflexivity].
  - (* user data *)
    unfold add_user_data in Hs. destruct (pi_ctx p) as [[f1 l1|i| |i|i]|] eqn:Ec; cbn [option_map ctx_entity] in HCTX;
      rewrite <- HCTX; try exact I; [|discriminate].
    destruct (pi_tags p) as [ts'|] eqn:Et; [|discriminate].
    destruct (nthz ts' i) as [t0|] eqn:En; [|discriminate].
    destruct (Z.leb_spec 65535 i) as [H|Hi]; [discriminate|].
    split; [exact Hi|].
    destruct (rfold_shape _ _ _ Hf) as (_ & _ & A3). cbn [pinfo_new pi_tags] in A3. fold (cur_tags done) in A3.
    rewrite Et in A3. cbn [option_map] in A3.
    destruct (cur_tags done) as [ts|]; [|discriminate]. cbn [option_map] in A3. injection A3 as A3.
    assert (zlen ts' = zlen ts) as Hlen by (rewrite <- (zlen_map tag_erase ts'), A3; apply zlen_map).
    pose proof (nthz_some _ _ _ En). lia.
Qed.

Lemma fold_ok_inv_from n d evs : forall done p p',
  Forall ev_wf done -> Forall ev_wf evs ->
  rfold step done (pinfo_new n d) = Ok p -> rfold step evs p = Ok p' -> events_ok n done evs.
Proof.
  induction evs as [|e t IH]; intros done p p' Hwd Hwe Hf Hr; cbn [rfold events_ok] in *; [exact I|].
  inversion Hwe as [|? ? Hwe1 Hwe2]; subst.
  apply rbind_ok in Hr. destruct Hr as (p1 & Hs & Hr).
  split; [exact (step_ok_inv n d done p e p1 Hwd Hf Hwe1 Hs)|].
  apply (IH (done ++ [e]) p1 p'); [apply Forall_app; split; [exact Hwd|constructor; [exact Hwe1|constructor]]|exact Hwe2| |exact Hr].
  rewrite Factor.rfold_app, Hf. cbn [rbind rfold]. rewrite Hs. reflexivity.
Qed.

Theorem fold_ok_inv n d evs p :
  Forall ev_wf evs -> rfold step evs (pinfo_new n d) = Ok p -> events_ok n [] evs.
Proof. intros Hw Hf. exact (fold_ok_inv_from n d evs [] _ p (Forall_nil _) Hw eq_refl Hf). Qed.

(* every (frame, cel) pair of an allowed event list is THE cel of its (frame, layer) *)
Definition cels_unique (cs : list (Z * cel rawpixels)) : Prop :=
  forall fr c, In (fr, c) cs -> cel_at cs fr (cc_layer (c_data c)) = Some c.

Lemma cels_unique_snoc cs fr c :
  cels_unique cs -> cel_at cs fr (cc_layer (c_data c)) = None -> cels_unique (cs ++ [(fr, c)]).
Proof.
  intros Hu Hnone fr' c' Hin. unfold cel_at in *. rewrite find_app'. apply in_app_or in Hin. destruct Hin as [Hin|[[= <- <-]|[]]].
  - specialize (Hu fr' c' Hin). unfold cel_at in Hu. destruct (find (cel_match fr' (cc_layer (c_data c'))) cs) as [x|]; [exact Hu|discriminate].
  - destruct (find (cel_match fr (cc_layer (c_data c))) cs) as [x|]; [discriminate|].
    cbn [find]. unfold cel_match at 1. cbn [fst snd]. rewrite !Z.eqb_refl. reflexivity.
Qed.

Lemma events_ok_unique n evs : forall done,
  events_ok n done evs -> cels_unique (flat_map ev_cel done) -> cels_unique (flat_map ev_cel (done ++ evs)).
Proof.
  induction evs as [|e t IH]; intros done Hok Hu; [rewrite app_nil_r; exact Hu|].
  cbn [events_ok] in Hok. destruct Hok as (H1 & H2).
  replace (done ++ e :: t) with ((done ++ [e]) ++ t) by (rewrite <- app_assoc; reflexivity).
  apply IH; [exact H2|]. rewrite flat_map_app. cbn [flat_map]. rewrite app_nil_r.
  destruct e as [l|fr c|sl|ts|o|o|u]; cbn [ev_cel]; try (rewrite app_nil_r; exact Hu).
  cbn [ev_ok] in H1. destruct H1 as (_ & _ & Hfree). apply cels_unique_snoc; assumption.
Qed.

(* ------------------------------------------------------------------ *)
(* 2. validation: what succeeded was valid *)

Lemma validate_pixels_any_bg pal fmt bg rp px :
  validate_pixels pal fmt bg rp = Ok px -> forall bg', exists px', validate_pixels pal fmt bg' rp = Ok px'.
Proof.
  unfold validate_pixels. destruct rp as [l|l|l]; intros H bg'; try (eexists; reflexivity).
  destruct pal as [pl|]; [|discriminate]. destruct (forallb _ l); [|discriminate].
  destruct fmt; try discriminate. eexists. reflexivity.
Qed.

Lemma validate_cel_ok_inv h p tss l c c' :
  validate_cel (arr_of_list (layers_of p)) tss (pi_palette p) (h_fmt h) (pi_cels p) (pi_nframes p) (pi_nlayers p) l c = Ok c' ->
  cel_valid_ts h p tss l c.
Proof.
  unfold validate_cel, cel_valid_ts. intros H. apply rbind_ok in H. destruct H as (content & H & _).
  destruct (c_content c) as [w hh rp|other|tm].
  - rewrite aget_arr_of_list in H. destruct (nthz (layers_of p) l) as [l0|] eqn:El; [|discriminate].
    apply rbind_ok in H. destruct H as (px & Hpx & _). split; [exact (nthz_some _ _ _ El)|].
    exact (validate_pixels_any_bg _ _ _ _ _ Hpx).
  - destruct (Z.ltb_spec other (pi_nframes p)) as [Ho|_]; [|discriminate].
    destruct (Z.ltb_spec l (pi_nlayers p)) as [Hl|_]; [|discriminate]. cbn [andb] in H.
    apply rbind_ok in H. destruct H as (tgt & Ht & H). unfold table_cel in Ht.
    destruct (Z.ltb_spec other 0) as [_|Ho0]; [discriminate|].
    destruct (Z.leb_spec (pi_nframes p) other) as [_|_]; [discriminate|]. cbn [orb] in Ht.
    destruct tgt as [c1|]; [|discriminate]. destruct (is_linked c1) eqn:Elk; [discriminate|].
    split; [lia|]. split; [exact Hl|]. exists c1. split; [|exact Elk].
    unfold cel_of, cel_slot. destruct (nthz (get_row (pi_cels p) other) l) as [[c2|]|]; try discriminate.
    injection Ht as <-. reflexivity.
  - rewrite aget_arr_of_list in H. destruct (nthz (layers_of p) l) as [l0|] eqn:El; [|discriminate].
    destruct (Z.eqb_spec (l_type l0) 2) as [Ety|_]; [|discriminate].
    exists l0. split; [reflexivity|]. split; [exact Ety|]. intros mx Emx. rewrite Emx in H. unfold tile_count_of.
    destruct (Z.leb_spec (match zfind (l_tileset l0) tss with Some ts => ts_count ts | None => 0 end) mx) as [_|Hlt]; [discriminate|].
    exact Hlt.
Qed.

Lemma validate_ok_inv h p f :
  validate h p = Ok f ->
  (exists ps, compute_parents (layers_of p) = Ok ps) /\
  validate_tilesets (pi_palette p) (h_fmt h) (pi_tilesets p) = Ok (f_tilesets f) /\
  validate_layers (layers_of p) (f_tilesets f) = Ok tt /\
  f_layers f = arr_of_list (layers_of p).
Proof.
  unfold validate; rewrite ?frev_eq. fold (layers_of p). intros H.
  apply rbind_ok in H. destruct H as (parents & Hp & H).
  apply rbind_ok in H. destruct H as (tss & Ht & H).
  apply rbind_ok in H. destruct H as (u & Hl & H).
  apply rbind_ok in H. destruct H as (cels & _ & [= <-]). cbn [f_tilesets f_layers].
  destruct u. split; [eexists; exact Hp|]. split; [exact Ht|]. split; [exact Hl|reflexivity].
Qed.

(* ------------------------------------------------------------------ *)
(* 3. programs that load satisfy the conditions *)

Section Iff.
Variable inflate : list Z -> Z -> zres.

Theorem load_serialize_ok_inv s tail f :
  wf_prog s -> inflate_ok inflate s -> load inflate (serialize s ++ tail) = Ok f -> sprite_ok_ts s.
Proof.
  intros Hwf Hz Hload.
  destruct (load_serialize_ok inflate s tail f Hwf Hz Hload) as (p & Hf & Hv).
  pose proof (events_of_wf s Hwf) as Hw.
  pose proof (assembled_tilesets s p Hwf Hf) as Hasm.
  set (n := hf_frames (sp_header s)) in *. set (d := hf_default_time (sp_header s)) in *.
  set (h := header_of (rawheader_of s) (prog_fmt s)) in *.
  pose proof (fold_ok_inv n d _ p Hw Hf) as Hev.
  destruct (validate_ok_inv _ _ _ Hv) as (Hpar & Htss & Hlay' & Hfl).
  destruct (Inv_final n d _ p Hw Hf) as ((WL & _) & _).
  destruct (rfold_shape _ _ _ Hf) as (Hlay & _). cbn [pinfo_new] in Hlay.
  change (layers_of (pinfo_new n d)) with (@nil layer) in Hlay. cbn [map app] in Hlay.
  rewrite prog_layers_events in Hlay.
  pose proof (rfold_nframes _ _ _ Hf) as Hnf. cbn [pinfo_new pi_nframes] in Hnf.
  assert (n = zlen (sp_frames s)) as Hn by (destruct Hwf as (_ & _ & E & _); exact E).
  pose proof (rfold_pal _ _ _ Hf) as Hpal. cbn [pinfo_new pi_palette] in Hpal.
  assert (pi_palette p = prog_palette s) as Hpal'
    by (rewrite Hpal; unfold events_of, prog_palette; apply (frames_events_pal (prog_fmt s) (sp_frames s) 0 None)).
  pose proof (cel_of_history n d _ p Hw Hf) as Hcel. rewrite prog_cels_events in Hcel.
  assert (forall j l0, nthz (prog_layers s) j = Some l0 ->
            exists l, nthz (layers_of p) j = Some l /\ l_type l = l_type l0 /\ l_tileset l = l_tileset l0) as Hnth.
  { intros j l0 Hj. pose proof (f_equal (fun x => nthz x j) Hlay) as E. cbn beta in E. rewrite !nthz_map, Hj in E.
    cbn [option_map] in E. destruct (nthz (layers_of p) j) as [l|]; [|discriminate]. cbn [option_map] in E.
    injection E as E. exists l. split; [reflexivity|]. split; congruence. }
  (* the tileset under a key of the validated map *)
  assert (forall k ts, zfind k (f_tilesets f) = Some ts ->
            exists t, final_tileset s k = Some t /\ ts_count ts = ts_count t) as Hkey.
  { intros k ts Hk. assert (0 <= k) as Hk0 by (unfold zfind in Hk; destruct (k <? 0) eqn:E; [discriminate|lia]).
    pose proof (validate_tilesets_find _ _ _ _ Htss k Hk0) as Hfind. rewrite (Hasm k Hk0) in Hfind.
    destruct (final_tileset s k) as [t|]; [|rewrite Hfind in Hk; discriminate].
    destruct Hfind as (ts' & Hv' & Hz'). rewrite Hz' in Hk. injection Hk as <-. exists t. split; [reflexivity|].
    apply validate_tileset_attrs in Hv'. apply Hv'. }
  split; [exact Hev|]. split; [|split; [|split]].
  - intros k t Hk. destruct (final_tileset_id _ _ _ Hk) as (Eid & Hin).
    assert (0 <= k) as Hk0 by (rewrite <- Eid; apply (ids_nonneg s Hwf); exact Hin).
    pose proof (validate_tilesets_find _ _ _ _ Htss k Hk0) as Hfind. rewrite (Hasm k Hk0), Hk in Hfind.
    destruct Hfind as (ts & Hv' & _). exists ts. rewrite <- Hpal'. exact Hv'.
  - intros l0 Hl0 Hty. apply In_nthz in Hl0. destruct Hl0 as (j & _ & Hj).
    destruct (Hnth j l0 Hj) as (l & Hl & Ety & Ets).
    unfold validate_layers in Hlay'.
    destruct (forallb (fun l => if l_type l =? 2 then is_some (zfind (l_tileset l) (f_tilesets f)) else true) (layers_of p)) eqn:Efa;
      [|discriminate].
    rewrite forallb_forall in Efa. specialize (Efa l (nthz_In _ _ _ Hl)). cbn beta in Efa. rewrite Ety, Hty in Efa. cbn [Z.eqb Pos.eqb] in Efa.
    destruct (zfind (l_tileset l) (f_tilesets f)) as [ts|] eqn:Ez; [|discriminate].
    destruct (Hkey _ _ Ez) as (t & Ht & _). exists t. rewrite <- Ets. exact Ht.
  - destruct Hpar as (ps & Hps). exists ps. rewrite <- (compute_parents_erased _ _ Hlay). exact Hps.
  - intros fr c0 Hin.
    pose proof (events_ok_unique n (events_of s) [] Hev ltac:(intros ? ? []) fr c0) as Hu.
    cbn [app] in Hu. rewrite prog_cels_events in Hu. specialize (Hu Hin).
    set (j := cc_layer (c_data c0)) in *.
    pose proof (Hcel fr j) as H1. rewrite Hu in H1. cbn [option_map] in H1.
    destruct (cel_of p fr j) as [c|] eqn:Ec; [|discriminate]. cbn [option_map] in H1.
    apply cel_erase_content in H1. destruct H1 as (Hcont & _).
    pose proof (validate_cel_contents _ _ _ Hv fr j) as Hval. rewrite Ec in Hval. unfold cel_validated in Hval.
    destruct (fcel_of f fr j) as [c'|]; [|contradiction]. rewrite Hfl in Hval.
    apply validate_cel_ok_inv in Hval. unfold cel_valid_ts in Hval. unfold cel_prog_ok_ts. rewrite Hcont in Hval.
    destruct (c_content c0) as [w hh rp|other|tm].
    + destruct Hval as (_ & Hpx). rewrite <- Hpal'. exact Hpx.
    + destruct Hval as (Ho & _ & c1 & Hc1 & Hnl). split; [lia|].
      pose proof (Hcel other j) as H2. rewrite Hc1 in H2. cbn [option_map] in H2.
      fold j. destruct (cel_at (prog_cels s) other j) as [c2|]; [|discriminate]. cbn [option_map] in H2.
      apply cel_erase_content in H2. destruct H2 as (Hcont2 & _).
      exists c2. split; [reflexivity|]. unfold is_linked in *. rewrite <- Hcont2. exact Hnl.
    + destruct Hval as (l & Hl & Hty & Hmx). fold j.
      destruct (nthz (prog_layers s) j) as [l0|] eqn:El0.
      * destruct (Hnth j l0 El0) as (l' & Hl' & Ety & Ets). rewrite Hl in Hl'. injection Hl' as <-.
        exists l0. split; [reflexivity|]. split; [congruence|].
        intros mx Emx. specialize (Hmx mx Emx). unfold tile_count_of in Hmx.
        (* the layer's tileset exists by validate_layers *)
        unfold validate_layers in Hlay'.
        destruct (forallb (fun l => if l_type l =? 2 then is_some (zfind (l_tileset l) (f_tilesets f)) else true) (layers_of p)) eqn:Efa;
          [|discriminate].
        rewrite forallb_forall in Efa. specialize (Efa l (nthz_In _ _ _ Hl)). cbn beta in Efa. rewrite Hty in Efa. cbn [Z.eqb Pos.eqb] in Efa.
        destruct (zfind (l_tileset l) (f_tilesets f)) as [ts|] eqn:Ez; [|discriminate].
        destruct (Hkey _ _ Ez) as (t & Ht & Ecnt). exists t. rewrite <- Ets. split; [exact Ht|]. rewrite <- Ecnt. exact Hmx.
      * exfalso. pose proof (f_equal (fun x => nthz x j) Hlay) as E. cbn beta in E. rewrite !nthz_map, Hl, El0 in E. discriminate.
Qed.

(* THE CHARACTERISATION: a serialised well-formed program loads exactly when sprite_ok_ts holds *)
Theorem load_serialize_iff s tail :
  wf_prog s -> inflate_ok inflate s ->
  ((exists f, load inflate (serialize s ++ tail) = Ok f) <-> sprite_ok_ts s).
Proof.
  intros Hwf Hz. split.
  - intros (f & Hf). exact (load_serialize_ok_inv s tail f Hwf Hz Hf).
  - intros Hok. exact (load_serialize_total_ts inflate s tail Hwf Hz Hok).
Qed.

End Iff.

(* ------------------------------------------------------------------ *)
(* 4. the C15 direction for whole programs: a well-formed program outside sprite_ok_ts is refused with an error VALUE *)
Theorem program_refused (inflate : list Z -> Z -> zres) s tail :
  wf_prog s -> inflate_ok inflate s -> all_bytes tail -> ~ sprite_ok_ts s ->
  exists e, load inflate (serialize s ++ tail) = Err e.
Proof.
  intros Hwf Hz Htail Hno.
  assert (Forall is_byte (serialize s ++ tail)) as Hb by (apply Forall_app; split; [exact (serialize_all_bytes s Hwf)|exact Htail]).
  destruct (load_total inflate _ Hb) as [(f & Hf)|He]; [|exact He].
  exfalso. apply Hno. exact (load_serialize_ok_inv inflate s tail f Hwf Hz Hf).
Qed.

(* non-vacuity: the tileset example with tile id 3 in its tilemap cel (the final tileset has 3 tiles, ids 0..2) is a
   well-formed program outside sprite_ok_ts, and it is refused *)
Module BadTile.
Import TilesetExample.
Definition bad_inflate (z : list Z) (limit : Z) : zres :=
  match z with
  | 3 :: _ => ZOk [3; 0; 0; 0; 1; 0; 0; 0]
  | _ => ex_inflate z limit
  end.
Definition bad_frame : frame_prog :=
  {| fp_duration := 50; fp_count := CountBoth; fp_rsv := [0; 0];
     fp_items :=
       [ ITileset (ts7 2 [97]) 6 (repeat 0 14) [9; 9; 9; 9] (TilesZ [1; 42] ts_bytes_a) [];
         ILayer lay_M 1 [0; 0; 0; 0] [0; 0; 0] [];
         ITileset (ts7 3 [98]) 6 (repeat 5 14) [0; 0; 0; 0] (TilesZ [2] ts_bytes_b) [];
         ICelTilemap ccM [0; 0; 0; 0; 0; 0; 0] 2 1 536870911 (repeat 1 12) (repeat 0 10) [3; 3] [3; 0; 0; 0; 1; 0; 0; 0] [] ] |}.
Definition bad_prog : sprite_prog :=
  {| sp_header := sp_header ts_prog; sp_junk := sp_junk ts_prog; sp_frames := [bad_frame] |}.
Example bad_wf : wf_prog bad_prog.
Proof. wf_go. Qed.
Example bad_inflate_ok : inflate_ok bad_inflate bad_prog.
Proof. wf_go. Qed.
Example bad_not_ok : ~ sprite_ok_ts bad_prog.
Proof.
  intros H. apply (load_serialize_total_ts bad_inflate bad_prog [] bad_wf bad_inflate_ok) in H. destruct H as (f & Hf).
  rewrite app_nil_r in Hf. vm_compute in Hf. discriminate.
Qed.
Example bad_refused : exists e, load bad_inflate (serialize bad_prog ++ []) = Err e.
Proof. exact (program_refused bad_inflate bad_prog [] bad_wf bad_inflate_ok (Forall_nil _) bad_not_ok). Qed.
End BadTile.
