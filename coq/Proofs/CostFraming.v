(* C12: the byte budget behind alloc_upper, derived from the framing parser.
   Whenever the framing of the loader succeeds, the input pays 128 bytes for the header, 16 bytes per frame and 6 + payload
   bytes per chunk; hence the parameters that the cost function alloc_upper is evaluated on (entities = one per chunk and per
   6 payload bytes, layers = layer chunks, zbytes / payloads = the payload bytes / number of the cel and tileset chunks) keep
   alloc_upper below the property's bound 64 MiB + 8192 B per input byte. *)
From Ase Require Import Model.Cost Spec.Framing.
From Ase Require Import Proofs.ITLemmas Proofs.ArrLemmas Proofs.Factor Proofs.CostProofs.

(* ---------------- how many bytes the primitive readers consume ---------------- *)

Lemma run_read_inv {A} n (k : list Z -> IT A) bs a rest :
  0 <= n -> run (Read n k) bs = Ok (a, rest) ->
  exists l mid, zlen l = n /\ bs = l ++ mid /\ run (k l) mid = Ok (a, rest).
Proof.
  intros Hn. cbn [run]. destruct (split_z n bs) as [[l mid]|] eqn:E; [|discriminate].
  intros H. exists l, mid. destruct (split_z_len _ _ _ _ E Hn) as [H1 H2]. repeat split; assumption.
Qed.

Lemma consumed_byte bs v rest : run byte bs = Ok (v, rest) -> zlen bs = zlen rest + 1.
Proof.
  unfold byte. intros H. apply run_read_inv in H; [|lia]. destruct H as (l & mid & Hl & -> & H).
  destruct l as [|a [|b t]]; cbn [run] in H; try discriminate. injection H as _ <-. rewrite zlen_app. lia.
Qed.
Lemma consumed_word bs v rest : run word bs = Ok (v, rest) -> zlen bs = zlen rest + 2.
Proof.
  unfold word. intros H. apply run_read_inv in H; [|lia]. destruct H as (l & mid & Hl & -> & H).
  destruct l as [|a [|b [|c t]]]; cbn [run] in H; try discriminate. injection H as _ <-. rewrite zlen_app. lia.
Qed.
Lemma consumed_dword bs v rest : run dword bs = Ok (v, rest) -> zlen bs = zlen rest + 4.
Proof.
  unfold dword. intros H. apply run_read_inv in H; [|lia]. destruct H as (l & mid & Hl & -> & H).
  destruct l as [|a [|b [|c [|d [|e t]]]]]; cbn [run] in H; try discriminate. injection H as _ <-. rewrite zlen_app. lia.
Qed.
Lemma consumed_short bs v rest : run short bs = Ok (v, rest) -> zlen bs = zlen rest + 2.
Proof.
  unfold short. intros H. apply run_bind_inv in H. destruct H as (w & mid & Hw & H). cbn [run] in H. injection H as _ <-.
  apply consumed_word in Hw. lia.
Qed.
Lemma consumed_skip n bs v rest : 0 <= n -> run (skip n) bs = Ok (v, rest) -> zlen bs = zlen rest + n.
Proof.
  unfold skip. intros Hn H. apply run_read_inv in H; [|exact Hn]. destruct H as (l & mid & Hl & -> & H).
  cbn [run] in H. injection H as _ <-. rewrite zlen_app. lia.
Qed.
Lemma consumed_take n bs v rest : 0 <= n -> run (take n) bs = Ok (v, rest) -> zlen bs = zlen rest + n /\ zlen v = n.
Proof.
  unfold take. intros Hn H. apply run_read_inv in H; [|exact Hn]. destruct H as (l & mid & Hl & -> & H).
  cbn [run] in H. injection H as Hv Hr. subst v rest. rewrite zlen_app. lia.
Qed.

(* ---------------- chunks and frames ---------------- *)

Definition chunk_size (ch : rawchunk) : Z := 6 + zlen (snd ch).
Fixpoint chunks_size (cs : list rawchunk) : Z :=
  match cs with [] => 0 | ch :: t => chunk_size ch + chunks_size t end.

Lemma chunks_size_app a b : chunks_size (a ++ b) = chunks_size a + chunks_size b.
Proof. induction a as [|x t IH]; cbn [app chunks_size]; lia. Qed.
Lemma chunks_size_rev a : chunks_size (rev a) = chunks_size a.
Proof. induction a as [|x t IH]; [reflexivity|]. cbn [rev]. rewrite chunks_size_app, IH. cbn [chunks_size]. lia. Qed.
Lemma chunks_size_nonneg a : 0 <= chunks_size a.
Proof.
  induction a as [|x t IH]; cbn [chunks_size]; [lia|]. unfold chunk_size. pose proof (zlen_nonneg (snd x)). lia.
Qed.

Lemma consumed_read_chunk st bs st' rest :
  run (read_chunk st) bs = Ok (st', rest) ->
  zlen bs - zlen rest = chunks_size (fst st') - chunks_size (fst st).
Proof.
  destruct st as [acc avail]. unfold read_chunk. intros H.
  apply run_bind_inv in H. destruct H as (size & m1 & H1 & H). apply consumed_dword in H1.
  apply run_bind_inv in H. destruct H as (ty & m2 & H2 & H). apply consumed_word in H2.
  destruct (negb (chunk_type_known ty)); [cbn [run] in H; discriminate|].
  destruct (size <? 6) eqn:E6; [cbn [run] in H; discriminate|].
  destruct (avail <? size); [cbn [run] in H; discriminate|].
  apply run_bind_inv in H. destruct H as (data & m3 & H3 & H). apply consumed_take in H3; [|lia].
  cbn [run] in H. injection H as <- <-. cbn [fst chunks_size].
  unfold chunk_size. cbn [snd]. lia.
Qed.

(* an additive measure is preserved by the binary loop combinator *)
Lemma consumed_iterP {A} (mu : A -> Z) (f : A -> IT A) :
  (forall a bs a' rest, run (f a) bs = Ok (a', rest) -> zlen bs - zlen rest = mu a' - mu a) ->
  forall p a bs a' rest, run (iterP p f a) bs = Ok (a', rest) -> zlen bs - zlen rest = mu a' - mu a.
Proof.
  intros Hf. induction p as [q IH|q IH|]; intros a bs a' rest; cbn [iterP].
  - intros H. apply run_bind_inv in H. destruct H as (a1 & m1 & H1 & H).
    apply run_bind_inv in H. destruct H as (a2 & m2 & H2 & H3).
    apply Hf in H1. apply IH in H2. apply IH in H3. lia.
  - intros H. apply run_bind_inv in H. destruct H as (a1 & m1 & H1 & H2). apply IH in H1. apply IH in H2. lia.
  - apply Hf.
Qed.
Lemma consumed_iterZ {A} (mu : A -> Z) (f : A -> IT A) :
  (forall a bs a' rest, run (f a) bs = Ok (a', rest) -> zlen bs - zlen rest = mu a' - mu a) ->
  forall n a bs a' rest, run (iterZ n f a) bs = Ok (a', rest) -> zlen bs - zlen rest = mu a' - mu a.
Proof.
  intros Hf n a bs a' rest. destruct n as [|p|p]; cbn [iterZ run].
  - intros [= <- <-]. lia.
  - apply consumed_iterP. exact Hf.
  - intros [= <- <-]. lia.
Qed.

Theorem consumed_frame_chunks bs fr rest :
  run frame_chunks bs = Ok (fr, rest) -> zlen bs - zlen rest = 16 + chunks_size (snd fr).
Proof.
  unfold frame_chunks. intros H.
  apply run_bind_inv in H. destruct H as (nb & m1 & H1 & H). apply consumed_dword in H1.
  apply run_bind_inv in H. destruct H as (mg & m2 & H2 & H). apply consumed_word in H2.
  destruct (negb (mg =? 61946)); [cbn [run] in H; discriminate|].
  apply run_bind_inv in H. destruct H as (o & m3 & H3 & H). apply consumed_word in H3.
  apply run_bind_inv in H. destruct H as (d & m4 & H4 & H). apply consumed_word in H4.
  apply run_bind_inv in H. destruct H as (x & m5 & H5 & H). apply consumed_word in H5.
  apply run_bind_inv in H. destruct H as (n & m6 & H6 & H). apply consumed_dword in H6.
  cbv zeta in H. apply run_bind_inv in H. destruct H as (st & m7 & H7 & H).
  apply (consumed_iterZ (fun st => chunks_size (fst st)) read_chunk consumed_read_chunk) in H7. cbv beta in H7.
  cbn [run] in H. injection H as <- <-. cbn [snd fst chunks_size] in *.
  rewrite frev_eq, chunks_size_rev. unfold rawchunk in *. lia.
Qed.

Fixpoint frames_size (frs : list rawframe) : Z :=
  match frs with [] => 0 | fr :: t => 16 + chunks_size (snd fr) + frames_size t end.
Lemma frames_size_app u v : frames_size (u ++ v) = frames_size u + frames_size v.
Proof. induction u as [|y u IHu]; cbn [app frames_size]; lia. Qed.
Lemma frames_size_rev a : frames_size (rev a) = frames_size a.
Proof. induction a as [|x t IH]; [reflexivity|]. cbn [rev]. rewrite frames_size_app, IH. cbn [frames_size]. lia. Qed.

Lemma consumed_framing_step acc bs acc' rest :
  run (framing_step acc) bs = Ok (acc', rest) -> zlen bs - zlen rest = frames_size acc' - frames_size acc.
Proof.
  unfold framing_step. intros H. apply run_bind_inv in H. destruct H as (fr & m & H1 & H).
  apply consumed_frame_chunks in H1. cbn [run] in H. injection H as <- <-.
  cbn [frames_size]. lia.
Qed.

(* THE FRAMING PAYS FOR WHAT IT RETURNS: 128 bytes for the header, 16 per frame, 6 per chunk, the payload bytes *)
Theorem consumed_framing bs rh frames rest :
  run framing bs = Ok ((rh, frames), rest) -> zlen bs - zlen rest = 128 + frames_size frames.
Proof.
  unfold framing. intros H.
  apply run_bind_inv in H. destruct H as (x1 & m1 & H1 & H). apply consumed_dword in H1.
  apply run_bind_inv in H. destruct H as (mg & m2 & H2 & H). apply consumed_word in H2.
  destruct (negb (mg =? 42464)); [cbn [run] in H; discriminate|].
  apply run_bind_inv in H. destruct H as (nf & m3 & H3 & H). apply consumed_word in H3.
  apply run_bind_inv in H. destruct H as (wd & m4 & H4 & H). apply consumed_word in H4.
  apply run_bind_inv in H. destruct H as (ht & m5 & H5 & H). apply consumed_word in H5.
  apply run_bind_inv in H. destruct H as (dp & m6 & H6 & H). apply consumed_word in H6.
  apply run_bind_inv in H. destruct H as (x7 & m7 & H7 & H). apply consumed_dword in H7.
  apply run_bind_inv in H. destruct H as (dt & m8 & H8 & H). apply consumed_word in H8.
  apply run_bind_inv in H. destruct H as (x9 & m9 & H9 & H). apply consumed_dword in H9.
  apply run_bind_inv in H. destruct H as (x10 & m10 & H10 & H). apply consumed_dword in H10.
  apply run_bind_inv in H. destruct H as (tr & m11 & H11 & H). apply consumed_byte in H11.
  apply run_bind_inv in H. destruct H as (x12 & m12 & H12 & H). apply consumed_byte in H12.
  apply run_bind_inv in H. destruct H as (x13 & m13 & H13 & H). apply consumed_word in H13.
  apply run_bind_inv in H. destruct H as (x14 & m14 & H14 & H). apply consumed_word in H14.
  apply run_bind_inv in H. destruct H as (pw & m15 & H15 & H). apply consumed_byte in H15.
  apply run_bind_inv in H. destruct H as (ph & m16 & H16 & H). apply consumed_byte in H16.
  apply run_bind_inv in H. destruct H as (x17 & m17 & H17 & H). apply consumed_short in H17.
  apply run_bind_inv in H. destruct H as (x18 & m18 & H18 & H). apply consumed_short in H18.
  apply run_bind_inv in H. destruct H as (x19 & m19 & H19 & H). apply consumed_word in H19.
  apply run_bind_inv in H. destruct H as (x20 & m20 & H20 & H). apply consumed_word in H20.
  apply run_bind_inv in H. destruct H as (x21 & m21 & H21 & H). apply consumed_skip in H21; [|lia].
  destruct (negb (pw =? 0) && negb (ph =? 0) && negb ((pw =? 1) && (ph =? 1))); [cbn [run] in H; discriminate|].
  apply run_bind_inv in H. destruct H as (fmt & m22 & H22 & H).
  rewrite run_lift in H22. destruct (parse_pixel_format dp tr); try discriminate. injection H22 as _ <-.
  apply run_bind_inv in H. destruct H as (acc & m23 & H23 & H).
  apply (consumed_iterZ frames_size framing_step consumed_framing_step) in H23.
  cbn [run] in H. injection H as _ <- <-. rewrite frames_size_rev. cbn [frames_size] in H23. lia.
Qed.

(* ---------------- the parameters of alloc_upper, read off the framed chunks ---------------- *)

Definition is_layer_chunk (ch : rawchunk) : bool := fst ch =? 8196.
Definition is_z_chunk (ch : rawchunk) : bool := (fst ch =? 8197) || (fst ch =? 8227).      (* cel, tileset *)
(* one entity per chunk and per 6 payload bytes (tags, slice keys, palette entries, file names, ... are at least that long) *)
Fixpoint entities_of (cs : list rawchunk) : Z :=
  match cs with [] => 0 | ch :: t => 1 + zlen (snd ch) / 6 + entities_of t end.
Fixpoint layers_of (cs : list rawchunk) : Z :=
  match cs with [] => 0 | ch :: t => (if is_layer_chunk ch then 1 else 0) + layers_of t end.
Fixpoint payloads_of (cs : list rawchunk) : Z :=
  match cs with [] => 0 | ch :: t => (if is_z_chunk ch then 1 else 0) + payloads_of t end.
Fixpoint zbytes_of (cs : list rawchunk) : Z :=
  match cs with [] => 0 | ch :: t => (if is_z_chunk ch then zlen (snd ch) else 0) + zbytes_of t end.

(* a layer chunk that the layer decoder accepts holds its 18 fixed bytes *)
Definition layer_chunks_long (cs : list rawchunk) : Prop :=
  Forall (fun ch => is_layer_chunk ch = true -> 18 <= zlen (snd ch)) cs.

Lemma frames_size_chunks frames : frames_size frames = 16 * zlen frames + chunks_size (all_chunks frames).
Proof.
  induction frames as [|fr t IH]; [reflexivity|].
  cbn [frames_size all_chunks flat_map]. fold (all_chunks t). rewrite chunks_size_app, zlen_cons, IH. lia.
Qed.

(* per chunk: 256 B per entity, nframes bytes per layer, 6 B per inflated byte - at most 6235 B per input byte *)
Lemma chunk_costs nf cs :
  0 <= nf <= 65535 -> layer_chunks_long cs ->
  0 <= entities_of cs /\ 0 <= layers_of cs /\ 0 <= payloads_of cs /\ 0 <= zbytes_of cs /\
  256 * entities_of cs + nf * layers_of cs + 6 * (1032 * zbytes_of cs + 64 * payloads_of cs) <= 6235 * chunks_size cs.
Proof.
  intros Hnf. induction cs as [|ch t IH]; intros Hl; cbn [entities_of layers_of payloads_of zbytes_of chunks_size]; [lia|].
  inversion Hl as [|? ? Hch Ht]; subst. destruct (IH Ht) as (E & L & P & Zb & IHc).
  unfold chunk_size. pose proof (zlen_nonneg (snd ch)) as Hz.
  assert (Hd : 0 <= zlen (snd ch) / 6 /\ 6 * (zlen (snd ch) / 6) <= zlen (snd ch)).
  { split; [apply Z.div_pos; lia|]. apply Z.mul_div_le. lia. }
  unfold is_z_chunk, is_layer_chunk in *.
  destruct (fst ch =? 8196) eqn:EL.
  - apply Z.eqb_eq in EL. rewrite EL. cbn [Z.eqb Pos.eqb orb]. specialize (Hch eq_refl).
    repeat split; (lia || nia).
  - destruct ((fst ch =? 8197) || (fst ch =? 8227)); repeat split; (lia || nia).
Qed.

(* THE BOUND, from the framing: whatever the file declares, the cost function evaluated on the measured parameters of an
   input whose framing succeeds stays below 64 MiB + 8192 B per input byte.  `inflated` is the number of bytes the zlib
   streams of the cel / tileset chunks inflate to; it enters through the recorded ratio assumption. *)
Theorem alloc_upper_framing bs rh frames rest inflated :
  run framing bs = Ok ((rh, frames), rest) ->
  0 <= rh_frames rh <= 65535 ->
  layer_chunks_long (all_chunks frames) ->
  0 <= inflated <= 1032 * zbytes_of (all_chunks frames) + 64 * payloads_of (all_chunks frames) ->
  alloc_upper (rh_frames rh) (zlen bs) inflated (entities_of (all_chunks frames)) (layers_of (all_chunks frames))
  <= bound (zlen bs).
Proof.
  intros Hf Hnf Hl Hi. apply consumed_framing in Hf. rewrite frames_size_chunks in Hf.
  destruct (chunk_costs (rh_frames rh) _ Hnf Hl) as (E & L & P & Zb & Hc).
  pose proof (zlen_nonneg rest). pose proof (zlen_nonneg frames). pose proof (chunks_size_nonneg (all_chunks frames)).
  unfold alloc_upper, bound. nia.
Qed.

(* ---------------- the side conditions, from a successful load of a byte string ---------------- *)

Lemma consumed_str bs v rest : run str bs = Ok (v, rest) -> zlen rest + 2 <= zlen bs.
Proof.
  unfold str. intros H. apply run_bind_inv in H. destruct H as (n & m1 & H1 & H). apply consumed_word in H1.
  apply run_bind_inv in H. destruct H as (s & m2 & H2 & H).
  pose proof (run_rest_len _ _ _ _ H2) as Hle.
  destruct (utf8_valid s); cbn [run] in H; [|discriminate]. injection H as _ <-. unfold zlen in *. lia.
Qed.

(* the layer decoder needs its 16 fixed bytes and the 2-byte length of the name *)
Lemma dec_layer_long data l : run_payload dec_layer data = Ok l -> 18 <= zlen data.
Proof.
  unfold run_payload. destruct (run dec_layer data) as [[a rest]|e|s] eqn:E; try discriminate. intros _.
  unfold dec_layer in E.
  apply run_bind_inv in E. destruct E as (v1 & m1 & H1 & E). apply consumed_word in H1.
  apply run_bind_inv in E. destruct E as (v2 & m2 & H2 & E). apply consumed_word in H2.
  apply run_bind_inv in E. destruct E as (v3 & m3 & H3 & E). apply consumed_word in H3.
  apply run_bind_inv in E. destruct E as (v4 & m4 & H4 & E). apply consumed_word in H4.
  apply run_bind_inv in E. destruct E as (v5 & m5 & H5 & E). apply consumed_word in H5.
  apply run_bind_inv in E. destruct E as (v6 & m6 & H6 & E). apply consumed_word in H6.
  apply run_bind_inv in E. destruct E as (v7 & m7 & H7 & E). apply consumed_byte in H7.
  apply run_bind_inv in E. destruct E as (v8 & m8 & H8 & E). apply consumed_byte in H8.
  apply run_bind_inv in E. destruct E as (v9 & m9 & H9 & E). apply consumed_word in H9.
  apply run_bind_inv in E. destruct E as (nm & m10 & H10 & E). apply consumed_str in H10.
  pose proof (zlen_nonneg m10). lia.
Qed.

Section Loaded.
Variable inflate : list Z -> Z -> zres.

Theorem load_layer_chunks_long bs f rh frames rest :
  load inflate bs = Ok f -> run framing bs = Ok ((rh, frames), rest) -> layer_chunks_long (all_chunks frames).
Proof.
  intros Hl Hf. unfold layer_chunks_long. rewrite Forall_forall. intros ch Hin Hty.
  unfold all_chunks in Hin. apply in_flat_map in Hin. destruct Hin as ([dur chunks] & Hfr & Hch). cbn [snd] in Hch.
  destruct (load_ok_chunk inflate bs f rh frames rest dur chunks ch Hl Hf Hfr Hch) as (fmt & _ & Hacc).
  destruct ch as [ty data]. unfold is_layer_chunk in Hty. cbn [fst] in Hty. apply Z.eqb_eq in Hty.
  unfold chunk_accepted in Hacc. destruct Hacc as (_ & _ & Hlay & _). destruct (Hlay Hty) as (l & Hd).
  cbn [snd]. exact (dec_layer_long _ _ Hd).
Qed.

(* a word read from bytes is below 65536 *)
Lemma word_range bs v rest : Forall is_byte bs -> run word bs = Ok (v, rest) -> 0 <= v <= 65535.
Proof.
  intros Hb H. unfold word in H. apply run_read_inv in H; [|lia]. destruct H as (l & mid & Hl & -> & H).
  destruct l as [|a [|b [|c t]]]; cbn [run] in H; try discriminate. injection H as <- _.
  apply Forall_app in Hb. destruct Hb as [Hb _]. inversion Hb as [|? ? Ha Hb']; subst. inversion Hb' as [|? ? Hb2 _]; subst.
  unfold is_byte in *. lia.
Qed.

Lemma framing_frames_range bs rh frames rest :
  Forall is_byte bs -> run framing bs = Ok ((rh, frames), rest) -> 0 <= rh_frames rh <= 65535.
Proof.
  intros Hb H. unfold framing in H.
  apply run_bind_inv in H. destruct H as (x1 & m1 & H1 & H).
  apply run_bind_inv in H. destruct H as (mg & m2 & H2 & H).
  destruct (negb (mg =? 42464)); [cbn [run] in H; discriminate|].
  apply run_bind_inv in H. destruct H as (nf & m3 & H3 & H).
  assert (Hm2 : Forall is_byte m2).
  { pose proof (run_rest_suffix _ _ _ _ H1) as (p1 & E1). pose proof (run_rest_suffix _ _ _ _ H2) as (p2 & E2).
    subst bs m1. apply Forall_app in Hb. destruct Hb as [_ Hb]. apply Forall_app in Hb. apply Hb. }
  pose proof (word_range _ _ _ Hm2 H3) as Hnf.
  (* the remaining reads do not change num_frames *)
  repeat (apply run_bind_inv in H; destruct H as (? & ? & _ & H)).
  destruct (negb _ && negb _ && negb _); [cbn [run] in H; discriminate|].
  repeat (apply run_bind_inv in H; destruct H as (? & ? & _ & H)).
  cbn [run] in H. injection H as <- _ _. cbn [rh_frames]. exact Hnf.
Qed.

(* C12, the bound for every byte string that loads *)
Theorem alloc_upper_loaded bs f inflated :
  Forall is_byte bs -> load inflate bs = Ok f ->
  exists rh frames rest,
    run framing bs = Ok ((rh, frames), rest) /\
    (0 <= inflated <= 1032 * zbytes_of (all_chunks frames) + 64 * payloads_of (all_chunks frames) ->
     alloc_upper (rh_frames rh) (zlen bs) inflated (entities_of (all_chunks frames)) (layers_of (all_chunks frames))
     <= bound (zlen bs)).
Proof.
  intros Hb Hl. destruct (load_ok_chunks inflate bs f Hl) as (rh & frames & fmt & rest & Hf & _ & _).
  exists rh, frames, rest. split; [exact Hf|]. intros Hi.
  apply (alloc_upper_framing bs rh frames rest inflated Hf); [|exact (load_layer_chunks_long bs f rh frames rest Hl Hf)|exact Hi].
  exact (framing_frames_range bs rh frames rest Hb Hf).
Qed.

End Loaded.
