(* Reusable lemmas about the definitions of Base/Prelude.v: split_z, run, bind, iterP/iterZ
   and the reader primitives (decode-after-encode, encoders in Spec/Encode.v). *)
From Ase Require Export Base.Prelude Base.PreludeFacts Spec.Encode.

(* ------------------------------------------------------------------ *)
(* zlen *)

Lemma zlen_nil {A} : zlen (@nil A) = 0.
Proof. reflexivity. Qed.
Lemma zlen_cons {A} (x : A) l : zlen (x :: l) = zlen l + 1.
Proof. unfold zlen. cbn [length]. lia. Qed.
Lemma zlen_app {A} (a b : list A) : zlen (a ++ b) = zlen a + zlen b.
Proof. unfold zlen. rewrite app_length. lia. Qed.
Lemma zlen_nonneg {A} (l : list A) : 0 <= zlen l.
Proof. unfold zlen. lia. Qed.
Lemma zlen_length {A} (l : list A) : zlen l = Z.of_nat (length l).
Proof. reflexivity. Qed.

(* ------------------------------------------------------------------ *)
(* res *)

Lemma rbind_ok {A B} (r : res A) (f : A -> res B) b :
  rbind r f = Ok b -> exists a, r = Ok a /\ f a = Ok b.
Proof.
  destruct r as [a|e|s]; cbn [rbind]; try discriminate.
  intros H. exists a. split; [reflexivity|exact H].
Qed.
Lemma rmap_ok {A B} (f : A -> B) (r : res A) b :
  rmap f r = Ok b -> exists a, r = Ok a /\ f a = b.
Proof.
  destruct r as [a|e|s]; cbn [rmap rbind]; try discriminate.
  intros [= <-]. exists a. split; reflexivity.
Qed.

(* ------------------------------------------------------------------ *)
(* split_z *)

Lemma split_z_nonpos n l : n <= 0 -> split_z n l = Some ([], l).
Proof. intros H. destruct l; cbn [split_z]; destruct (Z.leb_spec n 0); try lia; reflexivity. Qed.

Lemma split_z_app n l a b : split_z n l = Some (a, b) -> l = a ++ b.
Proof.
  revert n a b; induction l as [|x t IH]; intros n a b; cbn [split_z]; destruct (n <=? 0).
  - now intros [= <- <-].
  - discriminate.
  - now intros [= <- <-].
  - destruct (split_z (n - 1) t) as [[a' b']|] eqn:S; [|discriminate].
    intros [= <- <-]. now rewrite (IH _ _ _ S).
Qed.

Lemma split_z_len n l a b : split_z n l = Some (a, b) -> 0 <= n -> zlen a = n /\ l = a ++ b.
Proof.
  revert n a b; induction l as [|x t IH]; intros n a b; cbn [split_z]; destruct (Z.leb_spec n 0).
  - intros [= <- <-] Hn; split; [rewrite zlen_nil; lia|reflexivity].
  - discriminate.
  - intros [= <- <-] Hn; split; [rewrite zlen_nil; lia|reflexivity].
  - destruct (split_z (n - 1) t) as [[a' b']|] eqn:S; [|discriminate]. intros [= <- <-] Hn.
    apply IH in S; [|lia]. destruct S as [Hl ->]. rewrite zlen_cons. split; [lia|reflexivity].
Qed.

(* the length of the piece split off, for any n *)
Lemma split_z_len_max n l a b : split_z n l = Some (a, b) -> zlen a = Z.max 0 n.
Proof.
  intros S. destruct (Z.le_gt_cases n 0) as [Hn|Hn].
  - rewrite split_z_nonpos in S by exact Hn. injection S as <- <-. rewrite zlen_nil. lia.
  - apply split_z_len in S; [|lia]. destruct S as [-> _]. lia.
Qed.

Lemma split_z_exact a t : split_z (zlen a) (a ++ t) = Some (a, t).
Proof.
  induction a as [|x a IH]; cbn [app].
  - apply split_z_nonpos. rewrite zlen_nil. lia.
  - cbn [split_z]. rewrite zlen_cons. pose proof (zlen_nonneg a) as Hl.
    destruct (Z.leb_spec (zlen a + 1) 0); [lia|].
    replace (zlen a + 1 - 1) with (zlen a) by lia. now rewrite IH.
Qed.

Lemma split_z_exact' n a t : zlen a = n -> split_z n (a ++ t) = Some (a, t).
Proof. intros <-. apply split_z_exact. Qed.

(* fewer bytes than the piece that would be split off: the split fails *)
Lemma split_z_prefix n l a b m :
  split_z n l = Some (a, b) -> (m < length a)%nat -> split_z n (firstn m l) = None.
Proof.
  revert n a b m; induction l as [|x t IH]; intros n a b m; cbn [split_z].
  - destruct (n <=? 0); [|discriminate]. intros [= <- <-]; cbn [length]; lia.
  - destruct (n <=? 0) eqn:E.
    + intros [= <- <-]; cbn [length]; lia.
    + destruct (split_z (n - 1) t) as [[a' b']|] eqn:S; [|discriminate]. intros [= <- <-] Hm.
      destruct m as [|m]; cbn [firstn split_z]; rewrite E; [reflexivity|].
      erewrite IH; [reflexivity|exact S|]. cbn [length] in Hm; lia.
Qed.

(* at least as many bytes as the piece split off: the same piece, a shorter rest *)
Lemma split_z_firstn_ge n l a b m :
  split_z n l = Some (a, b) -> (length a <= m)%nat ->
  split_z n (firstn m l) = Some (a, firstn (m - length a) b).
Proof.
  revert n a b m; induction l as [|x t IH]; intros n a b m; cbn [split_z].
  - destruct (n <=? 0) eqn:E; [|discriminate]. intros [= <- <-] _.
    rewrite firstn_nil. cbn [split_z]. rewrite E. now rewrite firstn_nil.
  - destruct (n <=? 0) eqn:E.
    + intros [= <- <-] _. cbn [length]. rewrite Nat.sub_0_r.
      destruct m; cbn [firstn split_z]; rewrite ?E; reflexivity.
    + destruct (split_z (n - 1) t) as [[a' b']|] eqn:S; [|discriminate]. intros [= <- <-] Hm.
      cbn [length] in *. destruct m as [|m]; [lia|]. cbn [firstn split_z]. rewrite E.
      erewrite IH; [|exact S|lia]. reflexivity.
Qed.

(* bytes appended to the input go to the rest *)
Lemma split_z_app_tail n l a b t :
  split_z n l = Some (a, b) -> split_z n (l ++ t) = Some (a, b ++ t).
Proof.
  revert n a b; induction l as [|x l IH]; intros n a b; cbn [split_z app].
  - destruct (Z.leb_spec n 0) as [Hn|Hn]; [|discriminate]. intros [= <- <-].
    apply split_z_nonpos. exact Hn.
  - destruct (n <=? 0) eqn:E.
    + intros [= <- <-]. reflexivity.
    + destruct (split_z (n - 1) l) as [[a' b']|] eqn:S; [|discriminate]. intros [= <- <-].
      rewrite (IH _ _ _ S). reflexivity.
Qed.

(* splitting in two steps = splitting once *)
Lemma split_z_split m n l a r :
  0 < m -> m <= n -> split_z m l = Some (a, r) ->
  split_z n l = match split_z (n - m) r with Some (a', r') => Some (a ++ a', r') | None => None end.
Proof.
  revert m n a r; induction l as [|x t IH]; intros m n a r Hm Hmn; cbn [split_z];
    destruct (Z.leb_spec m 0); try lia; [discriminate|].
  destruct (Z.leb_spec n 0); try lia.
  destruct (split_z (m - 1) t) as [[a' b']|] eqn:S; [|discriminate]. intros [= <- <-].
  destruct (Z.eq_dec m 1) as [->|Hne].
  - rewrite split_z_nonpos in S by lia. injection S as <- <-. cbn [app]. reflexivity.
  - erewrite (IH (m - 1) (n - 1)); [|lia|lia|exact S]. replace (n - 1 - (m - 1)) with (n - m) by lia.
    destruct (split_z (n - m) b') as [[a2 r2]|]; reflexivity.
Qed.

Lemma split_z_none_short n l : split_z n l = None -> zlen l < n.
Proof.
  revert n; induction l as [|x t IH]; intros n; cbn [split_z]; destruct (Z.leb_spec n 0); try discriminate.
  - rewrite zlen_nil; lia.
  - destruct (split_z (n - 1) t) as [[a b]|] eqn:S; [discriminate|]. intros _.
    apply IH in S. rewrite zlen_cons. lia.
Qed.

Lemma split_z_short l n : zlen l < n -> split_z n l = None.
Proof.
  revert n; induction l as [|x t IH]; intros n H; cbn [split_z]; destruct (Z.leb_spec n 0).
  - rewrite zlen_nil in H; lia.
  - reflexivity.
  - rewrite zlen_cons in H. pose proof (zlen_nonneg t). lia.
  - rewrite IH; [reflexivity|]. rewrite zlen_cons in H. lia.
Qed.

(* split_z succeeds exactly when enough bytes are there *)
Lemma split_z_some n l : n <= zlen l -> exists a b, split_z n l = Some (a, b).
Proof.
  intros H. destruct (split_z n l) as [[a b]|] eqn:S; [exists a, b; reflexivity|].
  apply split_z_none_short in S. lia.
Qed.

Lemma split_z_firstn_skipn n l a b :
  split_z n l = Some (a, b) -> a = firstn (Z.to_nat n) l /\ b = skipn (Z.to_nat n) l.
Proof.
  intros S. pose proof (split_z_len_max _ _ _ _ S) as Hl. apply split_z_app in S. subst l.
  assert (Z.to_nat n = length a) as -> by (unfold zlen in Hl; lia).
  rewrite firstn_app, Nat.sub_diag, firstn_all, skipn_app, Nat.sub_diag, skipn_all.
  cbn [firstn skipn app]. rewrite app_nil_r. split; reflexivity.
Qed.

(* ------------------------------------------------------------------ *)
(* run *)

Lemma run_ret {A} (a : A) bs : run (Ret a) bs = Ok (a, bs).
Proof. reflexivity. Qed.
Lemma run_fail {A} e bs : run (@Fail A e) bs = Err e.
Proof. reflexivity. Qed.
Lemma run_crash {A} s bs : run (@Crash A s) bs = Panic s.
Proof. reflexivity. Qed.
Lemma run_lift {A} (r : res A) bs :
  run (lift r) bs = match r with Ok a => Ok (a, bs) | Err e => Err e | Panic s => Panic s end.
Proof. destruct r; reflexivity. Qed.

Lemma run_bind {A B} (t : IT A) (f : A -> IT B) bs :
  run (bind t f) bs =
  match run t bs with Ok (a, rest) => run (f a) rest | Err e => Err e | Panic s => Panic s end.
Proof.
  revert bs; induction t as [a|e|s|n k IH]; intros bs; cbn [bind run]; try reflexivity.
  destruct (split_z n bs) as [[a r]|]; [apply IH|reflexivity].
Qed.

Lemma run_bind_ok {A B} (t : IT A) (f : A -> IT B) bs a rest :
  run t bs = Ok (a, rest) -> run (bind t f) bs = run (f a) rest.
Proof. intros H. rewrite run_bind, H. reflexivity. Qed.

(* inversion of a successful bind *)
Lemma run_bind_inv {A B} (t : IT A) (f : A -> IT B) bs b rest :
  run (bind t f) bs = Ok (b, rest) ->
  exists a mid, run t bs = Ok (a, mid) /\ run (f a) mid = Ok (b, rest).
Proof.
  rewrite run_bind. destruct (run t bs) as [[a mid]|e|s]; try discriminate.
  intros H. exists a, mid. split; [reflexivity|exact H].
Qed.

Lemma run_read {A} n (k : list Z -> IT A) a t : zlen a = n -> run (Read n k) (a ++ t) = run (k a) t.
Proof. intros <-. cbn [run]. now rewrite split_z_exact. Qed.

(* a Read that finds too few bytes *)
Lemma run_read_short {A} n (k : list Z -> IT A) bs : zlen bs < n -> run (Read n k) bs = Err eof.
Proof. intros H. cbn [run]. now rewrite split_z_short. Qed.

(* the rest is a suffix of the input *)
Lemma run_rest_suffix {A} (t : IT A) : forall bs a rest,
  run t bs = Ok (a, rest) -> exists used, bs = used ++ rest.
Proof.
  induction t as [a0|e|s|n k IH]; intros bs a rest; cbn [run]; try discriminate.
  - intros [= <- <-]. exists []. reflexivity.
  - destruct (split_z n bs) as [[c r]|] eqn:S; [|discriminate]. intros H.
    apply IH in H. destruct H as [u ->]. apply split_z_app in S as ->.
    exists (c ++ u). now rewrite app_assoc.
Qed.

Lemma run_rest_len {A} (t : IT A) bs a rest :
  run t bs = Ok (a, rest) -> (length rest <= length bs)%nat.
Proof. intros H. apply run_rest_suffix in H. destruct H as [u ->]. rewrite app_length. lia. Qed.

(* the consumed bytes are the first (length bs - length rest) bytes *)
Lemma run_consumed_firstn {A} (t : IT A) bs a rest :
  run t bs = Ok (a, rest) -> bs = firstn (length bs - length rest) bs ++ rest.
Proof.
  intros H. apply run_rest_suffix in H. destruct H as [u ->].
  rewrite app_length. replace (length u + length rest - length rest)%nat with (length u) by lia.
  rewrite firstn_app, Nat.sub_diag, firstn_all. cbn [firstn]. now rewrite app_nil_r.
Qed.

(* bytes appended to the input are left alone *)
Lemma run_app {A} (t : IT A) : forall bs a rest tail,
  run t bs = Ok (a, rest) -> run t (bs ++ tail) = Ok (a, rest ++ tail).
Proof.
  induction t as [a0|e|s|n k IH]; intros bs a rest tail; cbn [run]; try discriminate.
  - intros [= <- <-]. reflexivity.
  - destruct (split_z n bs) as [[c r]|] eqn:S; [|discriminate]. intros H.
    rewrite (split_z_app_tail _ _ _ _ tail S). apply IH. exact H.
Qed.

(* errors other than end-of-input, and panics, are not affected by appended bytes *)
Lemma run_app_panic {A} (t : IT A) : forall bs s tail,
  run t bs = Panic s -> run t (bs ++ tail) = Panic s.
Proof.
  induction t as [a0|e|s0|n k IH]; intros bs s tail; cbn [run]; try discriminate.
  - intros H; exact H.
  - destruct (split_z n bs) as [[c r]|] eqn:S; [|discriminate]. intros H.
    rewrite (split_z_app_tail _ _ _ _ tail S). apply IH. exact H.
Qed.

(* ------------------------------------------------------------------ *)
(* iterP / iterZ = n-fold iteration at run level *)

Fixpoint run_times {A} (k : nat) (f : A -> IT A) (a : A) (bs : list Z) : res (A * list Z) :=
  match k with
  | O => Ok (a, bs)
  | S k' => match run (f a) bs with
            | Ok (a', rest) => run_times k' f a' rest
            | Err e => Err e
            | Panic s => Panic s
            end
  end.

Lemma run_times_add {A} j k (f : A -> IT A) a bs :
  run_times (j + k) f a bs =
  match run_times j f a bs with
  | Ok (a', rest) => run_times k f a' rest | Err e => Err e | Panic s => Panic s end.
Proof.
  revert a bs; induction j as [|j IH]; intros a bs; cbn [Nat.add run_times]; [reflexivity|].
  destruct (run (f a) bs) as [[a' r]|e|s]; [apply IH|reflexivity|reflexivity].
Qed.

Lemma run_times_S_r {A} k (f : A -> IT A) a bs :
  run_times (S k) f a bs =
  match run_times k f a bs with
  | Ok (a', rest) => run (f a') rest | Err e => Err e | Panic s => Panic s end.
Proof.
  replace (S k) with (k + 1)%nat by lia. rewrite run_times_add.
  destruct (run_times k f a bs) as [[a' r]|e|s]; try reflexivity.
  cbn [run_times]. destruct (run (f a') r) as [[a2 r2]|e|s]; reflexivity.
Qed.

Theorem run_iterP {A} p (f : A -> IT A) : forall a bs,
  run (iterP p f a) bs = run_times (Pos.to_nat p) f a bs.
Proof.
  induction p as [q IH|q IH|]; intros a bs; cbn [iterP].
  - rewrite Pos2Nat.inj_xI. replace (2 * Pos.to_nat q)%nat with (Pos.to_nat q + Pos.to_nat q)%nat by lia.
    cbn [run_times]. rewrite run_bind.
    destruct (run (f a) bs) as [[a' r]|e|s]; try reflexivity.
    rewrite run_bind, IH, run_times_add.
    destruct (run_times (Pos.to_nat q) f a' r) as [[a2 r2]|e|s]; [apply IH|reflexivity|reflexivity].
  - rewrite Pos2Nat.inj_xO. replace (2 * Pos.to_nat q)%nat with (Pos.to_nat q + Pos.to_nat q)%nat by lia.
    rewrite run_bind, IH, run_times_add.
    destruct (run_times (Pos.to_nat q) f a bs) as [[a2 r2]|e|s]; [apply IH|reflexivity|reflexivity].
  - change (Pos.to_nat 1) with 1%nat. cbn [run_times].
    destruct (run (f a) bs) as [[a' r]|e|s]; reflexivity.
Qed.

Theorem run_iterZ {A} n (f : A -> IT A) a bs :
  run (iterZ n f a) bs = run_times (Z.to_nat n) f a bs.
Proof.
  destruct n as [|p|p]; [reflexivity| |reflexivity].
  cbn [iterZ]. rewrite Z2Nat.inj_pos. apply run_iterP.
Qed.

(* invariant reasoning over a loop: a step-preserved invariant holds at the end *)
Lemma run_times_inv {A} (P : A -> list Z -> Prop) (f : A -> IT A) :
  (forall a bs a' rest, P a bs -> run (f a) bs = Ok (a', rest) -> P a' rest) ->
  forall k a bs a' rest, P a bs -> run_times k f a bs = Ok (a', rest) -> P a' rest.
Proof.
  intros Hstep. induction k as [|k IH]; intros a bs a' rest HP; cbn [run_times].
  - intros [= <- <-]. exact HP.
  - destruct (run (f a) bs) as [[a1 r1]|e|s] eqn:R; try discriminate.
    apply IH. eapply Hstep; [exact HP|exact R].
Qed.

(* ------------------------------------------------------------------ *)
(* encoders: lengths and byte ranges *)

Lemma length_e_byte v : length (e_byte v) = 1%nat. Proof. reflexivity. Qed.
Lemma length_e_word v : length (e_word v) = 2%nat. Proof. reflexivity. Qed.
Lemma length_e_short v : length (e_short v) = 2%nat. Proof. reflexivity. Qed.
Lemma length_e_dword v : length (e_dword v) = 4%nat. Proof. reflexivity. Qed.
Lemma length_e_long v : length (e_long v) = 4%nat. Proof. reflexivity. Qed.
Lemma length_e_str s : length (e_str s) = (2 + length s)%nat.
Proof. unfold e_str. rewrite app_length. reflexivity. Qed.

Lemma all_bytes_app a b : all_bytes a -> all_bytes b -> all_bytes (a ++ b).
Proof. unfold all_bytes. intros Ha Hb. apply Forall_app. split; assumption. Qed.
Lemma all_bytes_e_byte v : is_byte v -> all_bytes (e_byte v).
Proof. intros H. constructor; [exact H|constructor]. Qed.
Lemma all_bytes_e_word v : 0 <= v < 65536 -> all_bytes (e_word v).
Proof. intros H. unfold e_word, all_bytes, is_byte. repeat apply Forall_cons; try apply Forall_nil; Z.div_mod_to_equations; lia. Qed.
Lemma all_bytes_e_short v : all_bytes (e_short v).
Proof. apply all_bytes_e_word. apply Z.mod_pos_bound. lia. Qed.
Lemma all_bytes_e_dword v : 0 <= v < 4294967296 -> all_bytes (e_dword v).
Proof. intros H. unfold e_dword, all_bytes, is_byte. repeat apply Forall_cons; try apply Forall_nil; Z.div_mod_to_equations; lia. Qed.
Lemma all_bytes_e_long v : all_bytes (e_long v).
Proof. apply all_bytes_e_dword. apply Z.mod_pos_bound. lia. Qed.

(* ------------------------------------------------------------------ *)
(* decode after encode, one lemma per primitive of reader.rs *)

Lemma run_byte v t : run byte (e_byte v ++ t) = Ok (v, t).
Proof. unfold byte, e_byte. now rewrite run_read. Qed.

Lemma run_word v t : run word (e_word v ++ t) = Ok (v, t).
Proof.
  unfold word, e_word. rewrite run_read by reflexivity. cbn [run].
  do 2 f_equal. Z.div_mod_to_equations; lia.
Qed.

Lemma sgn16_mod v : -32768 <= v < 32768 -> sgn16 (v mod 65536) = v.
Proof. intros H. unfold sgn16. destruct (Z.ltb_spec (v mod 65536) 32768); Z.div_mod_to_equations; lia. Qed.
Lemma sgn32_mod v : -2147483648 <= v < 2147483648 -> sgn32 (v mod 4294967296) = v.
Proof. intros H. unfold sgn32. destruct (Z.ltb_spec (v mod 4294967296) 2147483648); Z.div_mod_to_equations; lia. Qed.

Lemma run_short v t : -32768 <= v < 32768 -> run short (e_short v ++ t) = Ok (v, t).
Proof.
  intros H. unfold short, e_short. rewrite run_bind, run_word. cbn [run].
  now rewrite sgn16_mod.
Qed.

Lemma run_dword v t : run dword (e_dword v ++ t) = Ok (v, t).
Proof.
  unfold dword, e_dword. rewrite run_read by reflexivity. cbn [run].
  do 2 f_equal. Z.div_mod_to_equations; lia.
Qed.

Lemma run_long v t : -2147483648 <= v < 2147483648 -> run long (e_long v ++ t) = Ok (v, t).
Proof.
  intros H. unfold long, e_long. rewrite run_bind, run_dword. cbn [run].
  now rewrite sgn32_mod.
Qed.

Lemma run_skip n a t : zlen a = n -> run (skip n) (a ++ t) = Ok (tt, t).
Proof. intros H. unfold skip. now rewrite run_read. Qed.

Lemma run_take n a t : zlen a = n -> run (take n) (a ++ t) = Ok (a, t).
Proof. intros H. unfold take. now rewrite run_read. Qed.

(* (no range condition: word/dword decode any e_word/e_dword, whose last element is the
   whole quotient; the encoding consists of bytes when the value is in range, all_bytes_e_* ) *)
Lemma run_str s t :
  utf8_valid s = true -> run str (e_str s ++ t) = Ok (s, t).
Proof.
  intros Hu. unfold str, e_str. rewrite <- app_assoc, run_bind, run_word.
  rewrite run_bind, run_take by reflexivity. rewrite Hu. reflexivity.
Qed.

Lemma run_str_invalid s t :
  utf8_valid s = false -> run str (e_str s ++ t) = Err EInvalid.
Proof.
  intros Hu. unfold str, e_str. rewrite <- app_assoc, run_bind, run_word.
  rewrite run_bind, run_take by reflexivity. rewrite Hu. reflexivity.
Qed.

(* ------------------------------------------------------------------ *)
(* non-vacuity *)

Example e_word_ex : e_word 513 = [1; 2]. Proof. reflexivity. Qed.
Example e_short_ex : e_short (-2) = [254; 255]. Proof. reflexivity. Qed.
Example e_dword_ex : e_dword 67305985 = [1; 2; 3; 4]. Proof. reflexivity. Qed.
Example e_long_ex : e_long (-1) = [255; 255; 255; 255]. Proof. reflexivity. Qed.
Example e_str_ex : e_str [104; 105] = [2; 0; 104; 105]. Proof. reflexivity. Qed.
Example run_short_ex : run short ([254; 255] ++ [9]) = Ok (-2, [9]).
Proof. exact (run_short (-2) [9] ltac:(lia)). Qed.
Example run_str_ex : run str ([2; 0; 104; 105] ++ [9]) = Ok ([104; 105], [9]).
Proof. exact (run_str [104; 105] [9] eq_refl). Qed.
(* a loop of three words through iterZ, as n-fold iteration *)
Example run_iterZ_ex :
  run (iterZ 3 (fun acc => w <- word ;; Ret (acc + w)) 0) [1; 0; 2; 0; 3; 0; 7]
  = run_times 3 (fun acc => w <- word ;; Ret (acc + w)) 0 [1; 0; 2; 0; 3; 0; 7].
Proof. apply run_iterZ. Qed.
Example run_iterZ_ex_val :
  run (iterZ 3 (fun acc => w <- word ;; Ret (acc + w)) 0) [1; 0; 2; 0; 3; 0; 7] = Ok (6, [7]).
Proof. vm_compute. reflexivity. Qed.
