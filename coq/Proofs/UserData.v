(* C10: user data is attached to the entity whose chunk most recently preceded it, and to
   nothing else.

   The assembly is viewed as a fold of `step` over an abstract event list; `step` is built from
   the model's own functions (add_layer, add_cel, add_slice, add_tags, add_user_data, ...), and
   `process_chunk` IS "decode the chunk to an event, then step" (process_chunk_step).
   Over the events the attachment rule is declarative:
     owner r       the entity owning the current stretch after the events r (most recent first):
                   the most recent context-setting event (layer, cel, slice, tags, legacy
                   palette), other events skipped; after tags, the tag index is the number of
                   user-data events since;
     records r e   the user-data records owned by entity e since e was created.
   Theorem ud_attach: after a successful fold every entity reports the last record it owns, or
   none if it owns none. *)
From Ase Require Export Proofs.Factor Proofs.ReadInv.
From Ase Require Import Proofs.ArrLemmas.

(* ------------------------------------------------------------------ *)
(* lists: upd_nth, rev, upd_rev *)

Lemma length_upd_nth {A} (l : list A) k x : length (upd_nth l k x) = length l.
Proof. revert k; induction l as [|y t IH]; intros [|k]; cbn [upd_nth length]; try reflexivity. now rewrite IH. Qed.

Lemma zlen_upd_nth {A} (l : list A) k x : zlen (upd_nth l k x) = zlen l.
Proof. unfold zlen. now rewrite length_upd_nth. Qed.

Lemma nth_error_upd_nth_same {A} (l : list A) k x : (k < length l)%nat -> nth_error (upd_nth l k x) k = Some x.
Proof.
  revert k; induction l as [|y t IH]; intros [|k] H; cbn [length] in H; try lia; cbn [upd_nth nth_error]; [reflexivity|].
  apply IH. lia.
Qed.

Lemma nth_error_upd_nth_other {A} (l : list A) k j x : j <> k -> nth_error (upd_nth l k x) j = nth_error l j.
Proof.
  revert k j; induction l as [|y t IH]; intros [|k] [|j] H; cbn [upd_nth nth_error]; try reflexivity; try lia.
  apply IH. lia.
Qed.

Lemma nthz_upd_nth_same {A} (l : list A) i x : 0 <= i < zlen l -> nthz (upd_nth l (Z.to_nat i) x) i = Some x.
Proof.
  intros Hi. rewrite nthz_nth_error by lia. apply nth_error_upd_nth_same. unfold zlen in Hi. lia.
Qed.

Lemma nthz_upd_nth_other {A} (l : list A) i j x : 0 <= i -> j <> i -> nthz (upd_nth l (Z.to_nat i) x) j = nthz l j.
Proof.
  intros Hi Hne. destruct (Z.ltb_spec j 0) as [Hn|Hn].
  - rewrite !nthz_neg by exact Hn. reflexivity.
  - rewrite !nthz_nth_error by exact Hn. apply nth_error_upd_nth_other. lia.
Qed.

Lemma nthz_rev {A} (l : list A) i : 0 <= i < zlen l -> nthz (rev l) i = nthz l (zlen l - 1 - i).
Proof.
  revert i; induction l as [|x t IH]; intros i Hi.
  - unfold zlen in Hi. cbn [length] in Hi. lia.
  - rewrite zlen_cons in Hi |- *. cbn [rev]. destruct (Z.eq_dec i (zlen t)) as [->|Hne].
    + rewrite nthz_app_r by (rewrite zlen_rev; lia). rewrite zlen_rev.
      replace (zlen t - zlen t) with 0 by lia. replace (zlen t + 1 - 1 - zlen t) with 0 by lia. reflexivity.
    + rewrite nthz_app_l by (rewrite zlen_rev; lia). rewrite IH by lia.
      rewrite (nthz_cons_pos x t (zlen t + 1 - 1 - i)) by lia. f_equal. lia.
Qed.

(* the Vec viewed in file order: rev of the newest-first list *)
Lemma nthz_rev_cons_old {A} (x : A) l i : i < zlen l -> nthz (rev (x :: l)) i = nthz (rev l) i.
Proof. intros Hi. cbn [rev]. apply nthz_app_l. rewrite zlen_rev. exact Hi. Qed.
Lemma nthz_rev_cons_new {A} (x : A) l : nthz (rev (x :: l)) (zlen l) = Some x.
Proof. cbn [rev]. rewrite nthz_app_r by (rewrite zlen_rev; lia). rewrite zlen_rev, Z.sub_diag. reflexivity. Qed.
Lemma nthz_rev_cons_beyond {A} (x : A) l i : zlen l < i -> nthz (rev (x :: l)) i = None.
Proof. intros Hi. apply nthz_none. right. rewrite zlen_rev, zlen_cons. lia. Qed.

(* upd_rev = update of element i in file order *)
Lemma upd_rev_spec {A} (l : list A) i (f : A -> A) l' :
  upd_rev l (zlen l) i f = Some l' ->
  exists x, nthz (rev l) i = Some x /\ nthz (rev l') i = Some (f x) /\
            (forall k, k <> i -> nthz (rev l') k = nthz (rev l) k) /\ zlen l' = zlen l.
Proof.
  unfold upd_rev, rev_index. destruct (nthz l (zlen l - 1 - i)) as [x|] eqn:E; [|discriminate].
  intros [= <-]. pose proof (nthz_some _ _ _ E) as Hr. exists x.
  assert (zlen (upd_nth l (Z.to_nat (zlen l - 1 - i)) (f x)) = zlen l) as Hlen by apply zlen_upd_nth.
  split; [rewrite nthz_rev by lia; exact E|]. split; [|split; [|exact Hlen]].
  - rewrite nthz_rev by lia. rewrite Hlen. apply nthz_upd_nth_same. lia.
  - intros k Hk. destruct (Z.ltb_spec k 0) as [Hn|Hn]; [rewrite !nthz_neg by exact Hn; reflexivity|].
    destruct (Z.ltb_spec k (zlen l)) as [Hlt|Hge].
    + rewrite !nthz_rev by lia. rewrite Hlen. apply nthz_upd_nth_other; lia.
    + transitivity (@None A); [|symmetry]; apply nthz_none; right; rewrite zlen_rev; lia.
Qed.

(* ------------------------------------------------------------------ *)
(* events *)

(* events that neither set the attachment context nor carry user data *)
Inductive other :=
| OTime (frame dur : Z)                     (* a frame header: its duration *)
| OPalette (pal : palette)                  (* new palette chunk *)
| OExt (fs : list (Z * list Z))             (* external files chunk *)
| OTileset (t : tileset rawpixels)          (* tileset chunk *)
| ONone.                                    (* colour profile, cel extra, mask, path, tags outside frame 0 *)

Inductive ev :=
| ELayer (l : layer)
| ECel (frame : Z) (c : cel rawpixels)
| ESlice (s : slice)
| ETags (ts : list tag)
| EOldPal (pal : option palette)            (* legacy palette chunk; Some = it was decoded and kept *)
| EOther (o : other)
| EUd (u : userdata).

Definition apply_other (p : pinfo) (o : other) : pinfo :=
  match o with
  | OTime f d => with_times p (zadd f d (pi_times p))
  | OPalette pal => with_palette p (Some pal)
  | OExt fs => add_external_files p fs
  | OTileset t => with_tilesets p (zadd (ts_id t) t (pi_tilesets p))
  | ONone => p
  end.

Definition step (p : pinfo) (e : ev) : res pinfo :=
  match e with
  | ELayer l => Ok (add_layer p l)
  | ECel f c => add_cel p f c
  | ESlice s => Ok (add_slice p s)
  | ETags ts => Ok (add_tags p ts)
  | EOldPal o =>
      let p := with_ctx p (Some UOldPalette) in
      Ok (match o with Some pal => with_palette p (Some pal) | None => p end)
  | EOther o => Ok (apply_other p o)
  | EUd u => add_user_data p u
  end.

Section Decode.
Variable inflate : list Z -> Z -> zres.

(* the event a chunk decodes to; has_pal: a palette has been seen *)
Definition chunk_ev (fmt : pixfmt) (frame_id : Z) (has_pal : bool) (ch : rawchunk) : res ev :=
  let '(ty, data) := ch in
  if ty =? 8199 then _ <-- run_payload dec_color_profile data ;;; Ok (EOther ONone)
  else if ty =? 8217 then pal <-- run_payload dec_palette data ;;; Ok (EOther (OPalette pal))
  else if ty =? 8196 then l <-- run_payload dec_layer data ;;; Ok (ELayer l)
  else if ty =? 8197 then c <-- dec_cel inflate fmt data ;;; Ok (ECel frame_id c)
  else if ty =? 8200 then fs <-- run_payload dec_external data ;;; Ok (EOther (OExt fs))
  else if ty =? 8216 then ts <-- run_payload dec_tags data ;;; Ok (if frame_id =? 0 then ETags ts else EOther ONone)
  else if ty =? 8226 then s <-- run_payload dec_slice data ;;; Ok (ESlice s)
  else if ty =? 8224 then u <-- run_payload dec_userdata data ;;; Ok (EUd u)
  else if (ty =? 4) || (ty =? 17) then
    if has_pal then Ok (EOldPal None)
    else pal <-- run_payload (dec_old_palette (ty =? 17)) data ;;; Ok (EOldPal (Some pal))
  else if ty =? 8227 then t <-- dec_tileset inflate fmt data ;;; Ok (EOther (OTileset t))
  else Ok (EOther ONone).

(* process_chunk = decode to an event, then step *)
Theorem process_chunk_step fmt fid p ch :
  process_chunk inflate fmt fid p ch =
  (e <-- chunk_ev fmt fid (is_some (pi_palette p)) ch ;;; step p e).
Proof.
  destruct ch as [ty data]. unfold process_chunk, chunk_ev.
  destruct (ty =? 8199). { destruct (run_payload dec_color_profile data); reflexivity. }
  destruct (ty =? 8217). { destruct (run_payload dec_palette data); reflexivity. }
  destruct (ty =? 8196). { destruct (run_payload dec_layer data); reflexivity. }
  destruct (ty =? 8197). { destruct (dec_cel inflate fmt data); reflexivity. }
  destruct (ty =? 8200). { destruct (run_payload dec_external data); reflexivity. }
  destruct (ty =? 8216). { destruct (run_payload dec_tags data); cbn [rbind]; [|reflexivity..].
                           destruct (fid =? 0); reflexivity. }
  destruct (ty =? 8226). { destruct (run_payload dec_slice data); reflexivity. }
  destruct (ty =? 8224). { destruct (run_payload dec_userdata data); reflexivity. }
  destruct ((ty =? 4) || (ty =? 17)).
  { change (pi_palette (with_ctx p (Some UOldPalette))) with (pi_palette p).
    destruct (pi_palette p); cbn [is_some rbind step]; [reflexivity|].
    destruct (run_payload (dec_old_palette (ty =? 17)) data); reflexivity. }
  destruct (ty =? 8227). { destruct (dec_tileset inflate fmt data); reflexivity. }
  reflexivity.
Qed.

End Decode.

(* ------------------------------------------------------------------ *)
(* what can be observed of the assembled state, and the entities that can carry user data *)

(* in file order, as `validate` hands them to the file *)
Definition layers_of (p : pinfo) : list layer := rev (pi_layers_rev p).
Definition slices_of (p : pinfo) : list slice := rev (pi_slices_rev p).
Definition tags_of (p : pinfo) : list tag := match pi_tags p with Some ts => ts | None => [] end.
Definition cel_slot (t : celtable rawpixels) (f l : Z) : option (cel rawpixels) :=
  match nthz (get_row t f) l with Some (Some c) => Some c | _ => None end.
Definition cel_of (p : pinfo) (f l : Z) : option (cel rawpixels) := cel_slot (pi_cels p) f l.

Inductive entity := EntLayer (i : Z) | EntCel (f l : Z) | EntSlice (i : Z) | EntTag (i : Z) | EntSprite.
Inductive entval :=
| VLayer (l : layer) | VCel (c : cel rawpixels) | VSlice (s : slice) | VTag (t : tag) | VSprite (u : option userdata).

(* the entity, if it exists *)
Definition lookup (p : pinfo) (e : entity) : option entval :=
  match e with
  | EntLayer i => option_map VLayer (nthz (layers_of p) i)
  | EntCel f l => option_map VCel (cel_of p f l)
  | EntSlice i => option_map VSlice (nthz (slices_of p) i)
  | EntTag i => option_map VTag (nthz (tags_of p) i)
  | EntSprite => Some (VSprite (pi_sprite_ud p))
  end.

Definition val_ud (v : entval) : option userdata :=
  match v with VLayer l => l_ud l | VCel c => c_ud c | VSlice s => s_ud s | VTag t => t_ud t | VSprite u => u end.
Definition set_ud (v : entval) (u : userdata) : entval :=
  match v with
  | VLayer l => VLayer (set_layer_ud l u) | VCel c => VCel (set_cel_ud c u) | VSlice s => VSlice (set_slice_ud s u)
  | VTag t => VTag (set_tag_ud t u) | VSprite _ => VSprite (Some u)
  end.

(* the user data an entity reports: None = no such entity, Some None = it has none *)
Definition ud_of (p : pinfo) (e : entity) : option (option userdata) := option_map val_ud (lookup p e).

Definition ctx_entity (c : udctx) : entity :=
  match c with
  | UCel f l => EntCel f l | ULayer i => EntLayer i | UOldPalette => EntSprite | UTag i => EntTag i
  | USlice i => EntSlice i
  end.

(* the element counts agree with the vectors *)
Definition WF (p : pinfo) : Prop :=
  pi_nlayers p = zlen (pi_layers_rev p) /\ pi_nslices p = zlen (pi_slices_rev p).

(* ------------------------------------------------------------------ *)
(* the cel table *)

Lemma get_row_zadd {P} (t : zmap (list (option (cel P)))) f (r : list (option (cel P))) f' :
  0 <= f -> get_row (zadd f r t) f' = if f' =? f then r else get_row t f'.
Proof.
  intros Hf. unfold get_row. destruct (Z.ltb_spec f' 0) as [Hn|Hn].
  - destruct (Z.eqb_spec f' f) as [E|_]; [lia|]. unfold zfind. destruct (Z.ltb_spec f' 0); [reflexivity|lia].
  - rewrite zfind_zadd_nonneg by lia. destruct (f' =? f); reflexivity.
Qed.

Lemma nthz_repeat_none {A} k j (x : option A) : nthz (repeat_none k) j = Some x -> x = None.
Proof.
  intros H. apply nthz_In in H. induction k as [|k IH]; cbn [repeat_none In] in H; [contradiction|].
  destruct H as [H|H]; [symmetry; exact H|apply IH; exact H].
Qed.

(* padding a row with empty slots does not change what it holds *)
Lemma slot_pad {P} (r : row P) k l :
  match nthz (r ++ repeat_none k) l with Some (Some c) => Some c | _ => None end =
  match nthz r l with Some (Some c) => Some c | _ => None end.
Proof.
  destruct (Z.ltb_spec l (zlen r)) as [Hlt|Hge].
  - rewrite nthz_app_l by exact Hlt. reflexivity.
  - rewrite nthz_app_r by exact Hge. replace (nthz r l) with (@None (option (cel P))) by (symmetry; apply nthz_none; right; exact Hge).
    destruct (nthz (repeat_none k) (l - zlen r)) as [[c|]|] eqn:E; try reflexivity.
    apply nthz_repeat_none in E. discriminate.
Qed.

Lemma table_add_cel_spec t n f c t' :
  0 <= f -> table_add_cel t n f c = Ok t' ->
  cel_slot t f (cc_layer (c_data c)) = None /\
  cel_slot t' f (cc_layer (c_data c)) = Some c /\
  forall f' l', (f', l') <> (f, cc_layer (c_data c)) -> cel_slot t' f' l' = cel_slot t f' l'.
Proof.
  intros Hf. unfold table_add_cel. destruct (n <=? f); [discriminate|].
  set (l := cc_layer (c_data c)). set (r := get_row t f).
  set (r' := if zlen r <? l + 1 then r ++ repeat_none (Z.to_nat (l + 1 - zlen r)) else r).
  assert (forall j, match nthz r' j with Some (Some x) => Some x | _ => None end =
                    match nthz r j with Some (Some x) => Some x | _ => None end) as Hpad.
  { intros j. subst r'. destruct (zlen r <? l + 1); [apply slot_pad|reflexivity]. }
  destruct (nthz r' l) as [[c0|]|] eqn:E; try discriminate. intros [= <-].
  pose proof (nthz_some _ _ _ E) as Hl.
  split; [|split].
  - unfold cel_slot. fold r. rewrite <- Hpad, E. reflexivity.
  - unfold cel_slot. rewrite get_row_zadd, Z.eqb_refl by exact Hf. rewrite nthz_upd_nth_same by exact Hl. reflexivity.
  - intros f' l' Hne. unfold cel_slot. rewrite get_row_zadd by exact Hf.
    destruct (Z.eqb_spec f' f) as [->|_]; [|reflexivity].
    assert (l' <> l) as Hl' by (intros ->; apply Hne; reflexivity).
    rewrite nthz_upd_nth_other by lia. fold r. apply Hpad.
Qed.

Lemma table_set_cel_ud_spec t f l u t' :
  0 <= f -> table_set_cel_ud t f l u = Some t' ->
  exists c, cel_slot t f l = Some c /\ cel_slot t' f l = Some (set_cel_ud c u) /\
            forall f' l', (f', l') <> (f, l) -> cel_slot t' f' l' = cel_slot t f' l'.
Proof.
  intros Hf. unfold table_set_cel_ud. destruct (nthz (get_row t f) l) as [[c|]|] eqn:E; try discriminate.
  intros [= <-]. pose proof (nthz_some _ _ _ E) as Hl. exists c. split; [|split].
  - unfold cel_slot. rewrite E. reflexivity.
  - unfold cel_slot. rewrite get_row_zadd, Z.eqb_refl by exact Hf. rewrite nthz_upd_nth_same by exact Hl. reflexivity.
  - intros f' l' Hne. unfold cel_slot. rewrite get_row_zadd by exact Hf.
    destruct (Z.eqb_spec f' f) as [->|_]; [|reflexivity].
    assert (l' <> l) as Hl' by (intros ->; apply Hne; reflexivity).
    rewrite nthz_upd_nth_other by lia. reflexivity.
Qed.

(* ------------------------------------------------------------------ *)
(* one step of attachment: add_user_data writes the user data of the context entity, and of
   nothing else.  One lemma per kind of context, then the uniform statement. *)

(* the parts of the state that user data can live in, and the counts *)
Definition same_layers (p p' : pinfo) : Prop := pi_layers_rev p' = pi_layers_rev p /\ pi_nlayers p' = pi_nlayers p.
Definition same_slices (p p' : pinfo) : Prop := pi_slices_rev p' = pi_slices_rev p /\ pi_nslices p' = pi_nslices p.

Theorem attach_layer p i u p' :
  WF p -> pi_ctx p = Some (ULayer i) -> add_user_data p u = Ok p' ->
  (exists l, nthz (layers_of p) i = Some l /\ nthz (layers_of p') i = Some (set_layer_ud l u)) /\
  (forall k, k <> i -> nthz (layers_of p') k = nthz (layers_of p) k) /\
  pi_nlayers p' = pi_nlayers p /\ zlen (pi_layers_rev p') = zlen (pi_layers_rev p) /\
  same_slices p p' /\ pi_cels p' = pi_cels p /\ pi_tags p' = pi_tags p /\ pi_sprite_ud p' = pi_sprite_ud p /\
  pi_ctx p' = pi_ctx p.
Proof.
  intros [WL WS] Hc. unfold add_user_data. rewrite Hc. rewrite WL.
  destruct (upd_rev (pi_layers_rev p) (zlen (pi_layers_rev p)) i (fun l => set_layer_ud l u)) as [ls|] eqn:E;
    [|discriminate].
  intros [= <-]. apply upd_rev_spec in E. destruct E as (x & Hx & Hx' & Hoth & Hlen).
  split; [exists x; split; [exact Hx|exact Hx']|]. split; [exact Hoth|].
  split; [reflexivity|]. split; [exact Hlen|]. split; [split; reflexivity|]. repeat split; try reflexivity; exact Hc.
Qed.

Theorem attach_slice p i u p' :
  WF p -> pi_ctx p = Some (USlice i) -> add_user_data p u = Ok p' ->
  (exists s, nthz (slices_of p) i = Some s /\ nthz (slices_of p') i = Some (set_slice_ud s u)) /\
  (forall k, k <> i -> nthz (slices_of p') k = nthz (slices_of p) k) /\
  pi_nslices p' = pi_nslices p /\ zlen (pi_slices_rev p') = zlen (pi_slices_rev p) /\
  same_layers p p' /\ pi_cels p' = pi_cels p /\ pi_tags p' = pi_tags p /\ pi_sprite_ud p' = pi_sprite_ud p /\
  pi_ctx p' = pi_ctx p.
Proof.
  intros [WL WS] Hc. unfold add_user_data. rewrite Hc. rewrite WS.
  destruct (upd_rev (pi_slices_rev p) (zlen (pi_slices_rev p)) i (fun s => set_slice_ud s u)) as [ss|] eqn:E;
    [|discriminate].
  intros [= <-]. apply upd_rev_spec in E. destruct E as (x & Hx & Hx' & Hoth & Hlen).
  split; [exists x; split; [exact Hx|exact Hx']|]. split; [exact Hoth|].
  split; [reflexivity|]. split; [exact Hlen|]. split; [split; reflexivity|]. repeat split; try reflexivity; exact Hc.
Qed.

Theorem attach_cel p f l u p' :
  0 <= f -> pi_ctx p = Some (UCel f l) -> add_user_data p u = Ok p' ->
  (exists c, cel_of p f l = Some c /\ cel_of p' f l = Some (set_cel_ud c u)) /\
  (forall f' l', (f', l') <> (f, l) -> cel_of p' f' l' = cel_of p f' l') /\
  same_layers p p' /\ same_slices p p' /\ pi_tags p' = pi_tags p /\ pi_sprite_ud p' = pi_sprite_ud p /\
  pi_ctx p' = pi_ctx p.
Proof.
  intros Hf Hc. unfold add_user_data. rewrite Hc.
  destruct (table_set_cel_ud (pi_cels p) f l u) as [t|] eqn:E; [|discriminate].
  intros [= <-]. apply table_set_cel_ud_spec in E; [|exact Hf]. destruct E as (c & Hc0 & Hc1 & Hoth).
  split; [exists c; split; [exact Hc0|exact Hc1]|]. split; [exact Hoth|].
  repeat split; try reflexivity; exact Hc.
Qed.

Theorem attach_tag p i u p' :
  pi_ctx p = Some (UTag i) -> add_user_data p u = Ok p' ->
  (exists t, nthz (tags_of p) i = Some t /\ nthz (tags_of p') i = Some (set_tag_ud t u)) /\
  (forall k, k <> i -> nthz (tags_of p') k = nthz (tags_of p) k) /\
  same_layers p p' /\ same_slices p p' /\ pi_cels p' = pi_cels p /\ pi_sprite_ud p' = pi_sprite_ud p /\
  pi_ctx p' = Some (UTag (i + 1)).
Proof.
  intros Hc. unfold add_user_data. rewrite Hc.
  destruct (pi_tags p) as [ts|] eqn:Et; [|discriminate].
  destruct (nthz ts i) as [t|] eqn:E; [|discriminate]. destruct (65535 <=? i); [discriminate|].
  intros [= <-]. pose proof (nthz_some _ _ _ E) as Hi.
  split; [exists t; split|].
  - unfold tags_of. rewrite Et. exact E.
  - unfold tags_of. cbn [pi_tags with_ctx with_tags]. apply nthz_upd_nth_same. exact Hi.
  - split; [|repeat split; reflexivity].
    intros k Hk. unfold tags_of. rewrite Et. cbn [pi_tags with_ctx with_tags]. apply nthz_upd_nth_other; lia.
Qed.

Theorem attach_sprite p u p' :
  pi_ctx p = Some UOldPalette -> add_user_data p u = Ok p' ->
  pi_sprite_ud p' = Some u /\
  same_layers p p' /\ same_slices p p' /\ pi_cels p' = pi_cels p /\ pi_tags p' = pi_tags p /\
  pi_ctx p' = pi_ctx p.
Proof.
  intros Hc. unfold add_user_data. rewrite Hc. intros [= <-]. repeat split; try reflexivity; exact Hc.
Qed.

(* without a context the record is refused *)
Theorem attach_no_context p u : pi_ctx p = None -> add_user_data p u = Err EInvalid.
Proof. intros Hc. unfold add_user_data. rewrite Hc. reflexivity. Qed.

(* the fields that have nothing to do with user data are never touched *)
Theorem add_user_data_rest p u p' :
  add_user_data p u = Ok p' ->
  pi_palette p' = pi_palette p /\ pi_nframes p' = pi_nframes p /\ pi_default_time p' = pi_default_time p /\
  pi_times p' = pi_times p /\ pi_ext p' = pi_ext p /\ pi_tilesets p' = pi_tilesets p.
Proof.
  unfold add_user_data. destruct (pi_ctx p) as [[f l|i| |i|i]|]; try discriminate.
  - destruct (table_set_cel_ud (pi_cels p) f l u); [|discriminate]. intros [= <-]. repeat split; reflexivity.
  - destruct (upd_rev (pi_layers_rev p) (pi_nlayers p) i (fun l => set_layer_ud l u)); [|discriminate].
    intros [= <-]. repeat split; reflexivity.
  - intros [= <-]. repeat split; reflexivity.
  - destruct (pi_tags p) as [ts|]; [|discriminate]. destruct (nthz ts i); [|discriminate].
    destruct (65535 <=? i); [discriminate|]. intros [= <-]. repeat split; reflexivity.
  - destruct (upd_rev (pi_slices_rev p) (pi_nslices p) i (fun s => set_slice_ud s u)); [|discriminate].
    intros [= <-]. repeat split; reflexivity.
Qed.

Lemma lookup_same p p' e :
  pi_layers_rev p' = pi_layers_rev p -> pi_slices_rev p' = pi_slices_rev p -> pi_cels p' = pi_cels p ->
  pi_tags p' = pi_tags p -> pi_sprite_ud p' = pi_sprite_ud p -> lookup p' e = lookup p e.
Proof.
  intros HL HS HC HT HU. destruct e; unfold lookup, layers_of, slices_of, tags_of, cel_of;
    rewrite ?HL, ?HS, ?HC, ?HT, ?HU; reflexivity.
Qed.

(* the uniform statement: exactly the context entity is written *)
Theorem add_user_data_spec p u p' :
  WF p -> (forall f l, pi_ctx p = Some (UCel f l) -> 0 <= f) ->
  add_user_data p u = Ok p' ->
  exists c v,
    pi_ctx p = Some c /\
    lookup p (ctx_entity c) = Some v /\ lookup p' (ctx_entity c) = Some (set_ud v u) /\
    (forall e, e <> ctx_entity c -> lookup p' e = lookup p e) /\
    pi_ctx p' = Some (match c with UTag i => UTag (i + 1) | _ => c end) /\
    WF p' /\ pi_nlayers p' = pi_nlayers p /\ pi_nslices p' = pi_nslices p.
Proof.
  intros HWF Hfr H. pose proof HWF as [WL WS].
  destruct (pi_ctx p) as [c|] eqn:Hc; [|rewrite attach_no_context in H by exact Hc; discriminate].
  exists c. destruct c as [f l|i| |i|i].
  - destruct (attach_cel p f l u p' (Hfr f l eq_refl) Hc H)
      as ((c & Hc0 & Hc1) & Hoth & [HL HNL] & [HS HNS] & HT & HU & HX).
    exists (VCel c). split; [reflexivity|]. cbn [ctx_entity lookup set_ud]. rewrite Hc0, Hc1.
    split; [reflexivity|]. split; [reflexivity|]. split.
    + intros e He. destruct e as [k|f' l'|k|k|]; unfold lookup, layers_of, slices_of, tags_of;
        rewrite ?HL, ?HS, ?HT, ?HU; try reflexivity.
      rewrite Hoth; [reflexivity|]. intros [= -> ->]. apply He. reflexivity.
    + split; [rewrite HX; exact Hc|]. split; [unfold WF; rewrite HL, HNL, HS, HNS; exact HWF|].
      split; assumption.
  - destruct (attach_layer p i u p' HWF Hc H)
      as ((l & Hl0 & Hl1) & Hoth & HNL & HZL & [HS HNS] & HC & HT & HU & HX).
    exists (VLayer l). split; [reflexivity|]. cbn [ctx_entity lookup set_ud]. rewrite Hl0, Hl1.
    split; [reflexivity|]. split; [reflexivity|]. split.
    + intros e He. destruct e as [k|f' l'|k|k|]; unfold lookup, cel_of, slices_of, tags_of;
        rewrite ?HS, ?HC, ?HT, ?HU; try reflexivity.
      rewrite Hoth; [reflexivity|]. intros ->. apply He. reflexivity.
    + split; [rewrite HX; exact Hc|]. split; [unfold WF; rewrite HNL, HZL, HS, HNS; exact HWF|].
      split; assumption.
  - destruct (attach_sprite p u p' Hc H) as (HU & [HL HNL] & [HS HNS] & HC & HT & HX).
    exists (VSprite (pi_sprite_ud p)). split; [reflexivity|]. cbn [ctx_entity lookup set_ud]. rewrite HU.
    split; [reflexivity|]. split; [reflexivity|]. split.
    + intros e He. destruct e as [k|f' l'|k|k|]; unfold lookup, layers_of, cel_of, slices_of, tags_of;
        rewrite ?HL, ?HS, ?HC, ?HT; try reflexivity. contradiction He. reflexivity.
    + split; [rewrite HX; exact Hc|]. split; [unfold WF; rewrite HL, HNL, HS, HNS; exact HWF|].
      split; assumption.
  - destruct (attach_tag p i u p' Hc H) as ((t & Ht0 & Ht1) & Hoth & [HL HNL] & [HS HNS] & HC & HU & HX).
    exists (VTag t). split; [reflexivity|]. cbn [ctx_entity lookup set_ud]. rewrite Ht0, Ht1.
    split; [reflexivity|]. split; [reflexivity|]. split.
    + intros e He. destruct e as [k|f' l'|k|k|]; unfold lookup, layers_of, cel_of, slices_of;
        rewrite ?HL, ?HS, ?HC, ?HU; try reflexivity.
      rewrite Hoth; [reflexivity|]. intros ->. apply He. reflexivity.
    + split; [exact HX|]. split; [unfold WF; rewrite HL, HNL, HS, HNS; exact HWF|].
      split; assumption.
  - destruct (attach_slice p i u p' HWF Hc H)
      as ((s & Hs0 & Hs1) & Hoth & HNS & HZS & [HL HNL] & HC & HT & HU & HX).
    exists (VSlice s). split; [reflexivity|]. cbn [ctx_entity lookup set_ud]. rewrite Hs0, Hs1.
    split; [reflexivity|]. split; [reflexivity|]. split.
    + intros e He. destruct e as [k|f' l'|k|k|]; unfold lookup, layers_of, cel_of, tags_of;
        rewrite ?HL, ?HC, ?HT, ?HU; try reflexivity.
      rewrite Hoth; [reflexivity|]. intros ->. apply He. reflexivity.
    + split; [rewrite HX; exact Hc|]. split; [unfold WF; rewrite HL, HNL, HNS, HZS; exact HWF|].
      split; assumption.
Qed.

(* ------------------------------------------------------------------ *)
(* the declarative rule.  Event lists here are MOST RECENT FIRST (r = rev of the events
   processed so far). *)

Fixpoint count_layers (r : list ev) : Z :=
  match r with [] => 0 | ELayer _ :: t => count_layers t + 1 | _ :: t => count_layers t end.
Fixpoint count_slices (r : list ev) : Z :=
  match r with [] => 0 | ESlice _ :: t => count_slices t + 1 | _ :: t => count_slices t end.

(* the entity that a user-data record coming next would be attached to *)
Fixpoint owner (r : list ev) : option entity :=
  match r with
  | [] => None
  | ELayer _ :: t => Some (EntLayer (count_layers t))          (* layers are numbered in file order *)
  | ECel f c :: _ => Some (EntCel f (cc_layer (c_data c)))
  | ESlice _ :: t => Some (EntSlice (count_slices t))
  | ETags _ :: _ => Some (EntTag 0)
  | EOldPal _ :: _ => Some EntSprite
  | EOther _ :: t => owner t                                   (* ignorable: does not break the association *)
  | EUd _ :: t => match owner t with Some (EntTag i) => Some (EntTag (i + 1)) | o => o end
  end.

Definition entity_eqb (a b : entity) : bool :=
  match a, b with
  | EntLayer i, EntLayer j => i =? j
  | EntCel f l, EntCel f' l' => (f =? f') && (l =? l')
  | EntSlice i, EntSlice j => i =? j
  | EntTag i, EntTag j => i =? j
  | EntSprite, EntSprite => true
  | _, _ => false
  end.

Lemma entity_eqb_spec a b : reflect (a = b) (entity_eqb a b).
Proof.
  destruct a as [i|f l|i|i|], b as [j|f' l'|j|j|]; cbn [entity_eqb]; try (constructor; discriminate).
  - destruct (Z.eqb_spec i j); constructor; congruence.
  - destruct (Z.eqb_spec f f'), (Z.eqb_spec l l'); constructor; congruence.
  - destruct (Z.eqb_spec i j); constructor; congruence.
  - destruct (Z.eqb_spec i j); constructor; congruence.
  - constructor. reflexivity.
Qed.

Definition owns (r : list ev) (e : entity) : bool :=
  match owner r with Some e' => entity_eqb e' e | None => false end.

(* event x, arriving after the events t, brings entity e into existence *)
Definition creates (x : ev) (t : list ev) (e : entity) : bool :=
  match x, e with
  | ELayer _, EntLayer i => i =? count_layers t
  | ECel f c, EntCel f' l' => (f =? f') && (cc_layer (c_data c) =? l')
  | ESlice _, EntSlice i => i =? count_slices t
  | ETags _, EntTag _ => true
  | _, _ => false
  end.

(* the records owned by e since it was created, most recent first *)
Fixpoint records (r : list ev) (e : entity) : list userdata :=
  match r with
  | [] => []
  | x :: t =>
      if creates x t e then [] else
      match x with
      | EUd u => if owns t e then u :: records t e else records t e
      | _ => records t e
      end
  end.

(* the record an entity must report: the last one it owns *)
Definition window (r : list ev) (e : entity) : option userdata := hd_error (records r e).

(* events as decoders produce them: entities arrive without user data; frames are counted from 0 *)
Definition ev_wf (x : ev) : Prop :=
  match x with
  | ELayer l => l_ud l = None
  | ECel f c => 0 <= f /\ c_ud c = None
  | ESlice s => s_ud s = None
  | ETags ts => Forall (fun t => t_ud t = None) ts
  | _ => True
  end.

Lemma records_cons_nonud x t e :
  (forall u, x <> EUd u) -> records (x :: t) e = if creates x t e then [] else records t e.
Proof. intros H. destruct x; try reflexivity. exfalso. eapply H. reflexivity. Qed.

Lemma owner_cel_nonneg r f l : Forall ev_wf r -> owner r = Some (EntCel f l) -> 0 <= f.
Proof.
  induction r as [|x t IH]; intros Hwf; cbn [owner]; [discriminate|].
  inversion Hwf as [|? ? Hx Ht]; subst. destruct x as [l0|f0 c|s|ts|o|o|u]; try discriminate.
  - intros [= <- _]. destruct Hx as [Hf _]. exact Hf.
  - apply IH. exact Ht.
  - destruct (owner t) as [[i|f' l'|i|i|]|] eqn:E; try discriminate. intros [= -> ->]. apply IH; [exact Ht|reflexivity].
Qed.

Lemma val_ud_set_ud v u : val_ud (set_ud v u) = Some u.
Proof. destruct v; reflexivity. Qed.

(* ------------------------------------------------------------------ *)
(* the invariant *)

Definition Inv (r : list ev) (p : pinfo) : Prop :=
  WF p /\ pi_nlayers p = count_layers r /\ pi_nslices p = count_slices r /\
  option_map ctx_entity (pi_ctx p) = owner r /\
  (forall e v, lookup p e = Some v -> val_ud v = window r e).

Lemma zfind_zempty' {A} k : zfind k (@zempty A) = None.
Proof. unfold zfind, zempty. destruct (k <? 0); [reflexivity|apply PositiveMap.gempty]. Qed.

Lemma Inv_new n d : Inv [] (pinfo_new n d).
Proof.
  split; [split; reflexivity|]. split; [reflexivity|]. split; [reflexivity|]. split; [reflexivity|].
  intros e v. destruct e as [i|f l|i|i|]; cbn [lookup]; unfold layers_of, slices_of, tags_of, cel_of, cel_slot;
    cbn [pinfo_new pi_layers_rev pi_slices_rev pi_tags pi_cels pi_sprite_ud rev].
  - destruct (Z.ltb_spec i 0); [rewrite nthz_neg by assumption|rewrite (proj2 (nthz_none (@nil layer) i))];
      try discriminate. right. unfold zlen. cbn [length]. lia.
  - unfold get_row. rewrite zfind_zempty'.
    destruct (nthz [None] l) as [[c|]|] eqn:E; try discriminate.
    apply nthz_In in E. destruct E as [E|[]]. discriminate.
  - destruct (Z.ltb_spec i 0); [rewrite nthz_neg by assumption|rewrite (proj2 (nthz_none (@nil slice) i))];
      try discriminate. right. unfold zlen. cbn [length]. lia.
  - destruct (Z.ltb_spec i 0); [rewrite nthz_neg by assumption|rewrite (proj2 (nthz_none (@nil tag) i))];
      try discriminate. right. unfold zlen. cbn [length]. lia.
  - intros [= <-]. reflexivity.
Qed.

(* the lookup part of the invariant, for an event that is not a user-data record: every
   entity was either just created, without user data, or is as before *)
Lemma window_step_nonud x r p p' :
  (forall u, x <> EUd u) ->
  (forall e v, lookup p' e = Some v ->
               (creates x r e = true /\ val_ud v = None) \/ (creates x r e = false /\ lookup p e = Some v)) ->
  (forall e v, lookup p e = Some v -> val_ud v = window r e) ->
  forall e v, lookup p' e = Some v -> val_ud v = window (x :: r) e.
Proof.
  intros Hx Hd IH e v Hl. unfold window. rewrite records_cons_nonud by exact Hx.
  destruct (Hd e v Hl) as [[Hc Hv]|[Hc Hv]]; rewrite Hc.
  - exact Hv.
  - apply IH. exact Hv.
Qed.

Lemma Inv_step x r p p' : ev_wf x -> Forall ev_wf r -> Inv r p -> step p x = Ok p' -> Inv (x :: r) p'.
Proof.
  intros Hwx Hwr (HWF & HNL & HNS & HCTX & HLK) Hs. pose proof HWF as [WL WS].
  destruct x as [l|f c|s|ts|o|o|u]; cbn [step] in Hs.
  - (* layer *)
    injection Hs as <-. cbn [ev_wf] in Hwx.
    split; [split; cbn [add_layer with_ctx with_layers pi_nlayers pi_layers_rev pi_nslices pi_slices_rev];
            [rewrite zlen_cons; lia|exact WS]|].
    split; [cbn [count_layers add_layer with_ctx with_layers pi_nlayers]; lia|].
    split; [exact HNS|]. split; [cbn [owner]; rewrite <- HNL; reflexivity|].
    apply (window_step_nonud (ELayer l) r p); [discriminate| |exact HLK].
    intros e v. destruct e as [i|f' l'|i|i|]; cbn [creates]; try (intros H; right; split; [reflexivity|exact H]).
    unfold lookup, layers_of. cbn [add_layer with_ctx with_layers pi_layers_rev].
    rewrite <- HNL, WL. destruct (Z.lt_trichotomy i (zlen (pi_layers_rev p))) as [Hlt|[->|Hgt]].
    + rewrite nthz_rev_cons_old by exact Hlt. intros H. right. split; [|exact H].
      destruct (Z.eqb_spec i (zlen (pi_layers_rev p))); [lia|reflexivity].
    + rewrite nthz_rev_cons_new. intros [= <-]. left. split; [apply Z.eqb_refl|exact Hwx].
    + rewrite nthz_rev_cons_beyond by exact Hgt. discriminate.
  - (* cel *)
    cbn [ev_wf] in Hwx. destruct Hwx as [Hf Hud]. unfold add_cel in Hs.
    destruct (pi_nlayers p <=? cc_layer (c_data c)); [discriminate|].
    destruct (table_add_cel (pi_cels p) (pi_nframes p) f c) as [t'|e|s0] eqn:T; cbn [rbind] in Hs; try discriminate.
    injection Hs as <-. apply table_add_cel_spec in T; [|exact Hf]. destruct T as (_ & Hnew & Hoth).
    split; [exact HWF|]. split; [exact HNL|]. split; [exact HNS|]. split; [reflexivity|].
    apply (window_step_nonud (ECel f c) r p); [discriminate| |exact HLK].
    intros e v. destruct e as [i|f' l'|i|i|]; cbn [creates]; try (intros H; right; split; [reflexivity|exact H]).
    unfold lookup, cel_of. cbn [with_ctx with_cels pi_cels].
    destruct (Z.eqb_spec f f') as [<-|Nf]; [destruct (Z.eqb_spec (cc_layer (c_data c)) l') as [<-|Nl]|]; cbn [andb].
    + rewrite Hnew. intros [= <-]. left. split; [reflexivity|exact Hud].
    + rewrite Hoth by congruence. intros H. right. split; [reflexivity|exact H].
    + rewrite Hoth by congruence. intros H. right. split; [reflexivity|exact H].
  - (* slice *)
    injection Hs as <-. cbn [ev_wf] in Hwx.
    split; [split; cbn [add_slice with_ctx with_slices pi_nlayers pi_layers_rev pi_nslices pi_slices_rev];
            [exact WL|rewrite zlen_cons; lia]|].
    split; [exact HNL|]. split; [cbn [count_slices add_slice with_ctx with_slices pi_nslices]; lia|].
    split; [cbn [owner]; rewrite <- HNS; reflexivity|].
    apply (window_step_nonud (ESlice s) r p); [discriminate| |exact HLK].
    intros e v. destruct e as [i|f' l'|i|i|]; cbn [creates]; try (intros H; right; split; [reflexivity|exact H]).
    unfold lookup, slices_of. cbn [add_slice with_ctx with_slices pi_slices_rev].
    rewrite <- HNS, WS. destruct (Z.lt_trichotomy i (zlen (pi_slices_rev p))) as [Hlt|[->|Hgt]].
    + rewrite nthz_rev_cons_old by exact Hlt. intros H. right. split; [|exact H].
      destruct (Z.eqb_spec i (zlen (pi_slices_rev p))); [lia|reflexivity].
    + rewrite nthz_rev_cons_new. intros [= <-]. left. split; [apply Z.eqb_refl|exact Hwx].
    + rewrite nthz_rev_cons_beyond by exact Hgt. discriminate.
  - (* tags *)
    injection Hs as <-. cbn [ev_wf] in Hwx.
    split; [exact HWF|]. split; [exact HNL|]. split; [exact HNS|]. split; [reflexivity|].
    apply (window_step_nonud (ETags ts) r p); [discriminate| |exact HLK].
    intros e v. destruct e as [i|f' l'|i|i|]; cbn [creates]; try (intros H; right; split; [reflexivity|exact H]).
    unfold lookup, tags_of. cbn [add_tags with_ctx with_tags pi_tags].
    destruct (nthz ts i) as [t|] eqn:E; cbn [option_map]; [|discriminate]. intros [= <-].
    left. split; [reflexivity|]. apply nthz_In in E. rewrite Forall_forall in Hwx. apply Hwx. exact E.
  - (* legacy palette *)
    injection Hs as <-.
    split; [destruct o; exact HWF|]. split; [destruct o; exact HNL|]. split; [destruct o; exact HNS|].
    split; [destruct o; reflexivity|].
    apply (window_step_nonud (EOldPal o) r p); [discriminate| |exact HLK].
    intros e v H. right. split; [destruct e; reflexivity|]. rewrite <- H. destruct o, e; reflexivity.
  - (* other *)
    injection Hs as <-.
    split; [destruct o; exact HWF|]. split; [destruct o; exact HNL|]. split; [destruct o; exact HNS|].
    split; [cbn [owner]; rewrite <- HCTX; destruct o; reflexivity|].
    apply (window_step_nonud (EOther o) r p); [discriminate| |exact HLK].
    intros e v H. right. split; [destruct e; reflexivity|]. rewrite <- H. destruct o, e; reflexivity.
  - (* user data *)
    assert (forall f l, pi_ctx p = Some (UCel f l) -> 0 <= f) as Hfr.
    { intros f l Hc. apply (owner_cel_nonneg r f l Hwr). rewrite <- HCTX, Hc. reflexivity. }
    destruct (add_user_data_spec p u p' HWF Hfr Hs) as (c & v0 & Hc & Hl0 & Hl1 & Hoth & Hc' & HWF' & HNL' & HNS').
    assert (owner r = Some (ctx_entity c)) as Hown by (rewrite <- HCTX, Hc; reflexivity).
    split; [exact HWF'|]. split; [rewrite HNL'; exact HNL|]. split; [rewrite HNS'; exact HNS|].
    split; [rewrite Hc'; cbn [owner option_map]; rewrite Hown; destruct c; reflexivity|].
    intros e v Hl. unfold window. cbn [records].
    replace (creates (EUd u) r e) with false by (destruct e; reflexivity).
    unfold owns. rewrite Hown. destruct (entity_eqb_spec (ctx_entity c) e) as [<-|Hne].
    + rewrite Hl1 in Hl. injection Hl as <-. cbn [hd_error]. apply val_ud_set_ud.
    + apply HLK. rewrite <- Hoth by congruence. exact Hl.
Qed.

Lemma Inv_fold evs : forall done p p',
  Forall ev_wf evs -> Forall ev_wf done -> Inv (rev done) p -> rfold step evs p = Ok p' ->
  Inv (rev (done ++ evs)) p'.
Proof.
  induction evs as [|x t IH]; intros done p p' Hw Hd HI; cbn [rfold].
  - intros [= <-]. rewrite app_nil_r. exact HI.
  - destruct (step p x) as [p1|e|s] eqn:S; cbn [rbind]; try discriminate. intros H.
    inversion Hw as [|? ? Hx Ht]; subst.
    replace (done ++ x :: t) with ((done ++ [x]) ++ t) by (rewrite <- app_assoc; reflexivity).
    apply (IH (done ++ [x]) p1 p' Ht); [apply Forall_app; split; [exact Hd|constructor; [exact Hx|constructor]]| |exact H].
    rewrite rev_app_distr. cbn [rev app]. apply (Inv_step x (rev done) p p1 Hx); [|exact HI|exact S].
    apply Forall_rev. exact Hd.
Qed.

(* ------------------------------------------------------------------ *)
(* THE THEOREMS, for events in file order *)

Section Attach.
Variables (n d : Z) (evs : list ev) (p : pinfo).
Hypothesis Hwf : Forall ev_wf evs.
Hypothesis Hfold : rfold step evs (pinfo_new n d) = Ok p.

Lemma Inv_final : Inv (rev evs) p.
Proof. apply (Inv_fold evs [] (pinfo_new n d) p Hwf); [constructor|apply Inv_new|exact Hfold]. Qed.

(* the attachment context after the events = the entity owning the current stretch *)
Theorem context_invariant : option_map ctx_entity (pi_ctx p) = owner (rev evs).
Proof. destruct Inv_final as (_ & _ & _ & H & _). exact H. Qed.

(* every entity reports the last record it owns, or none *)
Theorem ud_attach : forall e o, ud_of p e = Some o -> o = window (rev evs) e.
Proof.
  destruct Inv_final as (_ & _ & _ & _ & H). intros e o. unfold ud_of.
  destruct (lookup p e) as [v|] eqn:L; cbn [option_map]; [|discriminate]. intros [= <-]. apply H. exact L.
Qed.

End Attach.

(* ------------------------------------------------------------------ *)
(* text and colour are reported exactly when their flag is set *)

Definition enc_userdata (flags : Z) (text : list Z) (color : pixel) : list Z :=
  e_dword flags ++ (if Z.testbit flags 0 then e_str text else []) ++
  (if Z.testbit flags 1 then (let '(r, g, b, a) := color in [r; g; b; a]) else []).

Theorem dec_userdata_flags flags text r g b a tail :
  utf8_valid text = true ->
  run_payload dec_userdata (enc_userdata flags text (r, g, b, a) ++ tail) =
  Ok {| ud_text := if Z.testbit flags 0 then Some text else None;
        ud_color := if Z.testbit flags 1 then Some (r, g, b, a) else None |}.
Proof.
  intros Hu. unfold run_payload, dec_userdata, enc_userdata. rewrite <- !app_assoc.
  rewrite run_bind, run_dword. rewrite bit_1_testbit, bit_2_testbit.
  destruct (Z.testbit flags 0), (Z.testbit flags 1); cbn [app].
  - rewrite run_bind, run_bind, run_str by exact Hu. cbn [run].
    rewrite run_bind. change (r :: g :: b :: a :: tail) with (e_byte r ++ e_byte g ++ e_byte b ++ e_byte a ++ tail).
    rewrite run_bind, run_byte. rewrite run_bind, run_byte. rewrite run_bind, run_byte. rewrite run_bind, run_byte.
    reflexivity.
  - rewrite run_bind, run_bind, run_str by exact Hu. reflexivity.
  - rewrite run_bind. cbn [run]. rewrite run_bind.
    change (r :: g :: b :: a :: tail) with (e_byte r ++ e_byte g ++ e_byte b ++ e_byte a ++ tail).
    rewrite run_bind, run_byte. rewrite run_bind, run_byte. rewrite run_bind, run_byte. rewrite run_bind, run_byte.
    reflexivity.
  - reflexivity.
Qed.

(* the same read off any payload that decodes: the flags are bytes 0..3 *)
Theorem dec_userdata_flags_inv data u :
  run_payload dec_userdata data = Ok u ->
  exists flags, dword_at data 0 = Some flags /\
    (ud_text u <> None <-> Z.testbit flags 0 = true) /\
    (ud_color u <> None <-> Z.testbit flags 1 = true).
Proof.
  intros H. apply run_payload_ok in H. destruct H as (rest & R). unfold dec_userdata in R.
  bind_inv R flags r1 H1. bind_inv R text r2 H2. bind_inv R color r3 H3.
  cbn [run] in R. injection R as <- _. cbn [ud_text ud_color].
  dword_inv H1 a0 b0 c0 d0. eexists. split; [reflexivity|].
  rewrite bit_1_testbit in H2. rewrite bit_2_testbit in H3. split.
  - destruct (Z.testbit _ 0).
    + bind_inv H2 s q1 Hs. cbn [run] in H2. injection H2 as <- _. split; [reflexivity|discriminate].
    + cbn [run] in H2. injection H2 as <- _. split; [intros N; contradiction|discriminate].
  - destruct (Z.testbit _ 1).
    + bind_inv H3 r q1 Hr. bind_inv H3 g q2 Hg. bind_inv H3 b q3 Hb. bind_inv H3 a q4 Ha.
      cbn [run] in H3. injection H3 as <- _. split; [reflexivity|discriminate].
    + cbn [run] in H3. injection H3 as <- _. split; [intros N; contradiction|discriminate].
Qed.

(* ------------------------------------------------------------------ *)
(* from chunks to events: the assembly of a file is a fold of `step` over the events its
   chunks decode to, and those events are well formed *)

Section Bridge.
Variable inflate : list Z -> Z -> zres.

Lemma dec_layer_fresh data l : run_payload dec_layer data = Ok l -> l_ud l = None.
Proof.
  intros H. apply run_payload_ok in H. destruct H as (rest & R). unfold dec_layer in R.
  bind_inv R flags r1 H1. bind_inv R ltype r2 H2. bind_inv R level r3 H3.
  bind_inv R w4 r4 H4. bind_inv R w5 r5 H5. bind_inv R bl r6 H6.
  bind_inv R opacity r7 H7. bind_inv R b8 r8 H8. bind_inv R w9 r9 H9. bind_inv R name r10 H10.
  bind_inv R tyts r11 H11. destruct tyts as [ty ts].
  destruct (18 <? bl); [discriminate|]. cbn [run] in R. injection R as <- _. reflexivity.
Qed.

Lemma dec_cel_fresh fmt data c : dec_cel inflate fmt data = Ok c -> c_ud c = None.
Proof.
  unfold dec_cel. intros H. apply rbind_ok in H. destruct H as ([[common ct] rest] & _ & H).
  apply rbind_ok in H. destruct H as (content & _ & [= <-]). reflexivity.
Qed.

Lemma dec_slice_fresh data s : run_payload dec_slice data = Ok s -> s_ud s = None.
Proof.
  intros H. apply run_payload_ok in H. destruct H as (rest & R). unfold dec_slice in R.
  bind_inv R n r1 H1. bind_inv R flags r2 H2. bind_inv R w r3 H3. bind_inv R name r4 H4. bind_inv R acc r5 H5.
  cbn [run] in R. injection R as <- _. reflexivity.
Qed.

Lemma dec_tags_fresh data ts : run_payload dec_tags data = Ok ts -> Forall (fun t => t_ud t = None) ts.
Proof.
  intros H. apply run_payload_ok in H. destruct H as (rest & R). unfold dec_tags in R.
  bind_inv R n r1 H1. bind_inv R u r2 H2. bind_inv R acc r3 H3.
  cbn [run] in R. injection R as <- _.
  rewrite run_iterZ in H3. apply Forall_rev.
  apply (run_times_inv (fun (a : list tag) (_ : list Z) => Forall (fun t => t_ud t = None) a) dec_tag)
    with (k := Z.to_nat n) (a := []) (bs := r2) (rest := r3); [|constructor|exact H3].
  intros a bs a' rest' Ha T. unfold dec_tag in T.
  bind_inv T from q1 T1. bind_inv T to q2 T2. bind_inv T dir q3 T3. bind_inv T rep q4 T4.
  bind_inv T u5 q5 T5. bind_inv T w6 q6 T6. bind_inv T name q7 T7.
  destruct (2 <? dir); cbn [run] in T; [discriminate|].
  injection T as <- _. constructor; [reflexivity|exact Ha].
Qed.

Lemma chunk_ev_wf fmt fid hp ch e : 0 <= fid -> chunk_ev inflate fmt fid hp ch = Ok e -> ev_wf e.
Proof.
  intros Hfid. destruct ch as [ty data]. unfold chunk_ev.
  destruct (ty =? 8199). { destruct (run_payload dec_color_profile data); cbn [rbind]; try discriminate. intros [= <-]. exact I. }
  destruct (ty =? 8217). { destruct (run_payload dec_palette data); cbn [rbind]; try discriminate. intros [= <-]. exact I. }
  destruct (ty =? 8196).
  { destruct (run_payload dec_layer data) as [l|?|?] eqn:D; cbn [rbind]; try discriminate. intros [= <-].
    cbn [ev_wf]. eapply dec_layer_fresh. exact D. }
  destruct (ty =? 8197).
  { destruct (dec_cel inflate fmt data) as [c|?|?] eqn:D; cbn [rbind]; try discriminate. intros [= <-].
    cbn [ev_wf]. split; [exact Hfid|eapply dec_cel_fresh; exact D]. }
  destruct (ty =? 8200). { destruct (run_payload dec_external data); cbn [rbind]; try discriminate. intros [= <-]. exact I. }
  destruct (ty =? 8216).
  { destruct (run_payload dec_tags data) as [ts|?|?] eqn:D; cbn [rbind]; try discriminate. intros [= <-].
    destruct (fid =? 0); [|exact I]. cbn [ev_wf]. eapply dec_tags_fresh. exact D. }
  destruct (ty =? 8226).
  { destruct (run_payload dec_slice data) as [s|?|?] eqn:D; cbn [rbind]; try discriminate. intros [= <-].
    cbn [ev_wf]. eapply dec_slice_fresh. exact D. }
  destruct (ty =? 8224). { destruct (run_payload dec_userdata data); cbn [rbind]; try discriminate. intros [= <-]. exact I. }
  destruct ((ty =? 4) || (ty =? 17)).
  { destruct hp; [intros [= <-]; exact I|].
    destruct (run_payload (dec_old_palette (ty =? 17)) data); cbn [rbind]; try discriminate. intros [= <-]. exact I. }
  destruct (ty =? 8227). { destruct (dec_tileset inflate fmt data); cbn [rbind]; try discriminate. intros [= <-]. exact I. }
  intros [= <-]. exact I.
Qed.

(* the events of the chunks of one frame; of a frame (its header first); of the frames from
   frame number fid on *)
Definition chunks_events (fmt : pixfmt) (fid : Z) (chunks : list rawchunk) (evs : list ev) : Prop :=
  Forall2 (fun ch e => exists has_pal, chunk_ev inflate fmt fid has_pal ch = Ok e) chunks evs.

Inductive frames_events (fmt : pixfmt) : Z -> list rawframe -> list ev -> Prop :=
| fe_nil fid : frames_events fmt fid [] []
| fe_cons fid dur chunks frs evs1 evs2 :
    chunks_events fmt fid chunks evs1 -> frames_events fmt (fid + 1) frs evs2 ->
    frames_events fmt fid ((dur, chunks) :: frs) (EOther (OTime fid dur) :: evs1 ++ evs2).

Lemma chunks_fold_events fmt fid chunks : forall p p',
  rfold (process_chunk inflate fmt fid) chunks p = Ok p' ->
  exists evs, chunks_events fmt fid chunks evs /\ rfold step evs p = Ok p'.
Proof.
  induction chunks as [|ch t IH]; intros p p'; cbn [rfold].
  - intros [= <-]. exists []. split; [constructor|reflexivity].
  - intros H. apply rbind_ok in H. destruct H as (p1 & H1 & H).
    rewrite process_chunk_step in H1. apply rbind_ok in H1. destruct H1 as (e & He & Hs).
    destruct (IH p1 p' H) as (evs & Hevs & Hf). exists (e :: evs). split.
    + constructor; [eexists; exact He|exact Hevs].
    + cbn [rfold]. rewrite Hs. exact Hf.
Qed.

Lemma frames_fold_events fmt frames : forall p fid p' fid',
  rfold (assemble_frame inflate fmt) frames (p, fid) = Ok (p', fid') ->
  exists evs, frames_events fmt fid frames evs /\ rfold step evs p = Ok p'.
Proof.
  induction frames as [|[dur chunks] frs IH]; intros p fid p' fid'; cbn [rfold].
  - intros [= <- <-]. exists []. split; [constructor|reflexivity].
  - intros H. apply rbind_ok in H. destruct H as ([p1 fid1] & H1 & H).
    cbn [assemble_frame] in H1. apply rbind_ok in H1. destruct H1 as (q & Hq & [= <- <-]).
    apply chunks_fold_events in Hq. destruct Hq as (evs1 & He1 & Hf1).
    destruct (IH _ _ _ _ H) as (evs2 & He2 & Hf2).
    exists (EOther (OTime fid dur) :: evs1 ++ evs2). split; [constructor; assumption|].
    cbn [rfold step apply_other rbind]. rewrite rfold_app, Hf1. exact Hf2.
Qed.

Theorem assemble_events fmt n d frames p :
  assemble inflate fmt n d frames = Ok p ->
  exists evs, frames_events fmt 0 frames evs /\ rfold step evs (pinfo_new n d) = Ok p.
Proof.
  unfold assemble. intros H. apply rmap_ok in H. destruct H as ([p1 fid1] & H & Hp). cbn [fst] in Hp. subst p1.
  eapply frames_fold_events. exact H.
Qed.

Lemma frames_events_wf fmt fid frames evs :
  0 <= fid -> frames_events fmt fid frames evs -> Forall ev_wf evs.
Proof.
  intros Hfid H. induction H as [fid|fid dur chunks frs evs1 evs2 H1 H2 IH]; [constructor|].
  constructor; [exact I|]. apply Forall_app. split; [|apply IH; lia].
  clear -H1 Hfid. induction H1 as [|ch e chs es (hp & He) _ IH]; constructor; [|exact IH].
  eapply chunk_ev_wf; [exact Hfid|exact He].
Qed.

(* the attachment theorem for an assembled file *)
Theorem assemble_attach fmt n d frames p :
  assemble inflate fmt n d frames = Ok p ->
  exists evs,
    frames_events fmt 0 frames evs /\
    option_map ctx_entity (pi_ctx p) = owner (rev evs) /\
    forall e o, ud_of p e = Some o -> o = window (rev evs) e.
Proof.
  intros H. apply assemble_events in H. destruct H as (evs & He & Hf).
  pose proof (frames_events_wf fmt 0 frames evs ltac:(lia) He) as Hwf.
  exists evs. split; [exact He|]. split.
  - eapply context_invariant; [exact Hwf|exact Hf].
  - eapply ud_attach; [exact Hwf|exact Hf].
Qed.

(* what the loaded file shows of layers, tags, slices and the sprite's user data is what the
   assembly holds *)
Lemma validate_views h p f :
  validate h p = Ok f ->
  f_layers f = arr_of_list (layers_of p) /\ f_tags f = tags_of p /\ f_slices f = slices_of p /\
  f_sprite_ud f = pi_sprite_ud p.
Proof.
  unfold validate; rewrite ?frev_eq. intros H.
  apply rbind_ok in H. destruct H as (parents & _ & H).
  apply rbind_ok in H. destruct H as (tss & _ & H).
  apply rbind_ok in H. destruct H as (u & _ & H).
  apply rbind_ok in H. destruct H as (cels & _ & [= <-]).
  repeat split; reflexivity.
Qed.

Theorem load_attach bs f :
  load inflate bs = Ok f ->
  exists rh frames fmt rest p evs,
    run framing bs = Ok ((rh, frames), rest) /\
    frames_events fmt 0 frames evs /\
    (forall e o, ud_of p e = Some o -> o = window (rev evs) e) /\
    f_layers f = arr_of_list (layers_of p) /\ f_tags f = tags_of p /\ f_slices f = slices_of p /\
    f_sprite_ud f = pi_sprite_ud p.
Proof.
  intros H. apply load_factor in H. destruct H as (rh & frames & fmt & p & rest & Hf & _ & Ha & Hv).
  apply assemble_attach in Ha. destruct Ha as (evs & He & _ & Hud).
  apply validate_views in Hv. destruct Hv as (V1 & V2 & V3 & V4).
  exists rh, frames, fmt, rest, p, evs. repeat split; assumption.
Qed.

End Bridge.

(* ------------------------------------------------------------------ *)
(* the rule spelled out on stretches.  A stretch is what follows a context-setting event up to
   the next one: only ignorable events and user-data records ("quiet" events). *)

Definition quiet (x : ev) : bool := match x with EOther _ | EUd _ => true | _ => false end.
(* the records of a stretch, most recent first *)
Definition uds (mid : list ev) : list userdata := flat_map (fun x => match x with EUd u => [u] | _ => [] end) mid.

Lemma uds_ud u m : uds (EUd u :: m) = u :: uds m.
Proof. reflexivity. Qed.
Lemma uds_other o m : uds (EOther o :: m) = uds m.
Proof. reflexivity. Qed.

(* ignorable events do not break the association *)
Lemma owner_ignorable o r : owner (EOther o :: r) = owner r.
Proof. reflexivity. Qed.

Lemma quiet_creates x t e : quiet x = true -> creates x t e = false.
Proof. destruct x; try discriminate; intros _; destruct e; reflexivity. Qed.

Lemma owner_quiet mid r :
  forallb quiet mid = true ->
  owner (mid ++ r) = match owner r with Some (EntTag i) => Some (EntTag (i + zlen (uds mid))) | o => o end.
Proof.
  induction mid as [|x m IH]; intros Hq.
  - cbn [app uds flat_map]. destruct (owner r) as [[| | |i|]|]; try reflexivity. rewrite zlen_nil, Z.add_0_r. reflexivity.
  - cbn [forallb] in Hq. apply andb_prop in Hq. destruct Hq as [Hx Hm]. specialize (IH Hm).
    destruct x; try discriminate; cbn [app owner]; rewrite IH.
    + rewrite uds_other. reflexivity.
    + rewrite uds_ud. destruct (owner r) as [[| | |i|]|]; try reflexivity. rewrite zlen_cons. do 2 f_equal. lia.
Qed.

(* an entity that is not a tag and owns the stretch collects all its records *)
Lemma records_quiet_owner mid r e :
  forallb quiet mid = true -> owner r = Some e -> (forall i, e <> EntTag i) ->
  records (mid ++ r) e = uds mid ++ records r e.
Proof.
  intros Hq Ho Hnt. induction mid as [|x m IH]; [reflexivity|].
  cbn [forallb] in Hq. apply andb_prop in Hq. destruct Hq as [Hx Hm]. specialize (IH Hm).
  cbn [app records]. rewrite quiet_creates by exact Hx.
  destruct x; try discriminate; [rewrite uds_other; exact IH|]. rewrite uds_ud. cbn [app].
  unfold owns. rewrite owner_quiet, Ho by exact Hm.
  destruct e as [i|f l|i|i|]; try (exfalso; eapply Hnt; reflexivity);
    cbn [entity_eqb]; rewrite ?Z.eqb_refl; cbn [andb]; rewrite IH; reflexivity.
Qed.

(* after a tags event the k-th record of the stretch belongs to tag k *)
Lemma records_quiet_tags mid r i0 k :
  forallb quiet mid = true -> owner r = Some (EntTag i0) ->
  records (mid ++ r) (EntTag k) =
  match nthz (rev (uds mid)) (k - i0) with Some u => [u] | None => [] end ++ records r (EntTag k).
Proof.
  intros Hq Ho. induction mid as [|x m IH].
  - cbn [app uds flat_map rev]. replace (nthz (@nil userdata) (k - i0)) with (@None userdata); [reflexivity|].
    symmetry. destruct (Z.ltb_spec (k - i0) 0); [apply nthz_neg; assumption|apply nthz_none; right].
    unfold zlen. cbn [length]. lia.
  - cbn [forallb] in Hq. apply andb_prop in Hq. destruct Hq as [Hx Hm]. specialize (IH Hm).
    cbn [app records]. rewrite quiet_creates by exact Hx.
    destruct x; try discriminate; [rewrite uds_other; exact IH|]. rewrite uds_ud.
    unfold owns. rewrite owner_quiet, Ho by exact Hm. cbn [entity_eqb rev].
    pose proof (zlen_nonneg (uds m)) as Hl.
    destruct (Z.eqb_spec (i0 + zlen (uds m)) k) as [E|E].
    + rewrite nthz_app_r by (rewrite zlen_rev; lia). rewrite zlen_rev.
      replace (k - i0 - zlen (uds m)) with 0 by lia. cbn [nthz nthz_aux Z.ltb Z.eqb Z.compare app].
      rewrite IH. replace (nthz (rev (uds m)) (k - i0)) with (@None userdata); [reflexivity|].
      symmetry. apply nthz_none. right. rewrite zlen_rev. lia.
    + rewrite IH. destruct (Z.ltb_spec (k - i0) (zlen (uds m))) as [Hlt|Hge].
      * rewrite nthz_app_l by (rewrite zlen_rev; exact Hlt). reflexivity.
      * rewrite nthz_app_r by (rewrite zlen_rev; exact Hge). rewrite zlen_rev.
        replace (nthz (rev (uds m)) (k - i0)) with (@None userdata)
          by (symmetry; apply nthz_none; right; rewrite zlen_rev; exact Hge).
        replace (nthz [u] (k - i0 - zlen (uds m))) with (@None userdata); [reflexivity|].
        symmetry. apply nthz_none. right. unfold zlen at 1. cbn [length]. lia.
Qed.

(* what comes after the stretch does not matter: the entity is never the owner again *)
Lemma records_later e later t :
  (forall l1 x l2, later = l1 ++ x :: l2 -> creates x (l2 ++ t) e = false /\ owner (l2 ++ t) <> Some e) ->
  records (later ++ t) e = records t e.
Proof.
  induction later as [|x l IH]; intros H; [reflexivity|].
  destruct (H [] x l eq_refl) as [Hc Ho]. cbn [app records]. rewrite Hc.
  assert (records (l ++ t) e = records t e) as IH'.
  { apply IH. intros l1 y l2 E. apply (H (x :: l1) y l2). rewrite E. reflexivity. }
  destruct x; try exact IH'. unfold owns.
  destruct (owner (l ++ t)) as [e'|]; [|exact IH'].
  destruct (entity_eqb_spec e' e) as [->|_]; [contradiction Ho; reflexivity|exact IH'].
Qed.

Lemma count_layers_app_ge later t : count_layers t <= count_layers (later ++ t).
Proof. induction later as [|x l IH]; cbn [app count_layers]; [lia|]. destruct x; lia. Qed.
Lemma count_slices_app_ge later t : count_slices t <= count_slices (later ++ t).
Proof. induction later as [|x l IH]; cbn [app count_slices]; [lia|]. destruct x; lia. Qed.

Lemma layer_never_again i later t :
  i < count_layers t -> owner t <> Some (EntLayer i) -> owner (later ++ t) <> Some (EntLayer i).
Proof.
  intros Hi Ho. induction later as [|x l IH]; [exact Ho|].
  pose proof (count_layers_app_ge l t) as Hc. cbn [app owner].
  destruct x; try discriminate; try exact IH.
  - intros [= E]. lia.
  - destruct (owner (l ++ t)) as [[| | |k|]|]; try discriminate; exact IH.
Qed.

Lemma slice_never_again i later t :
  i < count_slices t -> owner t <> Some (EntSlice i) -> owner (later ++ t) <> Some (EntSlice i).
Proof.
  intros Hi Ho. induction later as [|x l IH]; [exact Ho|].
  pose proof (count_slices_app_ge l t) as Hc. cbn [app owner].
  destruct x; try discriminate; try exact IH.
  - intros [= E]. lia.
  - destruct (owner (l ++ t)) as [[| | |k|]|]; try discriminate; exact IH.
Qed.

Definition is_tags (x : ev) : bool := match x with ETags _ => true | _ => false end.

Lemma tag_never_again later t :
  forallb (fun x => negb (is_tags x)) later = true ->
  (forall k, owner t <> Some (EntTag k)) -> forall k, owner (later ++ t) <> Some (EntTag k).
Proof.
  intros Hn Ho. induction later as [|x l IH]; [exact Ho|].
  cbn [forallb] in Hn. apply andb_prop in Hn. destruct Hn as [Hx Hl]. specialize (IH Hl).
  intros k. cbn [app owner]. destruct x; try discriminate; try apply IH.
  destruct (owner (l ++ t)) as [[| | |j|]|] eqn:E; try discriminate. exfalso. eapply IH. reflexivity.
Qed.

(* LAYER: evs = pre ++ ELayer l :: stretch ++ (nothing | context event :: anything), read most
   recent first.  The layer (number = layers before it) reports the last record of its stretch. *)
Theorem window_layer l t mid :
  forallb quiet mid = true ->
  window (mid ++ ELayer l :: t) (EntLayer (count_layers t)) = hd_error (uds mid).
Proof.
  intros Hq. unfold window. rewrite records_quiet_owner with (e := EntLayer (count_layers t));
    [|exact Hq|reflexivity|discriminate].
  cbn [records creates]. rewrite Z.eqb_refl, app_nil_r. reflexivity.
Qed.

Theorem window_layer_later l t mid c later :
  forallb quiet mid = true -> quiet c = false ->
  window (later ++ c :: mid ++ ELayer l :: t) (EntLayer (count_layers t)) = hd_error (uds mid).
Proof.
  intros Hq Hc. rewrite <- (window_layer l t mid Hq). unfold window. f_equal.
  set (i := count_layers t). set (s := mid ++ ELayer l :: t).
  assert (count_layers s = i + 1) as Hcs.
  { subst s i. clear -Hq. induction mid as [|x m IH]; [reflexivity|].
    cbn [forallb] in Hq. apply andb_prop in Hq. destruct Hq as [Hx Hm].
    destruct x; try discriminate; cbn [app count_layers]; apply IH; exact Hm. }
  assert (owner (c :: s) <> Some (EntLayer i)) as Hoc.
  { destruct c; try discriminate; cbn [owner]; try discriminate. rewrite Hcs. intros [= E]. lia. }
  assert (i < count_layers (c :: s)) as Hic by (destruct c; cbn [count_layers]; lia).
  rewrite (records_later (EntLayer i) later (c :: s)).
  - cbn [records]. replace (creates c s (EntLayer i)) with false.
    + destruct c; try reflexivity; discriminate.
    + destruct c; try reflexivity. cbn [creates]. rewrite Hcs. symmetry. apply Z.eqb_neq. lia.
  - intros l1 x l2 _. split.
    + destruct x; try reflexivity. cbn [creates]. apply Z.eqb_neq.
      pose proof (count_layers_app_ge l2 (c :: s)). lia.
    + apply layer_never_again; assumption.
Qed.

(* SLICE: the same *)
Theorem window_slice sl t mid :
  forallb quiet mid = true ->
  window (mid ++ ESlice sl :: t) (EntSlice (count_slices t)) = hd_error (uds mid).
Proof.
  intros Hq. unfold window. rewrite records_quiet_owner with (e := EntSlice (count_slices t));
    [|exact Hq|reflexivity|discriminate].
  cbn [records creates]. rewrite Z.eqb_refl, app_nil_r. reflexivity.
Qed.

Theorem window_slice_later sl t mid c later :
  forallb quiet mid = true -> quiet c = false ->
  window (later ++ c :: mid ++ ESlice sl :: t) (EntSlice (count_slices t)) = hd_error (uds mid).
Proof.
  intros Hq Hc. rewrite <- (window_slice sl t mid Hq). unfold window. f_equal.
  set (i := count_slices t). set (s := mid ++ ESlice sl :: t).
  assert (count_slices s = i + 1) as Hcs.
  { subst s i. clear -Hq. induction mid as [|x m IH]; [reflexivity|].
    cbn [forallb] in Hq. apply andb_prop in Hq. destruct Hq as [Hx Hm].
    destruct x; try discriminate; cbn [app count_slices]; apply IH; exact Hm. }
  assert (owner (c :: s) <> Some (EntSlice i)) as Hoc.
  { destruct c; try discriminate; cbn [owner]; try discriminate. rewrite Hcs. intros [= E]. lia. }
  assert (i < count_slices (c :: s)) as Hic by (destruct c; cbn [count_slices]; lia).
  rewrite (records_later (EntSlice i) later (c :: s)).
  - cbn [records]. replace (creates c s (EntSlice i)) with false.
    + destruct c; try reflexivity; discriminate.
    + destruct c; try reflexivity. cbn [creates]. rewrite Hcs. symmetry. apply Z.eqb_neq. lia.
  - intros l1 x l2 _. split.
    + destruct x; try reflexivity. cbn [creates]. apply Z.eqb_neq.
      pose proof (count_slices_app_ge l2 (c :: s)). lia.
    + apply slice_never_again; assumption.
Qed.

(* CEL: the cel at (frame, layer) reports the last record of its stretch *)
Theorem window_cel f c t mid :
  forallb quiet mid = true ->
  window (mid ++ ECel f c :: t) (EntCel f (cc_layer (c_data c))) = hd_error (uds mid).
Proof.
  intros Hq. unfold window. rewrite records_quiet_owner with (e := EntCel f (cc_layer (c_data c)));
    [|exact Hq|reflexivity|discriminate].
  cbn [records creates]. rewrite !Z.eqb_refl. cbn [andb]. rewrite app_nil_r. reflexivity.
Qed.

(* TAGS: the k-th record of the stretch after a tags event belongs to tag k; a tag beyond the
   number of records has none *)
Theorem window_tags ts t mid k :
  forallb quiet mid = true ->
  window (mid ++ ETags ts :: t) (EntTag k) = nthz (rev (uds mid)) k.
Proof.
  intros Hq. unfold window. rewrite records_quiet_tags with (i0 := 0); [|exact Hq|reflexivity].
  cbn [records creates]. rewrite app_nil_r, Z.sub_0_r. destruct (nthz (rev (uds mid)) k); reflexivity.
Qed.

Theorem window_tags_later ts t mid c later k :
  forallb quiet mid = true -> quiet c = false -> is_tags c = false ->
  forallb (fun x => negb (is_tags x)) later = true ->
  window (later ++ c :: mid ++ ETags ts :: t) (EntTag k) = nthz (rev (uds mid)) k.
Proof.
  intros Hq Hc Hct Hl. rewrite <- (window_tags ts t mid k Hq). unfold window. f_equal.
  set (s := mid ++ ETags ts :: t).
  assert (forall j, owner (c :: s) <> Some (EntTag j)) as Hoc.
  { intros j. destruct c; try discriminate; cbn [owner]; discriminate. }
  rewrite (records_later (EntTag k) later (c :: s)).
  - cbn [records]. replace (creates c s (EntTag k)) with false by (destruct c; try reflexivity; discriminate).
    destruct c; try reflexivity; discriminate.
  - intros l1 x l2 E. split.
    + destruct x; try reflexivity. exfalso. subst later. rewrite forallb_app in Hl.
      apply andb_prop in Hl. destruct Hl as [_ Hl]. cbn [forallb is_tags negb andb] in Hl. discriminate.
    + apply tag_never_again; [|exact Hoc]. subst later. rewrite forallb_app in Hl.
      apply andb_prop in Hl. destruct Hl as [_ Hl]. cbn [forallb] in Hl. apply andb_prop in Hl. apply Hl.
Qed.

(* SPRITE: a record after a legacy palette chunk goes to the sprite *)
Theorem window_sprite o t mid :
  forallb quiet mid = true ->
  window (mid ++ EOldPal o :: t) EntSprite = hd_error (uds mid ++ records t EntSprite).
Proof.
  intros Hq. unfold window. rewrite records_quiet_owner with (e := EntSprite);
    [|exact Hq|reflexivity|discriminate]. reflexivity.
Qed.

(* an entity whose stretch holds no record reports none: hd_error (uds mid) = None when mid has
   no user-data event *)
Lemma uds_no_records mid : forallb (fun x => match x with EUd _ => false | _ => true end) mid = true -> uds mid = [].
Proof.
  induction mid as [|x m IH]; [reflexivity|]. cbn [forallb]. intros H. apply andb_prop in H. destruct H as [Hx Hm].
  destruct x; try discriminate; change (uds m = []); apply IH; exact Hm.
Qed.

(* ------------------------------------------------------------------ *)
(* the same in file order, for the two typical cases: a layer, and the tags *)

Definition last_opt {A} (l : list A) : option A := hd_error (rev l).

Lemma forallb_rev {A} (f : A -> bool) l : forallb f (rev l) = forallb f l.
Proof.
  induction l as [|x t IH]; [reflexivity|]. cbn [rev forallb]. rewrite forallb_app, IH. cbn [forallb].
  rewrite Bool.andb_true_r. apply Bool.andb_comm.
Qed.

Lemma uds_app a b : uds (a ++ b) = uds a ++ uds b.
Proof. unfold uds. apply flat_map_app. Qed.

Lemma uds_rev l : uds (rev l) = rev (uds l).
Proof.
  induction l as [|x t IH]; [reflexivity|]. cbn [rev]. rewrite uds_app, IH.
  change (x :: t) with ([x] ++ t). rewrite uds_app, rev_app_distr. f_equal.
  destruct x; reflexivity.
Qed.

Lemma count_layers_app a b : count_layers (a ++ b) = count_layers a + count_layers b.
Proof. induction a as [|x t IH]; cbn [app count_layers]; [lia|]. destruct x; lia. Qed.
Lemma count_layers_nonneg l : 0 <= count_layers l.
Proof. induction l as [|x t IH]; cbn [count_layers]; [lia|]. destruct x; lia. Qed.
Lemma count_layers_rev l : count_layers (rev l) = count_layers l.
Proof.
  induction l as [|x t IH]; [reflexivity|]. cbn [rev]. rewrite count_layers_app, IH.
  destruct x; cbn [count_layers]; lia.
Qed.

Section FileOrder.
Variables (n d : Z) (p : pinfo).

(* evs = pre ++ [layer chunk] ++ stretch ++ post, where the stretch holds only ignorable chunks and
   user-data records and post is empty or starts with the next context-setting chunk.
   The layer (numbered by the layer chunks before it) exists and reports the last record of
   its stretch, or none if the stretch has none. *)
Theorem attach_layer_file_order pre l mid post :
  Forall ev_wf (pre ++ ELayer l :: mid ++ post) ->
  forallb quiet mid = true ->
  (post = [] \/ exists c post', post = c :: post' /\ quiet c = false) ->
  rfold step (pre ++ ELayer l :: mid ++ post) (pinfo_new n d) = Ok p ->
  exists l', nthz (layers_of p) (count_layers pre) = Some l' /\ l_ud l' = last_opt (uds mid).
Proof.
  intros Hwf Hq Hpost Hfold.
  pose proof (Inv_final n d _ p Hwf Hfold) as ([WL _] & HNL & _ & _ & _).
  assert (0 <= count_layers pre < zlen (layers_of p)) as Hrange.
  { unfold layers_of. rewrite zlen_rev, <- WL, HNL, count_layers_rev, count_layers_app. cbn [count_layers].
    pose proof (count_layers_nonneg pre). pose proof (count_layers_nonneg (mid ++ post)). lia. }
  destruct (nthz_in_range _ _ Hrange) as (l' & Hl'). exists l'. split; [exact Hl'|].
  assert (ud_of p (EntLayer (count_layers pre)) = Some (l_ud l')) as Hud by (unfold ud_of, lookup; rewrite Hl'; reflexivity).
  rewrite (ud_attach n d _ p Hwf Hfold _ _ Hud).
  rewrite rev_app_distr. cbn [rev]. rewrite rev_app_distr, <- !app_assoc. cbn [app].
  rewrite <- count_layers_rev. unfold last_opt. rewrite <- uds_rev.
  destruct Hpost as [->|(c & post' & -> & Hc)].
  - cbn [rev app]. apply window_layer. rewrite forallb_rev. exact Hq.
  - cbn [rev]. rewrite <- app_assoc. cbn [app]. apply window_layer_later; [rewrite forallb_rev; exact Hq|exact Hc].
Qed.

(* evs = pre ++ [tags chunk] ++ stretch ++ post, post empty or starting with a context-setting chunk
   and without a further tags chunk: tag k reports the k-th record of the stretch *)
Theorem attach_tags_file_order pre ts mid post :
  Forall ev_wf (pre ++ ETags ts :: mid ++ post) ->
  forallb quiet mid = true ->
  (post = [] \/ exists c post', post = c :: post' /\ quiet c = false /\
                               forallb (fun x => negb (is_tags x)) post = true) ->
  rfold step (pre ++ ETags ts :: mid ++ post) (pinfo_new n d) = Ok p ->
  forall k t', nthz (tags_of p) k = Some t' -> t_ud t' = nthz (uds mid) k.
Proof.
  intros Hwf Hq Hpost Hfold k t' Hk.
  assert (ud_of p (EntTag k) = Some (t_ud t')) as Hud by (unfold ud_of, lookup; rewrite Hk; reflexivity).
  rewrite (ud_attach n d _ p Hwf Hfold _ _ Hud).
  rewrite rev_app_distr. cbn [rev]. rewrite rev_app_distr, <- !app_assoc. cbn [app].
  replace (uds mid) with (rev (uds (rev mid))) by (rewrite uds_rev; apply rev_involutive).
  destruct Hpost as [->|(c & post' & -> & Hc & Hnt)].
  - cbn [rev app]. apply window_tags. rewrite forallb_rev. exact Hq.
  - cbn [rev]. rewrite <- app_assoc. cbn [app]. cbn [forallb] in Hnt. apply andb_prop in Hnt. destruct Hnt as [Hc' Hp'].
    apply window_tags_later; [rewrite forallb_rev; exact Hq|exact Hc| |rewrite forallb_rev; exact Hp'].
    destruct (is_tags c); [discriminate|reflexivity].
Qed.

End FileOrder.

(* ------------------------------------------------------------------ *)
(* non-vacuity *)

Definition demo_layer (nm : Z) : layer :=
  {| l_flags := 1; l_name := [nm]; l_blend := 0; l_opacity := 255; l_type := 0; l_tileset := 0; l_level := 0;
     l_ud := None |}.
Definition demo_cel (layer : Z) : cel rawpixels :=
  {| c_data := {| cc_layer := layer; cc_x := 0; cc_y := 0; cc_opacity := 255 |};
     c_content := CRaw 1 1 (RPRgba [(1, 2, 3, 4)]); c_ud := None |}.
Definition demo_slice : slice := {| s_name := [83]; s_keys := []; s_ud := None |}.
Definition demo_tag (nm : Z) : tag :=
  {| t_name := [nm]; t_from := 0; t_to := 0; t_repeat := 0; t_dir := 0; t_ud := None |}.
Definition ud (k : Z) : userdata := {| ud_text := Some [k]; ud_color := None |}.

(* layer 0, its record (after an ignorable chunk), layer 1 without record, a cel on layer 1 with a
   record, three tags with two records, a legacy palette with the sprite's record, a slice with a
   record, a cel on layer 0 without record *)
Definition demo_events : list ev :=
  [EOther (OTime 0 100);
   ELayer (demo_layer 65); EOther ONone; EUd (ud 1);
   ELayer (demo_layer 66);
   ECel 0 (demo_cel 1); EUd (ud 2);
   ETags [demo_tag 84; demo_tag 85; demo_tag 86]; EUd (ud 3); EOther (OPalette zempty); EUd (ud 4);
   EOldPal None; EUd (ud 5);
   ESlice demo_slice; EOther ONone; EOther ONone; EUd (ud 6);
   ECel 0 (demo_cel 0)].

Definition demo_entities : list entity :=
  [EntLayer 0; EntLayer 1; EntLayer 2; EntCel 0 0; EntCel 0 1; EntCel 1 0; EntSlice 0; EntSlice 1;
   EntTag 0; EntTag 1; EntTag 2; EntTag 3; EntSprite].

Example demo_events_wf : Forall ev_wf demo_events.
Proof.
  unfold demo_events.
  repeat (apply Forall_cons;
          [cbn [ev_wf]; first [exact I | reflexivity | split; [lia|reflexivity]
                              | repeat (apply Forall_cons; [reflexivity|]); apply Forall_nil]|]).
  apply Forall_nil.
Qed.

Example demo_events_fold : is_ok (rfold step demo_events (pinfo_new 1 100)) = true.
Proof. vm_compute. reflexivity. Qed.

(* what the model reports for each entity (None: no such entity) *)
Example demo_events_model :
  rmap (fun p => map (ud_of p) demo_entities) (rfold step demo_events (pinfo_new 1 100)) =
  Ok [Some (Some (ud 1)); Some None; None; Some None; Some (Some (ud 2)); None; Some (Some (ud 6)); None;
      Some (Some (ud 3)); Some (Some (ud 4)); Some None; None; Some (Some (ud 5))].
Proof. vm_compute. reflexivity. Qed.

(* what the declarative rule says *)
Example demo_events_rule :
  map (window (rev demo_events)) demo_entities =
  [Some (ud 1); None; None; None; Some (ud 2); None; Some (ud 6); None;
   Some (ud 3); Some (ud 4); None; None; Some (ud 5)].
Proof. vm_compute. reflexivity. Qed.

Example demo_events_owner : owner (rev demo_events) = Some (EntCel 0 0).
Proof. vm_compute. reflexivity. Qed.

(* a record without a preceding entity, a third record after two tags, a second cel in the same
   slot: refused *)
Example demo_refused :
  map (fun evs => is_ok (rfold step evs (pinfo_new 1 100)))
      [[EUd (ud 1)];
       [ETags [demo_tag 84; demo_tag 85]; EUd (ud 1); EUd (ud 2); EUd (ud 3)];
       [ELayer (demo_layer 65); ECel 0 (demo_cel 0); ECel 0 (demo_cel 0)]]
  = [false; false; false].
Proof. vm_compute. reflexivity. Qed.

(* the theorem instantiated on the demo: layer 0 reports record 1 *)
Example demo_attach_layer0 p :
  rfold step demo_events (pinfo_new 1 100) = Ok p ->
  exists l', nthz (layers_of p) 0 = Some l' /\ l_ud l' = Some (ud 1).
Proof.
  intros H.
  apply (attach_layer_file_order 1 100 p [EOther (OTime 0 100)] (demo_layer 65) [EOther ONone; EUd (ud 1)]
           (skipn 4 demo_events) demo_events_wf eq_refl); [|exact H].
  right. eexists _, _. split; [reflexivity|reflexivity].
Qed.

(* user data: flags 3, text "hi", colour (1,2,3,4) decodes with both; flags 2 drops the text *)
Example demo_flags :
  map (fun fl => run_payload dec_userdata (enc_userdata fl [104; 105] (1, 2, 3, 4) ++ [9]))
      [0; 1; 2; 3] =
  [Ok {| ud_text := None; ud_color := None |};
   Ok {| ud_text := Some [104; 105]; ud_color := None |};
   Ok {| ud_text := None; ud_color := Some (1, 2, 3, 4) |};
   Ok {| ud_text := Some [104; 105]; ud_color := Some (1, 2, 3, 4) |}].
Proof. vm_compute. reflexivity. Qed.

(* bytes to file: the demo file of Proofs/Factor.v (layer chunk, user-data chunk "hi", cel chunk):
   the loaded layer 0 carries the record, the cel carries none *)
Example demo_file_ud :
  rmap (fun f => option_map l_ud (aget (f_layers f) 0)) (load no_inflate demo_file) =
  Ok (Some (Some {| ud_text := Some [104; 105]; ud_color := None |})).
Proof. vm_compute. reflexivity. Qed.

(* ------------------------------------------------------------------ *)
(* cels through validation: the file's cel table holds, slot by slot, the validated cels of the
   assembly, with the same position data and the same user data *)

Definition slot_of {P} (o : option (option (cel P))) : option (cel P) :=
  match o with Some (Some c) => Some c | _ => None end.
(* the cel the accessors of the file find at (frame, layer) *)
Definition fcel_of (f : file) (fr l : Z) : option (cel pixels) := slot_of (nthz (get_row (f_cels f) fr) l).

Definition cel_same {P Q} (a : option (cel P)) (b : option (cel Q)) : Prop :=
  match a, b with
  | Some c', Some c => c_ud c' = c_ud c /\ c_data c' = c_data c
  | None, None => True
  | _, _ => False
  end.

Lemma validate_cel_same layers tss pal fmt t nf nl lid c c' :
  validate_cel layers tss pal fmt t nf nl lid c = Ok c' -> c_ud c' = c_ud c /\ c_data c' = c_data c.
Proof.
  unfold validate_cel. intros H. apply rbind_ok in H. destruct H as (content & _ & [= <-]). split; reflexivity.
Qed.

Lemma nthz_nil {A} j : nthz (@nil A) j = None.
Proof. destruct (nthz (@nil A) j) eqn:E; [|reflexivity]. apply nthz_In in E. contradiction. Qed.

Lemma validate_row_same layers tss pal fmt t nf nl : forall r lid r',
  validate_row layers tss pal fmt t nf nl r lid = Ok r' ->
  forall j, cel_same (slot_of (nthz r' j)) (slot_of (nthz r j)).
Proof.
  induction r as [|oc rest IH]; intros lid r'; cbn [validate_row].
  - intros [= <-] j. rewrite !nthz_nil. exact I.
  - intros H. apply rbind_ok in H. destruct H as (oc' & Hoc & H).
    apply rbind_ok in H. destruct H as (rest' & Hrest & [= <-]). intros j.
    destruct (Z.lt_trichotomy j 0) as [Hn|[->|Hp]].
    + rewrite !nthz_neg by exact Hn. exact I.
    + rewrite !nthz_cons_0. destruct oc as [c|].
      * apply rbind_ok in Hoc. destruct Hoc as (c' & Hc & [= <-]). cbn [slot_of cel_same].
        eapply validate_cel_same. exact Hc.
      * injection Hoc as <-. exact I.
    + rewrite !nthz_cons_pos by exact Hp. eapply IH. exact Hrest.
Qed.

Lemma validate_cels_find layers tss pal fmt t nf nl t' :
  validate_cels layers tss pal fmt t nf nl = Ok t' ->
  forall k, match zfind k t with
            | Some r => exists r', zfind k t' = Some r' /\ validate_row layers tss pal fmt t nf nl r 0 = Ok r'
            | None => zfind k t' = None
            end.
Proof.
  unfold validate_cels. intros H.
  set (vrow := fun r => validate_row layers tss pal fmt t nf nl r 0) in *.
  assert (forall k, match zfind k t' with
                    | Some r' => exists r, In (k, r) (zelements t) /\ vrow r = Ok r'
                    | None => forall r, ~ In (k, r) (zelements t)
                    end) as HK.
  { revert H.
    assert (forall done, (forall kv, In kv done -> 0 <= fst kv) ->
              forall l acc acc',
                (forall k, match zfind k acc with
                           | Some r' => exists r, In (k, r) done /\ vrow r = Ok r'
                           | None => forall r, ~ In (k, r) done end) ->
                (forall kv, In kv l -> 0 <= fst kv) ->
                rfold (fun acc kv => r <-- vrow (snd kv) ;;; Ok (zadd (fst kv) r acc)) l acc = Ok acc' ->
                forall k, match zfind k acc' with
                          | Some r' => exists r, In (k, r) (done ++ l) /\ vrow r = Ok r'
                          | None => forall r, ~ In (k, r) (done ++ l) end) as Hgen.
    { intros done Hdone l. revert done Hdone. induction l as [|[k0 r0] l IH]; intros done Hdone acc acc' HI Hl; cbn [rfold].
      - intros [= <-]. rewrite app_nil_r. exact HI.
      - intros H. apply rbind_ok in H. destruct H as (acc1 & H1 & H). cbn [fst snd] in H1.
        apply rbind_ok in H1. destruct H1 as (r0' & Hv & [= <-]).
        assert (0 <= k0) as Hk0 by (apply (Hl (k0, r0)); left; reflexivity).
        replace (done ++ (k0, r0) :: l) with ((done ++ [(k0, r0)]) ++ l) by (rewrite <- app_assoc; reflexivity).
        apply (IH (done ++ [(k0, r0)])) with (acc := zadd k0 r0' acc); [| |intros kv Hin; apply Hl; right; exact Hin|exact H].
        + intros kv Hin. apply in_app_or in Hin. destruct Hin as [Hin|[<-|[]]]; [apply Hdone; exact Hin|exact Hk0].
        + intros k. destruct (Z.ltb_spec k 0) as [Hn|Hn].
          * replace (zfind k (zadd k0 r0' acc)) with (@None (row pixels))
              by (unfold zfind; destruct (Z.ltb_spec k 0); [reflexivity|lia]).
            intros r Hin. apply in_app_or in Hin. destruct Hin as [Hin|[[= -> _]|[]]]; [|lia].
            apply Hdone in Hin. cbn [fst] in Hin. lia.
          * rewrite zfind_zadd_nonneg by lia. destruct (Z.eqb_spec k k0) as [->|Hne].
            -- exists r0. split; [apply in_or_app; right; left; reflexivity|exact Hv].
            -- specialize (HI k). destruct (zfind k acc) as [r'|].
               ++ destruct HI as (r & Hin & Hr). exists r. split; [apply in_or_app; left; exact Hin|exact Hr].
               ++ intros r Hin. apply in_app_or in Hin. destruct Hin as [Hin|[[= E _]|[]]]; [exact (HI r Hin)|].
                  apply Hne. symmetry. exact E. }
    intros H. apply (Hgen [] (fun kv Hin => match Hin with end) (zelements t) zempty t'); [| |exact H].
    - intros k. rewrite zfind_zempty'. intros r [].
    - intros [k r] Hin. apply In_zelements_inv in Hin. cbn [fst]. apply Hin. }
  intros k. specialize (HK k). destruct (zfind k t) as [r|] eqn:E.
  - destruct (zfind k t') as [r'|].
    + destruct HK as (r1 & Hin & Hr). apply In_zelements_inv in Hin. destruct Hin as [Hin _].
      rewrite E in Hin. injection Hin as <-. exists r'. split; [reflexivity|exact Hr].
    + exfalso. apply (HK r). apply In_zelements. exact E.
  - destruct (zfind k t') as [r'|]; [|reflexivity].
    destruct HK as (r1 & Hin & _). apply In_zelements_inv in Hin. destruct Hin as [Hin _].
    rewrite E in Hin. discriminate.
Qed.

Lemma slot_of_empty_row {P} l : slot_of (nthz [@None (cel P)] l) = None.
Proof.
  destruct (nthz [@None (cel P)] l) as [[c|]|] eqn:E; try reflexivity.
  apply nthz_In in E. destruct E as [E|[]]. discriminate.
Qed.

Theorem validate_cel_views h p f :
  validate h p = Ok f -> forall fr l, cel_same (fcel_of f fr l) (cel_of p fr l).
Proof.
  unfold validate; rewrite ?frev_eq. intros H.
  apply rbind_ok in H. destruct H as (parents & _ & H).
  apply rbind_ok in H. destruct H as (tss & _ & H).
  apply rbind_ok in H. destruct H as (u & _ & H).
  apply rbind_ok in H. destruct H as (cels & Hc & [= <-]).
  intros fr l. unfold fcel_of, cel_of, cel_slot, get_row. cbn [f_cels].
  pose proof (validate_cels_find _ _ _ _ _ _ _ _ Hc fr) as HF.
  destruct (zfind fr (pi_cels p)) as [r|].
  - destruct HF as (r' & -> & Hr). apply (validate_row_same _ _ _ _ _ _ _ _ _ _ Hr l).
  - rewrite HF. change (cel_same (slot_of (nthz [@None (cel pixels)] l)) (slot_of (nthz [@None (cel rawpixels)] l))).
    rewrite !slot_of_empty_row. exact I.
Qed.

(* THE LOADER: the file's layers, cels, tags, slices and sprite report what the rule says *)
Theorem load_attach_file (inflate : list Z -> Z -> zres) bs f :
  load inflate bs = Ok f ->
  exists rh frames fmt rest p evs,
    run framing bs = Ok ((rh, frames), rest) /\
    frames_events inflate fmt 0 frames evs /\
    (forall e o, ud_of p e = Some o -> o = window (rev evs) e) /\
    f_layers f = arr_of_list (layers_of p) /\ f_tags f = tags_of p /\ f_slices f = slices_of p /\
    f_sprite_ud f = pi_sprite_ud p /\
    (forall fr l, cel_same (fcel_of f fr l) (cel_of p fr l)).
Proof.
  intros H. apply load_factor in H. destruct H as (rh & frames & fmt & p & rest & Hf & _ & Ha & Hv).
  apply assemble_attach in Ha. destruct Ha as (evs & He & _ & Hud).
  pose proof (validate_cel_views _ _ _ Hv) as Hcels.
  apply validate_views in Hv. destruct Hv as (V1 & V2 & V3 & V4).
  exists rh, frames, fmt, rest, p, evs. repeat split; assumption.
Qed.

(* spelled out per kind of entity *)
Corollary load_attach_entities (inflate : list Z -> Z -> zres) bs f :
  load inflate bs = Ok f ->
  exists rh frames fmt rest evs,
    run framing bs = Ok ((rh, frames), rest) /\
    frames_events inflate fmt 0 frames evs /\
    (forall i l, aget (f_layers f) i = Some l -> l_ud l = window (rev evs) (EntLayer i)) /\
    (forall fr ly c, fcel_of f fr ly = Some c -> c_ud c = window (rev evs) (EntCel fr ly)) /\
    (forall i s, nthz (f_slices f) i = Some s -> s_ud s = window (rev evs) (EntSlice i)) /\
    (forall i t, nthz (f_tags f) i = Some t -> t_ud t = window (rev evs) (EntTag i)) /\
    f_sprite_ud f = window (rev evs) EntSprite.
Proof.
  intros H. apply load_attach_file in H.
  destruct H as (rh & frames & fmt & rest & p & evs & Hf & He & Hud & VL & VT & VS & VU & VC).
  exists rh, frames, fmt, rest, evs. split; [exact Hf|]. split; [exact He|].
  split; [|split; [|split; [|split]]].
  - intros i l Hl. rewrite VL, aget_arr_of_list in Hl. apply (Hud (EntLayer i)).
    unfold ud_of, lookup. rewrite Hl. reflexivity.
  - intros fr ly c Hc. specialize (VC fr ly). rewrite Hc in VC. unfold cel_same in VC.
    destruct (cel_of p fr ly) as [c0|] eqn:E; [|contradiction]. destruct VC as [-> _].
    apply (Hud (EntCel fr ly)). unfold ud_of, lookup. rewrite E. reflexivity.
  - intros i s Hs. rewrite VS in Hs. apply (Hud (EntSlice i)). unfold ud_of, lookup. rewrite Hs. reflexivity.
  - intros i t Ht. rewrite VT in Ht. apply (Hud (EntTag i)). unfold ud_of, lookup. rewrite Ht. reflexivity.
  - rewrite VU. apply (Hud EntSprite). reflexivity.
Qed.
