(* C01 / C06 end to end, cel contents: the cel a loaded sprite holds at (frame, layer) has the content of the cel chunk of
   the program - image pixels converted for the colour mode and checked against the final palette (with the layer's
   background flag), link targets and tilemaps as stored. *)
From Ase Require Import Model.Api Spec.Serialize.
From Ase Require Import Proofs.ITLemmas Proofs.ArrLemmas Proofs.RoundTrip Proofs.PaletteProofs.
From Ase Require Import Proofs.Factor Proofs.Neutral Proofs.UserData Proofs.EndToEnd.

(* the validated cel at a slot is validate_cel of the raw cel at that slot *)
Definition cel_validated (layers : arr layer) (tss : zmap (tileset pixels)) (pal : option palette) (fmt : pixfmt)
           (t : celtable rawpixels) (nf nl lid : Z) (a : option (cel pixels)) (b : option (cel rawpixels)) : Prop :=
  match a, b with
  | Some c', Some c => validate_cel layers tss pal fmt t nf nl lid c = Ok c'
  | None, None => True
  | _, _ => False
  end.

Lemma validate_row_content layers tss pal fmt t nf nl : forall r lid r',
  validate_row layers tss pal fmt t nf nl r lid = Ok r' ->
  forall j, cel_validated layers tss pal fmt t nf nl (lid + j) (slot_of (nthz r' j)) (slot_of (nthz r j)).
Proof.
  induction r as [|oc rest IH]; intros lid r'; cbn [validate_row].
  - intros [= <-] j. rewrite !nthz_nil. exact I.
  - intros H. apply rbind_ok in H. destruct H as (oc' & Hoc & H).
    apply rbind_ok in H. destruct H as (rest' & Hrest & [= <-]). intros j.
    destruct (Z.lt_trichotomy j 0) as [Hn|[->|Hp]].
    + rewrite !nthz_neg by exact Hn. exact I.
    + rewrite !nthz_cons_0. rewrite Z.add_0_r. destruct oc as [c|].
      * apply rbind_ok in Hoc. destruct Hoc as (c' & Hc & [= <-]). cbn [slot_of cel_validated]. exact Hc.
      * injection Hoc as <-. exact I.
    + rewrite !nthz_cons_pos by exact Hp. replace (lid + j) with ((lid + 1) + (j - 1)) by lia. eapply IH. exact Hrest.
Qed.

Theorem validate_cel_contents h p f :
  validate h p = Ok f ->
  forall fr l, cel_validated (f_layers f) (f_tilesets f) (pi_palette p) (h_fmt h) (pi_cels p) (pi_nframes p) (pi_nlayers p) l
                             (fcel_of f fr l) (cel_of p fr l).
Proof.
  unfold validate; rewrite ?frev_eq. intros H.
  apply rbind_ok in H. destruct H as (parents & _ & H).
  apply rbind_ok in H. destruct H as (tss & _ & H).
  apply rbind_ok in H. destruct H as (u & _ & H).
  apply rbind_ok in H. destruct H as (cels & Hc & [= <-]).
  intros fr l. unfold fcel_of, cel_of, cel_slot, get_row. cbn [f_cels f_layers f_tilesets].
  pose proof (validate_cels_find _ _ _ _ _ _ _ _ Hc fr) as HF.
  destruct (zfind fr (pi_cels p)) as [r|].
  - destruct HF as (r' & -> & Hr). pose proof (validate_row_content _ _ _ _ _ _ _ _ _ _ Hr l) as Hj.
    rewrite Z.add_0_l in Hj. exact Hj.
  - rewrite HF. change (cel_validated (arr_of_list (rev (pi_layers_rev p))) tss (pi_palette p) (h_fmt h) (pi_cels p)
                          (pi_nframes p) (pi_nlayers p) l
                          (slot_of (nthz [@None (cel pixels)] l)) (slot_of (nthz [@None (cel rawpixels)] l))).
    rewrite !slot_of_empty_row. exact I.
Qed.

(* what validate_cel does to the content *)
Lemma validate_cel_content layers tss pal fmt t nf nl lid c c' :
  validate_cel layers tss pal fmt t nf nl lid c = Ok c' ->
  match c_content c with
  | CRaw w h rp => exists lay px, aget layers lid = Some lay /\
                     validate_pixels pal fmt (layer_is_background lay) rp = Ok px /\ c_content c' = CRaw w h px
  | CLinked o => c_content c' = CLinked o
  | CTilemap tm => c_content c' = CTilemap tm
  end.
Proof.
  unfold validate_cel. intros H. apply rbind_ok in H. destruct H as (content & Hc & [= <-]). cbn [c_content].
  destruct (c_content c) as [w h rp|o|tm].
  - destruct (aget layers lid) as [lay|]; [|discriminate].
    apply rbind_ok in Hc. destruct Hc as (px & Hpx & [= <-]). exists lay, px. repeat split; assumption.
  - destruct ((o <? nf) && (lid <? nl)); [|discriminate].
    apply rbind_ok in Hc. destruct Hc as (tgt & _ & Hc). destruct tgt as [c2|]; [|discriminate].
    destruct (is_linked c2); [discriminate|]. injection Hc as <-. reflexivity.
  - destruct (aget layers lid) as [lay|]; [|discriminate].
    destruct (l_type lay =? 2); [|discriminate].
    destruct (arr_max _ _) as [mx|].
    + destruct (_ <=? mx); [discriminate|]. injection Hc as <-. reflexivity.
    + injection Hc as <-. reflexivity.
Qed.

Section Cels.
Variable inflate : list Z -> Z -> zres.
Variables (s : sprite_prog) (tail : list Z) (f : file).
Hypothesis Hwf : wf_prog s.
Hypothesis Hz : inflate_ok inflate s.
Hypothesis Hload : load inflate (serialize s ++ tail) = Ok f.

(* CEL CONTENTS *)
Theorem e2e_cel_content fr l c :
  cel_at (prog_cels s) fr l = Some c ->
  exists c', fcel_of f fr l = Some c' /\
    match c_content c with
    | CRaw w h rp => exists lay px, aget (f_layers f) l = Some lay /\
                       validate_pixels (f_palette f) (f_fmt f) (layer_is_background lay) rp = Ok px /\
                       c_content c' = CRaw w h px
    | CLinked o => c_content c' = CLinked o
    | CTilemap tm => c_content c' = CTilemap tm
    end.
Proof.
  intros Hat.
  destruct (load_serialize_ok inflate s tail f Hwf Hz Hload) as (p & Hf & Hv).
  pose proof (validate_cel_contents _ _ _ Hv fr l) as Hval.
  pose proof (validate_fields _ _ _ Hv) as (_ & _ & _ & Efmt & Epal & _).
  assert (ctx_nonneg (pinfo_new (hf_frames (sp_header s)) (hf_default_time (sp_header s)))) as Hc0
    by (intros a b; discriminate).
  pose proof (rfold_cels _ _ _ Hc0 (events_of_wf s Hwf) Hf fr l) as Hcel.
  rewrite cel_of_new in Hcel. unfold events_of in Hcel at 1. rewrite frames_events_cels in Hcel.
  fold (mapi (frame_cels (prog_fmt s)) (sp_frames s)) in Hcel. fold (prog_cels s) in Hcel.
  rewrite Hat in Hcel. cbn [option_map] in Hcel.
  destruct (cel_of p fr l) as [c1|] eqn:E1; cbn [option_map] in Hcel; [|discriminate].
  assert (c_content c1 = c_content c) as Hcont
    by (change (c_content (cel_erase c1) = c_content (cel_erase c)); congruence).
  unfold cel_validated in Hval. destruct (fcel_of f fr l) as [c'|]; [|contradiction].
  exists c'. split; [reflexivity|].
  apply validate_cel_content in Hval. rewrite Hcont in Hval. rewrite Efmt, Epal. exact Hval.
Qed.

End Cels.
