(* C05 with C17: for the fifteen blend modes whose totality on byte pixels is proved outright in
   Proofs/BlendLaws.v (all but the four HSL modes), rendering a loaded file always returns. *)
From Ase Require Import Base.Prelude Model.Dump Proofs.NoPanicLoad Proofs.Valid Proofs.NoPanicApi.
From Ase Require Proofs.BlendLaws.

(* Normal .. Exclusion, Addition, Subtract, Divide: every mode except Hue, Saturation, Color, Luminosity *)
Definition plain_mode (m : Z) : Prop := In m [0; 1; 2; 3; 4; 5; 6; 7; 8; 9; 10; 11; 16; 17; 18].

Lemma blend_total_plain m b s o : plain_mode m -> pix_wf b -> pix_wf s -> is_byte o ->
  exists p, blend m b s o = Some p /\ pix_wf p.
Proof.
  intros Hm Hb Hs Ho. destruct (Z.eq_dec m 9) as [->|Hne].
  - apply BlendLaws.C17_range_soft; assumption.
  - apply BlendLaws.C17_range_int; try assumption. unfold BlendLaws.int_mode, BlendLaws.int_modes.
    unfold plain_mode in Hm. cbn [In] in *. intuition lia.
Qed.

Section Plain.
Variable inflate : list Z -> Z -> zres.
Hypothesis Hinflate : forall z n out, inflate z n = ZOk out -> Forall is_byte out.
Variable bs : list Z.
Variable f : file.
Hypothesis Hbytes : Forall is_byte bs.
Hypothesis Hload : load inflate bs = Ok f.
Hypothesis Hmodes : forall i l, aget (f_layers f) i = Some l -> plain_mode (l_blend l).

Theorem plain_frame_image fr : 0 <= fr < num_frames f ->
  exists img, frame_image f fr = Ok img /\ (iw img = f_width f /\ ih img = f_height f) /\ forall x y, pix_wf (img_get img x y).
Proof. exact (loaded_frame_image_total plain_mode blend_total_plain inflate Hinflate bs f Hbytes Hload Hmodes fr). Qed.

Theorem plain_cel_image fr l : 0 <= fr < num_frames f ->
  exists img, cel_image f (fr, l) = Ok img /\ (iw img = f_width f /\ ih img = f_height f) /\ forall x y, pix_wf (img_get img x y).
Proof. exact (loaded_cel_image_total plain_mode blend_total_plain inflate Hinflate bs f Hbytes Hload Hmodes fr l). Qed.

Theorem plain_walk o bit : opts_ok o -> exists ls, section f o bit = Ok ls.
Proof. exact (loaded_walk_total plain_mode blend_total_plain inflate Hinflate bs f Hbytes Hload Hmodes o bit). Qed.

End Plain.

(* non-vacuity: the 198-byte file of Proofs/NoPanicApi.v meets every hypothesis *)
From Ase Require Import Proofs.ArrLemmas Proofs.Truncation.

Example pix_file_plain : exists f img,
  load no_inflate pix_file = Ok f /\ frame_image f 0 = Ok img /\ iw img = 1 /\ ih img = 1 /\ pix_wf (img_get img 0 0).
Proof.
  destruct (load no_inflate pix_file) as [f|e|s] eqn:L; [|exfalso; revert L; vm_compute; discriminate ..].
  assert (E : rmap (fun f => (num_frames f, f_width f, f_height f,
                forallb (fun i => match aget (f_layers f) i with Some l => l_blend l =? 0 | None => true end)
                        (ziota (num_layers f)))) (load no_inflate pix_file) = Ok (1, 1, 1, true)) by (vm_compute; reflexivity).
  rewrite L in E. cbn [rmap rbind] in E. injection E as En Ew Eh Em.
  assert (Hmodes : forall i l, aget (f_layers f) i = Some l -> plain_mode (l_blend l)).
  { intros i l Hi. rewrite forallb_forall in Em. pose proof (aget_some_range _ _ _ Hi) as Hr.
    specialize (Em i ltac:(apply in_ziota; exact Hr)). rewrite Hi in Em. apply Z.eqb_eq in Em. rewrite Em. left. reflexivity. }
  destruct (plain_frame_image no_inflate (fun z n out H => ltac:(discriminate H)) pix_file f pix_file_bytes L Hmodes 0 ltac:(lia))
    as (img & Ei & [Hw Hh] & Hwf).
  exists f, img. split; [reflexivity|]. split; [exact Ei|]. split; [congruence|]. split; [congruence|apply Hwf].
Qed.
