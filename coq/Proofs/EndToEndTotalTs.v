(* C01 end to end, WHEN a program loads - with tilesets, tilemap layers and tilemap cels.
   Proofs/EndToEndTotal.v gives the condition `sprite_ok` for programs without tiles.  Here the condition is widened
   (`sprite_ok_ts`): for every id the LAST tileset chunk with that id carries pixels that validate (a tileset that is
   only a link into an external file is what the crate refuses); every tilemap layer names an id some tileset chunk
   defines; every tilemap cel lies on a tilemap layer and its largest tile id is below the tile count of that layer's
   (final) tileset.  Such a program loads (load_serialize_total_ts); sprite_ok is the special case without tiles. *)
From Ase Require Import Model.Api Spec.Serialize.
From Ase Require Import Proofs.ITLemmas Proofs.ArrLemmas Proofs.RoundTrip Proofs.PaletteProofs.
From Ase Require Import Proofs.Factor Proofs.Neutral Proofs.UserData Proofs.Layers Proofs.EndToEnd Proofs.NoPanicLoad.
From Ase Require Import Proofs.EndToEndTotal Proofs.EndToEndTilesets Proofs.EndToEndCels.

(* ------------------------------------------------------------------ *)
(* 1. validation, tiles included *)

Definition tile_count_of (tss : zmap (tileset pixels)) (id : Z) : Z :=
  match zfind id tss with Some ts => ts_count ts | None => 0 end.

Definition cel_valid_ts (h : header) (p : pinfo) (tss : zmap (tileset pixels)) (l : Z) (c : cel rawpixels) : Prop :=
  match c_content c with
  | CRaw _ _ rp =>
      0 <= l < zlen (layers_of p) /\
      forall bg, exists px, validate_pixels (pi_palette p) (h_fmt h) bg rp = Ok px
  | CLinked other =>
      0 <= other < pi_nframes p /\ l < pi_nlayers p /\
      exists c', cel_of p other l = Some c' /\ is_linked c' = false
  | CTilemap tm =>
      exists l0, nthz (layers_of p) l = Some l0 /\ l_type l0 = 2 /\
                 forall mx, arr_max (arr_to_list (tm_tiles tm)) None = Some mx -> mx < tile_count_of tss (l_tileset l0)
  end.

Lemma validate_cel_total_ts h p tss l c :
  cel_valid_ts h p tss l c ->
  exists c', validate_cel (arr_of_list (layers_of p)) tss (pi_palette p) (h_fmt h) (pi_cels p)
                          (pi_nframes p) (pi_nlayers p) l c = Ok c'.
Proof.
  unfold cel_valid_ts, validate_cel. destruct (c_content c) as [w hh rp|other|tm].
  - intros (Hl & Hpx). rewrite aget_arr_of_list. destruct (nthz_in_range _ _ Hl) as (l0 & ->).
    destruct (Hpx (layer_is_background l0)) as (px & ->). cbn [rbind]. eexists. reflexivity.
  - intros (Ho & Hl & c' & Hc' & Hnl).
    destruct (Z.ltb_spec other (pi_nframes p)) as [_|H]; [|lia].
    destruct (Z.ltb_spec l (pi_nlayers p)) as [_|H]; [|lia]. cbn [andb].
    unfold table_cel. destruct (Z.ltb_spec other 0) as [H|_]; [lia|].
    destruct (Z.leb_spec (pi_nframes p) other) as [H|_]; [lia|]. cbn [orb].
    unfold cel_of, cel_slot in Hc'. destruct (nthz (get_row (pi_cels p) other) l) as [[c1|]|]; try discriminate.
    injection Hc' as ->. cbn [rbind]. rewrite Hnl. cbn [rbind]. eexists. reflexivity.
  - intros (l0 & Hl0 & Hty & Hmx). rewrite aget_arr_of_list, Hl0. rewrite Hty. cbn [Z.eqb Pos.eqb].
    unfold tile_count_of in Hmx.
    destruct (arr_max (arr_to_list (tm_tiles tm)) None) as [mx|]; [|cbn [rbind]; eexists; reflexivity].
    specialize (Hmx mx eq_refl).
    destruct (Z.leb_spec (match zfind (l_tileset l0) tss with Some ts => ts_count ts | None => 0 end) mx) as [H|_]; [lia|].
    cbn [rbind]. eexists. reflexivity.
Qed.

Lemma validate_row_total_ts h p tss : forall r lid,
  0 <= lid ->
  (forall j c, nthz r j = Some (Some c) -> cel_valid_ts h p tss (lid + j) c) ->
  exists r', validate_row (arr_of_list (layers_of p)) tss (pi_palette p) (h_fmt h) (pi_cels p)
                          (pi_nframes p) (pi_nlayers p) r lid = Ok r'.
Proof.
  induction r as [|oc rest IH]; intros lid Hlid H; cbn [validate_row]; [eexists; reflexivity|].
  assert (exists oc', match oc with
                      | None => Ok None
                      | Some c => c' <-- validate_cel (arr_of_list (layers_of p)) tss (pi_palette p) (h_fmt h) (pi_cels p)
                                                      (pi_nframes p) (pi_nlayers p) lid c ;;; Ok (Some c')
                      end = Ok oc') as (oc' & ->).
  { destruct oc as [c|]; [|eexists; reflexivity].
    destruct (validate_cel_total_ts h p tss lid c) as (c' & ->); [|cbn [rbind]; eexists; reflexivity].
    specialize (H 0 c (nthz_cons_0 _ _)). rewrite Z.add_0_r in H. exact H. }
  cbn [rbind]. destruct (IH (lid + 1) ltac:(lia)) as (rest' & ->); [|cbn [rbind]; eexists; reflexivity].
  intros j c Hj. pose proof (nthz_some _ _ _ Hj) as Hr. replace (lid + 1 + j) with (lid + (j + 1)) by lia.
  apply H. rewrite nthz_cons_succ by lia. exact Hj.
Qed.

Lemma validate_tilesets_total pal fmt m :
  (forall k t, zfind k m = Some t -> exists ts, validate_tileset pal fmt t = Ok ts) ->
  exists tss, validate_tilesets pal fmt m = Ok tss.
Proof.
  intros H. unfold validate_tilesets. apply rfold_total_each. intros [k t] Hin acc. cbn [fst snd].
  apply In_zelements_inv in Hin. destruct Hin as (Hk & _). destruct (H k t Hk) as (ts & ->). cbn [rbind].
  eexists. reflexivity.
Qed.

(* validation succeeds: parents computable, every assembled tileset validates, every tilemap layer names a tileset of
   the validated map, every cel is valid in the sense above *)
Lemma validate_total_ts h p :
  (exists ps, compute_parents (layers_of p) = Ok ps) ->
  (forall k t, zfind k (pi_tilesets p) = Some t -> exists ts, validate_tileset (pi_palette p) (h_fmt h) t = Ok ts) ->
  (forall tss, validate_tilesets (pi_palette p) (h_fmt h) (pi_tilesets p) = Ok tss ->
     (forall l, In l (layers_of p) -> l_type l = 2 -> exists ts, zfind (l_tileset l) tss = Some ts) /\
     (forall fr r, zfind fr (pi_cels p) = Some r -> forall j c, nthz r j = Some (Some c) -> cel_valid_ts h p tss j c)) ->
  exists f, validate h p = Ok f.
Proof.
  intros (ps & Hps) Hts Hrest. unfold validate; rewrite ?frev_eq. fold (layers_of p). rewrite Hps. cbn [rbind].
  destruct (validate_tilesets_total _ _ _ Hts) as (tss & Htss). rewrite Htss. cbn [rbind].
  destruct (Hrest tss Htss) as (Hlay & Hcels).
  assert (validate_layers (layers_of p) tss = Ok tt) as ->.
  { unfold validate_layers.
    assert (forallb (fun l => if l_type l =? 2 then is_some (zfind (l_tileset l) tss) else true) (layers_of p) = true) as ->;
      [|reflexivity].
    apply forallb_forall. intros l Hl. destruct (Z.eqb_spec (l_type l) 2) as [E|_]; [|reflexivity].
    destruct (Hlay l Hl E) as (ts & ->). reflexivity. }
  cbn [rbind].
  assert (exists cels, validate_cels (arr_of_list (layers_of p)) tss (pi_palette p) (h_fmt h) (pi_cels p)
                                     (pi_nframes p) (pi_nlayers p) = Ok cels) as (cels & ->);
    [|cbn [rbind]; eexists; reflexivity].
  unfold validate_cels. apply rfold_total_each. intros [k r] Hin acc. cbn [fst snd].
  apply In_zelements_inv in Hin. destruct Hin as (Hk & _).
  destruct (validate_row_total_ts h p tss r 0 ltac:(lia)) as (r' & ->); [|cbn [rbind]; eexists; reflexivity].
  intros j c Hj. rewrite Z.add_0_l. eapply Hcels; [exact Hk|exact Hj].
Qed.

(* ------------------------------------------------------------------ *)
(* 2. programs with tiles that load *)

(* the tileset a program ends up with under id k: the last tileset chunk with that id *)
Definition final_tileset (s : sprite_prog) (k : Z) : option (tileset rawpixels) :=
  find (fun t => ts_id t =? k) (rev (prog_tilesets s)).

Definition cel_prog_ok_ts (s : sprite_prog) (c : cel rawpixels) : Prop :=
  match c_content c with
  | CRaw _ _ rp => forall bg, exists px, validate_pixels (prog_palette s) (prog_fmt s) bg rp = Ok px
  | CLinked other =>
      0 <= other < zlen (sp_frames s) /\
      exists c', cel_at (prog_cels s) other (cc_layer (c_data c)) = Some c' /\ is_linked c' = false
  | CTilemap tm =>
      exists l0, nthz (prog_layers s) (cc_layer (c_data c)) = Some l0 /\ l_type l0 = 2 /\
                 forall mx, arr_max (arr_to_list (tm_tiles tm)) None = Some mx ->
                            exists t, final_tileset s (l_tileset l0) = Some t /\ mx < ts_count t
  end.

Definition sprite_ok_ts (s : sprite_prog) : Prop :=
  events_ok (hf_frames (sp_header s)) [] (events_of s) /\
  (forall k t, final_tileset s k = Some t -> exists ts, validate_tileset (prog_palette s) (prog_fmt s) t = Ok ts) /\
  (forall l, In l (prog_layers s) -> l_type l = 2 -> exists t, final_tileset s (l_tileset l) = Some t) /\
  (exists ps, compute_parents (prog_layers s) = Ok ps) /\
  (forall fr c, In (fr, c) (prog_cels s) -> cel_prog_ok_ts s c).

Lemma find_id_some (ts : list (tileset rawpixels)) k t : find (fun t => ts_id t =? k) ts = Some t -> ts_id t = k /\ In t ts.
Proof. intros H. apply find_some in H. destruct H as (Hin & E). apply Z.eqb_eq in E. split; assumption. Qed.

Section TotalTs.
Variable inflate : list Z -> Z -> zres.

Lemma final_tileset_id s k t : final_tileset s k = Some t -> ts_id t = k /\ In t (prog_tilesets s).
Proof. intros H. apply find_id_some in H. destruct H as (E & Hin). split; [exact E|]. apply in_rev. exact Hin. Qed.

(* the assembled tileset map of a program = its final tilesets *)
Lemma assembled_tilesets s p :
  wf_prog s ->
  rfold step (events_of s) (pinfo_new (hf_frames (sp_header s)) (hf_default_time (sp_header s))) = Ok p ->
  forall k, 0 <= k -> zfind k (pi_tilesets p) = final_tileset s k.
Proof.
  intros Hwf Hf k Hk. rewrite (EndToEndTilesets.rfold_tilesets _ _ _ Hf). unfold events_of. rewrite frames_events_ts.
  fold (prog_tilesets s). rewrite zfind_fold_bind_ts by (try exact Hk; apply (ids_nonneg s Hwf)).
  cbn [pinfo_new pi_tilesets]. unfold final_tileset.
  destruct (find (fun t => ts_id t =? k) (rev (prog_tilesets s))) as [t|]; [reflexivity|].
  apply PaletteProofs.zfind_zempty.
Qed.

Theorem load_serialize_total_ts s tail :
  wf_prog s -> inflate_ok inflate s -> sprite_ok_ts s ->
  exists f, load inflate (serialize s ++ tail) = Ok f.
Proof.
  intros Hwf Hz (Hev & Hts & Hlt & Hpar & Hcels).
  rewrite load_serialize by assumption.
  pose proof (events_of_wf s Hwf) as Hw.
  pose proof (assembled_tilesets s) as Hasm.
  set (n := hf_frames (sp_header s)) in *. set (d := hf_default_time (sp_header s)) in *.
  destruct (fold_total n d (events_of s) Hw Hev) as (p & Hf). rewrite Hf. cbn [rbind].
  specialize (Hasm p Hwf Hf).
  destruct (Inv_final n d _ p Hw Hf) as ((WL & _) & _).
  destruct (rfold_shape _ _ _ Hf) as (Hlay & _). cbn [pinfo_new] in Hlay.
  change (layers_of (pinfo_new n d)) with (@nil layer) in Hlay. cbn [map app] in Hlay.
  rewrite prog_layers_events in Hlay.
  assert (zlen (layers_of p) = zlen (prog_layers s)) as Hnl
    by (rewrite <- (zlen_map layer_erase (layers_of p)), Hlay; apply zlen_map).
  assert (pi_nlayers p = zlen (prog_layers s)) as Hnl' by (rewrite WL, <- Hnl; unfold layers_of; symmetry; apply zlen_rev).
  pose proof (rfold_nframes _ _ _ Hf) as Hnf. cbn [pinfo_new pi_nframes] in Hnf.
  assert (n = zlen (sp_frames s)) as Hn by (destruct Hwf as (_ & _ & E & _); exact E).
  pose proof (rfold_pal _ _ _ Hf) as Hpal. cbn [pinfo_new pi_palette] in Hpal.
  assert (pi_palette p = prog_palette s) as Hpal'
    by (rewrite Hpal; unfold events_of, prog_palette; apply (frames_events_pal (prog_fmt s) (sp_frames s) 0 None)).
  pose proof (cel_of_history n d _ p Hw Hf) as Hcel. rewrite prog_cels_events in Hcel.
  (* a layer of the assembled state and the program's layer at the same place agree up to user data *)
  assert (forall j l, nthz (layers_of p) j = Some l ->
            exists l0, nthz (prog_layers s) j = Some l0 /\ l_type l0 = l_type l /\ l_tileset l0 = l_tileset l) as Hnth.
  { intros j l Hj. pose proof (f_equal (fun x => nthz x j) Hlay) as E. cbn beta in E. rewrite !nthz_map, Hj in E.
    cbn [option_map] in E. destruct (nthz (prog_layers s) j) as [l0|]; [|discriminate]. cbn [option_map] in E.
    injection E as E. exists l0. split; [reflexivity|].
    split; congruence. }
  apply validate_total_ts.
  - rewrite (compute_parents_erased _ _ Hlay). exact Hpar.
  - intros k t Hk. rewrite Hpal'. apply (Hts k). rewrite <- Hasm; [exact Hk|].
    unfold zfind in Hk. destruct (k <? 0) eqn:E; [discriminate|lia].
  - intros tss Htss.
    assert (forall k t, final_tileset s k = Some t -> exists ts, zfind k tss = Some ts /\ ts_count ts = ts_count t) as Hfin.
    { intros k t Hk. destruct (final_tileset_id _ _ _ Hk) as (Eid & Hin).
      assert (0 <= k) as Hk0 by (rewrite <- Eid; apply (ids_nonneg s Hwf); exact Hin).
      pose proof (validate_tilesets_find _ _ _ _ Htss k Hk0) as Hfind. rewrite (Hasm k Hk0), Hk in Hfind.
      destruct Hfind as (ts & Hv & Hz'). exists ts. split; [exact Hz'|].
      apply validate_tileset_attrs in Hv. apply Hv. }
    split.
    + intros l Hl Hty. apply In_nthz in Hl. destruct Hl as (j & _ & Hj).
      destruct (Hnth j l Hj) as (l0 & Hj0 & Ety & Ets).
      destruct (Hlt l0 (nthz_In _ _ _ Hj0) ltac:(congruence)) as (t & Ht).
      destruct (Hfin _ _ Ht) as (ts & Hz' & _). exists ts. rewrite <- Ets. exact Hz'.
    + intros fr r Hr j c Hj.
      assert (cel_of p fr j = Some c) as Hc by (unfold cel_of, cel_slot, get_row; rewrite Hr, Hj; reflexivity).
      pose proof (Hcel fr j) as H1. rewrite Hc in H1. cbn [option_map] in H1.
      unfold cel_at in H1. destruct (find (cel_match fr j) (prog_cels s)) as [[fr0 c0]|] eqn:Efind; [|discriminate].
      cbn [option_map snd] in H1. apply cel_erase_content in H1. destruct H1 as (Hcont & _).
      apply find_some in Efind. destruct Efind as (Hin & Hm). unfold cel_match in Hm. cbn [fst snd] in Hm.
      apply andb_prop in Hm. destruct Hm as (M1 & M2). apply Z.eqb_eq in M1. apply Z.eqb_eq in M2. subst fr0.
      pose proof (Hcels fr c0 Hin) as Hok. unfold cel_prog_ok_ts in Hok. unfold cel_valid_ts. rewrite Hcont.
      assert (0 <= j < zlen (prog_layers s)) as Hjl.
      { rewrite <- M2, <- prog_layers_events. apply (cel_layer_declared n (events_of s) fr c0 Hev).
        rewrite prog_cels_events. exact Hin. }
      destruct (c_content c0) as [w hh rp|other|tm].
      * split; [lia|]. rewrite Hpal'. exact Hok.
      * destruct Hok as (Ho & c' & Hc' & Hnl0). split; [lia|]. split; [lia|].
        pose proof (Hcel other j) as H2. rewrite M2 in Hc'. unfold cel_at in Hc' |- *.
        unfold cel_at in H2. destruct (find (cel_match other j) (prog_cels s)) as [[fr1 c1]|]; [|discriminate].
        cbn [option_map snd] in Hc', H2. injection Hc' as ->.
        destruct (cel_of p other j) as [c2|]; [|discriminate]. cbn [option_map] in H2.
        apply cel_erase_content in H2. destruct H2 as (Hcont2 & _).
        exists c2. split; [reflexivity|]. unfold is_linked in *. rewrite Hcont2. exact Hnl0.
      * destruct Hok as (l0 & Hl0 & Hty & Hmx). rewrite M2 in Hl0.
        destruct (nthz_in_range (layers_of p) j ltac:(lia)) as (l & Hl).
        destruct (Hnth j l Hl) as (l0' & Hl0' & Ety & Ets). rewrite Hl0 in Hl0'. injection Hl0' as <-.
        exists l. split; [exact Hl|]. split; [congruence|].
        intros mx Emx. destruct (Hmx mx Emx) as (t & Ht & Hlt').
        destruct (Hfin _ _ Ht) as (ts & Hz' & Ecnt). unfold tile_count_of. rewrite <- Ets, Hz', Ecnt. exact Hlt'.
Qed.

End TotalTs.

(* sprite_ok (no tiles at all) is a special case *)
Lemma no_tileset_events_prog s : wf_prog s -> Forall ev_no_tileset (events_of s) -> prog_tilesets s = [].
Proof.
  intros Hwf H.
  assert (forall m, fold_left ev_ts_step (events_of s) m = m) as Hid.
  { induction (events_of s) as [|e t IH]; intros m; [reflexivity|]. inversion H as [|? ? H1 H2]; subst.
    cbn [fold_left]. rewrite (IH H2). destruct e as [l|fr c|sl|ts|o|o|u]; try reflexivity. destruct o; try reflexivity. contradiction. }
  specialize (Hid zempty). unfold events_of in Hid. rewrite frames_events_ts in Hid. fold (prog_tilesets s) in Hid.
  destruct (rev (prog_tilesets s)) as [|t0 r0] eqn:E.
  - apply (f_equal (@rev _)) in E. rewrite rev_involutive in E. exact E.
  - exfalso.
    assert (In t0 (prog_tilesets s)) as Hin by (apply in_rev; rewrite E; left; reflexivity).
    pose proof (ids_nonneg s Hwf t0 Hin) as Hk.
    pose proof (zfind_fold_bind_ts (prog_tilesets s) zempty (ts_id t0) Hk (ids_nonneg s Hwf)) as Hz.
    rewrite Hid, E in Hz. cbn [find] in Hz. rewrite Z.eqb_refl in Hz. rewrite PaletteProofs.zfind_zempty in Hz. discriminate.
Qed.

Theorem sprite_ok_is_sprite_ok_ts s : wf_prog s -> sprite_ok s -> sprite_ok_ts s.
Proof.
  intros Hwf (Hev & Hnt & Hty & Hpar & Hcels).
  pose proof (no_tileset_events_prog s Hwf Hnt) as Hno.
  split; [exact Hev|]. split; [|split; [|split; [exact Hpar|]]].
  - intros k t Hk. unfold final_tileset in Hk. rewrite Hno in Hk. discriminate.
  - intros l Hl E. exfalso. exact (Hty l Hl E).
  - intros fr c Hin. specialize (Hcels fr c Hin). unfold cel_prog_ok in Hcels. unfold cel_prog_ok_ts.
    destruct (c_content c); [exact Hcels|exact Hcels|contradiction].
Qed.

(* ------------------------------------------------------------------ *)
(* THE HEADLINE, tiles included: such a program loads, and the loaded sprite reports what the program encodes - the facts
   of e2e_headline, the content of every cel, and for every id the last tileset chunk with that id *)
Theorem e2e_headline_ts (inflate : list Z -> Z -> zres) s tail :
  wf_prog s -> inflate_ok inflate s -> sprite_ok_ts s ->
  exists f,
    load inflate (serialize s ++ tail) = Ok f /\
    f_width f = hf_width (sp_header s) /\ f_height f = hf_height (sp_header s) /\
    f_nframes f = zlen (sp_frames s) /\ header_fmt (sp_header s) = Some (f_fmt f) /\
    (forall i fr, nthz (sp_frames s) i = Some fr -> frame_duration f i = Ok (fp_duration fr)) /\
    arr_to_list (f_layers f)
      = mapi (fun i l => layer_with_ud l (window (rev (events_of s)) (EntLayer i))) (prog_layers s) /\
    f_tags f = mapi (fun i t => tag_with_ud t (window (rev (events_of s)) (EntTag i))) (prog_tags s) /\
    f_slices f = mapi (fun i sl => slice_with_ud sl (window (rev (events_of s)) (EntSlice i))) (prog_slices s) /\
    f_ext f = fold_left bind_ext (prog_ext s) zempty /\
    f_palette f = prog_palette s /\
    (forall fr l,
       match cel_at (prog_cels s) fr l with
       | Some c => exists c', fcel_of f fr l = Some c' /\ c_data c' = c_data c /\
                              c_ud c' = window (rev (events_of s)) (EntCel fr l) /\
                              match c_content c with
                              | CRaw w h rp => exists lay px, aget (f_layers f) l = Some lay /\
                                                 validate_pixels (f_palette f) (f_fmt f) (layer_is_background lay) rp = Ok px /\
                                                 c_content c' = CRaw w h px
                              | CLinked o => c_content c' = CLinked o
                              | CTilemap tm => c_content c' = CTilemap tm
                              end
       | None => fcel_of f fr l = None
       end) /\
    (forall k, 0 <= k ->
       match final_tileset s k with
       | Some t => exists ts, validate_tileset (f_palette f) (f_fmt f) t = Ok ts /\ zfind k (f_tilesets f) = Some ts
       | None => zfind k (f_tilesets f) = None
       end).
Proof.
  intros Hwf Hz Hok. destruct (load_serialize_total_ts inflate s tail Hwf Hz Hok) as (f & Hf).
  exists f. split; [exact Hf|].
  destruct (e2e_canvas inflate s tail f Hwf Hz Hf) as (C1 & C2 & C3 & C4).
  split; [exact C1|]. split; [exact C2|]. split; [exact C3|]. split; [exact C4|].
  split; [exact (e2e_durations inflate s tail f Hwf Hz Hf)|].
  split; [exact (e2e_layers_in_order inflate s tail f Hwf Hz Hf)|].
  split; [exact (e2e_tags_in_order inflate s tail f Hwf Hz Hf)|].
  split; [exact (e2e_slices_in_order inflate s tail f Hwf Hz Hf)|].
  split; [exact (e2e_external inflate s tail f Hwf Hz Hf)|].
  split; [exact (e2e_palette inflate s tail f Hwf Hz Hf)|].
  split; [|exact (e2e_tilesets inflate s tail f Hwf Hz Hf)].
  intros fr l. pose proof (e2e_cels inflate s tail f Hwf Hz Hf fr l) as H1.
  destruct (cel_at (prog_cels s) fr l) as [c|] eqn:E; [|exact H1].
  destruct H1 as (c' & Hc' & Hd & Hu).
  destruct (EndToEndCels.e2e_cel_content inflate s tail f Hwf Hz Hf fr l c E) as (c2 & Hc2 & Hcont).
  rewrite Hc' in Hc2. injection Hc2 as <-.
  exists c'. split; [exact Hc'|]. split; [exact Hd|]. split; [exact Hu|exact Hcont].
Qed.

(* ------------------------------------------------------------------ *)
(* non-vacuity: the tileset example of Proofs/EndToEndTilesets.v (two tileset chunks for id 7, a tilemap layer, a
   tilemap cel with tile ids 2 and 1) satisfies the conditions, and therefore loads *)
Import TilesetExample.

Example ts_sprite_ok_ts : sprite_ok_ts ts_prog.
Proof.
  split; [|split; [|split; [|split]]].
  - wf_go.
  - intros k t Hk. apply final_tileset_id in Hk. destruct Hk as (_ & Hin). vm_compute in Hin.
    destruct Hin as [<-|[<-|[]]]; eexists; vm_compute; reflexivity.
  - intros l Hl Hty. vm_compute in Hl. destruct Hl as [<-|[]]. eexists. vm_compute. reflexivity.
  - eexists. vm_compute. reflexivity.
  - intros fr c Hin. vm_compute in Hin. destruct Hin as [[= <- <-]|[]].
    unfold cel_prog_ok_ts. cbn [c_content c_data cc_layer].
    eexists. split; [vm_compute; reflexivity|]. split; [reflexivity|].
    intros mx Hmx. vm_compute in Hmx. injection Hmx as <-. eexists. split; [vm_compute; reflexivity|]. vm_compute. reflexivity.
Qed.

Example ts_loads_by_theorem tail : exists f, load ex_inflate (serialize ts_prog ++ tail) = Ok f.
Proof. exact (load_serialize_total_ts ex_inflate ts_prog tail ts_wf ts_inflate_ok ts_sprite_ok_ts). Qed.
