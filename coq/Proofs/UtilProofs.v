(* C18: extrude_border, PaletteMapper, to_indexed_image (Model/Util.v). *)
From Ase Require Import Base.Prelude Model.Api Model.Util Proofs.ArrLemmas.

Definition clamp (v lo hi : Z) : Z := Z.max lo (Z.min v hi).

(* ------------------------------------------------------------------ *)
(* slices and uniform flat_map *)

Lemma nthz_slice {A} (l : list A) from len i : 0 <= from -> 0 <= i < len ->
  nthz (slice l from len) i = nthz l (from + i).
Proof.
  intros Hf Hi. unfold slice. rewrite nthz_firstn by lia. rewrite nthz_skipn by lia. f_equal. lia.
Qed.

Lemma zlen_slice {A} (l : list A) from len : 0 <= from -> 0 <= len -> from + len <= zlen l ->
  zlen (slice l from len) = len.
Proof.
  intros Hf Hl Hle. unfold slice, zlen in *. rewrite firstn_length, skipn_length. lia.
Qed.

Lemma zlen_flat_map_uniform {A B} (g : A -> list B) n : forall rows,
  (forall r, In r rows -> zlen (g r) = n) -> zlen (flat_map g rows) = zlen rows * n.
Proof.
  induction rows as [|r rows IH]; intros H; cbn [flat_map].
  - rewrite !zlen_nil. reflexivity.
  - rewrite zlen_app, zlen_cons. rewrite IH by (intros r0 Hr0; apply H; right; exact Hr0).
    rewrite (H r) by (left; reflexivity). ring.
Qed.

Lemma nthz_flat_map_uniform {A B} (g : A -> list B) n : forall rows y x,
  (forall r, In r rows -> zlen (g r) = n) -> 0 <= y -> 0 <= x < n ->
  nthz (flat_map g rows) (y * n + x) = match nthz rows y with Some r => nthz (g r) x | None => None end.
Proof.
  induction rows as [|r rows IH]; intros y x H Hy Hx; cbn [flat_map].
  - assert (E : nthz (@nil A) y = None) by (apply nthz_none; right; rewrite zlen_nil; exact Hy).
    rewrite E. apply nthz_none. right. rewrite zlen_nil. pose proof (Z.mul_nonneg_nonneg y n). lia.
  - assert (Hr : zlen (g r) = n) by (apply H; left; reflexivity).
    destruct (Z.eq_dec y 0) as [->|Hne].
    + rewrite nthz_cons_0, Z.mul_0_l, Z.add_0_l. apply nthz_app_l. lia.
    + assert (Hy' : 0 <= y - 1) by lia.
      pose proof (Z.mul_nonneg_nonneg (y - 1) n Hy' ltac:(lia)) as Hm.
      replace (y * n + x) with ((y - 1) * n + x + n) by ring.
      rewrite nthz_app_r by lia. rewrite Hr. replace ((y - 1) * n + x + n - n) with ((y - 1) * n + x) by lia.
      rewrite IH; [|intros r0 Hr0; apply H; right; exact Hr0|exact Hy'|exact Hx].
      rewrite (nthz_cons_pos r rows y) by lia. reflexivity.
Qed.

(* ------------------------------------------------------------------ *)
(* extrude_border *)

Section Extrude.
Variable img : rimg.
Let w := uw img.
Let h := uh img.
Hypothesis Hw : 1 <= w.
Hypothesis Hh : 1 <= h.
Hypothesis Hlen : zlen (upx img) = w * h.

Let rowf (r : Z) : list pixel :=
  slice (upx img) (r * w) 1 ++ slice (upx img) (r * w) w ++ slice (upx img) (r * w + w - 1) 1.
Let rows : list Z := [0] ++ ziota h ++ [h - 1].

Lemma row_bounds r : 0 <= r < h -> 0 <= r * w /\ r * w + w <= w * h.
Proof.
  intros Hr. split; [apply Z.mul_nonneg_nonneg; lia|].
  replace (r * w + w) with ((r + 1) * w) by ring. rewrite (Z.mul_comm w h).
  apply Z.mul_le_mono_nonneg_r; lia.
Qed.

Lemma rowf_len r : 0 <= r < h -> zlen (rowf r) = w + 2.
Proof.
  intros Hr. destruct (row_bounds r Hr) as [H0 H1]. unfold rowf.
  rewrite !zlen_app, !zlen_slice by lia. lia.
Qed.

Lemma rowf_nth r x : 0 <= r < h -> 0 <= x < w + 2 ->
  nthz (rowf r) x = nthz (upx img) (r * w + clamp (x - 1) 0 (w - 1)).
Proof.
  intros Hr Hx. destruct (row_bounds r Hr) as [H0 H1]. unfold rowf, clamp.
  assert (L1 : zlen (slice (upx img) (r * w) 1) = 1) by (apply zlen_slice; lia).
  assert (L2 : zlen (slice (upx img) (r * w) w) = w) by (apply zlen_slice; lia).
  destruct (Z.eq_dec x 0) as [->|Hx0].
  - rewrite nthz_app_l by lia. rewrite nthz_slice by lia. f_equal. lia.
  - rewrite nthz_app_r by lia. rewrite L1. destruct (Z_lt_le_dec (x - 1) w) as [Hlt|Hge].
    + rewrite nthz_app_l by lia. rewrite nthz_slice by lia. f_equal. lia.
    + rewrite nthz_app_r by lia. rewrite L2. rewrite nthz_slice by lia. f_equal. lia.
Qed.

Lemma rows_in r : In r rows -> 0 <= r < h.
Proof.
  unfold rows. rewrite !in_app_iff. cbn [In]. rewrite in_ziota. lia.
Qed.

Lemma rows_len : zlen rows = h + 2.
Proof. unfold rows. rewrite !zlen_app, zlen_ziota by lia. rewrite !zlen_cons, zlen_nil. lia. Qed.

Lemma rows_nth y : 0 <= y < h + 2 -> nthz rows y = Some (clamp (y - 1) 0 (h - 1)).
Proof.
  intros Hy. unfold rows, clamp. destruct (Z.eq_dec y 0) as [->|Hy0].
  - cbn [app]. rewrite nthz_cons_0. f_equal. lia.
  - cbn [app]. rewrite nthz_cons_pos by lia. destruct (Z_lt_le_dec (y - 1) h) as [Hlt|Hge].
    + rewrite nthz_app_l by (rewrite zlen_ziota; lia). rewrite nthz_ziota by lia. f_equal. lia.
    + rewrite nthz_app_r by (rewrite zlen_ziota; lia). rewrite zlen_ziota by lia.
      replace (y - 1 - h) with 0 by lia. rewrite nthz_cons_0. f_equal. lia.
Qed.

Theorem extrude_spec_sec :
  exists r, extrude_border img = Some r /\ uw r = w + 2 /\ uh r = h + 2 /\
    zlen (upx r) = (w + 2) * (h + 2) /\
    forall x y, 0 <= x < w + 2 -> 0 <= y < h + 2 ->
      nthz (upx r) (y * (w + 2) + x) =
      nthz (upx img) (clamp (y - 1) 0 (h - 1) * w + clamp (x - 1) 0 (w - 1)).
Proof.
  unfold extrude_border. fold w h.
  destruct (Z.ltb_spec h 1) as [H1|_]; [lia|]. destruct (Z.ltb_spec w 1) as [H2|_]; [lia|]. cbn [orb].
  rewrite Hlen, Z.eqb_refl. cbn [negb].
  eexists. split; [reflexivity|]. cbn [uw uh upx]. split; [reflexivity|]. split; [reflexivity|].
  change (flat_map _ ([0] ++ ziota h ++ [h - 1])) with (flat_map rowf rows).
  assert (Huni : forall r, In r rows -> zlen (rowf r) = w + 2).
  { intros r Hr. apply rowf_len. apply rows_in. exact Hr. }
  split.
  - rewrite (zlen_flat_map_uniform rowf (w + 2) rows Huni), rows_len. ring.
  - intros x y Hx Hy. rewrite (nthz_flat_map_uniform rowf (w + 2) rows y x Huni) by lia.
    rewrite rows_nth by exact Hy. apply rowf_nth; [|exact Hx]. unfold clamp. lia.
Qed.
End Extrude.

Theorem extrude_spec img : 1 <= uw img -> 1 <= uh img -> zlen (upx img) = uw img * uh img ->
  exists r, extrude_border img = Some r /\ uw r = uw img + 2 /\ uh r = uh img + 2 /\
    zlen (upx r) = (uw img + 2) * (uh img + 2) /\
    forall x y, 0 <= x < uw img + 2 -> 0 <= y < uh img + 2 ->
      nthz (upx r) (y * (uw img + 2) + x) =
      nthz (upx img) (clamp (y - 1) 0 (uh img - 1) * uw img + clamp (x - 1) 0 (uw img - 1)).
Proof. intros Hw Hh Hlen. exact (extrude_spec_sec img Hw Hh Hlen). Qed.

(* the clamped source index is inside the input image *)
Lemma clamp_index_in_range w h x y : 1 <= w -> 1 <= h ->
  0 <= clamp (y - 1) 0 (h - 1) * w + clamp (x - 1) 0 (w - 1) < w * h.
Proof.
  intros Hw Hh. unfold clamp.
  assert (Hy : 0 <= Z.max 0 (Z.min (y - 1) (h - 1)) <= h - 1) by lia.
  assert (Hx : 0 <= Z.max 0 (Z.min (x - 1) (w - 1)) <= w - 1) by lia.
  revert Hy Hx. generalize (Z.max 0 (Z.min (y - 1) (h - 1))) as cy. generalize (Z.max 0 (Z.min (x - 1) (w - 1))) as cx.
  intros cx cy Hy Hx. split.
  - pose proof (Z.mul_nonneg_nonneg cy w). lia.
  - assert (Hm : (cy + 1) * w <= h * w) by (apply Z.mul_le_mono_nonneg_r; lia).
    replace ((cy + 1) * w) with (cy * w + w) in Hm by ring. rewrite (Z.mul_comm w h). lia.
Qed.

(* corollaries of extrude_spec and the failure branch *)
(* the failure branch, exactly: a degenerate size or a buffer of the wrong length *)
Theorem extrude_none_iff img :
  extrude_border img = None <-> (uw img < 1 \/ uh img < 1 \/ zlen (upx img) <> uw img * uh img).
Proof.
  unfold extrude_border.
  destruct (Z.ltb_spec (uh img) 1) as [H1|H1]; cbn [orb]; [split; [lia|reflexivity]|].
  destruct (Z.ltb_spec (uw img) 1) as [H2|H2]; [split; [lia|reflexivity]|].
  destruct (Z.eqb_spec (zlen (upx img)) (uw img * uh img)) as [H3|H3]; cbn [negb].
  - split; [discriminate|lia].
  - split; [lia|reflexivity].
Qed.

(* the interior of the result is the input, unchanged *)
Theorem extrude_interior img : 1 <= uw img -> 1 <= uh img -> zlen (upx img) = uw img * uh img ->
  exists r, extrude_border img = Some r /\
    forall x y, 0 <= x < uw img -> 0 <= y < uh img ->
      nthz (upx r) ((y + 1) * (uw img + 2) + (x + 1)) = nthz (upx img) (y * uw img + x).
Proof.
  intros Hw Hh Hlen. destruct (extrude_spec img Hw Hh Hlen) as (r & Hr & _ & _ & _ & Hpx).
  exists r. split; [exact Hr|]. intros x y Hx Hy. rewrite Hpx by lia.
  replace (clamp (y + 1 - 1) 0 (uh img - 1)) with y by (unfold clamp; lia).
  replace (clamp (x + 1 - 1) 0 (uw img - 1)) with x by (unfold clamp; lia). reflexivity.
Qed.

(* the one-pixel border repeats the neighbouring row / column of the result *)
Theorem extrude_edges img : 1 <= uw img -> 1 <= uh img -> zlen (upx img) = uw img * uh img ->
  exists r, extrude_border img = Some r /\
    (forall x, 0 <= x < uw img + 2 ->
       nthz (upx r) (0 * (uw img + 2) + x) = nthz (upx r) (1 * (uw img + 2) + x)) /\
    (forall x, 0 <= x < uw img + 2 ->
       nthz (upx r) ((uh img + 1) * (uw img + 2) + x) = nthz (upx r) (uh img * (uw img + 2) + x)) /\
    (forall y, 0 <= y < uh img + 2 ->
       nthz (upx r) (y * (uw img + 2) + 0) = nthz (upx r) (y * (uw img + 2) + 1)) /\
    (forall y, 0 <= y < uh img + 2 ->
       nthz (upx r) (y * (uw img + 2) + (uw img + 1)) = nthz (upx r) (y * (uw img + 2) + uw img)).
Proof.
  intros Hw Hh Hlen. destruct (extrude_spec img Hw Hh Hlen) as (r & Hr & _ & _ & _ & Hpx).
  exists r. split; [exact Hr|]. repeat split.
  - intros x Hx. rewrite !Hpx by lia. f_equal. f_equal. f_equal. unfold clamp. lia.
  - intros x Hx. rewrite !Hpx by lia. f_equal. f_equal. f_equal. unfold clamp. lia.
  - intros y Hy. rewrite !Hpx by lia. f_equal. f_equal. unfold clamp. lia.
  - intros y Hy. rewrite !Hpx by lia. f_equal. f_equal. unfold clamp. lia.
Qed.

(* every pixel of the result is a pixel of the input: no colour is invented *)
Theorem extrude_pixels_from_input img : 1 <= uw img -> 1 <= uh img -> zlen (upx img) = uw img * uh img ->
  exists r, extrude_border img = Some r /\
    forall x y, 0 <= x < uw img + 2 -> 0 <= y < uh img + 2 ->
      exists i, 0 <= i < uw img * uh img /\ nthz (upx r) (y * (uw img + 2) + x) = nthz (upx img) i.
Proof.
  intros Hw Hh Hlen. destruct (extrude_spec img Hw Hh Hlen) as (r & Hr & _ & _ & _ & Hpx).
  exists r. split; [exact Hr|]. intros x y Hx Hy. eexists. split; [|apply Hpx; assumption].
  apply clamp_index_in_range; assumption.
Qed.

(* ------------------------------------------------------------------ *)
(* PaletteMapper *)

Lemma zfind_zadd {A} k k' (v : A) m : 0 <= k -> 0 <= k' ->
  zfind k (zadd k' v m) = if k =? k' then Some v else zfind k m.
Proof.
  intros Hk Hk'. unfold zfind, zadd. destruct (Z.ltb_spec k 0) as [H|_]; [lia|].
  rewrite PositiveMapAdditionalFacts.gsspec. destruct (PositiveMap.E.eq_dec (akey k) (akey k')) as [E|E].
  - apply akey_inj in E; [|lia|lia]. subst k'. rewrite Z.eqb_refl. reflexivity.
  - destruct (Z.eqb_spec k k') as [->|_]; [contradiction|reflexivity].
Qed.

Lemma zfind_zempty {A} k : zfind k (@zempty A) = None.
Proof. unfold zfind, zempty. destruct (k <? 0); [reflexivity|apply PositiveMap.gempty]. Qed.

Definition entry_bytes (e : Z * pixel) : Prop :=
  let '(_, (r, g, b, _)) := e in is_byte r /\ is_byte g /\ is_byte b.

Definition has_rgb (r g b : Z) (e : Z * pixel) : bool :=
  let '(_, (r', g', b', _)) := e in (r' =? r) && (g' =? g) && (b' =? b).

Lemma rgbkey_nonneg r g b : is_byte r -> is_byte g -> is_byte b -> 0 <= rgbkey r g b.
Proof. unfold is_byte, rgbkey. lia. Qed.

Lemma rgbkey_inj r g b r' g' b' : is_byte r -> is_byte g -> is_byte b -> is_byte r' -> is_byte g' -> is_byte b' ->
  rgbkey r g b = rgbkey r' g' b' -> r = r' /\ g = g' /\ b = b'.
Proof. unfold is_byte, rgbkey. lia. Qed.

Definition mstep (failure : Z) (m : zmap Z) (e : Z * pixel) : zmap Z :=
  let '(idx, (r, g, b, _)) := e in zadd (rgbkey r g b) (if idx <? 256 then idx else failure) m.

Lemma mapper_new_map entries failure transparent :
  m_map (mapper_new entries failure transparent) = fold_left (mstep failure) entries zempty.
Proof. reflexivity. Qed.

(* the map holds, for a colour, the (capped) index of the LAST entry with that colour in insertion order *)
Lemma mapper_find_spec failure r g b : is_byte r -> is_byte g -> is_byte b ->
  forall entries, Forall entry_bytes entries ->
  zfind (rgbkey r g b) (fold_left (mstep failure) entries zempty) =
  match find (has_rgb r g b) (rev entries) with
  | Some (idx, _) => Some (if idx <? 256 then idx else failure)
  | None => None
  end.
Proof.
  intros Hr Hg Hb. induction entries as [|e l IH] using rev_ind; intros Hall.
  - cbn [fold_left rev find]. apply zfind_zempty.
  - apply Forall_app in Hall as [Hl He]. inversion He as [|e0 l0 Heb _]; subst.
    rewrite fold_left_app, rev_app_distr. cbn [fold_left rev app find].
    destruct e as [idx [[[r' g'] b'] a']]. cbn [mstep has_rgb]. destruct Heb as (Hr' & Hg' & Hb').
    rewrite zfind_zadd by (apply rgbkey_nonneg; assumption).
    destruct (Z.eqb_spec (rgbkey r g b) (rgbkey r' g' b')) as [E|E].
    + apply rgbkey_inj in E as (-> & -> & ->); try assumption. rewrite !Z.eqb_refl. reflexivity.
    + destruct (Z.eqb_spec r' r) as [->|]; cbn [andb]; [|apply IH; exact Hl].
      destruct (Z.eqb_spec g' g) as [->|]; cbn [andb]; [|apply IH; exact Hl].
      destruct (Z.eqb_spec b' b) as [->|]; cbn [andb]; [|apply IH; exact Hl]. contradiction.
Qed.

Theorem lookup_transparent entries failure transparent r g b a : a <> 255 ->
  mapper_lookup (mapper_new entries failure transparent) r g b a =
  match transparent with Some t => t | None => failure end.
Proof.
  intros Ha. unfold mapper_lookup. destruct (Z.eqb_spec a 255) as [E|_]; [contradiction|]. reflexivity.
Qed.

Theorem lookup_absent entries failure transparent r g b :
  Forall entry_bytes entries -> is_byte r -> is_byte g -> is_byte b ->
  (forall idx a', ~ In (idx, (r, g, b, a')) entries) ->
  mapper_lookup (mapper_new entries failure transparent) r g b 255 = failure.
Proof.
  intros Hall Hr Hg Hb Habs. unfold mapper_lookup. cbn [Z.eqb Pos.eqb negb]. rewrite mapper_new_map.
  rewrite mapper_find_spec by assumption.
  destruct (find (has_rgb r g b) (rev entries)) as [[idx [[[r' g'] b'] a']]|] eqn:Ef; [|reflexivity].
  exfalso. apply find_some in Ef as [Hin Hm]. apply in_rev in Hin. cbn [has_rgb] in Hm.
  apply andb_prop in Hm as [Hm Hb']. apply andb_prop in Hm as [Hr' Hg'].
  apply Z.eqb_eq in Hr', Hg', Hb'. subst. exact (Habs _ _ Hin).
Qed.

Theorem lookup_present entries failure transparent r g b :
  Forall entry_bytes entries -> is_byte r -> is_byte g -> is_byte b ->
  (exists idx a', In (idx, (r, g, b, a')) entries) ->
  (forall idx a', In (idx, (r, g, b, a')) entries -> idx < 256) ->
  exists i a', mapper_lookup (mapper_new entries failure transparent) r g b 255 = i /\
               In (i, (r, g, b, a')) entries.
Proof.
  intros Hall Hr Hg Hb (idx0 & a0 & Hin0) Hsmall. unfold mapper_lookup. cbn [Z.eqb Pos.eqb negb].
  rewrite mapper_new_map. rewrite mapper_find_spec by assumption.
  destruct (find (has_rgb r g b) (rev entries)) as [[idx [[[r' g'] b'] a']]|] eqn:Ef.
  - apply find_some in Ef as [Hin Hm]. apply in_rev in Hin. cbn [has_rgb] in Hm.
    apply andb_prop in Hm as [Hm Hb']. apply andb_prop in Hm as [Hr' Hg'].
    apply Z.eqb_eq in Hr', Hg', Hb'. subst. pose proof (Hsmall _ _ Hin) as Hlt.
    destruct (Z.ltb_spec idx 256) as [_|Hge]; [|lia]. exists idx, a'. split; [reflexivity|exact Hin].
  - exfalso. apply in_rev in Hin0. pose proof (find_none _ _ Ef _ Hin0) as Hm.
    cbn [has_rgb] in Hm. rewrite !Z.eqb_refl in Hm. discriminate.
Qed.

(* exact form: the last entry with that colour decides *)
Theorem lookup_last entries failure transparent r g b :
  Forall entry_bytes entries -> is_byte r -> is_byte g -> is_byte b ->
  mapper_lookup (mapper_new entries failure transparent) r g b 255 =
  match find (has_rgb r g b) (rev entries) with
  | Some (idx, _) => if idx <? 256 then idx else failure
  | None => failure
  end.
Proof.
  intros Hall Hr Hg Hb. unfold mapper_lookup. cbn [Z.eqb Pos.eqb negb]. rewrite mapper_new_map.
  rewrite mapper_find_spec by assumption.
  destruct (find (has_rgb r g b) (rev entries)) as [[idx p]|]; reflexivity.
Qed.

(* ------------------------------------------------------------------ *)
(* to_indexed_image *)

Definition lookup_pixel (m : mapper) (p : pixel) : Z :=
  let '(r, g, b, a) := p in mapper_lookup m r g b a.

Theorem to_indexed_spec img m :
  fst (to_indexed img m) = (uw img, uh img) /\
  snd (to_indexed img m) = map (lookup_pixel m) (upx img) /\
  zlen (snd (to_indexed img m)) = zlen (upx img) /\
  forall x y, nthz (snd (to_indexed img m)) (y * uw img + x) =
              option_map (lookup_pixel m) (nthz (upx img) (y * uw img + x)).
Proof.
  unfold to_indexed. cbn [fst snd]. split; [reflexivity|]. split; [reflexivity|]. split.
  - apply zlen_map.
  - intros x y. apply nthz_map.
Qed.

(* ------------------------------------------------------------------ *)
(* examples *)

(* a 2 x 3 image with pixels numbered 1..6 in the red channel *)
Definition ex_px (n : Z) : pixel := (n, 0, 0, 255).
Definition ex_img : rimg := {| uw := 2; uh := 3; upx := map ex_px [1; 2; 3; 4; 5; 6] |}.
Example extrude_example :
  extrude_border ex_img =
  Some {| uw := 4; uh := 5;
          upx := map ex_px [1; 1; 2; 2;
                            1; 1; 2; 2;
                            3; 3; 4; 4;
                            5; 5; 6; 6;
                            5; 5; 6; 6] |}.
Proof. vm_compute. reflexivity. Qed.

Example extrude_degenerate : extrude_border {| uw := 0; uh := 3; upx := [] |} = None.
Proof. vm_compute. reflexivity. Qed.

(* a palette with a duplicate colour (indices 1 and 3) and an index >= 256 *)
Definition ex_entries : list (Z * pixel) :=
  [(0, (0, 0, 0, 255)); (1, (10, 20, 30, 255)); (3, (10, 20, 30, 255)); (300, (7, 7, 7, 255)); (2, (9, 9, 9, 255))].
Example lookup_example :
  let m := mapper_new ex_entries 99 (Some 77) in
  mapper_lookup m 0 0 0 255 = 0 /\
  mapper_lookup m 10 20 30 255 = 3 /\           (* one of the two occurrences *)
  mapper_lookup m 7 7 7 255 = 99 /\             (* only occurrence at an index >= 256: failure *)
  mapper_lookup m 1 2 3 255 = 99 /\             (* absent: failure *)
  mapper_lookup m 10 20 30 254 = 77 /\          (* not opaque: transparent index *)
  mapper_lookup (mapper_new ex_entries 99 None) 10 20 30 0 = 99 /\
  mapper_lookup (mapper_new (rev ex_entries) 99 None) 10 20 30 255 = 1.   (* other insertion order *)
Proof. vm_compute. repeat split; reflexivity. Qed.

Example to_indexed_example :
  to_indexed {| uw := 2; uh := 3;
                upx := [(0, 0, 0, 255); (10, 20, 30, 255); (7, 7, 7, 255); (1, 2, 3, 255); (9, 9, 9, 255); (9, 9, 9, 0)] |}
             (mapper_new ex_entries 99 (Some 77))
  = ((2, 3), [0; 3; 99; 99; 2; 77]).
Proof. vm_compute. reflexivity. Qed.
