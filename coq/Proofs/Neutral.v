(* C07: encoding choices that the format declares equivalent do not change the result.
   One section per choice: bytes after the last frame, ignorable chunks, the colour-profile
   chunk, bytes at the end of a chunk, unused fields, the pixel ratio, the two chunk-count
   fields of a frame header, raw versus compressed cels, a legacy palette beside a new one,
   the order of cel chunks.  Each theorem compares two encodings that differ in that choice
   only.  Encoders and well-formedness predicates: Spec/EncodeChunks.v. *)
From Ase Require Import Model.Validate Spec.EncodeChunks Spec.Framing.
From Ase Require Import Proofs.ITLemmas Proofs.Truncation Proofs.Factor Proofs.RoundTrip Proofs.PaletteProofs.

(* ------------------------------------------------------------------ *)
(* generic *)

(* a decoder that stops before the end of its buffer does not see what follows *)
Lemma run_payload_app {A} (t : IT A) data a tail :
  run_payload t data = Ok a -> run_payload t (data ++ tail) = Ok a.
Proof.
  unfold run_payload. destruct (run t data) as [[a0 rest]|e|s] eqn:R; try discriminate.
  intros [= <-]. rewrite (run_app t data a0 rest tail R). reflexivity.
Qed.

Lemma run_payload_app_panic {A} (t : IT A) data s tail :
  run_payload t data = Panic s -> run_payload t (data ++ tail) = Panic s.
Proof.
  unfold run_payload. destruct (run t data) as [[a0 rest]|e|s0] eqn:R; try discriminate.
  intros [= <-]. rewrite (run_app_panic t data s0 tail R). reflexivity.
Qed.

(* an element on which the step function is the identity can be inserted anywhere *)
Lemma rfold_insert_neutral {A B} (f : B -> A -> res B) (x : A) :
  (forall b, f b x = Ok b) ->
  forall pre post b, rfold f (pre ++ x :: post) b = rfold f (pre ++ post) b.
Proof.
  intros Hx pre post b. rewrite !Factor.rfold_app.
  destruct (rfold f pre b) as [b1|e|s]; cbn [rbind rfold]; [|reflexivity|reflexivity].
  rewrite Hx. reflexivity.
Qed.

(* two elements with the same step function are interchangeable *)
Lemma rfold_replace {A B} (f : B -> A -> res B) (x y : A) :
  (forall b, f b x = f b y) ->
  forall pre post b, rfold f (pre ++ x :: post) b = rfold f (pre ++ y :: post) b.
Proof.
  intros Hxy pre post b. rewrite !Factor.rfold_app.
  destruct (rfold f pre b) as [b1|e|s]; cbn [rbind rfold]; [|reflexivity|reflexivity].
  rewrite Hxy. reflexivity.
Qed.

(* ------------------------------------------------------------------ *)
(* 1. bytes after the last frame *)

Section Trailer.
Variable inflate : list Z -> Z -> zres.

Theorem trailer_neutral bs f rest tail1 tail2 :
  load_rest inflate bs = Ok (f, rest) ->
  load inflate (firstn (length bs - length rest) bs ++ tail1)
  = load inflate (firstn (length bs - length rest) bs ++ tail2).
Proof.
  intros H. rewrite (load_extension inflate bs f rest H tail1), (load_extension inflate bs f rest H tail2).
  reflexivity.
Qed.

(* the same without reference to a longer file: whatever follows a file that loads with
   nothing left over *)
Corollary trailer_neutral_exact bs f tail1 tail2 :
  load_rest inflate bs = Ok (f, []) ->
  load inflate (bs ++ tail1) = Ok f /\ load inflate (bs ++ tail2) = Ok f.
Proof.
  intros H. pose proof (load_extension inflate bs f [] H) as E.
  cbn [length] in E. rewrite Nat.sub_0_r, firstn_all in E. split; apply E.
Qed.
End Trailer.

(* ------------------------------------------------------------------ *)
(* 2. chunks on which the dispatcher is the identity: insertion anywhere, in any frame *)

Section NeutralChunks.
Variable inflate : list Z -> Z -> zres.

Definition neutral_chunk (ch : rawchunk) : Prop :=
  forall fmt fid p, process_chunk inflate fmt fid p ch = Ok p.

Lemma neutral_rfold fmt fid ch pre post p :
  neutral_chunk ch ->
  rfold (process_chunk inflate fmt fid) (pre ++ ch :: post) p
  = rfold (process_chunk inflate fmt fid) (pre ++ post) p.
Proof. intros H. apply rfold_insert_neutral. intros b. apply H. Qed.

Lemma neutral_assemble_frame fmt st dur ch pre post :
  neutral_chunk ch ->
  assemble_frame inflate fmt st (dur, pre ++ ch :: post) = assemble_frame inflate fmt st (dur, pre ++ post).
Proof.
  intros H. destruct st as [p fid]. unfold assemble_frame.
  rewrite (neutral_rfold fmt fid ch pre post _ H). reflexivity.
Qed.

Theorem neutral_assemble fmt n d ch fpre fpost dur pre post :
  neutral_chunk ch ->
  assemble inflate fmt n d (fpre ++ (dur, pre ++ ch :: post) :: fpost)
  = assemble inflate fmt n d (fpre ++ (dur, pre ++ post) :: fpost).
Proof.
  intros H. unfold assemble. f_equal. apply rfold_replace. intros st.
  apply neutral_assemble_frame. exact H.
Qed.

(* chunks with the same effect on every state are interchangeable in any frame *)
Theorem equivalent_assemble fmt n d ch1 ch2 fpre fpost dur pre post :
  (forall fid p, process_chunk inflate fmt fid p ch1 = process_chunk inflate fmt fid p ch2) ->
  assemble inflate fmt n d (fpre ++ (dur, pre ++ ch1 :: post) :: fpost)
  = assemble inflate fmt n d (fpre ++ (dur, pre ++ ch2 :: post) :: fpost).
Proof.
  intros H. unfold assemble. f_equal. apply rfold_replace. intros [p fid].
  unfold assemble_frame. rewrite (rfold_replace _ ch1 ch2); [reflexivity|].
  intros b. apply H.
Qed.

(* cel extra (0x2006), mask (0x2016), path (0x2017): never decoded *)
Definition ignorable_type (ty : Z) : Prop := ty = 8198 \/ ty = 8214 \/ ty = 8215.

Lemma process_ignorable fmt fid p ty data :
  ignorable_type ty -> process_chunk inflate fmt fid p (ty, data) = Ok p.
Proof. intros [-> | [-> | ->]]; reflexivity. Qed.

Lemma ignorable_neutral ty data : ignorable_type ty -> neutral_chunk (ty, data).
Proof. intros H fmt fid p. apply process_ignorable. exact H. Qed.

Theorem ignorable_rfold fmt fid ty data pre post p :
  ignorable_type ty ->
  rfold (process_chunk inflate fmt fid) (pre ++ (ty, data) :: post) p
  = rfold (process_chunk inflate fmt fid) (pre ++ post) p.
Proof. intros H. apply neutral_rfold, ignorable_neutral, H. Qed.

Theorem ignorable_assemble fmt n d ty data fpre fpost dur pre post :
  ignorable_type ty ->
  assemble inflate fmt n d (fpre ++ (dur, pre ++ (ty, data) :: post) :: fpost)
  = assemble inflate fmt n d (fpre ++ (dur, pre ++ post) :: fpost).
Proof. intros H. apply neutral_assemble, ignorable_neutral, H. Qed.

(* colour profile (0x2007) of type none or sRGB without fixed gamma *)
Lemma color_profile_neutral ty flags gamma rsv t :
  wf_color_profile ty flags -> junk 4 gamma -> junk 8 rsv ->
  neutral_chunk (8199, enc_color_profile ty flags gamma rsv ++ t).
Proof. intros H Hg Hr fmt fid p. apply process_enc_color_profile; assumption. Qed.

Theorem color_profile_rfold fmt fid ty flags gamma rsv t pre post p :
  wf_color_profile ty flags -> junk 4 gamma -> junk 8 rsv ->
  rfold (process_chunk inflate fmt fid) (pre ++ (8199, enc_color_profile ty flags gamma rsv ++ t) :: post) p
  = rfold (process_chunk inflate fmt fid) (pre ++ post) p.
Proof. intros H Hg Hr. apply neutral_rfold, color_profile_neutral; assumption. Qed.

Theorem color_profile_assemble fmt n d ty flags gamma rsv t fpre fpost dur pre post :
  wf_color_profile ty flags -> junk 4 gamma -> junk 8 rsv ->
  assemble inflate fmt n d (fpre ++ (dur, pre ++ (8199, enc_color_profile ty flags gamma rsv ++ t) :: post) :: fpost)
  = assemble inflate fmt n d (fpre ++ (dur, pre ++ post) :: fpost).
Proof. intros H Hg Hr. apply neutral_assemble, color_profile_neutral; assumption. Qed.

End NeutralChunks.

(* ------------------------------------------------------------------ *)
(* from assembly to the loader: two files whose framing differs only in ways that assembly
   does not see load as the same sprite *)

Section LoadByFraming.
Variable inflate : list Z -> Z -> zres.

Theorem load_by_framing bs1 bs2 rh fr1 fr2 rest1 rest2 :
  run framing bs1 = Ok ((rh, fr1), rest1) ->
  run framing bs2 = Ok ((rh, fr2), rest2) ->
  (forall fmt, assemble inflate fmt (rh_frames rh) (rh_default_time rh) fr1
               = assemble inflate fmt (rh_frames rh) (rh_default_time rh) fr2) ->
  forall f, load inflate bs1 = Ok f <-> load inflate bs2 = Ok f.
Proof.
  intros H1 H2 Ha f. split; intros L; apply load_factor in L;
    destruct L as (rh' & frames & fmt & p & rest & Hf & Hpf & Hasm & Hv); apply load_factor.
  - rewrite H1 in Hf. injection Hf as <- <- <-.
    exists rh, fr2, fmt, p, rest2. repeat split; try assumption. rewrite <- Ha. exact Hasm.
  - rewrite H2 in Hf. injection Hf as <- <- <-.
    exists rh, fr1, fmt, p, rest1. repeat split; try assumption. rewrite Ha. exact Hasm.
Qed.

(* an ignorable chunk more or less, anywhere in any frame *)
Theorem ignorable_load bs1 bs2 rh rest1 rest2 ty data fpre fpost dur pre post :
  ignorable_type ty ->
  run framing bs1 = Ok ((rh, fpre ++ (dur, pre ++ (ty, data) :: post) :: fpost), rest1) ->
  run framing bs2 = Ok ((rh, fpre ++ (dur, pre ++ post) :: fpost), rest2) ->
  forall f, load inflate bs1 = Ok f <-> load inflate bs2 = Ok f.
Proof.
  intros Hty H1 H2. apply (load_by_framing _ _ _ _ _ _ _ H1 H2).
  intros fmt. apply ignorable_assemble. exact Hty.
Qed.

Theorem color_profile_load bs1 bs2 rh rest1 rest2 ty flags gamma rsv t fpre fpost dur pre post :
  wf_color_profile ty flags -> junk 4 gamma -> junk 8 rsv ->
  run framing bs1
  = Ok ((rh, fpre ++ (dur, pre ++ (8199, enc_color_profile ty flags gamma rsv ++ t) :: post) :: fpost), rest1) ->
  run framing bs2 = Ok ((rh, fpre ++ (dur, pre ++ post) :: fpost), rest2) ->
  forall f, load inflate bs1 = Ok f <-> load inflate bs2 = Ok f.
Proof.
  intros Hw Hg Hr H1 H2. apply (load_by_framing _ _ _ _ _ _ _ H1 H2).
  intros fmt. apply color_profile_assemble; assumption.
Qed.
End LoadByFraming.

(* ------------------------------------------------------------------ *)
(* 3. bytes at the end of a chunk, after what its decoder reads *)

Section ChunkTail.
Variable inflate : list Z -> Z -> zres.

(* what is assumed of the decompressor (flate2 behaves like this; it is not part of the
   model): a stream that decodes still decodes, to the same bytes, when more bytes follow *)
Definition inflate_ignores_tail : Prop :=
  forall z t n out, inflate z n = ZOk out -> inflate (z ++ t) n = ZOk out.

Lemma take_bytes_app rest tail n out :
  take_bytes rest n = Ok out -> take_bytes (rest ++ tail) n = Ok out.
Proof.
  unfold take_bytes. rewrite zlen_app.
  destruct (Z.ltb_spec (zlen rest) n) as [Hlt|Hge]; [discriminate|].
  intros [= <-].
  destruct (Z.ltb_spec (zlen rest + zlen tail) n) as [Hlt2|_].
  - pose proof (zlen_nonneg tail). lia.
  - rewrite firstn_app.
    replace (Z.to_nat n - length rest)%nat with 0%nat by (unfold zlen in Hge; lia).
    cbn [firstn]. now rewrite app_nil_r.
Qed.

Lemma unzip_app rest tail n out :
  inflate_ignores_tail -> unzip inflate rest n = Ok out -> unzip inflate (rest ++ tail) n = Ok out.
Proof.
  intros Hinf. unfold unzip.
  destruct (inflate rest (n + 1)) as [o|k] eqn:I; [|discriminate].
  rewrite (Hinf rest tail (n + 1) o I). intros H. exact H.
Qed.

Lemma dec_tilemap_app rest tail tm :
  inflate_ignores_tail ->
  dec_tilemap inflate rest = Ok tm -> dec_tilemap inflate (rest ++ tail) = Ok tm.
Proof.
  intros Hinf. unfold dec_tilemap.
  destruct (run dec_tilemap_hdr rest) as [[[[w h] idmask] rest']|e|s] eqn:R; cbn [rbind]; try discriminate.
  rewrite (run_app dec_tilemap_hdr rest _ rest' tail R). cbn [rbind].
  destruct (unzip inflate rest' (4 * (w * h))) as [bytes|e|s] eqn:U; cbn [rbind]; try discriminate.
  rewrite (unzip_app rest' tail _ bytes Hinf U). cbn [rbind]. intros H. exact H.
Qed.

(* the cel type stored in a cel chunk *)
Definition cel_type_of (buf : list Z) : option Z :=
  match run dec_cel_hdr buf with Ok ((_, ct), _) => Some ct | _ => None end.

(* raw and linked cels: unconditionally *)
Theorem dec_cel_tail_uncompressed fmt data tail c ct :
  cel_type_of data = Some ct -> ct <> 2 -> ct <> 3 ->
  dec_cel inflate fmt data = Ok c -> dec_cel inflate fmt (data ++ tail) = Ok c.
Proof.
  unfold cel_type_of, dec_cel.
  destruct (run dec_cel_hdr data) as [[[common cel_type] rest]|e|s] eqn:R; try discriminate.
  intros [= ->] H2 H3.
  rewrite (run_app dec_cel_hdr data _ rest tail R). cbn [rbind].
  destruct (Z.eqb_spec ct 0) as [E0|N0].
  { destruct (run dec_size rest) as [[[w h] rest']|e|s] eqn:S; cbn [rbind]; try discriminate.
    rewrite (run_app dec_size rest _ rest' tail S). cbn [rbind].
    destruct (take_bytes rest' (bytes_per_pixel fmt * (w * h))) as [bytes|e|s] eqn:T; cbn [rbind]; try discriminate.
    rewrite (take_bytes_app rest' tail _ bytes T). cbn [rbind]. intros H. exact H. }
  destruct (Z.eqb_spec ct 1) as [E1|N1].
  { destruct (run word rest) as [[f r]|e|s] eqn:W; cbn [rbind]; try discriminate.
    rewrite (run_app word rest f r tail W). cbn [rbind]. intros H. exact H. }
  destruct (Z.eqb_spec ct 2) as [E2|_]; [contradiction|].
  destruct (Z.eqb_spec ct 3) as [E3|_]; [contradiction|].
  intros H. exact H.
Qed.

(* every cel type, given the behaviour of the decompressor *)
Theorem dec_cel_tail fmt data tail c :
  inflate_ignores_tail ->
  dec_cel inflate fmt data = Ok c -> dec_cel inflate fmt (data ++ tail) = Ok c.
Proof.
  intros Hinf. unfold dec_cel.
  destruct (run dec_cel_hdr data) as [[[common ct] rest]|e|s] eqn:R; cbn [rbind]; try discriminate.
  rewrite (run_app dec_cel_hdr data _ rest tail R). cbn [rbind].
  destruct (Z.eqb_spec ct 0) as [E0|N0].
  { destruct (run dec_size rest) as [[[w h] rest']|e|s] eqn:S; cbn [rbind]; try discriminate.
    rewrite (run_app dec_size rest _ rest' tail S). cbn [rbind].
    destruct (take_bytes rest' (bytes_per_pixel fmt * (w * h))) as [bytes|e|s] eqn:T; cbn [rbind]; try discriminate.
    rewrite (take_bytes_app rest' tail _ bytes T). cbn [rbind]. intros H. exact H. }
  destruct (Z.eqb_spec ct 1) as [E1|N1].
  { destruct (run word rest) as [[f r]|e|s] eqn:W; cbn [rbind]; try discriminate.
    rewrite (run_app word rest f r tail W). cbn [rbind]. intros H. exact H. }
  destruct (Z.eqb_spec ct 2) as [E2|N2].
  { destruct (run dec_size rest) as [[[w h] rest']|e|s] eqn:S; cbn [rbind]; try discriminate.
    rewrite (run_app dec_size rest _ rest' tail S). cbn [rbind].
    destruct (unzip inflate rest' (bytes_per_pixel fmt * (w * h))) as [bytes|e|s] eqn:U; cbn [rbind]; try discriminate.
    rewrite (unzip_app rest' tail _ bytes Hinf U). cbn [rbind]. intros H. exact H. }
  destruct (Z.eqb_spec ct 3) as [E3|N3].
  { destruct (dec_tilemap inflate rest) as [tm|e|s] eqn:T; cbn [rbind]; try discriminate.
    rewrite (dec_tilemap_app rest tail tm Hinf T). cbn [rbind]. intros H. exact H. }
  intros H. exact H.
Qed.

Theorem dec_tileset_tail fmt data tail ts :
  inflate_ignores_tail ->
  dec_tileset inflate fmt data = Ok ts -> dec_tileset inflate fmt (data ++ tail) = Ok ts.
Proof.
  intros Hinf. unfold dec_tileset.
  destruct (run dec_tileset_hdr data) as [[[t has_pixels] rest]|e|s] eqn:R; cbn [rbind]; try discriminate.
  rewrite (run_app dec_tileset_hdr data _ rest tail R). cbn [rbind].
  destruct (negb has_pixels); [intros H; exact H|].
  destruct (4294967296 <=? ts_count t * ts_h t * ts_w t); [intros H; exact H|].
  destruct (unzip inflate rest _) as [bytes|e|s] eqn:U; cbn [rbind]; try discriminate.
  rewrite (unzip_app rest tail _ bytes Hinf U). cbn [rbind]. intros H. exact H.
Qed.

(* a tileset without embedded tiles: unconditionally *)
Theorem dec_tileset_tail_nopixels fmt data tail t0 rest ts :
  run dec_tileset_hdr data = Ok ((t0, false), rest) ->
  dec_tileset inflate fmt data = Ok ts -> dec_tileset inflate fmt (data ++ tail) = Ok ts.
Proof.
  intros R. unfold dec_tileset. rewrite (run_app dec_tileset_hdr data _ rest tail R), R.
  cbn [rbind negb]. intros H. exact H.
Qed.

Ltac payload_case dec data tail :=
  let a := fresh "a" in let e := fresh "e" in let s := fresh "s" in let D := fresh "D" in
  destruct (run_payload dec data) as [a|e|s] eqn:D; cbn [rbind]; try discriminate;
  rewrite (run_payload_app dec data a tail D); cbn [rbind]; intros H; exact H.

(* chunk kinds that never call the decompressor: every kind but cel and tileset *)
Theorem process_chunk_tail_plain fmt fid p ty data tail p' :
  ty <> 8197 -> ty <> 8227 ->
  process_chunk inflate fmt fid p (ty, data) = Ok p' ->
  process_chunk inflate fmt fid p (ty, data ++ tail) = Ok p'.
Proof.
  intros Hc Ht. unfold process_chunk.
  destruct (ty =? 8199); [payload_case dec_color_profile data tail|].
  destruct (ty =? 8217); [payload_case dec_palette data tail|].
  destruct (ty =? 8196); [payload_case dec_layer data tail|].
  destruct (Z.eqb_spec ty 8197) as [E|_]; [contradiction|].
  destruct (ty =? 8200); [payload_case dec_external data tail|].
  destruct (ty =? 8216); [payload_case dec_tags data tail|].
  destruct (ty =? 8226); [payload_case dec_slice data tail|].
  destruct (ty =? 8224); [payload_case dec_userdata data tail|].
  destruct ((ty =? 4) || (ty =? 17)).
  { destruct (pi_palette (with_ctx p (Some UOldPalette))); [intros H; exact H|].
    payload_case (dec_old_palette (ty =? 17)) data tail. }
  destruct (Z.eqb_spec ty 8227) as [E|_]; [contradiction|].
  intros H; exact H.
Qed.

(* every chunk kind *)
Theorem process_chunk_tail fmt fid p ty data tail p' :
  inflate_ignores_tail ->
  process_chunk inflate fmt fid p (ty, data) = Ok p' ->
  process_chunk inflate fmt fid p (ty, data ++ tail) = Ok p'.
Proof.
  intros Hinf.
  destruct (Z.eq_dec ty 8197) as [->|Hc].
  { unfold process_chunk. cbn [Z.eqb Pos.eqb].
    destruct (dec_cel inflate fmt data) as [c|e|s] eqn:D; cbn [rbind]; try discriminate.
    rewrite (dec_cel_tail fmt data tail c Hinf D). cbn [rbind]. intros H; exact H. }
  destruct (Z.eq_dec ty 8227) as [->|Ht].
  { unfold process_chunk. cbn [Z.eqb Pos.eqb orb].
    destruct (dec_tileset inflate fmt data) as [t|e|s] eqn:D; cbn [rbind]; try discriminate.
    rewrite (dec_tileset_tail fmt data tail t Hinf D). cbn [rbind]. intros H; exact H. }
  apply process_chunk_tail_plain; assumption.
Qed.

(* a raw or linked cel chunk: unconditionally *)
Theorem process_cel_tail_uncompressed fmt fid p data tail ct p' :
  cel_type_of data = Some ct -> ct <> 2 -> ct <> 3 ->
  process_chunk inflate fmt fid p (8197, data) = Ok p' ->
  process_chunk inflate fmt fid p (8197, data ++ tail) = Ok p'.
Proof.
  intros Hct H2 H3. unfold process_chunk. cbn [Z.eqb Pos.eqb].
  destruct (dec_cel inflate fmt data) as [c|e|s] eqn:D; cbn [rbind]; try discriminate.
  rewrite (dec_cel_tail_uncompressed fmt data tail c ct Hct H2 H3 D). cbn [rbind]. intros H; exact H.
Qed.

(* lifted: in a frame's chunk list, and in a file's frames *)
Theorem chunk_tail_rfold fmt fid ty data tail pre post p p' :
  inflate_ignores_tail ->
  rfold (process_chunk inflate fmt fid) (pre ++ (ty, data) :: post) p = Ok p' ->
  rfold (process_chunk inflate fmt fid) (pre ++ (ty, data ++ tail) :: post) p = Ok p'.
Proof.
  intros Hinf. rewrite !Factor.rfold_app.
  destruct (rfold (process_chunk inflate fmt fid) pre p) as [p1|e|s]; cbn [rbind rfold]; try discriminate.
  destruct (process_chunk inflate fmt fid p1 (ty, data)) as [p2|e|s] eqn:P; cbn [rbind]; try discriminate.
  rewrite (process_chunk_tail fmt fid p1 ty data tail p2 Hinf P). cbn [rbind]. intros H; exact H.
Qed.

Theorem chunk_tail_assemble fmt n d ty data tail fpre fpost dur pre post p :
  inflate_ignores_tail ->
  assemble inflate fmt n d (fpre ++ (dur, pre ++ (ty, data) :: post) :: fpost) = Ok p ->
  assemble inflate fmt n d (fpre ++ (dur, pre ++ (ty, data ++ tail) :: post) :: fpost) = Ok p.
Proof.
  intros Hinf. unfold assemble. rewrite !Factor.rfold_app.
  destruct (rfold (assemble_frame inflate fmt) fpre (pinfo_new n d, 0)) as [[p1 fid]|e|s];
    cbn [rbind rfold rmap]; try discriminate.
  unfold assemble_frame at 1 3.
  destruct (rfold (process_chunk inflate fmt fid) (pre ++ (ty, data) :: post) _) as [p2|e|s] eqn:F;
    cbn [rbind]; try discriminate.
  rewrite (chunk_tail_rfold fmt fid ty data tail pre post _ p2 Hinf F). cbn [rbind]. intros H; exact H.
Qed.

End ChunkTail.

(* ------------------------------------------------------------------ *)
(* 4. unused fields: two encodings of the same value that differ in the reserved bytes, in the
   unused bits of a flags field, in an ignored field (and in what follows the payload inside
   the chunk) decode alike *)

Lemma pal_fold_fst (e1 : list (palentry * Z)) : forall e2 st,
  map fst e1 = map fst e2 -> fold_left pal_step e1 st = fold_left pal_step e2 st.
Proof.
  induction e1 as [|a e1 IH]; intros [|b e2] st Hm; cbn [map] in Hm; try discriminate; [reflexivity|].
  injection Hm as Hab Hrest. cbn [fold_left].
  replace (pal_step st b) with (pal_step st a) by (unfold pal_step, seq_step; now rewrite Hab).
  apply IH. exact Hrest.
Qed.

(* the flags word of a palette entry is not part of the palette *)
Lemma palette_of_fst first e1 e2 : map fst e1 = map fst e2 -> palette_of first e1 = palette_of first e2.
Proof. intros H. unfold palette_of. now rewrite (pal_fold_fst e1 e2 _ H). Qed.

Section UnusedFields.
Variable inflate : list Z -> Z -> zres.

(* layer: flag bits 7..15, default width and height, 3 reserved bytes *)
Theorem layer_junk l fw1 fw2 d1 d2 r1 r2 t1 t2 :
  wf_layer l fw1 -> wf_layer l fw2 -> junk 4 d1 -> junk 4 d2 -> junk 3 r1 -> junk 3 r2 ->
  run_payload dec_layer (enc_layer l fw1 d1 r1 ++ t1) = run_payload dec_layer (enc_layer l fw2 d2 r2 ++ t2).
Proof. intros W1 W2 D1 D2 R1 R2. rewrite !payload_layer by assumption. reflexivity. Qed.

Theorem process_layer_junk fmt fid p l fw1 fw2 d1 d2 r1 r2 t1 t2 :
  wf_layer l fw1 -> wf_layer l fw2 -> junk 4 d1 -> junk 4 d2 -> junk 3 r1 -> junk 3 r2 ->
  process_chunk inflate fmt fid p (8196, enc_layer l fw1 d1 r1 ++ t1)
  = process_chunk inflate fmt fid p (8196, enc_layer l fw2 d2 r2 ++ t2).
Proof. intros W1 W2 D1 D2 R1 R2. rewrite !process_enc_layer by assumption. reflexivity. Qed.

(* tags: 8 reserved bytes in the chunk; per tag 6 reserved bytes and the 4-byte colour *)
Theorem tags_junk ts1 ts2 r1 r2 t1 t2 :
  wf_tags ts1 -> wf_tags ts2 -> map fst ts1 = map fst ts2 -> junk 8 r1 -> junk 8 r2 ->
  run_payload dec_tags (enc_tags ts1 r1 ++ t1) = run_payload dec_tags (enc_tags ts2 r2 ++ t2).
Proof. intros W1 W2 Hm R1 R2. rewrite !payload_tags by assumption. now rewrite Hm. Qed.

Theorem process_tags_junk fmt fid p ts1 ts2 r1 r2 t1 t2 :
  wf_tags ts1 -> wf_tags ts2 -> map fst ts1 = map fst ts2 -> junk 8 r1 -> junk 8 r2 ->
  process_chunk inflate fmt fid p (8216, enc_tags ts1 r1 ++ t1)
  = process_chunk inflate fmt fid p (8216, enc_tags ts2 r2 ++ t2).
Proof. intros W1 W2 Hm R1 R2. rewrite !process_enc_tags by assumption. now rewrite Hm. Qed.

(* user data: flag bits 2..31 *)
Theorem userdata_junk u f1 f2 t1 t2 :
  wf_userdata u f1 -> wf_userdata u f2 ->
  run_payload dec_userdata (enc_userdata u f1 ++ t1) = run_payload dec_userdata (enc_userdata u f2 ++ t2).
Proof. intros W1 W2. rewrite !payload_userdata by assumption. reflexivity. Qed.

Theorem process_userdata_junk fmt fid p u f1 f2 t1 t2 :
  wf_userdata u f1 -> wf_userdata u f2 ->
  process_chunk inflate fmt fid p (8224, enc_userdata u f1 ++ t1)
  = process_chunk inflate fmt fid p (8224, enc_userdata u f2 ++ t2).
Proof. intros W1 W2. rewrite !process_enc_userdata by assumption. reflexivity. Qed.

(* slice: flag bits 2..31, 4 reserved bytes *)
Theorem slice_junk s f1 f2 r1 r2 t1 t2 :
  wf_slice s f1 -> wf_slice s f2 -> junk 4 r1 -> junk 4 r2 ->
  run_payload dec_slice (enc_slice s f1 r1 ++ t1) = run_payload dec_slice (enc_slice s f2 r2 ++ t2).
Proof. intros W1 W2 R1 R2. rewrite !payload_slice by assumption. reflexivity. Qed.

Theorem process_slice_junk fmt fid p s f1 f2 r1 r2 t1 t2 :
  wf_slice s f1 -> wf_slice s f2 -> junk 4 r1 -> junk 4 r2 ->
  process_chunk inflate fmt fid p (8226, enc_slice s f1 r1 ++ t1)
  = process_chunk inflate fmt fid p (8226, enc_slice s f2 r2 ++ t2).
Proof. intros W1 W2 R1 R2. rewrite !process_enc_slice by assumption. reflexivity. Qed.

(* palette: the total-size field, 8 reserved bytes, bits 1..15 of each entry's flags *)
Theorem palette_junk total1 total2 first e1 e2 r1 r2 t1 t2 :
  wf_palette first e1 -> wf_palette first e2 -> map fst e1 = map fst e2 -> junk 8 r1 -> junk 8 r2 ->
  run_payload dec_palette (enc_palette total1 first e1 r1 ++ t1)
  = run_payload dec_palette (enc_palette total2 first e2 r2 ++ t2).
Proof.
  intros W1 W2 Hm R1 R2.
  rewrite (run_payload_ok _ _ _ _ (dec_enc_palette total1 first e1 r1 t1 W1 R1)).
  rewrite (run_payload_ok _ _ _ _ (dec_enc_palette total2 first e2 r2 t2 W2 R2)).
  now rewrite (palette_of_fst first e1 e2 Hm).
Qed.

Theorem process_palette_junk fmt fid p total1 total2 first e1 e2 r1 r2 t1 t2 :
  wf_palette first e1 -> wf_palette first e2 -> map fst e1 = map fst e2 -> junk 8 r1 -> junk 8 r2 ->
  process_chunk inflate fmt fid p (8217, enc_palette total1 first e1 r1 ++ t1)
  = process_chunk inflate fmt fid p (8217, enc_palette total2 first e2 r2 ++ t2).
Proof.
  intros W1 W2 Hm R1 R2. rewrite !process_enc_palette by assumption.
  now rewrite (palette_of_fst first e1 e2 Hm).
Qed.

(* external files: 8 reserved bytes in the chunk and 8 per entry *)
Theorem external_junk es1 es2 r1 r2 t1 t2 :
  wf_external es1 -> wf_external es2 -> map fst es1 = map fst es2 -> junk 8 r1 -> junk 8 r2 ->
  run_payload dec_external (enc_external es1 r1 ++ t1) = run_payload dec_external (enc_external es2 r2 ++ t2).
Proof. intros W1 W2 Hm R1 R2. rewrite !payload_external by assumption. now rewrite Hm. Qed.

Theorem process_external_junk fmt fid p es1 es2 r1 r2 t1 t2 :
  wf_external es1 -> wf_external es2 -> map fst es1 = map fst es2 -> junk 8 r1 -> junk 8 r2 ->
  process_chunk inflate fmt fid p (8200, enc_external es1 r1 ++ t1)
  = process_chunk inflate fmt fid p (8200, enc_external es2 r2 ++ t2).
Proof. intros W1 W2 Hm R1 R2. rewrite !process_enc_external by assumption. now rewrite Hm. Qed.

(* colour profile: none or sRGB, flag bits 1..15, the gamma field, 8 reserved bytes *)
Theorem color_profile_junk ty1 ty2 f1 f2 g1 g2 r1 r2 t1 t2 :
  wf_color_profile ty1 f1 -> wf_color_profile ty2 f2 -> junk 4 g1 -> junk 4 g2 -> junk 8 r1 -> junk 8 r2 ->
  run_payload dec_color_profile (enc_color_profile ty1 f1 g1 r1 ++ t1)
  = run_payload dec_color_profile (enc_color_profile ty2 f2 g2 r2 ++ t2).
Proof.
  intros W1 W2 G1 G2 R1 R2.
  rewrite (run_payload_ok _ _ _ _ (dec_enc_color_profile ty1 f1 g1 r1 t1 W1 G1 R1)).
  rewrite (run_payload_ok _ _ _ _ (dec_enc_color_profile ty2 f2 g2 r2 t2 W2 G2 R2)).
  reflexivity.
Qed.

(* cel: the 7 reserved bytes of the head, whatever the cel type and body *)
Theorem cel_hdr_junk fmt c ct r1 r2 body :
  wf_celcommon c -> junk 7 r1 -> junk 7 r2 ->
  dec_cel inflate fmt (enc_cel_hdr c ct r1 ++ body) = dec_cel inflate fmt (enc_cel_hdr c ct r2 ++ body).
Proof. intros W R1 R2. unfold dec_cel. rewrite !dec_enc_cel_hdr by assumption. reflexivity. Qed.

Theorem process_cel_hdr_junk fmt fid p c ct r1 r2 body :
  wf_celcommon c -> junk 7 r1 -> junk 7 r2 ->
  process_chunk inflate fmt fid p (8197, enc_cel_hdr c ct r1 ++ body)
  = process_chunk inflate fmt fid p (8197, enc_cel_hdr c ct r2 ++ body).
Proof.
  intros W R1 R2. unfold process_chunk. cbn [Z.eqb Pos.eqb].
  now rewrite (cel_hdr_junk fmt c ct r1 r2 body W R1 R2).
Qed.

(* tilemap cel: the three flip masks (12 bytes) and 10 reserved bytes *)
Theorem tilemap_hdr_junk w h idmask m1 m2 r1 r2 z :
  junk 12 m1 -> junk 12 m2 -> junk 10 r1 -> junk 10 r2 ->
  dec_tilemap inflate (enc_tilemap_hdr w h idmask m1 r1 ++ z)
  = dec_tilemap inflate (enc_tilemap_hdr w h idmask m2 r2 ++ z).
Proof. intros M1 M2 R1 R2. unfold dec_tilemap. rewrite !dec_enc_tilemap_hdr by assumption. reflexivity. Qed.

Theorem cel_tilemap_junk fmt c ra1 ra2 w h idmask m1 m2 r1 r2 z :
  wf_celcommon c -> junk 7 ra1 -> junk 7 ra2 -> junk 12 m1 -> junk 12 m2 -> junk 10 r1 -> junk 10 r2 ->
  dec_cel inflate fmt (enc_cel_hdr c 3 ra1 ++ enc_tilemap_hdr w h idmask m1 r1 ++ z)
  = dec_cel inflate fmt (enc_cel_hdr c 3 ra2 ++ enc_tilemap_hdr w h idmask m2 r2 ++ z).
Proof.
  intros W A1 A2 M1 M2 R1 R2. unfold dec_cel. rewrite !dec_enc_cel_hdr by assumption.
  cbn [rbind Z.eqb Pos.eqb].
  now rewrite (tilemap_hdr_junk w h idmask m1 m2 r1 r2 z M1 M2 R1 R2).
Qed.

(* tileset: flag bits 3..31, 14 reserved bytes, the compressed-length field *)
Theorem tileset_hdr_junk ts f1 f2 r1 r2 c1 c2 t :
  wf_tileset_hdr ts f1 -> wf_tileset_hdr ts f2 -> bit f1 2 = bit f2 2 ->
  junk 14 r1 -> junk 14 r2 -> junk 4 c1 -> junk 4 c2 ->
  run dec_tileset_hdr (enc_tileset_hdr ts f1 r1 c1 ++ t) = run dec_tileset_hdr (enc_tileset_hdr ts f2 r2 c2 ++ t).
Proof.
  intros W1 W2 Hb R1 R2 C1 C2. rewrite !dec_enc_tileset_hdr by assumption. now rewrite Hb.
Qed.

Theorem tileset_junk fmt ts f1 f2 r1 r2 c1 c2 z :
  wf_tileset_hdr ts f1 -> wf_tileset_hdr ts f2 -> bit f1 2 = bit f2 2 ->
  junk 14 r1 -> junk 14 r2 -> junk 4 c1 -> junk 4 c2 ->
  dec_tileset inflate fmt (enc_tileset_hdr ts f1 r1 c1 ++ z)
  = dec_tileset inflate fmt (enc_tileset_hdr ts f2 r2 c2 ++ z).
Proof.
  intros W1 W2 Hb R1 R2 C1 C2. unfold dec_tileset.
  now rewrite (tileset_hdr_junk ts f1 f2 r1 r2 c1 c2 z W1 W2 Hb R1 R2 C1 C2).
Qed.

Theorem process_tileset_junk fmt fid p ts f1 f2 r1 r2 c1 c2 z :
  wf_tileset_hdr ts f1 -> wf_tileset_hdr ts f2 -> bit f1 2 = bit f2 2 ->
  junk 14 r1 -> junk 14 r2 -> junk 4 c1 -> junk 4 c2 ->
  process_chunk inflate fmt fid p (8227, enc_tileset_hdr ts f1 r1 c1 ++ z)
  = process_chunk inflate fmt fid p (8227, enc_tileset_hdr ts f2 r2 c2 ++ z).
Proof.
  intros W1 W2 Hb R1 R2 C1 C2. unfold process_chunk. cbn [Z.eqb Pos.eqb orb].
  now rewrite (tileset_junk fmt ts f1 f2 r1 r2 c1 c2 z W1 W2 Hb R1 R2 C1 C2).
Qed.

End UnusedFields.

(* ------------------------------------------------------------------ *)
(* 5. the file header: unused fields and the pixel ratio *)

(* the six header fields that are used *)
Definition same_header_fields (h1 h2 : hfields) : Prop :=
  hf_frames h1 = hf_frames h2 /\ hf_width h1 = hf_width h2 /\ hf_height h1 = hf_height h2 /\
  hf_depth h1 = hf_depth h2 /\ hf_default_time h1 = hf_default_time h2 /\
  hf_transparent h1 = hf_transparent h2.

Definition set_ratio (h : hfields) (a b : Z) : hfields :=
  {| hf_frames := hf_frames h; hf_width := hf_width h; hf_height := hf_height h; hf_depth := hf_depth h;
     hf_default_time := hf_default_time h; hf_transparent := hf_transparent h;
     hf_pixel_w := a; hf_pixel_h := b |}.

(* the ratios that the loader accepts: a zero component, or 1:1 *)
Definition square_ratio (a b : Z) : Prop :=
  is_byte a /\ is_byte b /\ (a = 0 \/ b = 0 \/ (a = 1 /\ b = 1)).

(* the header check on the two ratio bytes *)
Lemma ratio_check_iff pw ph :
  negb (pw =? 0) && negb (ph =? 0) && negb ((pw =? 1) && (ph =? 1)) = false
  <-> pw = 0 \/ ph = 0 \/ (pw = 1 /\ ph = 1).
Proof.
  destruct (Z.eqb_spec pw 0), (Z.eqb_spec ph 0), (Z.eqb_spec pw 1), (Z.eqb_spec ph 1);
    cbn [negb andb]; split; intros H; try reflexivity; try discriminate; lia.
Qed.

Lemma wf_header_fmt h : wf_header h -> exists fmt, header_fmt h = Some fmt.
Proof.
  intros (_ & _ & _ & Hd & _). unfold header_fmt.
  destruct Hd as [-> | [-> | ->]]; cbn [Z.eqb Pos.eqb]; eexists; reflexivity.
Qed.

Lemma wf_set_ratio h a b : wf_header h -> square_ratio a b -> wf_header (set_ratio h a b).
Proof.
  intros (H1 & H2 & H3 & H4 & H5 & H6 & _) (Ha & Hb & Hr).
  unfold wf_header, set_ratio. cbn [hf_frames hf_width hf_height hf_depth hf_default_time hf_transparent hf_pixel_w hf_pixel_h].
  repeat split; try assumption; try apply H1; try apply H2; try apply H3; try apply H5; try apply H6;
    try apply Ha; try apply Hb.
Qed.

Lemma same_fields_set_ratio h a b : same_header_fields h (set_ratio h a b).
Proof.
  unfold same_header_fields, set_ratio.
  cbn [hf_frames hf_width hf_height hf_depth hf_default_time hf_transparent]. repeat split.
Qed.

Lemma same_fields_set_ratio_both h a1 b1 a2 b2 : same_header_fields (set_ratio h a1 b1) (set_ratio h a2 b2).
Proof.
  unfold same_header_fields, set_ratio.
  cbn [hf_frames hf_width hf_height hf_depth hf_default_time hf_transparent]. repeat split.
Qed.

Section Header.
Variable inflate : list Z -> Z -> zres.

Lemma parse_frames_same h1 h2 fmt :
  same_header_fields h1 h2 -> parse_frames inflate h1 fmt = parse_frames inflate h2 fmt.
Proof.
  intros (E1 & E2 & E3 & _ & E5 & _). unfold parse_frames. rewrite E1, E2, E3, E5. reflexivity.
Qed.

Lemma header_fmt_same h1 h2 : same_header_fields h1 h2 -> header_fmt h1 = header_fmt h2.
Proof. intros (_ & _ & _ & E4 & _ & E6). unfold header_fmt. rewrite E4, E6. reflexivity. Qed.

(* file size, flags, the deprecated fields, the ignored bytes and the colour count, the grid,
   the 84 reserved bytes, and the pixel ratio (within the accepted ones) *)
Theorem header_junk_run h1 h2 a1 b1 c1 d1 g1 r1 a2 b2 c2 d2 g2 r2 t :
  wf_header h1 -> wf_header h2 -> same_header_fields h1 h2 ->
  wf_header_junk a1 b1 c1 d1 g1 r1 -> wf_header_junk a2 b2 c2 d2 g2 r2 ->
  run (parse_file inflate) (enc_header h1 a1 b1 c1 d1 g1 r1 ++ t)
  = run (parse_file inflate) (enc_header h2 a2 b2 c2 d2 g2 r2 ++ t).
Proof.
  intros W1 W2 Hs J1 J2. destruct (wf_header_fmt h1 W1) as [fmt Hf].
  pose proof Hf as Hf2. rewrite (header_fmt_same h1 h2 Hs) in Hf2.
  rewrite (dec_enc_header inflate h1 a1 b1 c1 d1 g1 r1 fmt t W1 J1 Hf).
  rewrite (dec_enc_header inflate h2 a2 b2 c2 d2 g2 r2 fmt t W2 J2 Hf2).
  now rewrite (parse_frames_same h1 h2 fmt Hs).
Qed.

Theorem header_junk_load h1 h2 a1 b1 c1 d1 g1 r1 a2 b2 c2 d2 g2 r2 t :
  wf_header h1 -> wf_header h2 -> same_header_fields h1 h2 ->
  wf_header_junk a1 b1 c1 d1 g1 r1 -> wf_header_junk a2 b2 c2 d2 g2 r2 ->
  load inflate (enc_header h1 a1 b1 c1 d1 g1 r1 ++ t) = load inflate (enc_header h2 a2 b2 c2 d2 g2 r2 ++ t).
Proof.
  intros W1 W2 Hs J1 J2. unfold load, load_rest.
  now rewrite (header_junk_run h1 h2 a1 b1 c1 d1 g1 r1 a2 b2 c2 d2 g2 r2 t W1 W2 Hs J1 J2).
Qed.

(* the pixel ratio alone: any two accepted ratios *)
Theorem pixel_ratio_load h pw1 ph1 pw2 ph2 a b c d g r t :
  wf_header h -> square_ratio pw1 ph1 -> square_ratio pw2 ph2 -> wf_header_junk a b c d g r ->
  load inflate (enc_header (set_ratio h pw1 ph1) a b c d g r ++ t)
  = load inflate (enc_header (set_ratio h pw2 ph2) a b c d g r ++ t).
Proof.
  intros W S1 S2 J. apply header_junk_load; try assumption; try (apply wf_set_ratio; assumption).
  apply same_fields_set_ratio_both.
Qed.

(* ---------------------------------------------------------------- *)
(* one frame replaced by another with the same parse, anywhere in the file: F = the bytes
   of the first j frames *)

Lemma run_times_app {A} k (f : A -> IT A) : forall a bs a' rest tail,
  run_times k f a bs = Ok (a', rest) -> run_times k f a (bs ++ tail) = Ok (a', rest ++ tail).
Proof.
  induction k as [|k IH]; intros a bs a' rest tail; cbn [run_times].
  - intros [= <- <-]. reflexivity.
  - destruct (run (f a) bs) as [[a1 r1]|e|s] eqn:R; try discriminate.
    rewrite (run_app (f a) bs a1 r1 tail R). apply IH.
Qed.

Theorem frame_subst_run h a b c d g r fmt F j st x1 x2 :
  wf_header h -> wf_header_junk a b c d g r -> header_fmt h = Some fmt ->
  run_times j (parse_frames_step inflate fmt) (pinfo_new (hf_frames h) (hf_default_time h), 0) F = Ok (st, []) ->
  (j < Z.to_nat (hf_frames h))%nat ->
  (forall p fid, run (parse_frame inflate fmt p fid) x1 = run (parse_frame inflate fmt p fid) x2) ->
  run (parse_file inflate) (enc_header h a b c d g r ++ F ++ x1)
  = run (parse_file inflate) (enc_header h a b c d g r ++ F ++ x2).
Proof.
  intros W J Hf HF Hj Hx.
  rewrite !(dec_enc_header inflate h a b c d g r fmt _ W J Hf).
  unfold parse_frames. rewrite !run_bind, !run_iterZ.
  replace (Z.to_nat (hf_frames h)) with (j + S (Z.to_nat (hf_frames h) - j - 1))%nat by lia.
  rewrite !run_times_add.
  rewrite (run_times_app j _ _ F st [] x1 HF), (run_times_app j _ _ F st [] x2 HF).
  cbn [app run_times]. destruct st as [p fid]. unfold parse_frames_step at 1 3.
  rewrite !run_bind, Hx. reflexivity.
Qed.

Theorem frame_subst_load h a b c d g r fmt F j st x1 x2 :
  wf_header h -> wf_header_junk a b c d g r -> header_fmt h = Some fmt ->
  run_times j (parse_frames_step inflate fmt) (pinfo_new (hf_frames h) (hf_default_time h), 0) F = Ok (st, []) ->
  (j < Z.to_nat (hf_frames h))%nat ->
  (forall p fid, run (parse_frame inflate fmt p fid) x1 = run (parse_frame inflate fmt p fid) x2) ->
  load inflate (enc_header h a b c d g r ++ F ++ x1) = load inflate (enc_header h a b c d g r ++ F ++ x2).
Proof.
  intros W J Hf HF Hj Hx. unfold load, load_rest.
  now rewrite (frame_subst_run h a b c d g r fmt F j st x1 x2 W J Hf HF Hj Hx).
Qed.
End Header.

(* ------------------------------------------------------------------ *)
(* 6. the two chunk-count fields of a frame header *)

(* the 16-byte frame header: size, magic, old count (WORD), duration, 2 reserved bytes,
   new count (DWORD) *)
Definition enc_frame_hdr (nbytes old_n dur : Z) (rsv : list Z) (new_n : Z) : list Z :=
  e_dword nbytes ++ e_word 61946 ++ e_word old_n ++ e_word dur ++ rsv ++ e_dword new_n.

(* what follows the frame header: n chunks *)
Definition frame_body (nbytes dur n : Z) : IT rawframe :=
  st <- iterZ n read_chunk ([], nbytes - 16) ;; Ret (dur, frev (fst st)).

Section CountField.
Variable inflate : list Z -> Z -> zres.

Definition frame_body_process (fmt : pixfmt) (p : pinfo) (fid nbytes dur n : Z) : IT pinfo :=
  if pi_nframes p <=? fid then Crash 103 else
  st <- iterZ n read_chunk ([], nbytes - 16) ;;
  lift (rfold (process_chunk inflate fmt fid) (frev (fst st)) (with_times p (zadd fid dur (pi_times p)))).

Lemma frame_chunks_enc nb old dur rsv new rest :
  junk 2 rsv ->
  run frame_chunks (enc_frame_hdr nb old dur rsv new ++ rest)
  = run (frame_body nb dur (if new =? 0 then old else new)) rest.
Proof.
  intros Hj. unfold frame_chunks, enc_frame_hdr; rewrite ?frev_eq. repeat rewrite <- app_assoc.
  rewrite run_bind, run_dword. rewrite run_bind, run_word.
  change (negb (61946 =? 61946)) with false. cbv iota.
  rewrite run_bind, run_word. rewrite run_bind, run_word.
  rewrite run_ignore_word by exact Hj.
  rewrite run_bind, run_dword. reflexivity.
Qed.

Lemma parse_frame_enc fmt p fid nb old dur rsv new rest :
  junk 2 rsv ->
  run (parse_frame inflate fmt p fid) (enc_frame_hdr nb old dur rsv new ++ rest)
  = run (frame_body_process fmt p fid nb dur (if new =? 0 then old else new)) rest.
Proof.
  intros Hj. unfold parse_frame, enc_frame_hdr; rewrite ?frev_eq. repeat rewrite <- app_assoc.
  rewrite run_bind, run_dword. rewrite run_bind, run_word.
  change (negb (61946 =? 61946)) with false. cbv iota.
  rewrite run_bind, run_word. rewrite run_bind, run_word.
  rewrite run_ignore_word by exact Hj.
  rewrite run_bind, run_dword. reflexivity.
Qed.

(* count in the old field only (new = 0), versus count in the new field with anything in the
   old one (the same number, 65535, ...); the reserved bytes are free as well *)
Theorem count_field_frame_chunks nb dur n old r1 r2 rest :
  n <> 0 -> junk 2 r1 -> junk 2 r2 ->
  run frame_chunks (enc_frame_hdr nb n dur r1 0 ++ rest)
  = run frame_chunks (enc_frame_hdr nb old dur r2 n ++ rest).
Proof.
  intros Hn J1 J2. rewrite !frame_chunks_enc by assumption.
  cbn [Z.eqb]. destruct (Z.eqb_spec n 0) as [E|_]; [contradiction|reflexivity].
Qed.

Theorem count_field_parse_frame fmt p fid nb dur n old r1 r2 rest :
  n <> 0 -> junk 2 r1 -> junk 2 r2 ->
  run (parse_frame inflate fmt p fid) (enc_frame_hdr nb n dur r1 0 ++ rest)
  = run (parse_frame inflate fmt p fid) (enc_frame_hdr nb old dur r2 n ++ rest).
Proof.
  intros Hn J1 J2. rewrite !parse_frame_enc by assumption.
  cbn [Z.eqb]. destruct (Z.eqb_spec n 0) as [E|_]; [contradiction|reflexivity].
Qed.

(* in a file: the header, j frames (F), then the frame in question and the rest *)
Theorem count_field_load h a b c d g r fmt F j st nb dur n old r1 r2 rest :
  wf_header h -> wf_header_junk a b c d g r -> header_fmt h = Some fmt ->
  run_times j (parse_frames_step inflate fmt) (pinfo_new (hf_frames h) (hf_default_time h), 0) F = Ok (st, []) ->
  (j < Z.to_nat (hf_frames h))%nat ->
  n <> 0 -> junk 2 r1 -> junk 2 r2 ->
  load inflate (enc_header h a b c d g r ++ F ++ enc_frame_hdr nb n dur r1 0 ++ rest)
  = load inflate (enc_header h a b c d g r ++ F ++ enc_frame_hdr nb old dur r2 n ++ rest).
Proof.
  intros W J Hf HF Hj Hn J1 J2.
  apply (frame_subst_load inflate h a b c d g r fmt F j st _ _ W J Hf HF Hj).
  intros p fid. apply count_field_parse_frame; assumption.
Qed.
End CountField.

(* ------------------------------------------------------------------ *)
(* 7. raw versus compressed cels; the compressed stream itself *)

Section RawVsZlib.
Variable inflate : list Z -> Z -> zres.

(* a raw cel holding `raw`, and a compressed cel whose stream inflates to `raw`: the same
   outcome (the same cel, or the same error when `raw` is not a whole number of pixels).
   Nothing is assumed of the stream but its decompressed content, so the compression level,
   the block structure, the window size do not matter. *)
Theorem raw_vs_zlib fmt c r1 r2 w h raw z t1 t2 :
  wf_celcommon c -> junk 7 r1 -> junk 7 r2 ->
  zlen raw = bytes_per_pixel fmt * (w * h) ->
  inflate (z ++ t2) (bytes_per_pixel fmt * (w * h) + 1) = ZOk raw ->
  dec_cel inflate fmt (enc_cel_raw c r1 w h raw ++ t1) = dec_cel inflate fmt (enc_cel_zimage c r2 w h z ++ t2).
Proof.
  intros W R1 R2 Hlen Hz. unfold dec_cel, enc_cel_raw, enc_cel_zimage. rewrite <- !app_assoc.
  rewrite !dec_enc_cel_hdr by assumption. cbn [rbind Z.eqb Pos.eqb].
  unfold dec_size. repeat rewrite <- app_assoc.
  rewrite !run_bind, !run_word. rewrite !run_bind, !run_word. cbn [run rbind].
  rewrite take_bytes_exact by exact Hlen.
  unfold unzip. rewrite Hz, Hlen, Z.eqb_refl. reflexivity.
Qed.

Theorem process_raw_vs_zlib fmt fid p c r1 r2 w h raw z t1 t2 :
  wf_celcommon c -> junk 7 r1 -> junk 7 r2 ->
  zlen raw = bytes_per_pixel fmt * (w * h) ->
  inflate (z ++ t2) (bytes_per_pixel fmt * (w * h) + 1) = ZOk raw ->
  process_chunk inflate fmt fid p (8197, enc_cel_raw c r1 w h raw ++ t1)
  = process_chunk inflate fmt fid p (8197, enc_cel_zimage c r2 w h z ++ t2).
Proof.
  intros W R1 R2 Hlen Hz. unfold process_chunk. cbn [Z.eqb Pos.eqb].
  now rewrite (raw_vs_zlib fmt c r1 r2 w h raw z t1 t2 W R1 R2 Hlen Hz).
Qed.

(* two streams with the same decompressed content (e.g. two compression levels) *)
Theorem zlib_stream_cel fmt c r1 r2 w h z1 z2 t1 t2 :
  wf_celcommon c -> junk 7 r1 -> junk 7 r2 ->
  inflate (z1 ++ t1) (bytes_per_pixel fmt * (w * h) + 1) = inflate (z2 ++ t2) (bytes_per_pixel fmt * (w * h) + 1) ->
  dec_cel inflate fmt (enc_cel_zimage c r1 w h z1 ++ t1) = dec_cel inflate fmt (enc_cel_zimage c r2 w h z2 ++ t2).
Proof.
  intros W R1 R2 Hz. unfold dec_cel, enc_cel_zimage. rewrite <- !app_assoc.
  rewrite !dec_enc_cel_hdr by assumption. cbn [rbind Z.eqb Pos.eqb].
  unfold dec_size. repeat rewrite <- app_assoc.
  rewrite !run_bind, !run_word. rewrite !run_bind, !run_word. cbn [run rbind].
  unfold unzip. rewrite Hz. reflexivity.
Qed.

Theorem zlib_stream_tilemap fmt c ra1 ra2 w h idmask m1 m2 r1 r2 z1 z2 :
  wf_celcommon c -> junk 7 ra1 -> junk 7 ra2 -> junk 12 m1 -> junk 12 m2 -> junk 10 r1 -> junk 10 r2 ->
  inflate z1 (4 * (w * h) + 1) = inflate z2 (4 * (w * h) + 1) ->
  dec_cel inflate fmt (enc_cel_hdr c 3 ra1 ++ enc_tilemap_hdr w h idmask m1 r1 ++ z1)
  = dec_cel inflate fmt (enc_cel_hdr c 3 ra2 ++ enc_tilemap_hdr w h idmask m2 r2 ++ z2).
Proof.
  intros W A1 A2 M1 M2 R1 R2 Hz. unfold dec_cel. rewrite !dec_enc_cel_hdr by assumption.
  cbn [rbind Z.eqb Pos.eqb]. unfold dec_tilemap. rewrite !dec_enc_tilemap_hdr by assumption.
  cbn [rbind]. unfold unzip. rewrite Hz. reflexivity.
Qed.

Theorem zlib_stream_tileset fmt ts f1 f2 r1 r2 c1 c2 z1 z2 :
  wf_tileset_hdr ts f1 -> wf_tileset_hdr ts f2 -> bit f1 2 = bit f2 2 ->
  junk 14 r1 -> junk 14 r2 -> junk 4 c1 -> junk 4 c2 ->
  inflate z1 (bytes_per_pixel fmt * (ts_count ts * ts_h ts * ts_w ts) + 1)
  = inflate z2 (bytes_per_pixel fmt * (ts_count ts * ts_h ts * ts_w ts) + 1) ->
  dec_tileset inflate fmt (enc_tileset_hdr ts f1 r1 c1 ++ z1)
  = dec_tileset inflate fmt (enc_tileset_hdr ts f2 r2 c2 ++ z2).
Proof.
  intros W1 W2 Hb R1 R2 C1 C2 Hz. unfold dec_tileset. rewrite !dec_enc_tileset_hdr by assumption.
  cbn [rbind]. rewrite Hb. destruct (negb (bit f2 2)); [reflexivity|].
  destruct (4294967296 <=? ts_count ts * ts_h ts * ts_w ts); [reflexivity|].
  unfold unzip. rewrite Hz. reflexivity.
Qed.
End RawVsZlib.

(* ------------------------------------------------------------------ *)
(* 8. a legacy palette chunk beside a new-format palette chunk *)

Lemma with_palette_twice_ctx p u x y :
  with_palette (with_palette (with_ctx p u) x) y = with_ctx (with_palette p y) u.
Proof. destruct p; reflexivity. Qed.
Lemma with_palette_ctx p u y : with_palette (with_ctx p u) y = with_ctx (with_palette p y) u.
Proof. destruct p; reflexivity. Qed.

Section LegacyPalette.
Variable inflate : list Z -> Z -> zres.

(* new then legacy: the legacy chunk is not even decoded; compared with the new chunk alone
   only the user-data context differs *)
Theorem legacy_after_new fmt fid p dnew dold ty pal :
  ty = 4 \/ ty = 17 -> run_payload dec_palette dnew = Ok pal ->
  rfold (process_chunk inflate fmt fid) [(8217, dnew)] p = Ok (with_palette p (Some pal)) /\
  rfold (process_chunk inflate fmt fid) [(8217, dnew); (ty, dold)] p
  = Ok (with_ctx (with_palette p (Some pal)) (Some UOldPalette)).
Proof.
  intros Hty Hd. cbn [rfold]. rewrite process_new, Hd. cbn [rbind]. split; [reflexivity|].
  rewrite (process_old_kept inflate fmt fid _ ty dold pal Hty) by reflexivity. reflexivity.
Qed.

(* legacy then new: if that loads at all, the result is the same as in the other order *)
Theorem legacy_before_new fmt fid p dnew dold ty pal p' :
  ty = 4 \/ ty = 17 -> run_payload dec_palette dnew = Ok pal ->
  rfold (process_chunk inflate fmt fid) [(ty, dold); (8217, dnew)] p = Ok p' ->
  p' = with_ctx (with_palette p (Some pal)) (Some UOldPalette).
Proof.
  intros Hty Hd. cbn [rfold].
  destruct (pi_palette p) as [pal0|] eqn:Hp.
  - rewrite (process_old_kept inflate fmt fid p ty dold pal0 Hty Hp). cbn [rbind].
    rewrite process_new, Hd. cbn [rbind]. intros [= <-]. apply with_palette_ctx.
  - rewrite (process_old_first inflate fmt fid p ty dold Hty Hp).
    destruct (run_payload (dec_old_palette (ty =? 17)) dold) as [po|e|s]; cbn [rbind]; try discriminate.
    rewrite process_new, Hd. cbn [rbind]. intros [= <-]. apply with_palette_twice_ctx.
Qed.

(* the palette as a function of the chunks alone *)
Definition pal_after (ch : rawchunk) (cur : option palette) : option palette :=
  let '(ty, data) := ch in
  if ty =? 8217 then match run_payload dec_palette data with Ok pal => Some pal | _ => cur end
  else if (ty =? 4) || (ty =? 17) then
    match cur with
    | Some _ => cur
    | None => match run_payload (dec_old_palette (ty =? 17)) data with Ok pal => Some pal | _ => cur end
    end
  else cur.

Lemma process_pal_after fmt fid p ch p' :
  process_chunk inflate fmt fid p ch = Ok p' -> pi_palette p' = pal_after ch (pi_palette p).
Proof.
  destruct ch as [ty data]. unfold pal_after.
  destruct (Z.eqb_spec ty 8217) as [->|N1].
  { rewrite process_new. destruct (run_payload dec_palette data); cbn [rbind]; intros [= <-]. reflexivity. }
  destruct (Z.eqb_spec ty 4) as [->|N4].
  { unfold process_chunk. cbn [Z.eqb Pos.eqb orb with_ctx pi_palette].
    destruct (pi_palette p) as [pal0|] eqn:Hp; [intros [= <-]; exact Hp|].
    destruct (run_payload (dec_old_palette false) data); cbn [rbind]; intros [= <-]. reflexivity. }
  destruct (Z.eqb_spec ty 17) as [->|N17].
  { unfold process_chunk. cbn [Z.eqb Pos.eqb orb with_ctx pi_palette].
    destruct (pi_palette p) as [pal0|] eqn:Hp; [intros [= <-]; exact Hp|].
    destruct (run_payload (dec_old_palette true) data); cbn [rbind]; intros [= <-]. reflexivity. }
  cbn [orb]. unfold process_chunk.
  destruct (ty =? 8199).
  { destruct (run_payload dec_color_profile data); cbn [rbind]; intros [= <-]. reflexivity. }
  destruct (Z.eqb_spec ty 8217) as [E|_]; [contradiction|].
  destruct (ty =? 8196).
  { destruct (run_payload dec_layer data); cbn [rbind]; intros [= <-]. reflexivity. }
  destruct (ty =? 8197).
  { destruct (dec_cel inflate fmt data) as [c|e|s]; cbn [rbind]; try discriminate.
    unfold add_cel. destruct (pi_nlayers p <=? cc_layer (c_data c)); [discriminate|].
    destruct (table_add_cel _ _ _ _); cbn [rbind]; intros [= <-]. reflexivity. }
  destruct (ty =? 8200).
  { destruct (run_payload dec_external data); cbn [rbind]; intros [= <-]. reflexivity. }
  destruct (ty =? 8216).
  { destruct (run_payload dec_tags data); cbn [rbind]; intros [= <-].
    destruct (fid =? 0); reflexivity. }
  destruct (ty =? 8226).
  { destruct (run_payload dec_slice data); cbn [rbind]; intros [= <-]. reflexivity. }
  destruct (ty =? 8224).
  { destruct (run_payload dec_userdata data) as [u|e|s]; cbn [rbind]; try discriminate.
    unfold add_user_data. destruct (pi_ctx p) as [[f l|i| |i|i]|]; try discriminate.
    - destruct (table_set_cel_ud _ _ _ _); intros [= <-]. reflexivity.
    - destruct (upd_rev _ _ _ _); intros [= <-]. reflexivity.
    - intros [= <-]. reflexivity.
    - destruct (pi_tags p) as [ts|]; [|discriminate].
      destruct (nthz ts i); [|discriminate].
      destruct (65535 <=? i); [discriminate|]. intros [= <-]. reflexivity.
    - destruct (upd_rev _ _ _ _); intros [= <-]. reflexivity. }
  destruct (Z.eqb_spec ty 4) as [E|_]; [contradiction|].
  destruct (Z.eqb_spec ty 17) as [E|_]; [contradiction|].
  cbn [orb].
  destruct (ty =? 8227).
  { destruct (dec_tileset inflate fmt data); cbn [rbind]; intros [= <-]. reflexivity. }
  intros [= <-]. reflexivity.
Qed.

Definition pal_fold (chunks : list rawchunk) (cur : option palette) : option palette :=
  fold_left (fun c ch => pal_after ch c) chunks cur.

Lemma rfold_pal_fold fmt fid chunks : forall p p',
  rfold (process_chunk inflate fmt fid) chunks p = Ok p' -> pi_palette p' = pal_fold chunks (pi_palette p).
Proof.
  induction chunks as [|ch chunks IH]; intros p p'; cbn [rfold pal_fold fold_left].
  - intros [= <-]. reflexivity.
  - destruct (process_chunk inflate fmt fid p ch) as [p1|e|s] eqn:P; cbn [rbind]; try discriminate.
    intros H. rewrite (IH p1 p' H), (process_pal_after fmt fid p ch p1 P). reflexivity.
Qed.

Lemma pal_fold_app a b cur : pal_fold (a ++ b) cur = pal_fold b (pal_fold a cur).
Proof. unfold pal_fold. apply fold_left_app. Qed.
Lemma pal_fold_cons ch l cur : pal_fold (ch :: l) cur = pal_fold l (pal_after ch cur).
Proof. reflexivity. Qed.

Lemma pal_after_some ch pal : exists pal', pal_after ch (Some pal) = Some pal'.
Proof.
  destruct ch as [ty data]. unfold pal_after.
  destruct (ty =? 8217); [destruct (run_payload dec_palette data); eexists; reflexivity|].
  destruct ((ty =? 4) || (ty =? 17)); eexists; reflexivity.
Qed.

Lemma pal_fold_some chunks : forall pal, exists pal', pal_fold chunks (Some pal) = Some pal'.
Proof.
  induction chunks as [|ch chunks IH]; intros pal; cbn [pal_fold fold_left]; [eexists; reflexivity|].
  destruct (pal_after_some ch pal) as [pal1 ->]. apply IH.
Qed.

Lemma pal_after_legacy_some ty data pal : ty = 4 \/ ty = 17 -> pal_after (ty, data) (Some pal) = Some pal.
Proof. intros [-> | ->]; reflexivity. Qed.

Lemma pal_after_new data pal cur : run_payload dec_palette data = Ok pal -> pal_after (8217, data) cur = Some pal.
Proof. intros H. unfold pal_after. cbn [Z.eqb Pos.eqb]. rewrite H. reflexivity. Qed.

(* the general position: in a chunk list that contains a new-format palette chunk, a legacy
   palette chunk more or less (anywhere) does not change the resulting palette *)
Theorem legacy_palette_anywhere fmt fid p ty dold dnew pre post p1 p2 :
  ty = 4 \/ ty = 17 ->
  In (8217, dnew) pre \/ In (8217, dnew) post ->
  rfold (process_chunk inflate fmt fid) (pre ++ (ty, dold) :: post) p = Ok p1 ->
  rfold (process_chunk inflate fmt fid) (pre ++ post) p = Ok p2 ->
  pi_palette p1 = pi_palette p2.
Proof.
  intros Hty Hin H1 H2.
  rewrite (rfold_pal_fold fmt fid _ p p1 H1), (rfold_pal_fold fmt fid _ p p2 H2).
  (* the new-format chunk was decoded *)
  assert (exists pal, run_payload dec_palette dnew = Ok pal) as [pal Hd].
  { assert (In (8217, dnew) (pre ++ post)) as Hin' by (apply in_or_app; exact Hin).
    apply in_split in Hin'. destruct Hin' as (l1 & l2 & E). rewrite E in H2.
    apply rfold_ok_split in H2. destruct H2 as (b1 & b2 & _ & P & _).
    rewrite process_new in P. destruct (run_payload dec_palette dnew) as [pal|e|s]; try discriminate.
    exists pal. reflexivity. }
  destruct Hin as [Hin|Hin]; apply in_split in Hin; destruct Hin as (l1 & l2 & ->).
  - (* before: there is a palette when the legacy chunk comes *)
    repeat (rewrite pal_fold_app || rewrite pal_fold_cons).
    rewrite (pal_after_new dnew pal _ Hd).
    destruct (pal_fold_some l2 pal) as [pal' ->].
    rewrite (pal_after_legacy_some ty dold pal' Hty). reflexivity.
  - (* after: the new-format chunk overrides whatever the legacy chunk did *)
    repeat (rewrite pal_fold_app || rewrite pal_fold_cons).
    rewrite !(pal_after_new dnew pal _ Hd). reflexivity.
Qed.

End LegacyPalette.

(* ------------------------------------------------------------------ *)
(* 8b. whole frames as bytes, so that the chunk-level statements can be read on files *)

(* a chunk: size DWORD (6 + payload), type WORD, payload *)
Definition enc_chunk (ch : rawchunk) : list Z := e_dword (6 + zlen (snd ch)) ++ e_word (fst ch) ++ snd ch.
Definition enc_chunks (chunks : list rawchunk) : list Z := flat_map enc_chunk chunks.
(* a frame: the 16-byte header (both count fields explicit), then the chunks *)
Definition enc_frame (nbytes old_n dur : Z) (rsv : list Z) (new_n : Z) (chunks : list rawchunk) : list Z :=
  enc_frame_hdr nbytes old_n dur rsv new_n ++ enc_chunks chunks.

Definition chunk_size (ch : rawchunk) : Z := 6 + zlen (snd ch).
Definition chunks_size (chunks : list rawchunk) : Z := fold_right (fun ch s => chunk_size ch + s) 0 chunks.

(* a known type code, a size that fits the DWORD *)
Definition wf_chunk (ch : rawchunk) : Prop := chunk_type_known (fst ch) = true /\ chunk_size ch < 4294967296.

(* the frame header announces the chunks that follow: the count (in either field) and a
   frame size that covers them *)
Definition wf_frame (nbytes old_n new_n : Z) (rsv : list Z) (chunks : list rawchunk) : Prop :=
  junk 2 rsv /\ (if new_n =? 0 then old_n else new_n) = zlen chunks /\
  Forall wf_chunk chunks /\ 16 + chunks_size chunks <= nbytes.

Lemma chunks_size_nonneg chunks : 0 <= chunks_size chunks.
Proof.
  induction chunks as [|ch chunks IH]; cbn [chunks_size fold_right]; [lia|].
  fold (chunks_size chunks). unfold chunk_size. pose proof (zlen_nonneg (snd ch)). lia.
Qed.

Lemma read_chunk_enc acc avail ch t :
  wf_chunk ch -> chunk_size ch <= avail ->
  run (read_chunk (acc, avail)) (enc_chunk ch ++ t) = Ok ((ch :: acc, avail - chunk_size ch), t).
Proof.
  intros (Hk & Hs) Ha. destruct ch as [ty data]. unfold chunk_size in *. cbn [fst snd] in *.
  unfold read_chunk, enc_chunk. cbn [fst snd]. repeat rewrite <- app_assoc.
  rewrite run_bind, run_dword. rewrite run_bind, run_word. rewrite Hk. cbn [negb].
  pose proof (zlen_nonneg data) as Hd.
  destruct (Z.ltb_spec (6 + zlen data) 6) as [H6|_]; [lia|].
  destruct (Z.ltb_spec avail (6 + zlen data)) as [H7|_]; [lia|].
  rewrite run_bind, run_take by lia. reflexivity.
Qed.

Lemma read_chunks_enc chunks : forall acc avail t,
  Forall wf_chunk chunks -> chunks_size chunks <= avail ->
  run_times (length chunks) read_chunk (acc, avail) (enc_chunks chunks ++ t)
  = Ok ((rev chunks ++ acc, avail - chunks_size chunks), t).
Proof.
  induction chunks as [|ch chunks IH]; intros acc avail t Hwf Hs;
    cbn [length run_times enc_chunks flat_map rev app chunks_size fold_right].
  - rewrite Z.sub_0_r. reflexivity.
  - fold (enc_chunks chunks). fold (chunks_size chunks) in *.
    inversion Hwf as [|c cs Hc Hcs]; subst. pose proof (chunks_size_nonneg chunks) as Hn.
    cbn [chunks_size fold_right] in Hs. fold (chunks_size chunks) in Hs.
    rewrite <- app_assoc, read_chunk_enc by (try assumption; lia).
    rewrite IH by (try assumption; lia). rewrite <- app_assoc. cbn [app].
    do 3 f_equal. lia.
Qed.

Lemma frame_body_enc nb dur chunks t :
  Forall wf_chunk chunks -> 16 + chunks_size chunks <= nb ->
  run (frame_body nb dur (zlen chunks)) (enc_chunks chunks ++ t) = Ok ((dur, chunks), t).
Proof.
  intros Hwf Hs. unfold frame_body. rewrite run_bind, run_iterZ. unfold zlen. rewrite Nat2Z.id.
  rewrite read_chunks_enc by (try assumption; lia). cbn [run fst].
  rewrite frev_eq, app_nil_r, rev_involutive. reflexivity.
Qed.

(* framing of an encoded frame: its duration and its chunks *)
Theorem frame_chunks_enc_frame nb old dur rsv new chunks t :
  wf_frame nb old new rsv chunks ->
  run frame_chunks (enc_frame nb old dur rsv new chunks ++ t) = Ok ((dur, chunks), t).
Proof.
  intros (Hj & Hn & Hwf & Hs). unfold enc_frame. rewrite <- app_assoc.
  rewrite frame_chunks_enc by exact Hj. rewrite Hn. apply frame_body_enc; assumption.
Qed.

Section Frames.
Variable inflate : list Z -> Z -> zres.

(* parse_frame on an encoded frame: the fold of the dispatcher over its chunks *)
Theorem parse_frame_enc_frame fmt p fid nb old dur rsv new chunks t :
  wf_frame nb old new rsv chunks ->
  run (parse_frame inflate fmt p fid) (enc_frame nb old dur rsv new chunks ++ t)
  = if pi_nframes p <=? fid then Panic 103 else
    match rfold (process_chunk inflate fmt fid) chunks (with_times p (zadd fid dur (pi_times p))) with
    | Ok p' => Ok (p', t) | Err e => Err e | Panic s => Panic s
    end.
Proof.
  intros (Hj & Hn & Hwf & Hs). unfold enc_frame. rewrite <- app_assoc.
  rewrite (parse_frame_enc inflate) by exact Hj. rewrite Hn. unfold frame_body_process.
  destruct (pi_nframes p <=? fid); [reflexivity|].
  rewrite run_bind, run_iterZ. unfold zlen. rewrite Nat2Z.id.
  rewrite read_chunks_enc by (try assumption; lia). cbn [fst].
  rewrite frev_eq, app_nil_r, rev_involutive, run_lift.
  destruct (rfold (process_chunk inflate fmt fid) chunks (with_times p (zadd fid dur (pi_times p))))
    as [p'|e|s]; reflexivity.
Qed.

(* two encoded frames of the same duration whose chunk lists have the same fold are
   interchangeable in a file: F = the bytes of the j frames before *)
Theorem frame_chunks_subst_load h a b c d g r fmt F j st dur
        nb1 old1 rsv1 new1 chunks1 nb2 old2 rsv2 new2 chunks2 rest :
  wf_header h -> wf_header_junk a b c d g r -> header_fmt h = Some fmt ->
  run_times j (parse_frames_step inflate fmt) (pinfo_new (hf_frames h) (hf_default_time h), 0) F = Ok (st, []) ->
  (j < Z.to_nat (hf_frames h))%nat ->
  wf_frame nb1 old1 new1 rsv1 chunks1 -> wf_frame nb2 old2 new2 rsv2 chunks2 ->
  (forall fid p, rfold (process_chunk inflate fmt fid) chunks1 p = rfold (process_chunk inflate fmt fid) chunks2 p) ->
  load inflate (enc_header h a b c d g r ++ F ++ enc_frame nb1 old1 dur rsv1 new1 chunks1 ++ rest)
  = load inflate (enc_header h a b c d g r ++ F ++ enc_frame nb2 old2 dur rsv2 new2 chunks2 ++ rest).
Proof.
  intros W J Hf HF Hj W1 W2 Heq.
  apply (frame_subst_load inflate h a b c d g r fmt F j st _ _ W J Hf HF Hj).
  intros p fid. rewrite !parse_frame_enc_frame by assumption. rewrite Heq. reflexivity.
Qed.

(* the one-directional variant, for changes that are only known to preserve success *)
Theorem frame_subst_load_ok h a b c d g r fmt F j st x1 x2 f :
  wf_header h -> wf_header_junk a b c d g r -> header_fmt h = Some fmt ->
  run_times j (parse_frames_step inflate fmt) (pinfo_new (hf_frames h) (hf_default_time h), 0) F = Ok (st, []) ->
  (j < Z.to_nat (hf_frames h))%nat ->
  (forall p fid q, run (parse_frame inflate fmt p fid) x1 = Ok q -> run (parse_frame inflate fmt p fid) x2 = Ok q) ->
  load inflate (enc_header h a b c d g r ++ F ++ x1) = Ok f ->
  load inflate (enc_header h a b c d g r ++ F ++ x2) = Ok f.
Proof.
  intros W J Hf HF Hj Hx. unfold load, load_rest.
  rewrite !(dec_enc_header inflate h a b c d g r fmt _ W J Hf).
  unfold parse_frames. rewrite !run_bind, !run_iterZ.
  replace (Z.to_nat (hf_frames h)) with (j + S (Z.to_nat (hf_frames h) - j - 1))%nat by lia.
  rewrite !run_times_add.
  rewrite (run_times_app j _ _ F st [] x1 HF), (run_times_app j _ _ F st [] x2 HF).
  cbn [app run_times]. destruct st as [p fid]. unfold parse_frames_step at 1 3.
  rewrite !run_bind.
  destruct (run (parse_frame inflate fmt p fid) x1) as [[p1 r1]|e|s] eqn:R1; cbn [rbind rmap]; try discriminate.
  rewrite (Hx p fid (p1, r1) R1). intros H. exact H.
Qed.

Theorem frame_chunks_subst_load_ok h a b c d g r fmt F j st dur
        nb1 old1 rsv1 new1 chunks1 nb2 old2 rsv2 new2 chunks2 rest f :
  wf_header h -> wf_header_junk a b c d g r -> header_fmt h = Some fmt ->
  run_times j (parse_frames_step inflate fmt) (pinfo_new (hf_frames h) (hf_default_time h), 0) F = Ok (st, []) ->
  (j < Z.to_nat (hf_frames h))%nat ->
  wf_frame nb1 old1 new1 rsv1 chunks1 -> wf_frame nb2 old2 new2 rsv2 chunks2 ->
  (forall fid p p', rfold (process_chunk inflate fmt fid) chunks1 p = Ok p' ->
                    rfold (process_chunk inflate fmt fid) chunks2 p = Ok p') ->
  load inflate (enc_header h a b c d g r ++ F ++ enc_frame nb1 old1 dur rsv1 new1 chunks1 ++ rest) = Ok f ->
  load inflate (enc_header h a b c d g r ++ F ++ enc_frame nb2 old2 dur rsv2 new2 chunks2 ++ rest) = Ok f.
Proof.
  intros W J Hf HF Hj W1 W2 Himp.
  apply (frame_subst_load_ok h a b c d g r fmt F j st _ _ f W J Hf HF Hj).
  intros p fid q. rewrite !parse_frame_enc_frame by assumption.
  destruct (pi_nframes p <=? fid); [discriminate|].
  destruct (rfold (process_chunk inflate fmt fid) chunks1 _) as [p1|e|s] eqn:R1; try discriminate.
  rewrite (Himp fid _ p1 R1). intros H. exact H.
Qed.

(* ---- the file-level readings ---- *)

(* an ignorable chunk (or an accepted colour-profile chunk) more or less, anywhere in a frame *)
Theorem neutral_chunk_file h a b c d g r fmt F j st dur nb1 old1 rsv1 new1 nb2 old2 rsv2 new2 ch pre post rest :
  wf_header h -> wf_header_junk a b c d g r -> header_fmt h = Some fmt ->
  run_times j (parse_frames_step inflate fmt) (pinfo_new (hf_frames h) (hf_default_time h), 0) F = Ok (st, []) ->
  (j < Z.to_nat (hf_frames h))%nat ->
  wf_frame nb1 old1 new1 rsv1 (pre ++ ch :: post) -> wf_frame nb2 old2 new2 rsv2 (pre ++ post) ->
  neutral_chunk inflate ch ->
  load inflate (enc_header h a b c d g r ++ F ++ enc_frame nb1 old1 dur rsv1 new1 (pre ++ ch :: post) ++ rest)
  = load inflate (enc_header h a b c d g r ++ F ++ enc_frame nb2 old2 dur rsv2 new2 (pre ++ post) ++ rest).
Proof.
  intros W J Hf HF Hj W1 W2 Hn.
  apply (frame_chunks_subst_load h a b c d g r fmt F j st dur _ _ _ _ _ _ _ _ _ _ rest W J Hf HF Hj W1 W2).
  intros fid p. apply neutral_rfold. exact Hn.
Qed.

(* one chunk replaced by a chunk with the same effect (other reserved bytes, other unused
   flag bits, raw instead of compressed, another compression level, ...) *)
Theorem equivalent_chunk_file h a b c d g r fmt F j st dur nb1 old1 rsv1 new1 nb2 old2 rsv2 new2 ch1 ch2 pre post rest :
  wf_header h -> wf_header_junk a b c d g r -> header_fmt h = Some fmt ->
  run_times j (parse_frames_step inflate fmt) (pinfo_new (hf_frames h) (hf_default_time h), 0) F = Ok (st, []) ->
  (j < Z.to_nat (hf_frames h))%nat ->
  wf_frame nb1 old1 new1 rsv1 (pre ++ ch1 :: post) -> wf_frame nb2 old2 new2 rsv2 (pre ++ ch2 :: post) ->
  (forall fid p, process_chunk inflate fmt fid p ch1 = process_chunk inflate fmt fid p ch2) ->
  load inflate (enc_header h a b c d g r ++ F ++ enc_frame nb1 old1 dur rsv1 new1 (pre ++ ch1 :: post) ++ rest)
  = load inflate (enc_header h a b c d g r ++ F ++ enc_frame nb2 old2 dur rsv2 new2 (pre ++ ch2 :: post) ++ rest).
Proof.
  intros W J Hf HF Hj W1 W2 He.
  apply (frame_chunks_subst_load h a b c d g r fmt F j st dur _ _ _ _ _ _ _ _ _ _ rest W J Hf HF Hj W1 W2).
  intros fid p. apply rfold_replace. intros q. apply He.
Qed.

(* bytes appended to the payload of a chunk *)
Theorem chunk_tail_file h a b c d g r fmt F j st dur nb1 old1 rsv1 new1 nb2 old2 rsv2 new2 ty data tail pre post rest f :
  wf_header h -> wf_header_junk a b c d g r -> header_fmt h = Some fmt ->
  run_times j (parse_frames_step inflate fmt) (pinfo_new (hf_frames h) (hf_default_time h), 0) F = Ok (st, []) ->
  (j < Z.to_nat (hf_frames h))%nat ->
  wf_frame nb1 old1 new1 rsv1 (pre ++ (ty, data) :: post) ->
  wf_frame nb2 old2 new2 rsv2 (pre ++ (ty, data ++ tail) :: post) ->
  inflate_ignores_tail inflate ->
  load inflate (enc_header h a b c d g r ++ F ++ enc_frame nb1 old1 dur rsv1 new1 (pre ++ (ty, data) :: post) ++ rest) = Ok f ->
  load inflate (enc_header h a b c d g r ++ F ++ enc_frame nb2 old2 dur rsv2 new2 (pre ++ (ty, data ++ tail) :: post) ++ rest) = Ok f.
Proof.
  intros W J Hf HF Hj W1 W2 Hinf.
  apply (frame_chunks_subst_load_ok h a b c d g r fmt F j st dur _ _ _ _ _ _ _ _ _ _ rest f W J Hf HF Hj W1 W2).
  intros fid p p'. apply chunk_tail_rfold. exact Hinf.
Qed.

Corollary ignorable_chunk_file h a b c d g r fmt F j st dur nb1 old1 rsv1 new1 nb2 old2 rsv2 new2 ty data pre post rest :
  wf_header h -> wf_header_junk a b c d g r -> header_fmt h = Some fmt ->
  run_times j (parse_frames_step inflate fmt) (pinfo_new (hf_frames h) (hf_default_time h), 0) F = Ok (st, []) ->
  (j < Z.to_nat (hf_frames h))%nat ->
  wf_frame nb1 old1 new1 rsv1 (pre ++ (ty, data) :: post) -> wf_frame nb2 old2 new2 rsv2 (pre ++ post) ->
  ignorable_type ty ->
  load inflate (enc_header h a b c d g r ++ F ++ enc_frame nb1 old1 dur rsv1 new1 (pre ++ (ty, data) :: post) ++ rest)
  = load inflate (enc_header h a b c d g r ++ F ++ enc_frame nb2 old2 dur rsv2 new2 (pre ++ post) ++ rest).
Proof.
  intros W J Hf HF Hj W1 W2 Hty.
  apply (neutral_chunk_file h a b c d g r fmt F j st dur _ _ _ _ _ _ _ _ _ _ _ rest W J Hf HF Hj W1 W2).
  apply ignorable_neutral. exact Hty.
Qed.

Corollary color_profile_chunk_file h a b c d g r fmt F j st dur nb1 old1 rsv1 new1 nb2 old2 rsv2 new2
          ty flags gamma rsv t pre post rest :
  wf_header h -> wf_header_junk a b c d g r -> header_fmt h = Some fmt ->
  run_times j (parse_frames_step inflate fmt) (pinfo_new (hf_frames h) (hf_default_time h), 0) F = Ok (st, []) ->
  (j < Z.to_nat (hf_frames h))%nat ->
  wf_frame nb1 old1 new1 rsv1 (pre ++ (8199, enc_color_profile ty flags gamma rsv ++ t) :: post) ->
  wf_frame nb2 old2 new2 rsv2 (pre ++ post) ->
  wf_color_profile ty flags -> junk 4 gamma -> junk 8 rsv ->
  load inflate (enc_header h a b c d g r ++ F
                ++ enc_frame nb1 old1 dur rsv1 new1 (pre ++ (8199, enc_color_profile ty flags gamma rsv ++ t) :: post) ++ rest)
  = load inflate (enc_header h a b c d g r ++ F ++ enc_frame nb2 old2 dur rsv2 new2 (pre ++ post) ++ rest).
Proof.
  intros W J Hf HF Hj W1 W2 Hc Hg Hr.
  apply (neutral_chunk_file h a b c d g r fmt F j st dur _ _ _ _ _ _ _ _ _ _ _ rest W J Hf HF Hj W1 W2).
  apply color_profile_neutral; assumption.
Qed.

End Frames.

(* ------------------------------------------------------------------ *)
(* 9. the order of two cel chunks *)

From Ase Require Import Proofs.RenderFrame.

Lemma add_cel_ok p fid c p' :
  add_cel p fid c = Ok p' ->
  (pi_nlayers p <=? cc_layer (c_data c)) = false /\
  exists t, table_add_cel (pi_cels p) (pi_nframes p) fid c = Ok t /\
            p' = Parse.with_ctx (Parse.with_cels p t) (Some (UCel fid (cc_layer (c_data c)))).
Proof.
  unfold add_cel. destruct (pi_nlayers p <=? cc_layer (c_data c)); [discriminate|].
  destruct (table_add_cel (pi_cels p) (pi_nframes p) fid c) as [t|e|s]; cbn [rbind]; try discriminate.
  intros [= <-]. split; [reflexivity|]. exists t. split; reflexivity.
Qed.

Lemma add_cel_of p fid c t :
  (pi_nlayers p <=? cc_layer (c_data c)) = false ->
  table_add_cel (pi_cels p) (pi_nframes p) fid c = Ok t ->
  add_cel p fid c = Ok (Parse.with_ctx (Parse.with_cels p t) (Some (UCel fid (cc_layer (c_data c))))).
Proof. intros Hl Ht. unfold add_cel. rewrite Hl, Ht. reflexivity. Qed.

Section CelOrder.
Variable inflate : list Z -> Z -> zres.

(* two cel chunks of different layers, in either order: both orders are accepted alike; the
   cel tables have the same rows; every other component but the user-data context (which
   names the cel that came last) is the same *)
Theorem cel_order_chunks fmt fid p d1 d2 c1 c2 p12 :
  0 <= fid ->
  dec_cel inflate fmt d1 = Ok c1 -> dec_cel inflate fmt d2 = Ok c2 ->
  cc_layer (c_data c1) <> cc_layer (c_data c2) ->
  rfold (process_chunk inflate fmt fid) [(8197, d1); (8197, d2)] p = Ok p12 ->
  exists p21,
    rfold (process_chunk inflate fmt fid) [(8197, d2); (8197, d1)] p = Ok p21 /\
    (forall fr, get_row (pi_cels p12) fr = get_row (pi_cels p21) fr) /\
    Parse.with_ctx (Parse.with_cels p12 zempty) None = Parse.with_ctx (Parse.with_cels p21 zempty) None.
Proof.
  intros Hfid D1 D2 Hne. cbn [rfold]. unfold process_chunk. cbn [Z.eqb Pos.eqb]. rewrite D1, D2. cbn [rbind].
  destruct (add_cel p fid c1) as [p1|e|s] eqn:A1; cbn [rbind]; try discriminate.
  destruct (add_cel p1 fid c2) as [p2|e|s] eqn:A2; cbn [rbind]; try discriminate.
  intros [= <-].
  apply add_cel_ok in A1. destruct A1 as (L1 & t1 & T1 & ->).
  apply add_cel_ok in A2. destruct A2 as (L2 & t12 & T12 & ->).
  cbn [Parse.with_ctx Parse.with_cels pi_cels pi_nframes pi_nlayers] in L2, T12.
  assert ((fid, cc_layer (c_data c1)) <> (fid, cc_layer (c_data c2))) as Hne' by (intros [= E]; contradiction).
  destruct (table_add_cel_comm (pi_cels p) (pi_nframes p) fid c1 fid c2 t1 t12 Hfid Hfid Hne' T1 T12)
    as (t2 & t21 & T2 & T21 & Hrows & _).
  rewrite (add_cel_of p fid c2 t2 L2 T2). cbn [rbind].
  rewrite (add_cel_of _ fid c1 t21); cbn [Parse.with_ctx Parse.with_cels pi_cels pi_nframes pi_nlayers];
    [|exact L1|exact T21].
  cbn [rbind]. eexists. split; [reflexivity|].
  cbn [Parse.with_ctx Parse.with_cels pi_cels]. split; [exact Hrows|reflexivity].
Qed.
End CelOrder.
