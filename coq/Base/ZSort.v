(* Merge sort on Z (the standard library's functor instantiated at Z.leb). *)
From Coq Require Import ZArith Orders Sorting.Mergesort.
Module ZOrder <: TotalLeBool.
  Definition t := Z.
  Definition leb := Z.leb.
  Theorem leb_total : forall a b, leb a b = true \/ leb b a = true.
  Proof. intros a b. unfold leb. destruct (Z.leb_spec a b); [left; reflexivity|right; apply Z.leb_le; apply Z.lt_le_incl; assumption]. Qed.
End ZOrder.
Module ZSort := Sort ZOrder.
