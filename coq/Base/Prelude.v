(* Base definitions: outcomes, the reader as a free monad, primitives of reader.rs.
   No proofs here (the model must stay runnable when a proof breaks). *)
From Coq Require Export ZArith List Bool Lia FMapPositive.
From Ase Require Export Base.ZSort.
Export ListNotations.
Open Scope Z_scope.
Open Scope bool_scope.

Global Arguments Z.mul : simpl never.
Global Arguments Z.add : simpl never.
Global Arguments Z.sub : simpl never.
Global Arguments Z.div : simpl never.
Global Arguments Z.modulo : simpl never.
Global Arguments Z.quot : simpl never.
Global Arguments Z.rem : simpl never.
Global Arguments Z.shiftr : simpl never.
Global Arguments Z.shiftl : simpl never.
Global Arguments Z.land : simpl never.
Global Arguments Z.lor : simpl never.
Global Arguments Z.of_nat : simpl never.
Global Arguments Z.to_nat : simpl never.

(* ------------------------------------------------------------------ *)
(* Outcomes *)

(* AsepriteParseError, collapsed to its variant; IoError carries the io::ErrorKind
   code of tools/SCHEMA.md (1 = UnexpectedEof). *)
Inductive err := EInvalid | EUnsupported | EInternal | EIo (kind : Z).

(* Panic = every way the Rust code can fail to return a value (index out of range,
   assert!/expect/unwrap/panic!, division by zero, arithmetic overflow under
   overflow-checks (a release build would wrap instead, i.e. the two profiles differ),
   debug_assert!).  The argument names the site (table in Model/Sites.v). *)
Inductive res (A : Type) := Ok (a : A) | Err (e : err) | Panic (site : Z).
Arguments Ok {A}. Arguments Err {A}. Arguments Panic {A}.

Definition eof : err := EIo 1.

Definition rbind {A B} (r : res A) (f : A -> res B) : res B :=
  match r with Ok a => f a | Err e => Err e | Panic s => Panic s end.
Definition rmap {A B} (f : A -> B) (r : res A) : res B := rbind r (fun a => Ok (f a)).
Notation "x <-- t ;;; u" := (rbind t (fun x => u)) (at level 61, t at next level, right associativity).
Notation "' p <-- t ;;; u" := (rbind t (fun p => u)) (at level 61, p pattern, t at next level, right associativity).

Definition is_ok {A} (r : res A) : bool := match r with Ok _ => true | _ => false end.
Definition is_err {A} (r : res A) : bool := match r with Err _ => true | _ => false end.
Definition is_panic {A} (r : res A) : bool := match r with Panic _ => true | _ => false end.

(* fold over a list with early exit *)
Fixpoint rfold {A B} (f : B -> A -> res B) (l : list A) (b : B) : res B :=
  match l with [] => Ok b | x :: t => b' <-- f b x ;;; rfold f t b' end.
Fixpoint rmapM {A B} (f : A -> res B) (l : list A) : res (list B) :=
  match l with [] => Ok [] | x :: t => y <-- f x ;;; ys <-- rmapM f t ;;; Ok (y :: ys) end.

(* ------------------------------------------------------------------ *)
(* The reader: a tree of read_exact requests *)

Inductive IT (A : Type) : Type :=
| Ret (a : A)
| Fail (e : err)
| Crash (site : Z)
| Read (n : Z) (k : list Z -> IT A).      (* read_exact of n bytes *)
Arguments Ret {A}. Arguments Fail {A}. Arguments Crash {A}. Arguments Read {A}.

Fixpoint bind {A B} (t : IT A) (f : A -> IT B) : IT B :=
  match t with
  | Ret a => f a
  | Fail e => Fail e
  | Crash s => Crash s
  | Read n k => Read n (fun l => bind (k l) f)
  end.
Notation "x <- t ;; u" := (bind t (fun x => u)) (at level 61, t at next level, right associativity).
Notation "' p <- t ;; u" := (bind t (fun p => u)) (at level 61, p pattern, t at next level, right associativity).

Definition lift {A} (r : res A) : IT A :=
  match r with Ok a => Ret a | Err e => Fail e | Panic s => Crash s end.

(* split off the first n bytes; None when fewer are available *)
Fixpoint split_z (n : Z) (l : list Z) {struct l} : option (list Z * list Z) :=
  if n <=? 0 then Some ([], l) else
  match l with
  | [] => None
  | x :: t => match split_z (n - 1) t with Some (a, b) => Some (x :: a, b) | None => None end
  end.

Fixpoint run {A} (t : IT A) (bs : list Z) : res (A * list Z) :=
  match t with
  | Ret a => Ok (a, bs)
  | Fail e => Err e
  | Crash s => Panic s
  | Read n k => match split_z n bs with
                | Some (a, rest) => run (k a) rest
                | None => Err eof
                end
  end.

(* binary iteration: f iterated p times, lazily (nothing is evaluated past the first
   Read until bytes are supplied), so a declared count of 2^32-1 costs nothing. *)
Fixpoint iterP {A} (p : positive) (f : A -> IT A) (a : A) : IT A :=
  match p with
  | xH => f a
  | xO q => bind (iterP q f a) (iterP q f)
  | xI q => bind (f a) (fun a' => bind (iterP q f a') (iterP q f))
  end.
Definition iterZ {A} (n : Z) (f : A -> IT A) (a : A) : IT A :=
  match n with Zpos p => iterP p f a | _ => Ret a end.

(* ------------------------------------------------------------------ *)
(* reader.rs primitives *)

Definition is_byte (b : Z) : Prop := 0 <= b < 256.
Definition is_byteb (b : Z) : bool := (0 <=? b) && (b <? 256).

Definition sgn16 (w : Z) : Z := if w <? 32768 then w else w - 65536.
Definition sgn32 (w : Z) : Z := if w <? 2147483648 then w else w - 4294967296.

Definition byte : IT Z := Read 1 (fun l => match l with [a] => Ret a | _ => Crash 0 end).
Definition word : IT Z := Read 2 (fun l => match l with [a; b] => Ret (a + 256 * b) | _ => Crash 0 end).
Definition short : IT Z := w <- word ;; Ret (sgn16 w).
Definition dword : IT Z :=
  Read 4 (fun l => match l with [a; b; c; d] => Ret (a + 256 * b + 65536 * c + 16777216 * d) | _ => Crash 0 end).
Definition long : IT Z := w <- dword ;; Ret (sgn32 w).
Definition skip (n : Z) : IT unit := Read n (fun _ => Ret tt).
Definition take (n : Z) : IT (list Z) := Read n (fun l => Ret l).

(* String::from_utf8: the well-formed byte sequences of Unicode table 3-7 *)
Fixpoint utf8_valid (l : list Z) : bool :=
  match l with
  | [] => true
  | a :: t =>
    if a <? 128 then utf8_valid t
    else if (194 <=? a) && (a <=? 223) then
      match t with b :: t' => (128 <=? b) && (b <=? 191) && utf8_valid t' | _ => false end
    else if (224 <=? a) && (a <=? 239) then
      match t with
      | b :: c :: t' =>
        let lo := if a =? 224 then 160 else 128 in
        let hi := if a =? 237 then 159 else 191 in
        (lo <=? b) && (b <=? hi) && (128 <=? c) && (c <=? 191) && utf8_valid t'
      | _ => false end
    else if (240 <=? a) && (a <=? 244) then
      match t with
      | b :: c :: d :: t' =>
        let lo := if a =? 240 then 144 else 128 in
        let hi := if a =? 244 then 143 else 191 in
        (lo <=? b) && (b <=? hi) && (128 <=? c) && (c <=? 191) && (128 <=? d) && (d <=? 191) && utf8_valid t'
      | _ => false end
    else false
  end.

(* AseReader::string *)
Definition str : IT (list Z) :=
  n <- word ;; s <- take n ;; if utf8_valid s then Ret s else Fail EInvalid.

(* ------------------------------------------------------------------ *)
(* small list / array utilities *)

Definition zlen {A} (l : list A) : Z := Z.of_nat (length l).
(* list reversal in linear time (List.rev is quadratic); frev l = rev l is Proofs/ITLemmas.frev_eq *)
Definition frev {A} (l : list A) : list A := rev_append l [].
(* l[i]; recursion on the list, so an index of 2^32-1 costs nothing *)
Fixpoint nthz_aux {A} (l : list A) (i : Z) {struct l} : option A :=
  match l with [] => None | x :: t => if i =? 0 then Some x else nthz_aux t (i - 1) end.
Definition nthz {A} (l : list A) (i : Z) : option A := if i <? 0 then None else nthz_aux l i.

Fixpoint upd_nth {A} (l : list A) (i : nat) (x : A) : list A :=
  match l, i with
  | [], _ => []
  | _ :: t, O => x :: t
  | y :: t, S i' => y :: upd_nth t i' x
  end.

(* indices 0 .. n-1 *)
Fixpoint zrange (lo : Z) (n : nat) : list Z := match n with O => [] | S k => lo :: zrange (lo + 1) k end.
Definition ziota (n : Z) : list Z := zrange 0 (Z.to_nat n).

(* read-only arrays with logarithmic access (Vec<T> that is only indexed) *)
Record arr (A : Type) := { alen : Z; amap : PositiveMap.t A }.
Arguments alen {A}. Arguments amap {A}.
Definition akey (i : Z) : positive := Z.to_pos (i + 1).
Definition aget {A} (a : arr A) (i : Z) : option A :=
  if (0 <=? i) && (i <? alen a) then PositiveMap.find (akey i) (amap a) else None.
Fixpoint of_list_aux {A} (l : list A) (i : Z) (m : PositiveMap.t A) : PositiveMap.t A :=
  match l with [] => m | x :: t => of_list_aux t (i + 1) (PositiveMap.add (akey i) x m) end.
Definition arr_of_list {A} (l : list A) : arr A :=
  {| alen := zlen l; amap := of_list_aux l 0 (PositiveMap.empty A) |}.
Definition arr_to_list {A} (a : arr A) : list A :=
  flat_map (fun i => match aget a i with Some x => [x] | None => [] end) (ziota (alen a)).

(* finite maps keyed by u32 (HashMap<u32, T>): insert = last wins *)
Definition zmap (A : Type) := PositiveMap.t A.
Definition zfind {A} (k : Z) (m : zmap A) : option A := if k <? 0 then None else PositiveMap.find (akey k) m.
Definition zadd {A} (k : Z) (v : A) (m : zmap A) : zmap A := PositiveMap.add (akey k) v m.
Definition zempty {A} : zmap A := PositiveMap.empty A.
(* ascending by key (PositiveMap.elements is ordered by the bits of the key, not numerically) *)
Definition zkeys {A} (m : zmap A) : list Z :=
  ZSort.sort (map (fun kv => Z.pos (fst kv) - 1) (PositiveMap.elements m)).
Definition zelements {A} (m : zmap A) : list (Z * A) :=
  flat_map (fun k => match zfind k m with Some v => [(k, v)] | None => [] end) (zkeys m).
Definition zcard {A} (m : zmap A) : Z := Z.of_nat (PositiveMap.cardinal m).
