(* Facts about Base/Prelude.v that every proof file may need (kept out of Prelude.v, which holds no proofs). *)
From Ase Require Import Base.Prelude.

(* the linear-time reversal used by the model is List.rev *)
Lemma frev_eq {A} (l : list A) : frev l = rev l.
Proof. unfold frev. symmetry. apply rev_alt. Qed.
Global Opaque frev.
