(* Data types of the model (mirrors the structs of /repo/src). *)
From Ase Require Export Base.Prelude Model.Blend.

Record userdata := { ud_text : option (list Z); ud_color : option pixel }.

(* PixelFormat *)
Inductive pixfmt := FRgba | FGray | FIndexed (transparent_index : Z).
Definition bytes_per_pixel (f : pixfmt) : Z :=
  match f with FRgba => 4 | FGray => 2 | FIndexed _ => 1 end.

(* ColorPalette: entries keyed by id *)
Record palentry := { pe_rgba : pixel; pe_name : option (list Z) }.
Definition palette := zmap palentry.

(* LayerData.  l_type: 0 Image, 1 Group, 2 Tilemap(l_tileset) *)
Record layer := {
  l_flags : Z; l_name : list Z; l_blend : Z; l_opacity : Z;
  l_type : Z; l_tileset : Z; l_level : Z; l_ud : option userdata }.
Definition set_layer_ud (l : layer) (u : userdata) : layer :=
  {| l_flags := l_flags l; l_name := l_name l; l_blend := l_blend l; l_opacity := l_opacity l;
     l_type := l_type l; l_tileset := l_tileset l; l_level := l_level l; l_ud := Some u |}.
Definition layer_visible_flag (l : layer) : bool := Z.odd (l_flags l).
Definition layer_is_background (l : layer) : bool := Z.testbit (l_flags l) 3.

(* RawPixels / Pixels *)
Inductive rawpixels :=
| RPRgba (l : list pixel) | RPGray (l : list (Z * Z)) | RPIndexed (l : list Z).
Inductive pixels :=
| PRgba (a : arr pixel)
| PGray (a : arr (Z * Z))
| PIndexed (pal : palette) (transp : Z) (bg : bool) (a : arr Z).

(* cels *)
Record celcommon := { cc_layer : Z; cc_x : Z; cc_y : Z; cc_opacity : Z }.
Record tilemapdata := { tm_w : Z; tm_h : Z; tm_tiles : arr Z (* tile ids, mask applied *) }.
Inductive celcontent (P : Type) :=
| CRaw (w h : Z) (px : P)
| CLinked (frame : Z)
| CTilemap (tm : tilemapdata).
Arguments CRaw {P}. Arguments CLinked {P}. Arguments CTilemap {P}.
Record cel (P : Type) := { c_data : celcommon; c_content : celcontent P; c_ud : option userdata }.
Arguments c_data {P}. Arguments c_content {P}. Arguments c_ud {P}.
Definition set_cel_ud {P} (c : cel P) (u : userdata) : cel P :=
  {| c_data := c_data c; c_content := c_content c; c_ud := Some u |}.

(* tags, slices *)
Record tag := { t_name : list Z; t_from : Z; t_to : Z; t_repeat : Z; t_dir : Z; t_ud : option userdata }.
Definition set_tag_ud (t : tag) (u : userdata) : tag :=
  {| t_name := t_name t; t_from := t_from t; t_to := t_to t; t_repeat := t_repeat t; t_dir := t_dir t; t_ud := Some u |}.
Record slicekey := {
  k_from : Z; k_ox : Z; k_oy : Z; k_w : Z; k_h : Z;
  k_slice9 : option (Z * Z * Z * Z); k_pivot : option (Z * Z) }.
Record slice := { s_name : list Z; s_keys : list slicekey; s_ud : option userdata }.
Definition set_slice_ud (s : slice) (u : userdata) : slice :=
  {| s_name := s_name s; s_keys := s_keys s; s_ud := Some u |}.

(* tilesets *)
Record tileset (P : Type) := {
  ts_id : Z; ts_empty0 : bool; ts_count : Z; ts_w : Z; ts_h : Z; ts_base : Z;
  ts_name : list Z; ts_ext : option (Z * Z); ts_pixels : option P }.
Arguments ts_id {P}. Arguments ts_empty0 {P}. Arguments ts_count {P}. Arguments ts_w {P}.
Arguments ts_h {P}. Arguments ts_base {P}. Arguments ts_name {P}. Arguments ts_ext {P}. Arguments ts_pixels {P}.

(* a cel table row: Vec<Option<RawCel>> ; the table: frame -> row, a missing frame key
   stands for the initial row `vec![None]` *)
Definition row (P : Type) := list (option (cel P)).
Definition celtable (P : Type) := zmap (row P).
Definition get_row {P} (t : celtable P) (f : Z) : row P :=
  match zfind f t with Some r => r | None => [None] end.

(* AsepriteFile *)
Record file := {
  f_width : Z; f_height : Z; f_nframes : Z; f_fmt : pixfmt;
  f_palette : option palette;
  f_layers : arr layer; f_parents : arr (option Z);
  f_default_time : Z; f_times : zmap Z;
  f_tags : list tag;
  f_cels : celtable pixels;
  f_ext : zmap (list Z);
  f_tilesets : zmap (tileset pixels);
  f_sprite_ud : option userdata;
  f_slices : list slice }.
