(* Chunk payload decoders: the parse_chunk functions of layer.rs, cel.rs, tags.rs, slice.rs,
   palette.rs, user_data.rs, external_file.rs, tileset.rs, tilemap.rs, tile.rs,
   color_profile.rs, pixel.rs.  Each runs on the chunk's own buffer. *)
From Ase Require Export Model.Types.

(* result of ZlibDecoder::new(z).take(limit).read_to_end(): the decoded bytes (at most
   `limit` of them) or the io::ErrorKind code of the failure *)
Inductive zres := ZOk (l : list Z) | ZErr (kind : Z).

Section WithInflate.
Variable inflate : list Z -> Z -> zres.

Definition bit (flags : Z) (mask : Z) : bool := negb (Z.land flags mask =? 0).

(* ---------------- layer.rs: parse_chunk ---------------- *)
Definition dec_layer : IT layer :=
  flags <- word ;; ltype <- word ;; level <- word ;;
  _ <- word ;; _ <- word ;;
  blend <- word ;; opacity <- byte ;;
  _ <- byte ;; _ <- word ;;
  name <- str ;;
  ' (ty, ts) <- (if ltype =? 0 then Ret (0, 0)
                else if ltype =? 1 then Ret (1, 0)
                else if ltype =? 2 then (t <- dword ;; Ret (2, t))
                else Fail EInvalid) ;;
  if 18 <? blend then Fail EInvalid else
  Ret {| l_flags := Z.land flags 127; l_name := name; l_blend := blend; l_opacity := opacity;
         l_type := ty; l_tileset := ts; l_level := level; l_ud := None |}.

(* ---------------- pixel.rs ---------------- *)
Fixpoint group4 (l : list Z) : list pixel :=
  match l with r :: g :: b :: a :: t => (r, g, b, a) :: group4 t | _ => [] end.
Fixpoint group2 (l : list Z) : list (Z * Z) :=
  match l with v :: a :: t => (v, a) :: group2 t | _ => [] end.

(* RawPixels::from_bytes *)
Definition from_bytes (bytes : list Z) (fmt : pixfmt) : res rawpixels :=
  match fmt with
  | FIndexed _ => Ok (RPIndexed bytes)
  | FGray => if zlen bytes mod 2 =? 0 then Ok (RPGray (group2 bytes)) else Err EInvalid
  | FRgba => if zlen bytes mod 4 =? 0 then Ok (RPRgba (group4 bytes)) else Err EInvalid
  end.

(* AseReader::take_bytes on the rest of the chunk buffer *)
Definition take_bytes (rest : list Z) (limit : Z) : res (list Z) :=
  if zlen rest <? limit then Err EInvalid else Ok (firstn (Z.to_nat limit) rest).

(* AseReader::unzip (repaired: the decoded length must equal the declared size) *)
Definition unzip (rest : list Z) (expected : Z) : res (list Z) :=
  match inflate rest (expected + 1) with
  | ZErr k => Err (EIo k)
  | ZOk out => if zlen out =? expected then Ok out else Err EInvalid
  end.

Definition dec_size : IT (Z * Z) := w <- word ;; h <- word ;; Ret (w, h).

(* ---------------- tilemap.rs / tile.rs ---------------- *)
Fixpoint group_dwords (l : list Z) : list Z :=
  match l with a :: b :: c :: d :: t => (a + 256 * b + 65536 * c + 16777216 * d) :: group_dwords t | _ => [] end.

(* header of TilemapData::parse_chunk: width, height, tile-id mask *)
Definition dec_tilemap_hdr : IT (Z * Z * Z) :=
  w <- word ;; h <- word ;; bits <- word ;;
  if negb (bits =? 32) then Fail EUnsupported else
  idmask <- dword ;; _ <- dword ;; _ <- dword ;; _ <- dword ;;
  _ <- skip 10 ;;
  Ret (w, h, idmask).

Definition dec_tilemap (rest : list Z) : res tilemapdata :=
  ' (hdr, rest') <-- run dec_tilemap_hdr rest ;;;
  let '(w, h, idmask) := hdr in
  bytes <-- unzip rest' (4 * (w * h)) ;;;
  Ok {| tm_w := w; tm_h := h;
        tm_tiles := arr_of_list (map (fun bits => Z.land bits idmask) (group_dwords bytes)) |}.

(* ---------------- cel.rs: parse_chunk ---------------- *)
Definition dec_cel_hdr : IT (celcommon * Z) :=
  layer <- word ;; x <- short ;; y <- short ;; opacity <- byte ;;
  cel_type <- word ;;
  _ <- skip 7 ;;
  Ret ({| cc_layer := layer; cc_x := x; cc_y := y; cc_opacity := opacity |}, cel_type).

Definition dec_cel (fmt : pixfmt) (buf : list Z) : res (cel rawpixels) :=
  ' (hdr, rest) <-- run dec_cel_hdr buf ;;;
  let '(common, cel_type) := hdr in
  content <--
    (if cel_type =? 0 then
       ' (sz, rest') <-- run dec_size rest ;;;
       let '(w, h) := sz in
       bytes <-- take_bytes rest' (bytes_per_pixel fmt * (w * h)) ;;;
       px <-- from_bytes bytes fmt ;;;
       Ok (CRaw w h px)
     else if cel_type =? 1 then
       ' (f, _) <-- run word rest ;;; Ok (CLinked f)
     else if cel_type =? 2 then
       ' (sz, rest') <-- run dec_size rest ;;;
       let '(w, h) := sz in
       bytes <-- unzip rest' (bytes_per_pixel fmt * (w * h)) ;;;
       px <-- from_bytes bytes fmt ;;;
       Ok (CRaw w h px)
     else if cel_type =? 3 then
       tm <-- dec_tilemap rest ;;; Ok (CTilemap tm)
     else Err EInvalid) ;;;
  Ok {| c_data := common; c_content := content; c_ud := None |}.

(* ---------------- palette.rs ---------------- *)
Definition dec_pal_entry (st : Z * palette) : IT (Z * palette) :=
  let '(id, m) := st in
  flags <- word ;; r <- byte ;; g <- byte ;; b <- byte ;; a <- byte ;;
  name <- (if Z.odd flags then (s <- str ;; Ret (Some s)) else Ret None) ;;
  Ret (id + 1, zadd id {| pe_rgba := (r, g, b, a); pe_name := name |} m).

(* parse_chunk (repaired: the entry count is computed in 64 bits) *)
Definition dec_palette : IT palette :=
  _ <- dword ;; first <- dword ;; last <- dword ;;
  _ <- skip 8 ;;
  if last <? first then Fail EInvalid else
  st <- iterZ (last - first + 1) dec_pal_entry (first, zempty) ;;
  Ret (snd st).

Definition scale_6bit (c : Z) : IT Z :=
  if 64 <=? c then Fail EInvalid else Ret (Z.lor (Z.shiftl c 2) (Z.shiftr c 4)).

Definition dec_old_color (six : bool) (st : Z * palette) : IT (Z * palette) :=
  let '(id, m) := st in
  r <- byte ;; r <- (if six then scale_6bit r else Ret r) ;;
  g <- byte ;; g <- (if six then scale_6bit g else Ret g) ;;
  b <- byte ;; b <- (if six then scale_6bit b else Ret b) ;;
  Ret (id + 1, zadd id {| pe_rgba := (r, g, b, 255); pe_name := None |} m).

Definition dec_old_packet (six : bool) (st : Z * palette) : IT (Z * palette) :=
  let '(skip0, m) := st in
  s <- byte ;;
  let skip1 := skip0 + s in
  c <- byte ;;
  let count := if c =? 0 then 256 else c in
  st' <- iterZ count (dec_old_color six) (skip1, m) ;;
  Ret (skip1, snd st').

(* parse_old_chunk_04 (six = false) / parse_old_chunk_11 (six = true) *)
Definition dec_old_palette (six : bool) : IT palette :=
  packets <- word ;;
  st <- iterZ packets (dec_old_packet six) (0, zempty) ;;
  Ret (snd st).

(* ---------------- tags.rs ---------------- *)
Definition dec_tag (acc : list tag) : IT (list tag) :=
  from <- word ;; to <- word ;; dir <- byte ;; repeat <- word ;;
  _ <- skip 6 ;; _ <- dword ;;
  name <- str ;;
  if 2 <? dir then Fail EInvalid else
  Ret ({| t_name := name; t_from := from; t_to := to; t_repeat := repeat; t_dir := dir; t_ud := None |} :: acc).

Definition dec_tags : IT (list tag) :=
  n <- word ;; _ <- skip 8 ;;
  acc <- iterZ n dec_tag [] ;;
  Ret (rev acc).

(* ---------------- slice.rs ---------------- *)
Definition dec_slice_key (flags : Z) (acc : list slicekey) : IT (list slicekey) :=
  from <- dword ;; ox <- long ;; oy <- long ;; w <- dword ;; h <- dword ;;
  s9 <- (if bit flags 1 then
           (cx <- long ;; cy <- long ;; cw <- dword ;; ch <- dword ;; Ret (Some (cx, cy, cw, ch)))
         else Ret None) ;;
  pv <- (if bit flags 2 then (px <- long ;; py <- long ;; Ret (Some (px, py))) else Ret None) ;;
  Ret ({| k_from := from; k_ox := ox; k_oy := oy; k_w := w; k_h := h; k_slice9 := s9; k_pivot := pv |} :: acc).

Definition dec_slice : IT slice :=
  n <- dword ;; flags <- dword ;; _ <- dword ;;
  name <- str ;;
  acc <- iterZ n (dec_slice_key flags) [] ;;
  Ret {| s_name := name; s_keys := rev acc; s_ud := None |}.

(* ---------------- user_data.rs ---------------- *)
Definition dec_userdata : IT userdata :=
  flags <- dword ;;
  text <- (if bit flags 1 then (s <- str ;; Ret (Some s)) else Ret None) ;;
  color <- (if bit flags 2 then (r <- byte ;; g <- byte ;; b <- byte ;; a <- byte ;; Ret (Some (r, g, b, a)))
            else Ret None) ;;
  Ret {| ud_text := text; ud_color := color |}.

(* ---------------- external_file.rs ---------------- *)
Definition dec_ext_entry (acc : list (Z * list Z)) : IT (list (Z * list Z)) :=
  id <- dword ;; _ <- skip 8 ;; name <- str ;; Ret ((id, name) :: acc).
Definition dec_external : IT (list (Z * list Z)) :=
  n <- dword ;; _ <- skip 8 ;;
  acc <- iterZ n dec_ext_entry [] ;;
  Ret (rev acc).

(* ---------------- color_profile.rs ---------------- *)
Definition dec_color_profile : IT unit :=
  ty <- word ;; flags <- word ;; _ <- dword ;; _ <- skip 8 ;;
  if 2 <? ty then Fail EUnsupported else
  if bit flags 1 then Fail EUnsupported else
  if ty =? 2 then Fail EUnsupported else Ret tt.

(* ---------------- tileset.rs ---------------- *)
(* everything up to (and including) the compressed-length dword *)
Definition dec_tileset_hdr : IT (tileset rawpixels * bool) :=
  id <- dword ;; flags <- dword ;; count <- dword ;;
  tw <- word ;; th <- word ;;
  if (tw =? 0) || (th =? 0) then Fail EInvalid else        (* repaired: zero tile size *)
  base <- short ;;
  _ <- skip 14 ;;
  name <- str ;;
  ext <- (if bit flags 1 then (a <- dword ;; b <- dword ;; Ret (Some (a, b))) else Ret None) ;;
  _ <- (if bit flags 2 then (_ <- dword ;; Ret tt) else Ret tt) ;;
  Ret ({| ts_id := id; ts_empty0 := bit flags 4; ts_count := count; ts_w := tw; ts_h := th;
          ts_base := base; ts_name := name; ts_ext := ext; ts_pixels := None |}, bit flags 2).

Definition set_ts_pixels {P Q} (t : tileset P) (px : option Q) : tileset Q :=
  {| ts_id := ts_id t; ts_empty0 := ts_empty0 t; ts_count := ts_count t; ts_w := ts_w t; ts_h := ts_h t;
     ts_base := ts_base t; ts_name := ts_name t; ts_ext := ts_ext t; ts_pixels := px |}.

Definition dec_tileset (fmt : pixfmt) (buf : list Z) : res (tileset rawpixels) :=
  ' (hdr, rest) <-- run dec_tileset_hdr buf ;;;
  let '(t, has_pixels) := hdr in
  if negb has_pixels then Ok t else
  let expected := ts_count t * ts_h t * ts_w t in
  if 4294967296 <=? expected then Err EInvalid else          (* repaired: checked multiplication *)
  bytes <-- unzip rest (bytes_per_pixel fmt * expected) ;;;
  px <-- from_bytes bytes fmt ;;;
  Ok (set_ts_pixels t (Some px)).

End WithInflate.

(* decoders that ignore what follows: run on the chunk buffer, drop the rest *)
Definition run_payload {A} (t : IT A) (buf : list Z) : res A :=
  match run t buf with Ok (a, _) => Ok a | Err e => Err e | Panic s => Panic s end.
