(* Framing and assembly: parse.rs (read_aseprite, parse_frame, Chunk::read/read_all,
   check_chunk_bytes, ParseInfo) and CelsData::add_cel. *)
From Ase Require Export Model.Chunks.

(* UserDataContext *)
Inductive udctx := UCel (frame layer : Z) | ULayer (i : Z) | UOldPalette | UTag (i : Z) | USlice (i : Z).

(* ParseInfo.  Layers and slices are kept newest-first (Vec::push = cons). *)
Record pinfo := {
  pi_palette : option palette;
  pi_layers_rev : list layer; pi_nlayers : Z;
  pi_cels : celtable rawpixels;
  pi_nframes : Z;
  pi_default_time : Z; pi_times : zmap Z;
  pi_tags : option (list tag);
  pi_ext : zmap (list Z);
  pi_tilesets : zmap (tileset rawpixels);
  pi_sprite_ud : option userdata;
  pi_ctx : option udctx;
  pi_slices_rev : list slice; pi_nslices : Z }.

Definition pinfo_new (num_frames default_time : Z) : pinfo :=
  {| pi_palette := None; pi_layers_rev := []; pi_nlayers := 0; pi_cels := zempty;
     pi_nframes := num_frames; pi_default_time := default_time; pi_times := zempty;
     pi_tags := None; pi_ext := zempty; pi_tilesets := zempty; pi_sprite_ud := None;
     pi_ctx := None; pi_slices_rev := []; pi_nslices := 0 |}.

(* record updates *)
Definition with_palette p v := {| pi_palette := v; pi_layers_rev := pi_layers_rev p; pi_nlayers := pi_nlayers p; pi_cels := pi_cels p; pi_nframes := pi_nframes p; pi_default_time := pi_default_time p; pi_times := pi_times p; pi_tags := pi_tags p; pi_ext := pi_ext p; pi_tilesets := pi_tilesets p; pi_sprite_ud := pi_sprite_ud p; pi_ctx := pi_ctx p; pi_slices_rev := pi_slices_rev p; pi_nslices := pi_nslices p |}.
Definition with_layers p v n := {| pi_palette := pi_palette p; pi_layers_rev := v; pi_nlayers := n; pi_cels := pi_cels p; pi_nframes := pi_nframes p; pi_default_time := pi_default_time p; pi_times := pi_times p; pi_tags := pi_tags p; pi_ext := pi_ext p; pi_tilesets := pi_tilesets p; pi_sprite_ud := pi_sprite_ud p; pi_ctx := pi_ctx p; pi_slices_rev := pi_slices_rev p; pi_nslices := pi_nslices p |}.
Definition with_cels p v := {| pi_palette := pi_palette p; pi_layers_rev := pi_layers_rev p; pi_nlayers := pi_nlayers p; pi_cels := v; pi_nframes := pi_nframes p; pi_default_time := pi_default_time p; pi_times := pi_times p; pi_tags := pi_tags p; pi_ext := pi_ext p; pi_tilesets := pi_tilesets p; pi_sprite_ud := pi_sprite_ud p; pi_ctx := pi_ctx p; pi_slices_rev := pi_slices_rev p; pi_nslices := pi_nslices p |}.
Definition with_times p v := {| pi_palette := pi_palette p; pi_layers_rev := pi_layers_rev p; pi_nlayers := pi_nlayers p; pi_cels := pi_cels p; pi_nframes := pi_nframes p; pi_default_time := pi_default_time p; pi_times := v; pi_tags := pi_tags p; pi_ext := pi_ext p; pi_tilesets := pi_tilesets p; pi_sprite_ud := pi_sprite_ud p; pi_ctx := pi_ctx p; pi_slices_rev := pi_slices_rev p; pi_nslices := pi_nslices p |}.
Definition with_tags p v := {| pi_palette := pi_palette p; pi_layers_rev := pi_layers_rev p; pi_nlayers := pi_nlayers p; pi_cels := pi_cels p; pi_nframes := pi_nframes p; pi_default_time := pi_default_time p; pi_times := pi_times p; pi_tags := v; pi_ext := pi_ext p; pi_tilesets := pi_tilesets p; pi_sprite_ud := pi_sprite_ud p; pi_ctx := pi_ctx p; pi_slices_rev := pi_slices_rev p; pi_nslices := pi_nslices p |}.
Definition with_ext p v := {| pi_palette := pi_palette p; pi_layers_rev := pi_layers_rev p; pi_nlayers := pi_nlayers p; pi_cels := pi_cels p; pi_nframes := pi_nframes p; pi_default_time := pi_default_time p; pi_times := pi_times p; pi_tags := pi_tags p; pi_ext := v; pi_tilesets := pi_tilesets p; pi_sprite_ud := pi_sprite_ud p; pi_ctx := pi_ctx p; pi_slices_rev := pi_slices_rev p; pi_nslices := pi_nslices p |}.
Definition with_tilesets p v := {| pi_palette := pi_palette p; pi_layers_rev := pi_layers_rev p; pi_nlayers := pi_nlayers p; pi_cels := pi_cels p; pi_nframes := pi_nframes p; pi_default_time := pi_default_time p; pi_times := pi_times p; pi_tags := pi_tags p; pi_ext := pi_ext p; pi_tilesets := v; pi_sprite_ud := pi_sprite_ud p; pi_ctx := pi_ctx p; pi_slices_rev := pi_slices_rev p; pi_nslices := pi_nslices p |}.
Definition with_sprite_ud p v := {| pi_palette := pi_palette p; pi_layers_rev := pi_layers_rev p; pi_nlayers := pi_nlayers p; pi_cels := pi_cels p; pi_nframes := pi_nframes p; pi_default_time := pi_default_time p; pi_times := pi_times p; pi_tags := pi_tags p; pi_ext := pi_ext p; pi_tilesets := pi_tilesets p; pi_sprite_ud := v; pi_ctx := pi_ctx p; pi_slices_rev := pi_slices_rev p; pi_nslices := pi_nslices p |}.
Definition with_ctx p v := {| pi_palette := pi_palette p; pi_layers_rev := pi_layers_rev p; pi_nlayers := pi_nlayers p; pi_cels := pi_cels p; pi_nframes := pi_nframes p; pi_default_time := pi_default_time p; pi_times := pi_times p; pi_tags := pi_tags p; pi_ext := pi_ext p; pi_tilesets := pi_tilesets p; pi_sprite_ud := pi_sprite_ud p; pi_ctx := v; pi_slices_rev := pi_slices_rev p; pi_nslices := pi_nslices p |}.
Definition with_slices p v n := {| pi_palette := pi_palette p; pi_layers_rev := pi_layers_rev p; pi_nlayers := pi_nlayers p; pi_cels := pi_cels p; pi_nframes := pi_nframes p; pi_default_time := pi_default_time p; pi_times := pi_times p; pi_tags := pi_tags p; pi_ext := pi_ext p; pi_tilesets := pi_tilesets p; pi_sprite_ud := pi_sprite_ud p; pi_ctx := pi_ctx p; pi_slices_rev := v; pi_nslices := n |}.

(* Vec index from the back of a newest-first list *)
Definition rev_index (n i : Z) : Z := n - 1 - i.
Definition upd_rev {A} (l : list A) (n i : Z) (f : A -> A) : option (list A) :=
  let j := rev_index n i in
  match nthz l j with
  | Some x => Some (upd_nth l (Z.to_nat j) (f x))
  | None => None
  end.

Fixpoint repeat_none {A} (n : nat) : list (option A) :=
  match n with O => [] | S k => None :: repeat_none k end.

(* CelsData::add_cel *)
Definition table_add_cel (t : celtable rawpixels) (nframes frame_id : Z) (c : cel rawpixels)
  : res (celtable rawpixels) :=
  if nframes <=? frame_id then Err EInvalid else                 (* check_valid_frame_id *)
  let layer_id := cc_layer (c_data c) in
  let r := get_row t frame_id in
  let r := if zlen r <? layer_id + 1 then r ++ repeat_none (Z.to_nat (layer_id + 1 - zlen r)) else r in
  match nthz r layer_id with
  | None => Panic 101                                            (* layers[layer_id]: index *)
  | Some (Some _) => Err EInvalid                                (* Multiple Cels for frame, layer *)
  | Some None => Ok (zadd frame_id (upd_nth r (Z.to_nat layer_id) (Some c)) t)
  end.

(* ParseInfo::add_cel (repaired: the cel's layer must have been declared) *)
Definition add_cel (p : pinfo) (frame_id : Z) (c : cel rawpixels) : res pinfo :=
  let layer_id := cc_layer (c_data c) in
  if pi_nlayers p <=? layer_id then Err EInvalid else
  t <-- table_add_cel (pi_cels p) (pi_nframes p) frame_id c ;;;
  Ok (with_ctx (with_cels p t) (Some (UCel frame_id layer_id))).

Definition add_layer (p : pinfo) (l : layer) : pinfo :=
  with_ctx (with_layers p (l :: pi_layers_rev p) (pi_nlayers p + 1)) (Some (ULayer (pi_nlayers p))).

Definition add_tags (p : pinfo) (ts : list tag) : pinfo :=
  with_ctx (with_tags p (Some ts)) (Some (UTag 0)).

Definition add_external_files (p : pinfo) (fs : list (Z * list Z)) : pinfo :=
  with_ext p (fold_left (fun m e => zadd (fst e) (snd e) m) fs (pi_ext p)).

Definition add_slice (p : pinfo) (s : slice) : pinfo :=
  with_ctx (with_slices p (s :: pi_slices_rev p) (pi_nslices p + 1)) (Some (USlice (pi_nslices p))).

(* CelsData::cel_mut + assignment of user data *)
Definition table_set_cel_ud (t : celtable rawpixels) (frame layer : Z) (u : userdata)
  : option (celtable rawpixels) :=
  let r := get_row t frame in
  match nthz r layer with
  | Some (Some c) => Some (zadd frame (upd_nth r (Z.to_nat layer) (Some (set_cel_ud c u))) t)
  | _ => None
  end.

(* ParseInfo::add_user_data / set_tag_user_data *)
Definition add_user_data (p : pinfo) (u : userdata) : res pinfo :=
  match pi_ctx p with
  | None => Err EInvalid
  | Some (UCel f l) =>
      match table_set_cel_ud (pi_cels p) f l u with
      | Some t => Ok (with_cels p t) | None => Err EInternal end
  | Some (ULayer i) =>
      match upd_rev (pi_layers_rev p) (pi_nlayers p) i (fun l => set_layer_ud l u) with
      | Some ls => Ok (with_layers p ls (pi_nlayers p)) | None => Err EInternal end
  | Some UOldPalette => Ok (with_sprite_ud p (Some u))
  | Some (UTag i) =>
      match pi_tags p with
      | None => Err EInternal
      | Some ts =>
          match nthz ts i with
          | None => Err EInternal
          | Some t =>
              (* tag_index + 1 on a u16 *)
              if 65535 <=? i then Panic 102 else
              Ok (with_ctx (with_tags p (Some (upd_nth ts (Z.to_nat i) (set_tag_ud t u)))) (Some (UTag (i + 1))))
          end
      end
  | Some (USlice i) =>
      match upd_rev (pi_slices_rev p) (pi_nslices p) i (fun s => set_slice_ud s u) with
      | Some ss => Ok (with_slices p ss (pi_nslices p)) | None => Err EInternal end
  end.

Section WithInflate.
Variable inflate : list Z -> Z -> zres.

(* parse_chunk_type: the 14 known codes *)
Definition chunk_type_known (t : Z) : bool :=
  (t =? 4) || (t =? 17) || (t =? 8196) || (t =? 8197) || (t =? 8198) || (t =? 8199) || (t =? 8200)
  || (t =? 8214) || (t =? 8215) || (t =? 8216) || (t =? 8217) || (t =? 8224) || (t =? 8226) || (t =? 8227).

(* the `match chunk_type` of parse_frame *)
Definition process_chunk (fmt : pixfmt) (frame_id : Z) (p : pinfo) (ch : Z * list Z) : res pinfo :=
  let '(ty, data) := ch in
  if ty =? 8199 then _ <-- run_payload dec_color_profile data ;;; Ok p
  else if ty =? 8217 then pal <-- run_payload dec_palette data ;;; Ok (with_palette p (Some pal))
  else if ty =? 8196 then l <-- run_payload dec_layer data ;;; Ok (add_layer p l)
  else if ty =? 8197 then c <-- dec_cel inflate fmt data ;;; add_cel p frame_id c
  else if ty =? 8200 then fs <-- run_payload dec_external data ;;; Ok (add_external_files p fs)
  else if ty =? 8216 then ts <-- run_payload dec_tags data ;;; Ok (if frame_id =? 0 then add_tags p ts else p)
  else if ty =? 8226 then s <-- run_payload dec_slice data ;;; Ok (add_slice p s)
  else if ty =? 8224 then u <-- run_payload dec_userdata data ;;; add_user_data p u
  else if (ty =? 4) || (ty =? 17) then
    let p := with_ctx p (Some UOldPalette) in
    match pi_palette p with
    | Some _ => Ok p
    | None => pal <-- run_payload (dec_old_palette (ty =? 17)) data ;;; Ok (with_palette p (Some pal))
    end
  else if ty =? 8227 then t <-- dec_tileset inflate fmt data ;;; Ok (with_tilesets p (zadd (ts_id t) t (pi_tilesets p)))
  else Ok p.      (* CelExtra, Mask, Path *)

(* Chunk::read (repaired: the payload is read through take(n).read_to_end, so a short
   input is an UnexpectedEof error and no buffer of the declared size is reserved) *)
Definition read_chunk (st : list (Z * list Z) * Z) : IT (list (Z * list Z) * Z) :=
  let '(acc, avail) := st in
  size <- dword ;; ty <- word ;;
  if negb (chunk_type_known ty) then Fail EUnsupported else
  if size <? 6 then Fail EInvalid else
  if avail <? size then Fail EInvalid else
  data <- take (size - 6) ;;
  Ret ((ty, data) :: acc, avail - size).

(* parse_frame *)
Definition parse_frame (fmt : pixfmt) (p : pinfo) (frame_id : Z) : IT pinfo :=
  num_bytes <- dword ;; magic <- word ;;
  if negb (magic =? 61946) then Fail EInvalid else
  old_n <- word ;; duration <- word ;; _ <- word ;; new_n <- dword ;;
  if pi_nframes p <=? frame_id then Crash 103 else              (* frame_times[frame_id] *)
  let p := with_times p (zadd frame_id duration (pi_times p)) in
  let num_chunks := if new_n =? 0 then old_n else new_n in
  st <- iterZ num_chunks read_chunk ([], num_bytes - 16) ;;
  lift (rfold (process_chunk fmt frame_id) (frev (fst st)) p).

(* parse_pixel_format *)
Definition parse_pixel_format (depth transparent : Z) : res pixfmt :=
  if depth =? 8 then Ok (FIndexed transparent)
  else if depth =? 16 then Ok FGray
  else if depth =? 32 then Ok FRgba
  else Err EInvalid.

Record header := { h_frames : Z; h_width : Z; h_height : Z; h_fmt : pixfmt }.

Definition parse_frames_step (fmt : pixfmt) (st : pinfo * Z) : IT (pinfo * Z) :=
  let '(p, frame_id) := st in
  p' <- parse_frame fmt p frame_id ;; Ret (p', frame_id + 1).

(* read_aseprite up to (excluding) validation *)
Definition parse_file : IT (header * pinfo) :=
  _ <- dword ;; magic <- word ;;
  if negb (magic =? 42464) then Fail EInvalid else
  num_frames <- word ;; width <- word ;; height <- word ;; depth <- word ;;
  _ <- dword ;; default_time <- word ;; _ <- dword ;; _ <- dword ;;
  transparent <- byte ;; _ <- byte ;; _ <- word ;; _ <- word ;;
  pixel_w <- byte ;; pixel_h <- byte ;;
  _ <- short ;; _ <- short ;; _ <- word ;; _ <- word ;;
  _ <- skip 84 ;;
  if negb (pixel_w =? 0) && negb (pixel_h =? 0) && negb ((pixel_w =? 1) && (pixel_h =? 1))
  then Fail EUnsupported else
  fmt <- lift (parse_pixel_format depth transparent) ;;
  st <- iterZ num_frames (parse_frames_step fmt) (pinfo_new num_frames default_time, 0) ;;
  Ret ({| h_frames := num_frames; h_width := width; h_height := height; h_fmt := fmt |}, fst st).

End WithInflate.
