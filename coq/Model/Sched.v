(* Readers that do not deliver the bytes in one piece: std::io::Read::read_exact (the
   default implementation every primitive of reader.rs goes through) over a reader whose
   read() calls follow a schedule of events. *)
From Ase Require Export Model.Validate.

Inductive ev := Short (n : positive) | Intr | Hard (kind : Z).

(* the outcome of one read() call wanting `want` > 0 bytes *)
Inductive rd := Got (bytes rest : list Z) | Interrupted | Failed (kind : Z).

Definition read1 (want : Z) (data : list Z) (e : ev) : rd :=
  match e with
  | Intr => Interrupted
  | Hard k => Failed k
  | Short n => match split_z (Z.min want (Z.pos n)) data with
               | Some (a, r) => Got a r
               | None => Got data []          (* fewer bytes left than asked: deliver what is left *)
               end
  end.

(* read_exact: loop until the buffer is full; Interrupted is retried, a zero-length read
   is UnexpectedEof, any other error is returned.  Recursion on the schedule; when the
   schedule is used up the reader delivers full requests. *)
Fixpoint rx (want : Z) (acc : list Z) (data : list Z) (sched : list ev) {struct sched}
  : res (list Z * list Z * list ev) :=
  if want <=? 0 then Ok (acc, data, sched) else
  match sched with
  | [] => match split_z want data with
          | Some (a, r) => Ok (acc ++ a, r, [])
          | None => Err eof
          end
  | e :: s' =>
      match read1 want data e with
      | Interrupted => rx want acc data s'
      | Failed k => Err (EIo k)
      | Got [] _ => Err eof
      | Got a r => rx (want - zlen a) (acc ++ a) r s'
      end
  end.

Fixpoint run_s {A} (t : IT A) (data : list Z) (sched : list ev) : res (A * list Z) :=
  match t with
  | Ret a => Ok (a, data)
  | Fail e => Err e
  | Crash s => Panic s
  | Read n k => match rx n [] data sched with
                | Ok (a, rest, s') => run_s (k a) rest s'
                | Err e => Err e
                | Panic s => Panic s
                end
  end.

(* a reader that delivers full requests but fails with `kind` once `limit` bytes have been
   delivered (a device error, a dropped connection): the end of the delivered bytes is
   reported as EIo kind instead of UnexpectedEof *)
Fixpoint run_with {A} (eof_err : err) (t : IT A) (bs : list Z) : res (A * list Z) :=
  match t with
  | Ret a => Ok (a, bs)
  | Fail e => Err e
  | Crash s => Panic s
  | Read n k => match split_z n bs with
                | Some (a, rest) => run_with eof_err (k a) rest
                | None => Err eof_err
                end
  end.
Definition run_fault {A} (t : IT A) (data : list Z) (limit kind : Z) : res (A * list Z) :=
  run_with (EIo kind) t (firstn (Z.to_nat limit) data).

Section WithInflate.
Variable inflate : list Z -> Z -> zres.

Definition finish (r : res (header * pinfo * list Z)) : res file :=
  ' (hp, _) <-- r ;;; validate (fst hp) (snd hp).

(* AsepriteFile::read over a scheduled reader / a failing reader *)
Definition run_sched_load (data : list Z) (sched : list ev) : res file :=
  finish (run_s (parse_file inflate) data sched).
Definition run_fault_load (data : list Z) (limit kind : Z) : res file :=
  finish (run_fault (parse_file inflate) data limit kind).
End WithInflate.
