(* Cost model for property C12 (memory used while loading).  The logical content of the
   property is *which values size a reservation*: after the repairs every buffer the loader
   creates is sized by bytes actually read or actually inflated, never by a declared field.
   `run_buffered` counts the bytes the reader materialises; `alloc_upper` is the closed-form
   upper bound for the live heap used by the check (element sizes over-approximate size_of). *)
From Ase Require Export Model.Validate.

(* total length of the byte buffers delivered by read_exact / take(n).read_to_end requests
   (a request that cannot be satisfied buffers at most what is left) *)
Fixpoint run_buffered {A} (t : IT A) (bs : list Z) : Z :=
  match t with
  | Read n k => match split_z n bs with
                | Some (a, rest) => zlen a + run_buffered (k a) rest
                | None => zlen bs
                end
  | _ => 0
  end.

(* Upper bound for the live heap while loading, in bytes:
     nframes   frames declared in the header (frame_times, one empty map per frame in the raw and
               in the validated cel table, the frame loop)                      <= 512 B each
     consumed  input bytes consumed (chunk buffers of one frame alive together, strings,
               Vec growth by doubling)                                           <= 4 B each
     inflated  bytes produced by inflate (read_to_end buffer with doubling + the converted
               pixel / tile vector with doubling; tiles are 8 B per 4-byte word)   <= 6 B each
     entities  layers, tags, slices, slice keys, palette entries, external files, tilesets,
               cels (one bounded struct, a map node or a hash bucket each)       <= 256 B each
     nframes * layers   the is_linkable_cel table of CelsData::validate            1 B each
     a constant for reservations made from 16-bit declared counts, which are bounded whatever
     the input: Vec::with_capacity(num_tags) (65535 tags of 64 B, at most two tag vectors alive),
     a string buffer of the declared 16-bit length                               16 MiB *)
Definition alloc_upper (nframes consumed inflated entities layers : Z) : Z :=
  16 * 1048576 + 512 * nframes + 4 * consumed + 6 * inflated + 256 * entities + nframes * layers.

Definition bound (input_len : Z) : Z := 64 * 1048576 + 8192 * input_len.
