(* The canonical observation of tools/SCHEMA.md, computed from the model.  One function
   per section; a section that hits a Panic yields Panic (the drivers print `99 <bit>`). *)
From Ase Require Export Model.Render.

Definition line := list Z.
Definition b2z (b : bool) : Z := if b then 1 else 0.
Definition optz (o : option Z) : Z := match o with Some v => v | None => -1 end.

Definition pixz (p : pixel) : Z :=
  let '(r, g, b, a) := p in
  if a =? 0 then 0 else r + 256 * g + 65536 * b + 16777216 * a.

(* selected(n, max) *)
Definition selected (n : Z) (max : option Z) : list Z :=
  match max with
  | None => ziota n
  | Some m => let head := Z.min n m in
              ziota head ++ (if head <? n then [n - 1] else [])
  end.

Record obsopts := { o_max_frames : option Z; o_max_layers : option Z }.

(* img(I) for a canvas image: row-major *)
Definition img_words (img : image) : list Z :=
  iw img :: ih img ::
  flat_map (fun y => map (fun x => pixz (img_get img x y)) (ziota (iw img))) (ziota (ih img)).
Definition rawimg_words (r : rawimage) : list Z := rw r :: rh r :: map pixz (rpx r).

(* lines 6 / 7 *)
Definition ud_lines (kind i j : Z) (u : option userdata) : list line :=
  match u with
  | None => []
  | Some u =>
      let '(hc, r, g, b, a) :=
        match ud_color u with Some (r, g, b, a) => (1, r, g, b, a) | None => (0, 0, 0, 0, 0) end in
      [6; kind; i; j; b2z (is_some (ud_text u)); hc; r; g; b; a] ::
      match ud_text u with Some t => [7 :: kind :: i :: j :: t] | None => [] end
  end.

Definition concat_res {A} (l : list (res (list A))) : res (list A) :=
  rfold (fun acc r => x <-- r ;;; Ok (acc ++ x)) l [].

(* ---------------- STRUCT ---------------- *)
Definition layer_lines (f : file) (id : Z) : res (list line) :=
  l <-- layer_get f id ;;;
  par <-- layer_parent f id ;;;
  vis <-- layer_is_visible f id ;;;
  Ok ([4; id; l_flags l; l_blend l; l_opacity l; l_type l;
       (if l_type l =? 2 then l_tileset l else -1); optz par; b2z vis; b2z (l_type l =? 2)]
      :: (5 :: id :: l_name l)
      :: ud_lines 1 id 0 (l_ud l)).

Fixpoint tag_lines (ts : list tag) (id : Z) : list line :=
  match ts with
  | [] => []
  | t :: rest =>
      [8; id; t_from t; t_to t; t_dir t; t_repeat t] :: (9 :: id :: t_name t) :: ud_lines 3 id 0 (t_ud t)
      ++ tag_lines rest (id + 1)
  end.

Fixpoint key_lines (sid : Z) (ks : list slicekey) (k : Z) : list line :=
  match ks with
  | [] => []
  | key :: rest =>
      let '(h9, cx, cy, cw, ch) :=
        match k_slice9 key with Some (a, b, c, d) => (1, a, b, c, d) | None => (0, 0, 0, 0, 0) end in
      let '(hp, px, py) := match k_pivot key with Some (a, b) => (1, a, b) | None => (0, 0, 0) end in
      [12; sid; k; k_from key; k_ox key; k_oy key; k_w key; k_h key; h9; cx; cy; cw; ch; hp; px; py]
      :: key_lines sid rest (k + 1)
  end.
Fixpoint slice_lines (ss : list slice) (id : Z) : list line :=
  match ss with
  | [] => []
  | s :: rest =>
      [10; id; zlen (s_keys s)] :: (11 :: id :: s_name s) :: ud_lines 4 id 0 (s_ud s)
      ++ key_lines id (s_keys s) 0 ++ slice_lines rest (id + 1)
  end.

Definition palette_lines (f : file) : list line :=
  match f_palette f with
  | None => [[13; 0; 0]]
  | Some p =>
      [13; 1; palette_num_colors p] ::
      flat_map (fun kv =>
                  let '(id, e) := kv in
                  if 65536 <=? id then [] else
                  let '(r, g, b, a) := pe_rgba e in
                  [14; id; r; g; b; a; b2z (is_some (pe_name e))]
                  :: match pe_name e with Some n => [15 :: id :: n] | None => [] end)
               (zelements p)
  end.

Definition tileset_lines (t : tileset pixels) : list line :=
  let '(he, a, b) := match ts_ext t with Some (a, b) => (1, a, b) | None => (0, 0, 0) end in
  [[17; ts_id t; b2z (ts_empty0 t); ts_count t; ts_w t; ts_h t; ts_base t; he; a; b];
   18 :: ts_id t :: ts_name t].

Definition no_such_layer : list Z := [1; 110; 111; 32; 115; 117; 99; 104; 32; 108; 97; 121; 101; 114].
Definition no_such_tag : list Z := [1; 110; 111; 32; 115; 117; 99; 104; 32; 116; 97; 103].

Definition lookup_lines (f : file) : res (list line) :=
  let nl := num_layers f in
  let nt := num_tags f in
  by_name <-- rmapM (fun id => l <-- layer_get f id ;;; Ok [21; 0; id; 0; optz (layer_by_name f (l_name l))]) (ziota nl) ;;;
  let tagn := map (fun id => match get_tag f id with
                             | Some t => [21; 1; id; 0; optz (tag_by_name f (t_name t))]
                             | None => [21; 1; id; 0; -1] end) (ziota nt) in
  let ks := [0] ++ (if 1 <=? nt then [nt - 1] else []) ++ [nt; nt + 1; 4294967295] in
  let ext_ids := map fst (zelements (f_ext f)) in
  let ts_ids := map fst (zelements (f_tilesets f)) in
  Ok (by_name
      ++ [[21; 0; -1; 0; optz (layer_by_name f no_such_layer)]]
      ++ tagn
      ++ [[21; 1; -1; 0; optz (tag_by_name f no_such_tag)]]
      ++ map (fun k => [21; 2; k; 0; b2z (is_some (get_tag f k))]) ks
      ++ map (fun k => [21; 3; k; 0; b2z (is_some (zfind k (f_ext f)))]) ([0; 1; 2; 4294967295] ++ ext_ids)
      ++ map (fun k => [21; 4; k; 0; b2z (is_some (zfind k (f_tilesets f)))]) ([0; 1; 2; 4294967295] ++ ts_ids)
      ++ map (fun k => [21; 5; k; 0;
                        b2z (match f_palette f with Some p => is_some (palette_color p k) | None => false end)])
             [0; 1; 255; 256; 4294967295]
      ++ [[21; 6; nl; 0; 0]]
      ++ map (fun i => [21; 6; -1; i; i]) (ziota nl)
      ++ [[21; 7; zcard (f_tilesets f); b2z (zcard (f_tilesets f) =? 0); 0]]
      (* the iterator protocol of layers(): count(), last(), nth(1), next() / last() after a full drain, skip(n).last() *)
      ++ [[21; 8; 0; 0; nl]; [21; 8; 1; 0; if 1 <=? nl then nl - 1 else -1]; [21; 8; 2; 0; if 2 <=? nl then 1 else -1];
          [21; 8; 3; 0; -1]; [21; 8; 4; 0; -1]; [21; 8; 5; 0; -1]]).

Definition section_struct (f : file) : res (list line) :=
  durs <-- rmapM (fun i => d <-- frame_duration f i ;;; Ok [3; i; d]) (ziota (num_frames f)) ;;;
  lays <-- concat_res (map (layer_lines f) (ziota (num_layers f))) ;;;
  looks <-- lookup_lines f ;;;
  Ok ([2; f_width f; f_height f; num_frames f; fmt_code (f_fmt f); optz (transparent_index f);
       b2z (is_indexed f); num_layers f; num_tags f; num_slices f]
      :: ud_lines 0 0 0 (f_sprite_ud f)
      ++ durs ++ lays
      ++ tag_lines (f_tags f) 0
      ++ slice_lines (f_slices f) 0
      ++ palette_lines f
      ++ map (fun kv => 16 :: fst kv :: snd kv) (zelements (f_ext f))
      ++ flat_map (fun kv => tileset_lines (snd kv)) (zelements (f_tilesets f))
      ++ looks).

(* ---------------- FRAMES ---------------- *)
Definition section_frames (f : file) (o : obsopts) : res (list line) :=
  rmapM (fun fr => img <-- frame_image f fr ;;; Ok (22 :: fr :: img_words img))
        (selected (num_frames f) (o_max_frames o)).

(* ---------------- CELS ---------------- *)
Definition cel_route_lines (f : file) (fr l route : Z) : res (list line) :=
  id <-- route_cel f route fr l ;;;
  ' (x, y) <-- cel_top_left f id ;;;
  e <-- cel_is_empty f id ;;;
  tm <-- cel_is_tilemap f id ;;;
  let head := [23; route; fr; l; fst id; snd id; b2z e; x; y; b2z tm] in
  if route =? 0 then
    u <-- cel_user_data f id ;;;
    img <-- cel_image f id ;;;
    Ok (head :: ud_lines 2 fr l u ++ [24 :: fr :: l :: img_words img])
  else Ok [head].

Definition section_cels (f : file) (o : obsopts) : res (list line) :=
  concat_res
    (flat_map (fun fr =>
       flat_map (fun l => map (cel_route_lines f fr l) [0; 1; 2])
                (selected (num_layers f) (o_max_layers o)))
       (selected (num_frames f) (o_max_frames o))).

(* ---------------- TILES ---------------- *)
Definition LAT : list Z := [0; 1; 65535; 65536; 2147483647; 2147483648; 4294967295].

Definition tileset_img_lines (t : tileset pixels) : res (list line) :=
  full <-- tileset_image t ;;;
  let count := ts_count t in
  let idx := ziota (Z.min count 64) ++ (if 64 <? count then [count - 1] else []) in
  tiles <-- rmapM (fun i => r <-- tile_image t i ;;; Ok (20 :: ts_id t :: i :: rawimg_words r)) idx ;;;
  Ok ((19 :: ts_id t :: rawimg_words full) :: tiles).

Definition tilemap_lines (f : file) (l fr : Z) : res (list line) :=
  t <-- tilemap_of f l fr ;;;
  match t with
  | None => Ok [[25; l; fr; 0; 0; 0; 0; 0; 0; 0; 0; 0]]
  | Some t =>
      ' (ox, oy) <-- tilemap_tile_offsets f t ;;;
      ' (px, py) <-- tilemap_pixel_offsets f t ;;;
      let gw := Z.min (tmv_w t + 2) 20 in
      let gh := Z.min (tmv_h t + 2) 20 in
      let coords := flat_map (fun y => map (fun x => (x, y)) (ziota gw)) (ziota gh)
                    ++ flat_map (fun y => map (fun x => (x, y)) LAT) LAT in
      ids <-- rmapM (fun xy => tilemap_tile f t (fst xy) (snd xy)) coords ;;;
      img <-- tilemap_image f t ;;;
      Ok [[25; l; fr; 1; tmv_w t; tmv_h t; ts_w (tmv_ts t); ts_h (tmv_ts t); ox; oy; px; py];
          26 :: l :: fr :: zlen coords :: ids;
          27 :: l :: fr :: img_words img]
  end.

Definition section_tiles (f : file) (o : obsopts) : res (list line) :=
  tsl <-- concat_res (map (fun kv => tileset_img_lines (snd kv)) (zelements (f_tilesets f))) ;;;
  tml <-- concat_res
            (flat_map (fun l => map (fun fr => tilemap_lines f l fr) (selected (num_frames f) (o_max_frames o)))
                      (selected (num_layers f) (o_max_layers o))) ;;;
  r1 <-- tilemap_of f (num_layers f) 0 ;;;
  r2 <-- tilemap_of f 0 (num_frames f) ;;;
  Ok (tsl ++ tml ++ [[25; -1; -1; b2z (is_some r1); b2z (is_some r2); 0; 0; 0; 0; 0; 0; 0]]).

(* ---------------- outcome ---------------- *)
Definition err_code (e : err) : Z :=
  match e with EInvalid => 1 | EUnsupported => 2 | EInternal => 3 | EIo _ => 4 end.
Definition outcome_line {A} (r : res A) : line :=
  match r with Ok _ => [1; 0] | Err e => [1; err_code e] | Panic _ => [1; 9] end.

Definition section (f : file) (o : obsopts) (bit : Z) : res (list line) :=
  if bit =? 1 then section_struct f
  else if bit =? 2 then section_frames f o
  else if bit =? 4 then section_cels f o
  else if bit =? 8 then section_tiles f o
  else Ok [].

(* whole observation (used inside Coq; the OCaml driver calls `section` bit by bit) *)
Fixpoint observe_sections (f : file) (o : obsopts) (bits : list Z) : list line :=
  match bits with
  | [] => []
  | b :: rest =>
      match section f o b with
      | Ok ls => ls ++ observe_sections f o rest
      | _ => [[99; b]]
      end
  end.
Definition observe (r : res file) (o : obsopts) (bits : list Z) : list line :=
  outcome_line r :: match r with Ok f => observe_sections f o bits | _ => [] end.
