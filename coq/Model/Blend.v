(* Model of src/blend.rs.  Integers are Z (i32 values never leave the i32 range for byte
   inputs: proved in Proofs/BlendRange.v); f64 is Coq's primitive binary64.
   `option`: None = a debug_assert!/overflow check/division by zero would fire. *)
From Ase Require Export Base.Prelude.
From Coq Require Import Floats.

Definition pixel := (Z * Z * Z * Z)%type.
Definition transparent : pixel := (0, 0, 0, 0).
Definition pix_alpha (p : pixel) : Z := let '(_, _, _, a) := p in a.
Definition pix_wf (p : pixel) : Prop :=
  let '(r, g, b, a) := p in is_byte r /\ is_byte g /\ is_byte b /\ is_byte a.

Definition as_u8 (z : Z) : Z := z mod 256.

(* fn mul_un8(a: i32, b: i32) -> u8 *)
Definition mul_un8 (a b : Z) : Z :=
  let t := a * b + 128 in as_u8 (Z.shiftr (Z.shiftr t 8 + t) 8).

(* fn div_un8(a: i32, b: i32) -> u8;  None = division by zero *)
Definition div_un8 (a b : Z) : option Z :=
  if b =? 0 then None else Some (as_u8 (Z.quot (a * 255 + Z.quot b 2) b)).

(* fn blend8(back: u8, src: u8, opacity: u8) -> u8 *)
Definition blend8 (back src opacity : Z) : Z :=
  let t := (src - back) * opacity + 128 in
  as_u8 (back + Z.shiftr (Z.shiftr t 8 + t) 8).

(* fn from_rgba_i32 with its four debug_assert! *)
Definition in_u8 (z : Z) : bool := (0 <=? z) && (z <=? 255).
Definition from_rgba_i32 (r g b a : Z) : option pixel :=
  if in_u8 r && in_u8 g && in_u8 b && in_u8 a then Some (r, g, b, a) else None.

Definition obind {A B} (o : option A) (f : A -> option B) : option B :=
  match o with Some a => f a | None => None end.
Notation "x <-? t ;; u" := (obind t (fun x => u)) (at level 61, t at next level, right associativity).

(* pub(crate) fn merge *)
Definition merge (backdrop src : pixel) (opacity : Z) : pixel :=
  let '(br, bg, bb, ba) := backdrop in
  let '(sr, sg, sb, sa) := src in
  let '(rr, rg, rb) :=
    if ba =? 0 then (sr, sg, sb)
    else if sa =? 0 then (br, bg, bb)
    else (blend8 br sr opacity, blend8 bg sg opacity, blend8 bb sb opacity) in
  let ra := blend8 ba sa opacity in
  if ra =? 0 then (0, 0, 0, 0) else (rr, rg, rb, ra).

(* pub(crate) fn normal *)
Definition normal (backdrop src : pixel) (opacity : Z) : option pixel :=
  let '(br, bg, bb, ba) := backdrop in
  let '(sr, sg, sb, sa) := src in
  if ba =? 0 then from_rgba_i32 sr sg sb (mul_un8 sa opacity)
  else if sa =? 0 then Some backdrop
  else
    let sa' := mul_un8 sa opacity in
    let ra := sa' + ba - mul_un8 ba sa' in
    if ra =? 0 then None       (* division by zero *)
    else from_rgba_i32 (br + Z.quot ((sr - br) * sa') ra)
                       (bg + Z.quot ((sg - bg) * sa') ra)
                       (bb + Z.quot ((sb - bb) * sa') ra) ra.

(* fn blender: the "new layer blending method" wrapper *)
Definition blender (f : pixel -> pixel -> Z -> option pixel) (backdrop src : pixel) (opacity : Z) : option pixel :=
  if negb (pix_alpha backdrop =? 0) then
    norm <-? normal backdrop src opacity ;;
    blend <-? f backdrop src opacity ;;
    let back_alpha := pix_alpha backdrop in
    let n2b := merge norm blend back_alpha in
    let src_total_alpha := mul_un8 (pix_alpha src) opacity in
    let composite_alpha := mul_un8 back_alpha src_total_alpha in
    Some (merge n2b blend composite_alpha)
  else normal backdrop src opacity.

(* fn blend_channel: f returns the u8 channel (None = a panic inside f) *)
Definition blend_channel (f : Z -> Z -> option Z) (backdrop src : pixel) (opacity : Z) : option pixel :=
  let '(br, bg, bb, _) := backdrop in
  let '(sr, sg, sb, sa) := src in
  r <-? f br sr ;; g <-? f bg sg ;; b <-? f bb sb ;;
  normal backdrop (r, g, b, sa) opacity.

(* ---- separable channel functions (return type u8 unless noted) ---- *)
Definition blend_multiply (a b : Z) : option Z := Some (mul_un8 a b).
Definition blend_screen (a b : Z) : option Z := Some (as_u8 (a + b - mul_un8 a b)).
Definition blend_hard_light (b s : Z) : option Z :=
  if s <? 128 then blend_multiply b (Z.shiftl s 1) else blend_screen b (Z.shiftl s 1 - 255).
Definition blend_overlay (b s : Z) : option Z := blend_hard_light s b.
Definition blend_darken (b s : Z) : option Z := Some (as_u8 (Z.min b s)).
Definition blend_lighten (b s : Z) : option Z := Some (as_u8 (Z.max b s)).
Definition blend_color_dodge (b s : Z) : option Z :=
  if b =? 0 then Some 0 else
  let s := 255 - s in
  if b >=? s then Some 255 else div_un8 b s.
Definition blend_color_burn (b s : Z) : option Z :=
  if b =? 255 then Some 255 else
  let b := 255 - b in
  if b >=? s then Some 0 else
  d <-? div_un8 b s ;; if 255 - d <? 0 then None else Some (255 - d).   (* 255 - u8: cannot underflow *)
Definition blend_divide (b s : Z) : option Z :=
  if b =? 0 then Some 0 else if b >=? s then Some 255 else div_un8 b s.
Definition blend_difference (b s : Z) : option Z := Some (as_u8 (Z.abs (b - s))).
Definition blend_exclusion (b s : Z) : option Z :=
  let t := mul_un8 b s in Some (as_u8 (b + s - 2 * t)).

(* ---- soft light (f64) ---- *)
Open Scope float_scope.

(* i32 -> f64 for 0 <= z < 2^31 *)
Definition f_of_Z (z : Z) : float := PrimFloat.of_uint63 (Uint63.of_Z z).

(* Rust `x as u32` / `x as i32` for x : f64: truncation toward zero, saturating, NaN -> 0.
   |trunc x| < 2^53 below, so the mantissa route through Z is exact. *)
Definition f_trunc_Z (x : float) : Z :=
  match Prim2SF x with
  | S754_zero _ => 0%Z
  | S754_infinity s => if s then (-4294967296)%Z else 4294967296%Z   (* beyond both ranges: saturates *)
  | S754_nan => 0%Z
  | S754_finite s m e =>
      let mag := match e with
                 | Z0 => Zpos m
                 | Zpos p => Z.shiftl (Zpos m) (Zpos p)
                 | Zneg p => Z.shiftr (Zpos m) (Zpos p)
                 end in
      if s then (- mag)%Z else mag
  end.
Definition f_as_u32 (x : float) : Z := Z.max 0 (Z.min 4294967295 (f_trunc_Z x)).
Definition f_as_i32 (x : float) : Z := Z.max (-2147483648) (Z.min 2147483647 (f_trunc_Z x)).
(* `u32 as i32` *)
Definition u32_as_i32 (z : Z) : Z := sgn32 z.

Definition blend_soft_light (b s : Z) : Z :=
  let b := f_of_Z b / 255 in
  let s := f_of_Z s / 255 in
  let d := if b <=? 0.25 then ((16 * b - 12) * b + 4) * b else PrimFloat.sqrt b in
  let r := if s <=? 0.5 then b - (1 - 2 * s) * b * (1 - b) else b + (2 * s - 1) * (d - b) in
  u32_as_i32 (f_as_u32 (r * 255 + 0.5)).

Definition soft_light_baseline (backdrop src : pixel) (opacity : Z) : option pixel :=
  let '(br, bg, bb, _) := backdrop in
  let '(sr, sg, sb, sa) := src in
  s' <-? from_rgba_i32 (blend_soft_light br sr) (blend_soft_light bg sg) (blend_soft_light bb sb) sa ;;
  normal backdrop s' opacity.

(* ---- addition / subtract ---- *)
Close Scope float_scope.
Definition addition_baseline (backdrop src : pixel) (opacity : Z) : option pixel :=
  let '(br, bg, bb, _) := backdrop in
  let '(sr, sg, sb, sa) := src in
  s' <-? from_rgba_i32 (Z.min (br + sr) 255) (Z.min (bg + sg) 255) (Z.min (bb + sb) 255) sa ;;
  normal backdrop s' opacity.
Definition subtract_baseline (backdrop src : pixel) (opacity : Z) : option pixel :=
  let '(br, bg, bb, _) := backdrop in
  let '(sr, sg, sb, sa) := src in
  s' <-? from_rgba_i32 (Z.max (br - sr) 0) (Z.max (bg - sg) 0) (Z.max (bb - sb) 0) sa ;;
  normal backdrop s' opacity.

(* ---- HSL modes (f64) ---- *)
Open Scope float_scope.
Definition f3 := (float * float * float)%type.

(* f64::min / f64::max: if one argument is NaN the other is returned *)
Definition fmin (a b : float) : float :=
  if PrimFloat.is_nan a then b else if PrimFloat.is_nan b then a else if a <? b then a else if b <? a then b
  else (* equal, or zeros of either sign *) if PrimFloat.get_sign a then a else b.
Definition fmax (a b : float) : float :=
  if PrimFloat.is_nan a then b else if PrimFloat.is_nan b then a else if a <? b then b else if b <? a then a
  else if PrimFloat.get_sign a then b else a.

Definition as_rgb_f64 (p : pixel) : f3 :=
  let '(r, g, b, _) := p in (f_of_Z r / 255, f_of_Z g / 255, f_of_Z b / 255).

Definition saturation (c : f3) : float :=
  let '(r, g, b) := c in fmax r (fmax g b) - fmin r (fmin g b).
Definition luminosity (c : f3) : float :=
  let '(r, g, b) := c in 0.3 * r + 0.59 * g + 0.11 * b.

Definition clip_color (c : f3) : f3 :=
  let '(r, g, b) := c in
  let lum := luminosity c in
  let mn := fmin r (fmin g b) in
  let mx := fmax r (fmax g b) in
  let '(r, g, b) :=
    if mn <? 0 then (lum + (((r - lum) * lum) / (lum - mn)),
                     lum + (((g - lum) * lum) / (lum - mn)),
                     lum + (((b - lum) * lum) / (lum - mn)))
    else (r, g, b) in
  if 1 <? mx then (lum + (((r - lum) * (1 - lum)) / (mx - lum)),
                   lum + (((g - lum) * (1 - lum)) / (mx - lum)),
                   lum + (((b - lum) * (1 - lum)) / (mx - lum)))
  else (r, g, b).

Definition set_luminocity (c : f3) (lum : float) : f3 :=
  let '(r, g, b) := c in
  let delta := lum - luminosity c in
  clip_color (r + delta, g + delta, b + delta).

(* static_sort3_orig: indices (min, mid, max) as 0 = r, 1 = g, 2 = b *)
Definition static_sort3_orig (c : f3) : (Z * Z * Z) :=
  let '(r, g, b) := c in
  let mn := if r <? fmin g b then 0%Z else if g <? b then 1%Z else 2%Z in
  let mx := if fmax g b <? r then 0%Z else if b <? g then 1%Z else 2%Z in
  let md := if g <? r then (if b <? g then 1%Z else if b <? r then 2%Z else 0%Z)
            else if b <? g then (if r <? b then 2%Z else 0%Z)
            else 1%Z in
  (mn, md, mx).

Definition col_get (c : f3) (i : Z) : float :=
  let '(r, g, b) := c in if (i =? 0)%Z then r else if (i =? 1)%Z then g else b.
Definition col_set (c : f3) (i : Z) (v : float) : f3 :=
  let '(r, g, b) := c in if (i =? 0)%Z then (v, g, b) else if (i =? 1)%Z then (r, v, b) else (r, g, v).

Definition set_saturation (c : f3) (sat : float) : f3 :=
  let '(mn, md, mx) := static_sort3_orig c in
  let col := c in
  let col :=
    if col_get col mn <? col_get col mx then
      let col := col_set col md (((col_get col md - col_get col mn) * sat) / (col_get col mx - col_get col mn)) in
      col_set col mx sat
    else
      let col := col_set col md 0 in
      col_set col mx 0 in
  col_set col mn 0.

Definition from_rgb_f64 (c : f3) (a : Z) : option pixel :=
  let '(r, g, b) := c in
  from_rgba_i32 (f_as_i32 (r * 255)) (f_as_i32 (g * 255)) (f_as_i32 (b * 255)) a.

Definition hsl_hue_baseline (backdrop src : pixel) (opacity : Z) : option pixel :=
  let cb := as_rgb_f64 backdrop in
  let sat := saturation cb in
  let lum := luminosity cb in
  let c := set_luminocity (set_saturation (as_rgb_f64 src) sat) lum in
  s' <-? from_rgb_f64 c (pix_alpha src) ;; normal backdrop s' opacity.
Definition hsl_saturation_baseline (backdrop src : pixel) (opacity : Z) : option pixel :=
  let sat := saturation (as_rgb_f64 src) in
  let cb := as_rgb_f64 backdrop in
  let lum := luminosity cb in
  let c := set_luminocity (set_saturation cb sat) lum in
  s' <-? from_rgb_f64 c (pix_alpha src) ;; normal backdrop s' opacity.
Definition hsl_color_baseline (backdrop src : pixel) (opacity : Z) : option pixel :=
  let lum := luminosity (as_rgb_f64 backdrop) in
  let c := set_luminocity (as_rgb_f64 src) lum in
  s' <-? from_rgb_f64 c (pix_alpha src) ;; normal backdrop s' opacity.
Definition hsl_luminosity_baseline (backdrop src : pixel) (opacity : Z) : option pixel :=
  let lum := luminosity (as_rgb_f64 src) in
  let c := set_luminocity (as_rgb_f64 backdrop) lum in
  s' <-? from_rgb_f64 c (pix_alpha src) ;; normal backdrop s' opacity.
Close Scope float_scope.

(* ---- dispatch: blend mode ids in BlendMode declaration order (= file encoding) ---- *)
Definition baseline (mode : Z) : pixel -> pixel -> Z -> option pixel :=
  match mode with
  | 1 => blend_channel blend_multiply
  | 2 => blend_channel blend_screen
  | 3 => blend_channel blend_overlay
  | 4 => blend_channel blend_darken
  | 5 => blend_channel blend_lighten
  | 6 => blend_channel blend_color_dodge
  | 7 => blend_channel blend_color_burn
  | 8 => blend_channel blend_hard_light
  | 9 => soft_light_baseline
  | 10 => blend_channel blend_difference
  | 11 => blend_channel blend_exclusion
  | 12 => hsl_hue_baseline
  | 13 => hsl_saturation_baseline
  | 14 => hsl_color_baseline
  | 15 => hsl_luminosity_baseline
  | 16 => addition_baseline
  | 17 => subtract_baseline
  | 18 => blend_channel blend_divide
  | _ => normal
  end.

(* blend_mode_to_blend_fn *)
Definition blend (mode : Z) (backdrop src : pixel) (opacity : Z) : option pixel :=
  if mode =? 0 then normal backdrop src opacity else blender (baseline mode) backdrop src opacity.
