(* Validation: ParseInfo::validate, LayersData::from_vec / validate, compute_parents,
   TilesetsById::validate, CelsData::validate, RawCel::validate, RawPixels::validate. *)
From Ase Require Export Model.Parse.

Definition is_some {A} (o : option A) : bool := match o with Some _ => true | None => false end.

(* compute_parents (repaired: a layer without a parent candidate is an error value) *)
Fixpoint find_parent (prev_rev : list (Z * Z)) (my : Z) : option Z :=
  match prev_rev with
  | [] => None
  | (lv, id) :: t => if lv <? my then Some id else find_parent t my
  end.
Fixpoint compute_parents_aux (ls : list layer) (id : Z) (prev_rev : list (Z * Z)) (acc : list (option Z))
  : res (list (option Z)) :=
  match ls with
  | [] => Ok (rev acc)
  | l :: t =>
      let my := l_level l in
      p <-- (if my =? 0 then Ok None
             else match find_parent prev_rev my with Some q => Ok (Some q) | None => Err EInvalid end) ;;;
      compute_parents_aux t (id + 1) ((my, id) :: prev_rev) (p :: acc)
  end.
Definition compute_parents (ls : list layer) : res (list (option Z)) := compute_parents_aux ls 0 [] [].

(* RawPixels::validate *)
Definition validate_pixels (pal : option palette) (fmt : pixfmt) (bg : bool) (rp : rawpixels) : res pixels :=
  match rp with
  | RPRgba l => Ok (PRgba (arr_of_list l))
  | RPGray l => Ok (PGray (arr_of_list l))
  | RPIndexed l =>
      match pal with
      | None => Err EInvalid
      | Some p =>
          if forallb (fun i => is_some (zfind i p)) l then
            match fmt with
            | FIndexed t => Ok (PIndexed p t bg (arr_of_list l))
            | _ => Err EInvalid
            end
          else Err EInvalid
      end
  end.

(* TilesetsById::validate *)
Definition validate_tileset (pal : option palette) (fmt : pixfmt) (t : tileset rawpixels) : res (tileset pixels) :=
  match ts_pixels t with
  | None => Err EUnsupported
  | Some rp => px <-- validate_pixels pal fmt false rp ;;; Ok (set_ts_pixels t (Some px))
  end.
Definition validate_tilesets (pal : option palette) (fmt : pixfmt) (m : zmap (tileset rawpixels))
  : res (zmap (tileset pixels)) :=
  rfold (fun acc kv => t <-- validate_tileset pal fmt (snd kv) ;;; Ok (zadd (fst kv) t acc)) (zelements m) zempty.

(* LayersData::validate *)
Definition validate_layers (ls : list layer) (tss : zmap (tileset pixels)) : res unit :=
  if forallb (fun l => if l_type l =? 2 then is_some (zfind (l_tileset l) tss) else true) ls
  then Ok tt else Err EInvalid.

Definition is_linked {P} (c : cel P) : bool := match c_content c with CLinked _ => true | _ => false end.

(* CelsData::cel *)
Definition table_cel {P} (t : celtable P) (nframes frame layer : Z) : res (option (cel P)) :=
  if (frame <? 0) || (nframes <=? frame) then Panic 104 else          (* data[frame] *)
  match nthz (get_row t frame) layer with
  | Some c => Ok c
  | None => Ok None
  end.

Fixpoint arr_max (l : list Z) (acc : option Z) : option Z :=
  match l with [] => acc
  | x :: t => arr_max t (match acc with None => Some x | Some m => Some (Z.max m x) end) end.

(* RawCel::validate (repaired: link target bounds, any non-linked target, tile ids) *)
Definition validate_cel (layers : arr layer) (tss : zmap (tileset pixels)) (pal : option palette) (fmt : pixfmt)
           (t : celtable rawpixels) (nframes nlayers : Z) (layer_id : Z) (c : cel rawpixels)
  : res (cel pixels) :=
  content <--
    match c_content c with
    | CRaw w h rp =>
        match aget layers layer_id with
        | None => Panic 105                                            (* layers[cel_id.layer] *)
        | Some l => px <-- validate_pixels pal fmt (layer_is_background l) rp ;;; Ok (CRaw w h px)
        end
    | CLinked other =>
        if (other <? nframes) && (layer_id <? nlayers) then
          tgt <-- table_cel t nframes other layer_id ;;;
          match tgt with
          | Some c' => if is_linked c' then Err EInvalid else Ok (CLinked other)
          | None => Err EInvalid
          end
        else Err EInvalid
    | CTilemap tm =>
        match aget layers layer_id with
        | None => Panic 105
        | Some l =>
            if l_type l =? 2 then
              let tile_count := match zfind (l_tileset l) tss with Some ts => ts_count ts | None => 0 end in
              match arr_max (arr_to_list (tm_tiles tm)) None with
              | Some mx => if tile_count <=? mx then Err EInvalid else Ok (CTilemap tm)
              | None => Ok (CTilemap tm)
              end
            else Err EInvalid
        end
    end ;;;
  Ok {| c_data := c_data c; c_content := content; c_ud := c_ud c |}.

Fixpoint validate_row (layers : arr layer) (tss : zmap (tileset pixels)) (pal : option palette) (fmt : pixfmt)
         (t : celtable rawpixels) (nframes nlayers : Z) (r : row rawpixels) (layer_id : Z)
  : res (row pixels) :=
  match r with
  | [] => Ok []
  | oc :: rest =>
      oc' <-- match oc with
              | None => Ok None
              | Some c => c' <-- validate_cel layers tss pal fmt t nframes nlayers layer_id c ;;; Ok (Some c')
              end ;;;
      rest' <-- validate_row layers tss pal fmt t nframes nlayers rest (layer_id + 1) ;;;
      Ok (oc' :: rest')
  end.

(* CelsData::validate: rows in frame order.  Only rows that were touched are stored;
   an untouched row is `[None]` before and after. *)
Definition validate_cels (layers : arr layer) (tss : zmap (tileset pixels)) (pal : option palette) (fmt : pixfmt)
           (t : celtable rawpixels) (nframes nlayers : Z) : res (celtable pixels) :=
  rfold (fun acc kv =>
           r <-- validate_row layers tss pal fmt t nframes nlayers (snd kv) 0 ;;;
           Ok (zadd (fst kv) r acc))
        (zelements t) zempty.

(* ParseInfo::validate + the construction of AsepriteFile *)
Definition validate (h : header) (p : pinfo) : res file :=
  let ls := frev (pi_layers_rev p) in
  parents <-- compute_parents ls ;;;
  tss <-- validate_tilesets (pi_palette p) (h_fmt h) (pi_tilesets p) ;;;
  _ <-- validate_layers ls tss ;;;
  let layers := arr_of_list ls in
  cels <-- validate_cels layers tss (pi_palette p) (h_fmt h) (pi_cels p) (pi_nframes p) (pi_nlayers p) ;;;
  Ok {| f_width := h_width h; f_height := h_height h; f_nframes := h_frames h; f_fmt := h_fmt h;
        f_palette := pi_palette p;
        f_layers := layers; f_parents := arr_of_list parents;
        f_default_time := pi_default_time p; f_times := pi_times p;
        f_tags := match pi_tags p with Some ts => ts | None => [] end;
        f_cels := cels;
        f_ext := pi_ext p;
        f_tilesets := tss;
        f_sprite_ud := pi_sprite_ud p;
        f_slices := frev (pi_slices_rev p) |}.

Section WithInflate.
Variable inflate : list Z -> Z -> zres.

(* AsepriteFile::read on a byte slice: the file and the bytes left over *)
Definition load_rest (bs : list Z) : res (file * list Z) :=
  ' (hp, rest) <-- run (parse_file inflate) bs ;;;
  f <-- validate (fst hp) (snd hp) ;;;
  Ok (f, rest).
Definition load (bs : list Z) : res file := rmap fst (load_rest bs).

End WithInflate.
