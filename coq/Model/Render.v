(* Rendering: frame_image, write_cel, layer_image, write_raw_cel_to_image,
   write_tilemap_cel_to_image, tile_slice (file.rs); Pixels::clone_as_image_rgba (pixel.rs);
   AsepriteFile::tilemap, Tilemap::{tile, tile_offsets, pixel_offsets} (file.rs, tilemap.rs);
   Tileset::{tile_image, image} (tileset.rs). *)
From Ase Require Export Model.Api.

(* image::RgbaImage: width, height, pixel map (absent = the zero pixel of RgbaImage::new) *)
Record image := { iw : Z; ih : Z; ipx : PositiveMap.t pixel }.
Definition img_new (w h : Z) : image := {| iw := w; ih := h; ipx := PositiveMap.empty pixel |}.
Definition ikey (w x y : Z) : positive := Z.to_pos (y * w + x + 1).
Definition img_get (img : image) (x y : Z) : pixel :=
  match PositiveMap.find (ikey (iw img) x y) (ipx img) with Some p => p | None => transparent end.
Definition img_put (img : image) (x y : Z) (p : pixel) : image :=
  {| iw := iw img; ih := ih img; ipx := PositiveMap.add (ikey (iw img) x y) p (ipx img) |}.

(* ------------------------------------------------------------------ *)
(* Pixels::clone_as_image_rgba: all pixels are converted, so one bad index panics *)
Definition indexed_rgba (pal : palette) (transp : Z) (bg : bool) (i : Z) : res pixel :=
  match zfind i pal with
  | None => Panic 301                       (* "Indexed pixel out of range" *)
  | Some e =>
      let '(r, g, b, a) := pe_rgba e in
      Ok (r, g, b, if (transp =? i) && negb bg then 0 else a)
  end.

Definition arr_mapM {A B} (g : A -> res B) (a : arr A) : res (arr B) :=
  l <-- rmapM g (arr_to_list a) ;;; Ok (arr_of_list l).

Definition clone_as_rgba (px : pixels) : res (arr pixel) :=
  match px with
  | PRgba a => Ok a
  | PGray a => arr_mapM (fun va => Ok (fst va, fst va, fst va, snd va)) a
  | PIndexed pal transp bg a => arr_mapM (indexed_rgba pal transp bg) a
  end.

(* ------------------------------------------------------------------ *)
(* write_raw_cel_to_image *)
Definition blend_put (img : image) (mode : Z) (x y : Z) (src : pixel) (opacity : Z) : res image :=
  match blend mode (img_get img x y) src opacity with
  | Some q => Ok (img_put img x y q)
  | None => Panic 302                       (* debug assertion / overflow / division inside blend.rs *)
  end.

Definition write_raw (img : image) (cc : celcommon) (w h : Z) (px : arr pixel) (mode lop : Z) : res image :=
  let opacity := mul_un8 lop (cc_opacity cc) in
  let x0 := cc_x cc in
  let y0 := cc_y cc in
  rfold (fun img y =>
           if (y <? 0) || (ih img <=? y) then Ok img else
           rfold (fun img x =>
                    if (x <? 0) || (iw img <=? x) then Ok img else
                    match aget px ((y - y0) * w + (x - x0)) with
                    | None => Panic 303          (* pixels[idx] *)
                    | Some p => blend_put img mode x y p opacity
                    end)
                 (zrange x0 (Z.to_nat w)) img)
        (zrange y0 (Z.to_nat h)) img.

(* write_tilemap_cel_to_image (repaired: canvas coordinates in i64) *)
Definition write_tilemap (img : image) (cc : celcommon) (tm : tilemapdata) (tw th : Z) (px : arr pixel)
           (mode lop : Z) : res image :=
  let opacity := mul_un8 lop (cc_opacity cc) in
  let ppt := tw * th in
  rfold (fun img tile_y =>
    rfold (fun img tile_x =>
      match aget (tm_tiles tm) (tile_y * tm_w tm + tile_x) with
      | None => Panic 304                      (* .expect("Invalid tile index") / tiles[index] *)
      | Some tile_id =>
          let start := ppt * tile_id in
          if alen px <? start + ppt then Panic 305 else      (* tile_slice: &pixels[start..end] *)
          rfold (fun img pixel_y =>
            rfold (fun img pixel_x =>
              match aget px (start + (pixel_y * tw + pixel_x)) with
              | None => Panic 306                (* tile_pixels[pixel_idx] *)
              | Some p =>
                  let image_x := tile_x * tw + pixel_x + cc_x cc in
                  let image_y := tile_y * th + pixel_y + cc_y cc in
                  if (0 <=? image_x) && (image_x <? iw img) && (0 <=? image_y) && (image_y <? ih img)
                  then blend_put img mode image_x image_y p opacity
                  else Ok img
              end) (ziota tw) img) (ziota th) img
      end) (ziota (tm_w tm)) img) (ziota (tm_h tm)) img.

(* write_cel for a cel that is not a link *)
Definition write_cel_direct (f : file) (img : image) (c : cel pixels) : res image :=
  l <-- layer_get f (cc_layer (c_data c)) ;;;
  match c_content c with
  | CRaw w h px =>
      rgba <-- clone_as_rgba px ;;;
      write_raw img (c_data c) w h rgba (l_blend l) (l_opacity l)
  | CTilemap tm =>
      if negb (l_type l =? 2) then Panic 307 else         (* "Tilemap cel not in tilemap layer" *)
      match zfind (l_tileset l) (f_tilesets f) with
      | None => Panic 308                                  (* "references a missing tileset" *)
      | Some ts =>
          match ts_pixels ts with
          | None => Panic 309                              (* "Expected Tileset data to contain pixels" *)
          | Some px =>
              rgba <-- clone_as_rgba px ;;;
              write_tilemap img (c_data c) tm (ts_w ts) (ts_h ts) rgba (l_blend l) (l_opacity l)
          end
      end
  | CLinked _ => Panic 310                                 (* "Cel links to empty cel" *)
  end.

(* write_cel *)
Definition write_cel (f : file) (img : image) (c : cel pixels) : res image :=
  match c_content c with
  | CLinked frame =>
      (* the blend mode is looked up before the match *)
      _ <-- layer_get f (cc_layer (c_data c)) ;;;
      tgt <-- cel_lookup f frame (cc_layer (c_data c)) ;;;
      match tgt with
      | Some c' => write_cel_direct f img c'
      | None => Ok img
      end
  | _ => write_cel_direct f img c
  end.

(* AsepriteFile::layer_image = Cel::image *)
Definition cel_image (f : file) (id : Z * Z) : res image :=
  let img := img_new (f_width f) (f_height f) in
  c <-- cel_lookup f (fst id) (snd id) ;;;
  match c with Some c => write_cel f img c | None => Ok img end.

(* AsepriteFile::frame_image = Frame::image *)
Fixpoint frame_row (f : file) (img : image) (r : row pixels) (layer_id : Z) : res image :=
  match r with
  | [] => Ok img
  | None :: rest => frame_row f img rest (layer_id + 1)
  | Some c :: rest =>
      (* self.layer(layer_id) asserts the id *)
      if num_layers f <=? layer_id then Panic 202 else
      v <-- layer_is_visible f layer_id ;;;
      img' <-- (if v then write_cel f img c else Ok img) ;;;
      frame_row f img' rest (layer_id + 1)
  end.
Definition frame_image (f : file) (frame : Z) : res image :=
  if (frame <? 0) || (num_frames f <=? frame) then Panic 206 else
  frame_row f (img_new (f_width f) (f_height f)) (get_row (f_cels f) frame) 0.

(* ------------------------------------------------------------------ *)
(* tilemaps *)
Record tilemap := { tmv_frame : Z; tmv_layer : Z; tmv_ts : tileset pixels; tmv_w : Z; tmv_h : Z }.

(* AsepriteFile::tilemap *)
Definition tilemap_of (f : file) (layer_id frame : Z) : res (option tilemap) :=
  if (layer_id <? 0) || (num_layers f <=? layer_id) || (frame <? 0) || (num_frames f <=? frame) then Ok None else
  l <-- layer_get f layer_id ;;;
  if negb (l_type l =? 2) then Ok None else
  match zfind (l_tileset l) (f_tilesets f) with
  | None => Ok None
  | Some ts =>
      is_tm <-- cel_is_tilemap f (frame, layer_id) ;;;
      if negb is_tm then Ok None else
      if (ts_w ts =? 0) || (ts_h ts =? 0) then Panic 311 else       (* division by zero *)
      let w := (f_width f + ts_w ts - 1) / ts_w ts in
      let h := (f_height f + ts_h ts - 1) / ts_h ts in
      if (65536 <=? w) || (65536 <=? h) then Panic 312 else        (* assert!(w < 1<<16 && ...) *)
      Ok (Some {| tmv_frame := frame; tmv_layer := layer_id; tmv_ts := ts; tmv_w := w; tmv_h := h |})
  end.

Definition tilemap_pixel_offsets (f : file) (t : tilemap) : res (Z * Z) :=
  cel_top_left f (tmv_frame t, tmv_layer t).
Definition tilemap_tile_offsets (f : file) (t : tilemap) : res (Z * Z) :=
  ' (x, y) <-- tilemap_pixel_offsets f t ;;;
  if (ts_w (tmv_ts t) =? 0) || (ts_h (tmv_ts t) =? 0) then Panic 311 else
  Ok (Z.quot x (ts_w (tmv_ts t)), Z.quot y (ts_h (tmv_ts t))).

(* Tilemap::tilemap *)
Definition tilemap_data (f : file) (t : tilemap) : res tilemapdata :=
  c <-- cel_lookup f (tmv_frame t) (tmv_layer t) ;;;
  match c with
  | None => Panic 313                                   (* raw_cel().unwrap() *)
  | Some c => match c_content c with CTilemap d => Ok d | _ => Panic 314 end
  end.

(* Tilemap::tile (repaired: 64-bit arithmetic); the result is the tile id *)
Definition tilemap_tile (f : file) (t : tilemap) (x y : Z) : res Z :=
  ' (ox, oy) <-- tilemap_tile_offsets f t ;;;
  d <-- tilemap_data f t ;;;
  let x := x - ox in
  let y := y - oy in
  if (x <? 0) || (y <? 0) || (tm_w d <=? x) || (tm_h d <=? y) then Ok 0 else
  match aget (tm_tiles d) (y * tm_w d + x) with
  | Some id => Ok id
  | None => Panic 315                                   (* tiles[index] *)
  end.

Definition tilemap_image (f : file) (t : tilemap) : res image := cel_image f (tmv_frame t, tmv_layer t).

(* ------------------------------------------------------------------ *)
(* tileset images: raw pixel buffers *)
Record rawimage := { rw : Z; rh : Z; rpx : list pixel }.

Fixpoint firstn_z {A} (n : Z) (l : list A) {struct l} : list A :=
  if n <=? 0 then [] else match l with [] => [] | x :: t => x :: firstn_z (n - 1) t end.
Fixpoint skipn_z {A} (n : Z) (l : list A) {struct l} : list A :=
  if n <=? 0 then l else match l with [] => [] | _ :: t => skipn_z (n - 1) t end.

(* Tileset::tile_image *)
Definition tile_image (ts : tileset pixels) (i : Z) : res rawimage :=
  if (i <? 0) || (ts_count ts <=? i) then Panic 316 else     (* assert!(tile_index < tile_count) *)
  match ts_pixels ts with
  | None => Panic 317                                         (* "No pixel data in tileset" *)
  | Some px =>
      rgba <-- clone_as_rgba px ;;;
      let ppt := ts_w ts * ts_h ts in
      let raw := firstn_z ppt (skipn_z (i * ppt) (arr_to_list rgba)) in
      if zlen raw <? ppt then Panic 318 else                  (* from_raw(..).expect("Mismatched image size") *)
      Ok {| rw := ts_w ts; rh := ts_h ts; rpx := raw |}
  end.

(* Tileset::image *)
Definition tileset_image (ts : tileset pixels) : res rawimage :=
  match ts_pixels ts with
  | None => Panic 317
  | Some px =>
      rgba <-- clone_as_rgba px ;;;
      let image_height := ts_h ts * ts_count ts in
      if 4294967296 <=? image_height then Panic 319 else      (* u32 multiplication *)
      if alen rgba <? ts_w ts * image_height then Panic 318 else
      Ok {| rw := ts_w ts; rh := image_height; rpx := firstn_z (ts_w ts * image_height) (arr_to_list rgba) |}
  end.
