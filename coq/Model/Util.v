(* util.rs (feature `utils`): extrude_border, PaletteMapper, to_indexed_image. *)
From Ase Require Export Model.Blend.

(* an RgbaImage as its raw row-major pixel buffer *)
Record rimg := { uw : Z; uh : Z; upx : list pixel }.

Definition slice {A} (l : list A) (from len : Z) : list A := firstn (Z.to_nat len) (skipn (Z.to_nat from) l).

(* extrude_border; None = h - 1 underflows / a slice is out of range / from_raw fails *)
Definition extrude_border (img : rimg) : option rimg :=
  let w := uw img in
  let h := uh img in
  if (h <? 1) || (w <? 1) then None else
  if negb (zlen (upx img) =? w * h) then None else
  let rows := [0] ++ ziota h ++ [h - 1] in
  let data := flat_map (fun r =>
                let ofs := r * w in
                slice (upx img) ofs 1 ++ slice (upx img) ofs w ++ slice (upx img) (ofs + w - 1) 1) rows in
  Some {| uw := w + 2; uh := h + 2; upx := data |}.

(* PaletteMapper::new over the palette entries in the order the map iterator yields them
   (unspecified for IntMap; the theorems quantify over every order) *)
Record mapper := { m_map : PositiveMap.t Z; m_transparent : Z; m_failure : Z }.
Definition rgbkey (r g b : Z) : Z := r + 256 * g + 65536 * b.
Definition mapper_new (entries : list (Z * pixel)) (failure : Z) (transparent : option Z) : mapper :=
  {| m_map := fold_left (fun m e =>
                 let '(idx, (r, g, b, _)) := e in
                 zadd (rgbkey r g b) (if idx <? 256 then idx else failure) m) entries zempty;
     m_transparent := match transparent with Some t => t | None => failure end;
     m_failure := failure |}.
Definition mapper_lookup (m : mapper) (r g b a : Z) : Z :=
  if negb (a =? 255) then m_transparent m else
  match zfind (rgbkey r g b) (m_map m) with Some i => i | None => m_failure m end.

Definition to_indexed (img : rimg) (m : mapper) : (Z * Z) * list Z :=
  ((uw img, uh img), map (fun p => let '(r, g, b, a) := p in mapper_lookup m r g b a) (upx img)).
