(* Public accessors of AsepriteFile, Layer, Frame, Cel, Tag, ColorPalette, TilesetsById
   (file.rs, layer.rs, cel.rs, palette.rs) without the image-producing ones (Render.v).
   Every documented or undocumented way of failing to return is a `Panic site`. *)
From Ase Require Export Model.Validate.

(* ------------------------------------------------------------------ *)
(* bounded loops: `step` iterated at most p times, stopping at the first Done; binary
   recursion, so the fuel may be any positive without ever being built in unary. *)
Inductive step_res (S R : Type) := Cont (s : S) | Done (r : R).
Arguments Cont {S R}. Arguments Done {S R}.

Fixpoint loopP {S R} (p : positive) (step : S -> step_res S R) (s : S) : step_res S R :=
  match p with
  | xH => step s
  | xO q => match loopP q step s with Cont s' => loopP q step s' | Done r => Done r end
  | xI q => match step s with
            | Cont s' => match loopP q step s' with Cont s'' => loopP q step s'' | Done r => Done r end
            | Done r => Done r
            end
  end.

(* ------------------------------------------------------------------ *)
(* sizes *)
Definition num_layers (f : file) : Z := alen (f_layers f).
Definition num_frames (f : file) : Z := f_nframes f.
Definition num_tags (f : file) : Z := zlen (f_tags f).
Definition num_slices (f : file) : Z := zlen (f_slices f).

Definition fmt_code (p : pixfmt) : Z := match p with FRgba => 0 | FGray => 1 | FIndexed _ => 2 end.
Definition transparent_index (f : file) : option Z :=
  match f_fmt f with FIndexed t => Some t | _ => None end.
Definition is_indexed (f : file) : bool := match f_fmt f with FIndexed _ => true | _ => false end.

(* Frame::duration: frame_times[index] *)
Definition frame_duration (f : file) (i : Z) : res Z :=
  if (i <? 0) || (num_frames f <=? i) then Panic 201 else
  Ok (match zfind i (f_times f) with Some d => d | None => f_default_time f end).

(* AsepriteFile::layer: assert!(id < num_layers) *)
Definition layer_get (f : file) (id : Z) : res layer :=
  match aget (f_layers f) id with Some l => Ok l | None => Panic 202 end.

(* Layer::parent: parents[layer_id] *)
Definition layer_parent (f : file) (id : Z) : res (option Z) :=
  match aget (f_parents f) id with Some p => Ok p | None => Panic 203 end.

(* Layer::is_visible (repaired: iterative walk up the parent chain).  The loop has no
   bound in the Rust code; the fuel num_layers + 1 is never exhausted because parents
   have smaller ids (Proofs/Layers.v); exhaustion is reported as Panic 204 (= the walk
   would not terminate). *)
Definition vis_step (f : file) (id : Z) : step_res Z (res bool) :=
  match aget (f_layers f) id with
  | None => Done (Panic 202)
  | Some l =>
      if negb (layer_visible_flag l) then Done (Ok false) else
      match aget (f_parents f) id with
      | None => Done (Panic 203)
      | Some None => Done (Ok true)
      | Some (Some p) => Cont p
      end
  end.
Definition layer_is_visible (f : file) (id : Z) : res bool :=
  match loopP (Z.to_pos (num_layers f + 1)) (vis_step f) id with
  | Done r => r
  | Cont _ => Panic 204
  end.

Definition list_eqb (a b : list Z) : bool :=
  (length a =? length b)%nat && forallb (fun p => fst p =? snd p) (combine a b).

(* AsepriteFile::layer_by_name: lowest id with that name *)
Definition layer_by_name (f : file) (name : list Z) : option Z :=
  find (fun id => match aget (f_layers f) id with Some l => list_eqb (l_name l) name | None => false end)
       (ziota (num_layers f)).

(* index of the first tag with that name (tag_by_name returns a reference to it) *)
Fixpoint find_index {A} (p : A -> bool) (l : list A) (i : Z) : option Z :=
  match l with [] => None | x :: t => if p x then Some i else find_index p t (i + 1) end.
Definition tag_by_name (f : file) (name : list Z) : option Z :=
  find_index (fun t => list_eqb (t_name t) name) (f_tags f) 0.
Definition get_tag (f : file) (k : Z) : option tag := nthz (f_tags f) k.
(* AsepriteFile::tag: tags[tag_id] *)
Definition tag_get (f : file) (k : Z) : res tag :=
  match nthz (f_tags f) k with Some t => Ok t | None => Panic 205 end.

(* CelsData::cel as used by the accessors (frame < num_frames asserted by the callers) *)
Definition cel_lookup (f : file) (frame layer : Z) : res (option (cel pixels)) :=
  table_cel (f_cels f) (num_frames f) frame layer.

(* the three routes: Frame::layer, Layer::frame, AsepriteFile::cel; each yields the CelId
   (frame, layer) after its asserts *)
Definition route_cel (f : file) (route frame layer : Z) : res (Z * Z) :=
  if (frame <? 0) || (num_frames f <=? frame) then Panic 206 else
  if (layer <? 0) || (num_layers f <=? layer) then Panic 207 else
  Ok (frame, layer).

Definition cel_is_empty (f : file) (id : Z * Z) : res bool :=
  c <-- cel_lookup f (fst id) (snd id) ;;; Ok (negb (is_some c)).
Definition cel_user_data (f : file) (id : Z * Z) : res (option userdata) :=
  c <-- cel_lookup f (fst id) (snd id) ;;;
  Ok (match c with Some c => c_ud c | None => None end).
Definition cel_top_left (f : file) (id : Z * Z) : res (Z * Z) :=
  c <-- cel_lookup f (fst id) (snd id) ;;;
  Ok (match c with Some c => (cc_x (c_data c), cc_y (c_data c)) | None => (0, 0) end).
Definition cel_is_tilemap (f : file) (id : Z * Z) : res bool :=
  c <-- cel_lookup f (fst id) (snd id) ;;;
  Ok (match c with
      | Some c => match c_content c with CTilemap _ => true | _ => false end
      | None => false end).

(* palette *)
Definition palette_num_colors (p : palette) : Z := zcard p.
Definition palette_color (p : palette) (k : Z) : option palentry := zfind k p.
