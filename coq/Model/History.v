(* Histories of API calls on a loaded sprite, sequentially and from several threads sharing
   one reference.  A loaded sprite is a value and every accessor a function of it
   (`section f o bit` stands for the whole family of accessors observed by Dump.v); the
   thread semantics below is the small-step semantics of k threads, each running its own
   list of calls against the shared value, under an arbitrary scheduler. *)
From Ase Require Export Model.Dump.

Record call := { c_opts : obsopts; c_bit : Z }.
Definition eval (f : file) (c : call) : res (list line) := section f (c_opts c) (c_bit c).

(* one thread: the calls still to run and the results produced so far (oldest first) *)
Record thread := { t_todo : list call; t_done : list (res (list line)) }.
Definition thread_init (cs : list call) : thread := {| t_todo := cs; t_done := [] |}.

(* the scheduler picks thread i; it runs its next call (no-op when it has none left) *)
Definition step_thread (f : file) (t : thread) : thread :=
  match t_todo t with
  | [] => t
  | c :: rest => {| t_todo := rest; t_done := t_done t ++ [eval f c] |}
  end.
Fixpoint step_at (f : file) (ts : list thread) (i : nat) : list thread :=
  match ts, i with
  | [], _ => []
  | t :: rest, O => step_thread f t :: rest
  | t :: rest, S j => t :: step_at f rest j
  end.
Definition exec (f : file) (ts : list thread) (sched : list nat) : list thread :=
  fold_left (step_at f) sched ts.

Definition finished (ts : list thread) : Prop := Forall (fun t => t_todo t = []) ts.

(* a sequential history *)
Definition run_history (f : file) (cs : list call) : list (res (list line)) := map (eval f) cs.
