(* Encoders for the payload of every chunk kind and for the 128-byte file header: the
   inverse direction of Model/Chunks.v and of the header part of Model/Parse.v.
   Definitions only (pure `list Z` builders over Spec/Encode.v) plus the well-formedness
   predicates under which Proofs/RoundTrip.v shows decode-after-encode.

   Conventions
   - A field that the decoder reads and throws away is an explicit `junk` parameter: a
     list of bytes of the stated length.  The theorems quantify over all such lists, so
     the value of a reserved field never matters (property C07).
   - A flags word of which the decoder uses only some bits is passed in full (`fw`,
     `flags`); the predicates constrain exactly the bits that are used.
   - Lists with per-element junk are lists of pairs (element, junk). *)
From Ase Require Export Spec.Encode Model.Parse.

(* ------------------------------------------------------------------ *)
(* field ranges *)

Definition is_word (v : Z) : Prop := 0 <= v < 65536.
Definition is_dword (v : Z) : Prop := 0 <= v < 4294967296.
Definition is_short (v : Z) : Prop := -32768 <= v < 32768.
Definition is_long (v : Z) : Prop := -2147483648 <= v < 2147483648.
(* STRING: valid UTF-8, length fits the WORD prefix *)
Definition wf_str (s : list Z) : Prop := utf8_valid s = true /\ zlen s < 65536 /\ all_bytes s.
Definition wf_pixel (p : pixel) : Prop :=
  let '(r, g, b, a) := p in is_byte r /\ is_byte g /\ is_byte b /\ is_byte a.
(* a reserved area of n bytes *)
Definition junk (n : Z) (j : list Z) : Prop := zlen j = n.

Definition opt_is_some {A} (o : option A) : bool := match o with Some _ => true | None => false end.

(* ------------------------------------------------------------------ *)
(* 0x2004 layer.  fw = the flags WORD (the decoder keeps its low 7 bits); dsize = default
   width and height (4 bytes, ignored); rsv = BYTE + WORD reserved (3 bytes). *)

Definition enc_layer (l : layer) (fw : Z) (dsize rsv : list Z) : list Z :=
  e_word fw ++ e_word (l_type l) ++ e_word (l_level l) ++ dsize
  ++ e_word (l_blend l) ++ e_byte (l_opacity l) ++ rsv ++ e_str (l_name l)
  ++ (if l_type l =? 2 then e_dword (l_tileset l) else []).

Definition wf_layer (l : layer) (fw : Z) : Prop :=
  is_word fw /\ Z.land fw 127 = l_flags l /\
  0 <= l_type l <= 2 /\ is_word (l_level l) /\ 0 <= l_blend l <= 18 /\ is_byte (l_opacity l) /\
  wf_str (l_name l) /\
  (if l_type l =? 2 then is_dword (l_tileset l) else l_tileset l = 0) /\
  l_ud l = None.

(* ------------------------------------------------------------------ *)
(* 0x2005 cel: the 16-byte head common to all cel types.  rsv = 7 bytes. *)

Definition enc_cel_hdr (c : celcommon) (cel_type : Z) (rsv : list Z) : list Z :=
  e_word (cc_layer c) ++ e_short (cc_x c) ++ e_short (cc_y c) ++ e_byte (cc_opacity c)
  ++ e_word cel_type ++ rsv.

Definition wf_celcommon (c : celcommon) : Prop :=
  is_word (cc_layer c) /\ is_short (cc_x c) /\ is_short (cc_y c) /\ is_byte (cc_opacity c).

(* linked cel (type 1) and raw cel (type 0) bodies *)
Definition enc_cel_linked (c : celcommon) (rsv : list Z) (frame : Z) : list Z :=
  enc_cel_hdr c 1 rsv ++ e_word frame.
Definition enc_cel_raw (c : celcommon) (rsv : list Z) (w h : Z) (bytes : list Z) : list Z :=
  enc_cel_hdr c 0 rsv ++ e_word w ++ e_word h ++ bytes.
(* compressed image cel (type 2): z = the zlib stream *)
Definition enc_cel_zimage (c : celcommon) (rsv : list Z) (w h : Z) (z : list Z) : list Z :=
  enc_cel_hdr c 2 rsv ++ e_word w ++ e_word h ++ z.

(* ------------------------------------------------------------------ *)
(* 0x2018 tags.  Per tag: 10 junk bytes (6 reserved + the 4-byte colour); chunk: 8. *)

Definition enc_tag (tj : tag * list Z) : list Z :=
  let '(t, j) := tj in
  e_word (t_from t) ++ e_word (t_to t) ++ e_byte (t_dir t) ++ e_word (t_repeat t)
  ++ j ++ e_str (t_name t).

Definition enc_tags (ts : list (tag * list Z)) (rsv : list Z) : list Z :=
  e_word (zlen ts) ++ rsv ++ flat_map enc_tag ts.

Definition wf_tag (tj : tag * list Z) : Prop :=
  let '(t, j) := tj in
  is_word (t_from t) /\ is_word (t_to t) /\ 0 <= t_dir t <= 2 /\ is_word (t_repeat t) /\
  wf_str (t_name t) /\ t_ud t = None /\ junk 10 j.

Definition wf_tags (ts : list (tag * list Z)) : Prop := zlen ts < 65536 /\ Forall wf_tag ts.

(* ------------------------------------------------------------------ *)
(* 0x2022 slice.  flags = the flags DWORD: bit 0 = every key has a 9-patch centre,
   bit 1 = every key has a pivot.  rsv = 4 bytes. *)

Definition enc_slice_key (k : slicekey) : list Z :=
  e_dword (k_from k) ++ e_long (k_ox k) ++ e_long (k_oy k) ++ e_dword (k_w k) ++ e_dword (k_h k)
  ++ (match k_slice9 k with
      | Some (cx, cy, cw, ch) => e_long cx ++ e_long cy ++ e_dword cw ++ e_dword ch
      | None => [] end)
  ++ (match k_pivot k with Some (px, py) => e_long px ++ e_long py | None => [] end).

Definition enc_slice (s : slice) (flags : Z) (rsv : list Z) : list Z :=
  e_dword (zlen (s_keys s)) ++ e_dword flags ++ rsv ++ e_str (s_name s)
  ++ flat_map enc_slice_key (s_keys s).

Definition wf_slice_key (flags : Z) (k : slicekey) : Prop :=
  is_dword (k_from k) /\ is_long (k_ox k) /\ is_long (k_oy k) /\ is_dword (k_w k) /\ is_dword (k_h k) /\
  opt_is_some (k_slice9 k) = bit flags 1 /\
  opt_is_some (k_pivot k) = bit flags 2 /\
  (match k_slice9 k with
   | Some (cx, cy, cw, ch) => is_long cx /\ is_long cy /\ is_dword cw /\ is_dword ch
   | None => True end) /\
  (match k_pivot k with Some (px, py) => is_long px /\ is_long py | None => True end).

Definition wf_slice (s : slice) (flags : Z) : Prop :=
  is_dword flags /\ zlen (s_keys s) < 4294967296 /\ wf_str (s_name s) /\
  Forall (wf_slice_key flags) (s_keys s) /\ s_ud s = None.

(* ------------------------------------------------------------------ *)
(* 0x2019 palette.  Per entry: the flags WORD (bit 0 = has name).  total = the
   "new palette size" DWORD (ignored); rsv = 8 bytes. *)

Definition enc_pal_entry (ef : palentry * Z) : list Z :=
  let '(e, fl) := ef in
  let '(r, g, b, a) := pe_rgba e in
  e_word fl ++ e_byte r ++ e_byte g ++ e_byte b ++ e_byte a
  ++ (match pe_name e with Some s => e_str s | None => [] end).

Definition enc_palette (total first : Z) (entries : list (palentry * Z)) (rsv : list Z) : list Z :=
  e_dword total ++ e_dword first ++ e_dword (first + zlen entries - 1) ++ rsv
  ++ flat_map enc_pal_entry entries.

Definition wf_pal_entry (ef : palentry * Z) : Prop :=
  let '(e, fl) := ef in
  is_word fl /\ Z.odd fl = opt_is_some (pe_name e) /\ wf_pixel (pe_rgba e) /\
  (match pe_name e with Some s => wf_str s | None => True end).

Definition wf_palette (first : Z) (entries : list (palentry * Z)) : Prop :=
  0 <= first /\ 1 <= zlen entries /\ first + zlen entries - 1 <= 4294967295 /\
  Forall wf_pal_entry entries.

(* what a run of entries means: x is bound (as g x) at the running id, which then advances;
   a palette chunk binds its entries from `first` on *)
Definition seq_step {X} (g : X -> palentry) (st : Z * palette) (x : X) : Z * palette :=
  (fst st + 1, zadd (fst st) (g x) (snd st)).
Definition pal_step : Z * palette -> palentry * Z -> Z * palette := seq_step fst.
Definition palette_of (first : Z) (entries : list (palentry * Z)) : palette :=
  snd (fold_left pal_step entries (first, zempty)).

(* ------------------------------------------------------------------ *)
(* 0x0004 / 0x0011 legacy palettes: packets of (skip byte, colours); the count byte is
   the number of colours mod 256 (256 colours are written as 0). *)

Definition rgb := (Z * Z * Z)%type.
Definition enc_old_color (c : rgb) : list Z := let '(r, g, b) := c in [r; g; b].
Definition enc_old_packet (p : Z * list rgb) : list Z :=
  let '(s, cs) := p in e_byte s ++ e_byte (zlen cs mod 256) ++ flat_map enc_old_color cs.
Definition enc_old_palette (packets : list (Z * list rgb)) : list Z :=
  e_word (zlen packets) ++ flat_map enc_old_packet packets.

Definition wf_old_color (six : bool) (c : rgb) : Prop :=
  let '(r, g, b) := c in
  let top := if six then 64 else 256 in 0 <= r < top /\ 0 <= g < top /\ 0 <= b < top.
Definition wf_old_packet (six : bool) (p : Z * list rgb) : Prop :=
  let '(s, cs) := p in is_byte s /\ 1 <= zlen cs <= 256 /\ Forall (wf_old_color six) cs.
Definition wf_old_palette (six : bool) (packets : list (Z * list rgb)) : Prop :=
  zlen packets < 65536 /\ Forall (wf_old_packet six) packets.

(* what the legacy chunks mean, stated without the reader: 6-bit components are scaled,
   alpha is 255, there is no name; packet p starts at the sum of the skip bytes of the
   packets up to and including p (the decoder does not add the colour counts), its colours
   go to consecutive ids; later bindings replace earlier ones *)
Definition scale6 (c : Z) : Z := c * 4 + c / 16.
Definition old_entry (six : bool) (c : rgb) : palentry :=
  let '(r, g, b) := c in
  {| pe_rgba := if six then (scale6 r, scale6 g, scale6 b, 255) else (r, g, b, 255); pe_name := None |}.
Fixpoint old_bindings (six : bool) (skip0 : Z) (packets : list (Z * list rgb)) : list (Z * palentry) :=
  match packets with
  | [] => []
  | (s, cs) :: rest =>
      combine (zrange (skip0 + s) (length cs)) (map (old_entry six) cs)
      ++ old_bindings six (skip0 + s) rest
  end.
Definition bind_all (bs : list (Z * palentry)) (m : palette) : palette :=
  fold_left (fun m kv => zadd (fst kv) (snd kv) m) bs m.
Definition old_palette_spec (six : bool) (packets : list (Z * list rgb)) : palette :=
  bind_all (old_bindings six 0 packets) zempty.
(* the last binding of key k in a list of bindings *)
Definition last_binding (k : Z) (bs : list (Z * palentry)) : option palentry :=
  match find (fun kv => fst kv =? k) (rev bs) with Some kv => Some (snd kv) | None => None end.

(* sum of the skip bytes of a list of packets *)
Fixpoint skip_sum (packets : list (Z * list rgb)) : Z :=
  match packets with [] => 0 | (s, _) :: rest => s + skip_sum rest end.

(* indexed pixel data that the palette (if any) does not cover *)
Definition uncovered (pal : option palette) (rp : rawpixels) : Prop :=
  exists l, rp = RPIndexed l /\
            (pal = None \/ exists p i, pal = Some p /\ In i l /\ zfind i p = None).
(* parsed chunks containing an image cel or a tileset with uncovered pixels *)
Definition incomplete (p : pinfo) : Prop :=
  (exists frame r layer c w h rp,
     zfind frame (pi_cels p) = Some r /\ nthz r layer = Some (Some c) /\
     c_content c = CRaw w h rp /\ uncovered (pi_palette p) rp) \/
  (exists k t rp,
     zfind k (pi_tilesets p) = Some t /\ ts_pixels t = Some rp /\ uncovered (pi_palette p) rp).

(* ------------------------------------------------------------------ *)
(* 0x2020 user data.  flags DWORD: bit 0 = has text, bit 1 = has colour. *)

Definition enc_userdata (u : userdata) (flags : Z) : list Z :=
  e_dword flags
  ++ (match ud_text u with Some s => e_str s | None => [] end)
  ++ (match ud_color u with Some (r, g, b, a) => [r; g; b; a] | None => [] end).

Definition wf_userdata (u : userdata) (flags : Z) : Prop :=
  is_dword flags /\
  opt_is_some (ud_text u) = bit flags 1 /\ opt_is_some (ud_color u) = bit flags 2 /\
  (match ud_text u with Some s => wf_str s | None => True end) /\
  (match ud_color u with Some p => wf_pixel p | None => True end).

(* ------------------------------------------------------------------ *)
(* 0x2008 external files.  Per entry 8 junk bytes (type BYTE + 7 reserved); chunk: 8. *)

Definition enc_ext_entry (ej : (Z * list Z) * list Z) : list Z :=
  let '((id, name), j) := ej in e_dword id ++ j ++ e_str name.
Definition enc_external (es : list ((Z * list Z) * list Z)) (rsv : list Z) : list Z :=
  e_dword (zlen es) ++ rsv ++ flat_map enc_ext_entry es.

Definition wf_ext_entry (ej : (Z * list Z) * list Z) : Prop :=
  let '((id, name), j) := ej in is_dword id /\ wf_str name /\ junk 8 j.
Definition wf_external (es : list ((Z * list Z) * list Z)) : Prop :=
  zlen es < 4294967296 /\ Forall wf_ext_entry es.

(* ------------------------------------------------------------------ *)
(* 0x2007 colour profile: type 0 (none) or 1 (sRGB), no fixed gamma.  gamma = 4 junk
   bytes, rsv = 8. *)

Definition enc_color_profile (ty flags : Z) (gamma rsv : list Z) : list Z :=
  e_word ty ++ e_word flags ++ gamma ++ rsv.
Definition wf_color_profile (ty flags : Z) : Prop :=
  0 <= ty <= 1 /\ is_word flags /\ bit flags 1 = false.

(* ------------------------------------------------------------------ *)
(* 0x2023 tileset, up to and including the compressed-length DWORD.  flags DWORD: bit 0 =
   link to an external file, bit 1 = tiles embedded (then clen, 4 junk bytes, follows),
   bit 2 = tile 0 is the empty tile.  rsv = 14 bytes. *)

Definition enc_tileset_hdr (t : tileset rawpixels) (flags : Z) (rsv clen : list Z) : list Z :=
  e_dword (ts_id t) ++ e_dword flags ++ e_dword (ts_count t)
  ++ e_word (ts_w t) ++ e_word (ts_h t) ++ e_short (ts_base t) ++ rsv ++ e_str (ts_name t)
  ++ (match ts_ext t with Some (a, b) => e_dword a ++ e_dword b | None => [] end)
  ++ (if bit flags 2 then clen else []).

Definition wf_tileset_hdr (t : tileset rawpixels) (flags : Z) : Prop :=
  is_dword (ts_id t) /\ is_dword flags /\ is_dword (ts_count t) /\
  1 <= ts_w t < 65536 /\ 1 <= ts_h t < 65536 /\ is_short (ts_base t) /\ wf_str (ts_name t) /\
  opt_is_some (ts_ext t) = bit flags 1 /\ ts_empty0 t = bit flags 4 /\
  (match ts_ext t with Some (a, b) => is_dword a /\ is_dword b | None => True end) /\
  ts_pixels t = None.

(* tilemap cel (type 3) head: masks = 12 junk bytes (the three flip masks), rsv = 10 *)
Definition enc_tilemap_hdr (w h idmask : Z) (masks rsv : list Z) : list Z :=
  e_word w ++ e_word h ++ e_word 32 ++ e_dword idmask ++ masks ++ rsv.

(* ------------------------------------------------------------------ *)
(* the 128-byte file header *)

Record hfields := {
  hf_frames : Z; hf_width : Z; hf_height : Z; hf_depth : Z;
  hf_default_time : Z; hf_transparent : Z; hf_pixel_w : Z; hf_pixel_h : Z }.

(* fsize = file size DWORD (4 junk bytes); jflags = flags DWORD (4); j2 = two deprecated
   DWORDs (8); j3 = 3 ignored bytes + number of colours (5); grid = grid x, y, w, h (8);
   rsv = 84 *)
Definition enc_header (h : hfields) (fsize jflags j2 j3 grid rsv : list Z) : list Z :=
  fsize ++ e_word 42464
  ++ e_word (hf_frames h) ++ e_word (hf_width h) ++ e_word (hf_height h) ++ e_word (hf_depth h)
  ++ jflags ++ e_word (hf_default_time h) ++ j2
  ++ e_byte (hf_transparent h) ++ j3
  ++ e_byte (hf_pixel_w h) ++ e_byte (hf_pixel_h h) ++ grid ++ rsv.

Definition header_fmt (h : hfields) : option pixfmt :=
  if hf_depth h =? 8 then Some (FIndexed (hf_transparent h))
  else if hf_depth h =? 16 then Some FGray
  else if hf_depth h =? 32 then Some FRgba
  else None.

Definition wf_header (h : hfields) : Prop :=
  is_word (hf_frames h) /\ is_word (hf_width h) /\ is_word (hf_height h) /\
  (hf_depth h = 8 \/ hf_depth h = 16 \/ hf_depth h = 32) /\
  is_word (hf_default_time h) /\ is_byte (hf_transparent h) /\
  is_byte (hf_pixel_w h) /\ is_byte (hf_pixel_h h) /\
  (* square pixels: a zero component or 1:1 *)
  (hf_pixel_w h = 0 \/ hf_pixel_h h = 0 \/ (hf_pixel_w h = 1 /\ hf_pixel_h h = 1)).

Definition wf_header_junk (fsize jflags j2 j3 grid rsv : list Z) : Prop :=
  junk 4 fsize /\ junk 4 jflags /\ junk 8 j2 /\ junk 5 j3 /\ junk 8 grid /\ junk 84 rsv.

(* what read_aseprite does after the header: the frames, then the result *)
Section WithInflate.
Variable inflate : list Z -> Z -> zres.
Definition parse_frames (h : hfields) (fmt : pixfmt) : IT (header * pinfo) :=
  st <- iterZ (hf_frames h) (parse_frames_step inflate fmt)
              (pinfo_new (hf_frames h) (hf_default_time h), 0) ;;
  Ret ({| h_frames := hf_frames h; h_width := hf_width h; h_height := hf_height h; h_fmt := fmt |}, fst st).
End WithInflate.
