(* Spec/AseRef.v - transcription of Aseprite's src/doc/blend_funcs.cpp (the text in
   DESIGN.md Appendix E, /repo/ref/dummy.cc and the C macros quoted in /repo/src/blend.rs).

   This file is the SPECIFICATION side of C03.  It deliberately does not import the model
   (Model/Blend.v): everything is written again from the C++ text.

   Conventions
   - color_t = uint32_t, a Z in [0, 2^32); channels packed r | g<<8 | b<<16 | a<<24.
   - `int` / `uint32_t` values are Z; a conversion to a narrower unsigned type is an explicit
     `mod` (to_u8, to_u16, to_u32).  No `int` computation below leaves the 32-bit range for
     byte inputs, so `int` overflow (undefined in C++) is not modelled.
   - `>>` on `int` is an arithmetic shift (Z.shiftr), `<<` is Z.shiftl,
     `/` truncates toward zero (Z.quot), `&` `|` are Z.land / Z.lor.
   - Undefined behaviour is `None`: division by zero, and a double -> integer conversion whose
     truncated value is not representable (or NaN).
   - `double` is IEEE-754 binary64, round to nearest even, no contraction (Coq's PrimFloat). *)
From Coq Require Import ZArith Bool Floats.
Open Scope Z_scope.
Open Scope bool_scope.

Definition color_t := Z.

Definition to_u8 (z : Z) : Z := z mod 256.
Definition to_u16 (z : Z) : Z := z mod 65536.
Definition to_u32 (z : Z) : Z := z mod 4294967296.

(* a / b in C: undefined when b = 0 *)
Definition c_div (a b : Z) : option Z := if b =? 0 then None else Some (Z.quot a b).

Definition bind {A B} (o : option A) (f : A -> option B) : option B :=
  match o with Some a => f a | None => None end.
Notation "'do' x <- t ; u" := (bind t (fun x => u)) (at level 61, x name, t at next level, right associativity).

(* ------------------------------------------------------------------ *)
(* doc/color.h *)

Definition rgba_r_shift := 0.
Definition rgba_g_shift := 8.
Definition rgba_b_shift := 16.
Definition rgba_a_shift := 24.
Definition rgba_rgb_mask := 16777215.     (* 0x00ffffff *)
Definition rgba_a_mask := 4278190080.     (* 0xff000000 *)

(* inline uint8_t rgba_getr(uint32_t c) { return (c >> rgba_r_shift) & 0xff; } *)
Definition rgba_getr (c : color_t) : Z := to_u8 (Z.land (Z.shiftr c rgba_r_shift) 255).
Definition rgba_getg (c : color_t) : Z := to_u8 (Z.land (Z.shiftr c rgba_g_shift) 255).
Definition rgba_getb (c : color_t) : Z := to_u8 (Z.land (Z.shiftr c rgba_b_shift) 255).
Definition rgba_geta (c : color_t) : Z := to_u8 (Z.land (Z.shiftr c rgba_a_shift) 255).

(* inline uint32_t rgba(uint8_t r, uint8_t g, uint8_t b, uint8_t a)
   { return (r << rgba_r_shift) | (g << rgba_g_shift) | (b << rgba_b_shift) | (a << rgba_a_shift); }
   the uint8_t parameters truncate their arguments *)
Definition rgba (r g b a : Z) : color_t :=
  let r := to_u8 r in let g := to_u8 g in let b := to_u8 b in let a := to_u8 a in
  to_u32 (Z.lor (Z.lor (Z.lor (Z.shiftl r rgba_r_shift) (Z.shiftl g rgba_g_shift))
                       (Z.shiftl b rgba_b_shift))
                (Z.shiftl a rgba_a_shift)).

(* ------------------------------------------------------------------ *)
(* pixman macros *)

(* #define MUL_UN8(a, b, t) ((t) = (a) * (uint16_t)(b) + ONE_HALF, ((((t) >> G_SHIFT) + (t)) >> G_SHIFT))
   with ONE_HALF = 0x80, G_SHIFT = 8, t an int *)
Definition MUL_UN8 (a b : Z) : Z :=
  let t := a * to_u16 b + 128 in Z.shiftr (Z.shiftr t 8 + t) 8.

(* #define DIV_UN8(a, b) (((uint16_t) (a) * 0xff + ((b) / 2)) / (b)) *)
Definition DIV_UN8 (a b : Z) : option Z := c_div (to_u16 a * 255 + Z.quot b 2) b.

Definition MIN (x y : Z) : Z := if x <? y then x else y.     (* ((x) < (y)) ? (x) : (y) *)
Definition MAX (x y : Z) : Z := if y <? x then x else y.     (* ((x) > (y)) ? (x) : (y) *)
Definition ABS (x : Z) : Z := if 0 <=? x then x else - x.    (* ((x) >= 0) ? (x) : -(x) *)

(* ------------------------------------------------------------------ *)
(* color_t rgba_blender_merge(color_t backdrop, color_t src, int opacity) *)
Definition rgba_blender_merge (backdrop src : color_t) (opacity : Z) : color_t :=
  let Br := rgba_getr backdrop in let Bg := rgba_getg backdrop in
  let Bb := rgba_getb backdrop in let Ba := rgba_geta backdrop in
  let Sr := rgba_getr src in let Sg := rgba_getg src in
  let Sb := rgba_getb src in let Sa := rgba_geta src in
  let '(Rr, Rg, Rb) :=
    if Ba =? 0 then (Sr, Sg, Sb)
    else if Sa =? 0 then (Br, Bg, Bb)
    else (Br + MUL_UN8 (Sr - Br) opacity, Bg + MUL_UN8 (Sg - Bg) opacity, Bb + MUL_UN8 (Sb - Bb) opacity) in
  let Ra := Ba + MUL_UN8 (Sa - Ba) opacity in
  let '(Rr, Rg, Rb) := if Ra =? 0 then (0, 0, 0) else (Rr, Rg, Rb) in
  rgba Rr Rg Rb Ra.

(* color_t rgba_blender_normal(color_t backdrop, color_t src, int opacity) *)
Definition rgba_blender_normal (backdrop src : color_t) (opacity : Z) : option color_t :=
  if Z.land backdrop rgba_a_mask =? 0 then
    (* int a = rgba_geta(src); a = MUL_UN8(a, opacity, t); a <<= rgba_a_shift;
       return (src & rgba_rgb_mask) | a; *)
    let a := rgba_geta src in
    let a := MUL_UN8 a opacity in
    let a := Z.shiftl a rgba_a_shift in
    Some (Z.lor (Z.land src rgba_rgb_mask) (to_u32 a))
  else if Z.land src rgba_a_mask =? 0 then Some backdrop
  else
    let Br := rgba_getr backdrop in let Bg := rgba_getg backdrop in
    let Bb := rgba_getb backdrop in let Ba := rgba_geta backdrop in
    let Sr := rgba_getr src in let Sg := rgba_getg src in let Sb := rgba_getb src in
    let Sa := rgba_geta src in
    let Sa := MUL_UN8 Sa opacity in
    let Ra := Sa + Ba - MUL_UN8 Ba Sa in
    (* const int Rr = Br + (Sr-Br) * Sa / Ra; ... *)
    do qr <- c_div ((Sr - Br) * Sa) Ra ;
    do qg <- c_div ((Sg - Bg) * Sa) Ra ;
    do qb <- c_div ((Sb - Bb) * Sa) Ra ;
    Some (rgba (Br + qr) (Bg + qg) (Bb + qb) Ra).

(* ------------------------------------------------------------------ *)
(* channel functions *)

Definition blend_multiply (b s : Z) : Z := MUL_UN8 b s.
Definition blend_screen (b s : Z) : Z := b + s - MUL_UN8 b s.
Definition blend_hard_light (b s : Z) : Z :=
  if s <? 128 then blend_multiply b (Z.shiftl s 1) else blend_screen b (Z.shiftl s 1 - 255).
Definition blend_overlay (b s : Z) : Z := blend_hard_light s b.
Definition blend_darken (b s : Z) : Z := MIN b s.
Definition blend_lighten (b s : Z) : Z := MAX b s.
Definition blend_difference (b s : Z) : Z := ABS (b - s).
Definition blend_exclusion (b s : Z) : Z := let t := MUL_UN8 b s in b + s - 2 * t.

(* inline uint32_t blend_divide(uint32_t b, uint32_t s) *)
Definition blend_divide (b s : Z) : option Z :=
  if b =? 0 then Some 0 else if s <=? b then Some 255 else DIV_UN8 b s.
(* inline uint32_t blend_color_dodge(uint32_t b, uint32_t s) *)
Definition blend_color_dodge (b s : Z) : option Z :=
  if b =? 0 then Some 0 else
  let s := to_u32 (255 - s) in
  if s <=? b then Some 255 else DIV_UN8 b s.
(* inline uint32_t blend_color_burn(uint32_t b, uint32_t s) *)
Definition blend_color_burn (b s : Z) : option Z :=
  if b =? 255 then Some 255 else
  let b := to_u32 (255 - b) in
  if s <=? b then Some 0 else
  do d <- DIV_UN8 b s ; Some (to_u32 (255 - d)).

(* ---- double helpers ---- *)
Open Scope float_scope.

(* uint8_t / uint32_t -> double: exact *)
Definition to_double (z : Z) : float := PrimFloat.of_uint63 (Uint63.of_Z z).

(* the integer part of x (truncation toward zero); None for NaN and infinities *)
Definition trunc (x : float) : option Z :=
  match Prim2SF x with
  | S754_zero _ => Some 0%Z
  | S754_infinity _ => None
  | S754_nan => None
  | S754_finite sg m e =>
      let mag := match e with
                 | Zneg p => (Zpos m / 2 ^ Zpos p)%Z
                 | _ => (Zpos m * 2 ^ e)%Z
                 end in
      Some (if sg then (- mag)%Z else mag)
  end.
(* (uint32_t)x and int(x): undefined unless the truncated value is representable *)
Definition cast_u32 (x : float) : option Z :=
  do z <- trunc x ; if ((0 <=? z) && (z <? 4294967296))%Z then Some z else None.
Definition cast_int (x : float) : option Z :=
  do z <- trunc x ; if ((-2147483648 <=? z) && (z <? 2147483648))%Z then Some z else None.

(* inline uint32_t blend_soft_light(uint32_t _b, uint32_t _s) *)
Definition blend_soft_light (_b _s : Z) : option Z :=
  let b := to_double _b / 255 in
  let s := to_double _s / 255 in
  let d := if b <=? 0.25 then ((16 * b - 12) * b + 4) * b else PrimFloat.sqrt b in
  let r := if s <=? 0.5 then b - (1 - 2 * s) * b * (1 - b) else b + (2 * s - 1) * (d - b) in
  cast_u32 (r * 255 + 0.5).

Close Scope float_scope.

(* ------------------------------------------------------------------ *)
(* color_t rgba_blender_X(color_t backdrop, color_t src, int opacity), X separable:
     int r = blend_X(rgba_getr(backdrop), rgba_getr(src), t); ... g ... b
     src = rgba(r, g, b, 0) | (src & rgba_a_mask);
     return rgba_blender_normal(backdrop, src, opacity); *)
Definition replace_rgb (r g b : Z) (src : color_t) : color_t :=
  Z.lor (rgba r g b 0) (Z.land src rgba_a_mask).

Definition rgba_blender_sep (f : Z -> Z -> option Z) (backdrop src : color_t) (opacity : Z) : option color_t :=
  do r <- f (rgba_getr backdrop) (rgba_getr src) ;
  do g <- f (rgba_getg backdrop) (rgba_getg src) ;
  do b <- f (rgba_getb backdrop) (rgba_getb src) ;
  rgba_blender_normal backdrop (replace_rgb r g b src) opacity.

Definition pure2 (f : Z -> Z -> Z) : Z -> Z -> option Z := fun b s => Some (f b s).

Definition rgba_blender_multiply := rgba_blender_sep (pure2 blend_multiply).
Definition rgba_blender_screen := rgba_blender_sep (pure2 blend_screen).
Definition rgba_blender_overlay := rgba_blender_sep (pure2 blend_overlay).
Definition rgba_blender_darken := rgba_blender_sep (pure2 blend_darken).
Definition rgba_blender_lighten := rgba_blender_sep (pure2 blend_lighten).
Definition rgba_blender_color_dodge := rgba_blender_sep blend_color_dodge.
Definition rgba_blender_color_burn := rgba_blender_sep blend_color_burn.
Definition rgba_blender_hard_light := rgba_blender_sep (pure2 blend_hard_light).
Definition rgba_blender_soft_light := rgba_blender_sep blend_soft_light.
Definition rgba_blender_difference := rgba_blender_sep (pure2 blend_difference).
Definition rgba_blender_exclusion := rgba_blender_sep (pure2 blend_exclusion).
Definition rgba_blender_divide := rgba_blender_sep blend_divide.

(* color_t rgba_blender_addition(color_t backdrop, color_t src, int opacity) *)
Definition rgba_blender_addition (backdrop src : color_t) (opacity : Z) : option color_t :=
  let r := rgba_getr backdrop + rgba_getr src in
  let g := rgba_getg backdrop + rgba_getg src in
  let b := rgba_getb backdrop + rgba_getb src in
  rgba_blender_normal backdrop (replace_rgb (MIN r 255) (MIN g 255) (MIN b 255) src) opacity.

(* color_t rgba_blender_subtract(color_t backdrop, color_t src, int opacity) *)
Definition rgba_blender_subtract (backdrop src : color_t) (opacity : Z) : option color_t :=
  let r := rgba_getr backdrop - rgba_getr src in
  let g := rgba_getg backdrop - rgba_getg src in
  let b := rgba_getb backdrop - rgba_getb src in
  rgba_blender_normal backdrop (replace_rgb (MAX r 0) (MAX g 0) (MAX b 0) src) opacity.

(* ------------------------------------------------------------------ *)
(* HSL helpers (ref/dummy.cc) *)
Open Scope float_scope.

Definition rgbd := (float * float * float)%type.

(* static double lum(double r, double g, double b) { return 0.3*r + 0.59*g + 0.11*b; } *)
Definition lum (c : rgbd) : float := let '(r, g, b) := c in 0.3 * r + 0.59 * g + 0.11 * b.

Definition maxd (a b : float) : float := if b <? a then a else b.   (* if (a > b) return a; else return b; *)
Definition mind (a b : float) : float := if a <? b then a else b.   (* if (a < b) return a; else return b; *)

(* static double sat(double r, double g, double b) *)
Definition sat (c : rgbd) : float :=
  let '(r, g, b) := c in maxd r (maxd g b) - mind r (mind g b).

(* static void clip_color(double& r, double& g, double& b) *)
Definition clip_color (c : rgbd) : rgbd :=
  let '(r, g, b) := c in
  let l := lum (r, g, b) in
  let n := mind r (mind g b) in
  let x := maxd r (maxd g b) in
  let '(r, g, b) :=
    if n <? 0 then
      let r := l + (((r - l) * l) / (l - n)) in
      let g := l + (((g - l) * l) / (l - n)) in
      let b := l + (((b - l) * l) / (l - n)) in
      (r, g, b)
    else (r, g, b) in
  if 1 <? x then
    let r := l + (((r - l) * (1 - l)) / (x - l)) in
    let g := l + (((g - l) * (1 - l)) / (x - l)) in
    let b := l + (((b - l) * (1 - l)) / (x - l)) in
    (r, g, b)
  else (r, g, b).

(* static void set_lum(double& r, double& g, double& b, double l) *)
Definition set_lum (c : rgbd) (l : float) : rgbd :=
  let '(r, g, b) := c in
  let d := l - lum (r, g, b) in
  let r := r + d in
  let g := g + d in
  let b := b + d in
  clip_color (r, g, b).

(* set_sat: MIN / MAX / MID are macros over lvalues, so `double& min = MIN(r, MIN(g, b))`
   binds a REFERENCE to one of r, g, b; the three references may alias. *)
Inductive lvalue := LR | LG | LB.
Definition load (st : rgbd) (l : lvalue) : float :=
  let '(r, g, b) := st in match l with LR => r | LG => g | LB => b end.
Definition store (st : rgbd) (l : lvalue) (v : float) : rgbd :=
  let '(r, g, b) := st in match l with LR => (v, g, b) | LG => (r, v, b) | LB => (r, g, v) end.

(* #define MIN(x,y) (((x) < (y)) ? (x) : (y))   #define MAX(x,y) (((x) > (y)) ? (x) : (y)) *)
Definition MIN_lv (st : rgbd) (x y : lvalue) : lvalue := if load st x <? load st y then x else y.
Definition MAX_lv (st : rgbd) (x y : lvalue) : lvalue := if load st y <? load st x then x else y.
(* #define MID(x,y,z) ((x) > (y) ? ((y) > (z) ? (y) : ((x) > (z) ? (z) : (x)))
                                 : ((y) > (z) ? ((z) > (x) ? (z) : (x)) : (y))) *)
Definition MID_lv (st : rgbd) (x y z : lvalue) : lvalue :=
  if load st y <? load st x then
    (if load st z <? load st y then y else if load st z <? load st x then z else x)
  else
    (if load st z <? load st y then (if load st x <? load st z then z else x) else y).

(* static void set_sat(double& r, double& g, double& b, double s) *)
Definition set_sat (c : rgbd) (s : float) : rgbd :=
  let st := c in
  let min := MIN_lv st LR (MIN_lv st LG LB) in
  let mid := MID_lv st LR LG LB in
  let max := MAX_lv st LR (MAX_lv st LG LB) in
  let st :=
    if load st min <? load st max then          (* if (max > min) *)
      let st := store st mid (((load st mid - load st min) * s) / (load st max - load st min)) in
      store st max s
    else                                         (* mid = max = 0; *)
      let st := store st max 0 in store st mid 0 in
  store st min 0.                                (* min = 0; *)

Definition unit_rgb (c : color_t) : rgbd :=
  (to_double (rgba_getr c) / 255, to_double (rgba_getg c) / 255, to_double (rgba_getb c) / 255).

(* src = rgba(int(255.0*r), int(255.0*g), int(255.0*b), 0) | (src & rgba_a_mask);
   return rgba_blender_normal(backdrop, src, opacity); *)
Definition finish_hsl (c : rgbd) (backdrop src : color_t) (opacity : Z) : option color_t :=
  let '(r, g, b) := c in
  do ri <- cast_int (255 * r) ;
  do gi <- cast_int (255 * g) ;
  do bi <- cast_int (255 * b) ;
  rgba_blender_normal backdrop (replace_rgb ri gi bi src) opacity.

(* the colour each HSL blender hands to finish_hsl *)
Definition hsl_hue_rgb (backdrop src : color_t) : rgbd :=
  let c := unit_rgb backdrop in
  let s := sat c in
  let l := lum c in
  let c := unit_rgb src in
  let c := set_sat c s in
  set_lum c l.
Definition hsl_saturation_rgb (backdrop src : color_t) : rgbd :=
  let c := unit_rgb src in
  let s := sat c in
  let c := unit_rgb backdrop in
  let l := lum c in
  let c := set_sat c s in
  set_lum c l.
Definition hsl_color_rgb (backdrop src : color_t) : rgbd :=
  let c := unit_rgb backdrop in
  let l := lum c in
  let c := unit_rgb src in
  set_lum c l.
Definition hsl_luminosity_rgb (backdrop src : color_t) : rgbd :=
  let c := unit_rgb src in
  let l := lum c in
  let c := unit_rgb backdrop in
  set_lum c l.

Close Scope float_scope.

Definition rgba_blender_hsl_hue (backdrop src : color_t) (opacity : Z) : option color_t :=
  finish_hsl (hsl_hue_rgb backdrop src) backdrop src opacity.
Definition rgba_blender_hsl_saturation (backdrop src : color_t) (opacity : Z) : option color_t :=
  finish_hsl (hsl_saturation_rgb backdrop src) backdrop src opacity.
Definition rgba_blender_hsl_color (backdrop src : color_t) (opacity : Z) : option color_t :=
  finish_hsl (hsl_color_rgb backdrop src) backdrop src opacity.
Definition rgba_blender_hsl_luminosity (backdrop src : color_t) (opacity : Z) : option color_t :=
  finish_hsl (hsl_luminosity_rgb backdrop src) backdrop src opacity.

(* ------------------------------------------------------------------ *)
(* #define RGBA_BLENDER_N(name) color_t rgba_blender_##name##_n(backdrop, src, opacity) { ... } *)
Definition RGBA_BLENDER_N (rgba_blender_name : color_t -> color_t -> Z -> option color_t)
           (backdrop src : color_t) (opacity : Z) : option color_t :=
  if negb (Z.land backdrop rgba_a_mask =? 0) then
    do normal <- rgba_blender_normal backdrop src opacity ;
    do blend <- rgba_blender_name backdrop src opacity ;
    let Ba := rgba_geta backdrop in
    let normalToBlendMerge := rgba_blender_merge normal blend Ba in
    let srcTotalAlpha := MUL_UN8 (rgba_geta src) opacity in
    let compositeAlpha := MUL_UN8 Ba srcTotalAlpha in
    Some (rgba_blender_merge normalToBlendMerge blend compositeAlpha)
  else rgba_blender_normal backdrop src opacity.

(* the blend function of each doc::BlendMode (the enum order is the file encoding);
   "new blend method": every mode but Normal goes through RGBA_BLENDER_N *)
Definition baseline (mode : Z) : color_t -> color_t -> Z -> option color_t :=
  match mode with
  | 1 => rgba_blender_multiply
  | 2 => rgba_blender_screen
  | 3 => rgba_blender_overlay
  | 4 => rgba_blender_darken
  | 5 => rgba_blender_lighten
  | 6 => rgba_blender_color_dodge
  | 7 => rgba_blender_color_burn
  | 8 => rgba_blender_hard_light
  | 9 => rgba_blender_soft_light
  | 10 => rgba_blender_difference
  | 11 => rgba_blender_exclusion
  | 12 => rgba_blender_hsl_hue
  | 13 => rgba_blender_hsl_saturation
  | 14 => rgba_blender_hsl_color
  | 15 => rgba_blender_hsl_luminosity
  | 16 => rgba_blender_addition
  | 17 => rgba_blender_subtract
  | 18 => rgba_blender_divide
  | _ => rgba_blender_normal
  end.

Definition blend_n (mode : Z) (backdrop src : color_t) (opacity : Z) : option color_t :=
  if mode =? 0 then rgba_blender_normal backdrop src opacity
  else RGBA_BLENDER_N (baseline mode) backdrop src opacity.

(* sanity checks of the transcription (tests, not proofs).
   test_merge of ref/dummy.cc (its output is not recorded there; this is the value of the
   transcription); the vector of test_normal in src/blend.rs with its expected value; the
   input of test_multiply of ref/dummy.cc. *)
Example test_merge :
  rgba_blender_merge (rgba 0 205 249 255) (rgba 237 118 20 255) 128 = rgba 119 161 134 255.
Proof. vm_compute. reflexivity. Qed.
Example test_normal :
  rgba_blender_normal (rgba 0 205 249 255) (rgba 237 118 20 255) 128 = Some (rgba 118 162 135 255).
Proof. vm_compute. reflexivity. Qed.
Example test_multiply :
  blend_n 1 (rgba 245 65 48 10) (rgba 42 41 227 209) 255 = Some (rgba 44 40 213 211).
Proof. vm_compute. reflexivity. Qed.
