(* Declarative per-pixel description of frame and cel images (C02, C06).
   Definitions only; the theorems relating them to Model/Render.v are in
   Proofs/RenderFrame.v and Props/C02.v, Props/C06.v. *)
From Ase Require Import Base.Prelude Model.Render.

(* the cel stored for (frame, layer), if any *)
Definition cel_at (f : file) (fr l : Z) : option (cel pixels) :=
  match nthz (get_row (f_cels f) fr) l with Some c => c | None => None end.

(* a linked cel stands for the cel of the same layer in the frame it names (one step) *)
Definition resolve (f : file) (c : cel pixels) (l : Z) : option (cel pixels) :=
  match c_content c with CLinked target => cel_at f target l | _ => Some c end.

(* ------------------------------------------------------------------ *)
(* the colour a stored pixel stands for *)

Definition gray_rgba (va : Z * Z) : pixel := (fst va, fst va, fst va, snd va).

(* palette colour; the transparent index is fully transparent except on a background layer *)
Definition index_rgba (pal : palette) (transp : Z) (bg : bool) (i : Z) : option pixel :=
  match zfind i pal with
  | Some e => let '(r, g, b, a) := pe_rgba e in Some (r, g, b, if (transp =? i) && negb bg then 0 else a)
  | None => None
  end.

Definition pixels_get (px : pixels) (i : Z) : option pixel :=
  match px with
  | PRgba a => aget a i
  | PGray a => option_map gray_rgba (aget a i)
  | PIndexed pal transp bg a => match aget a i with Some k => index_rgba pal transp bg k | None => None end
  end.

(* ------------------------------------------------------------------ *)
(* the source pixel a (non-link) cel of layer `lay` offers at canvas position (x, y);
   None outside the cel *)

Definition in_rect (x0 y0 w h x y : Z) : bool :=
  (x0 <=? x) && (x <? x0 + w) && (y0 <=? y) && (y <? y0 + h).

Definition cel_px (f : file) (lay : layer) (c : cel pixels) (x y : Z) : option pixel :=
  let cx := cc_x (c_data c) in
  let cy := cc_y (c_data c) in
  match c_content c with
  | CRaw w h px =>
      if in_rect cx cy w h x y then pixels_get px ((y - cy) * w + (x - cx)) else None
  | CTilemap tm =>
      match zfind (l_tileset lay) (f_tilesets f) with
      | Some ts =>
          match ts_pixels ts with
          | Some px =>
              let tw := ts_w ts in
              let th := ts_h ts in
              if in_rect cx cy (tm_w tm * tw) (tm_h tm * th) x y then
                let dx := x - cx in
                let dy := y - cy in
                match aget (tm_tiles tm) ((dy / th) * tm_w tm + dx / tw) with
                | Some tile_id => pixels_get px (tw * th * tile_id + ((dy mod th) * tw + dx mod tw))
                | None => None
                end
              else None
          | None => None
          end
      | None => None
      end
  | CLinked _ => None
  end.

(* the rectangle a (non-link) cel occupies: the stored pixels, or the stored tile area *)
Definition cel_covers (f : file) (lay : layer) (c : cel pixels) (x y : Z) : bool :=
  let cx := cc_x (c_data c) in
  let cy := cc_y (c_data c) in
  match c_content c with
  | CRaw w h _ => in_rect cx cy w h x y
  | CTilemap tm =>
      match zfind (l_tileset lay) (f_tilesets f) with
      | Some ts => in_rect cx cy (tm_w tm * ts_w ts) (tm_h tm * ts_h ts) x y
      | None => false
      end
  | CLinked _ => false
  end.

(* the opacity a cel is blended with: the 8-bit rounded product *)
Definition cel_opacity (lay : layer) (c : cel pixels) : Z := mul_un8 (l_opacity lay) (cc_opacity (c_data c)).

Definition visibleb (f : file) (l : Z) : bool :=
  match layer_is_visible f l with Ok b => b | _ => false end.

(* ------------------------------------------------------------------ *)
(* C02: one layer's contribution to canvas position (x, y), and the frame pixel as the fold
   over the layer ids in ascending order starting from the transparent pixel.
   None = undefined (a blend function would panic, or the layer table has no such layer). *)

Definition layer_step (f : file) (fr x y : Z) (acc : option pixel) (l : Z) : option pixel :=
  match acc with
  | None => None
  | Some back =>
      match cel_at f fr l with
      | None => Some back
      | Some c0 =>
          if visibleb f l then
            match aget (f_layers f) l with
            | None => None
            | Some lay =>
                match resolve f c0 l with
                | None => Some back
                | Some c =>
                    match cel_px f lay c x y with
                    | Some src => blend (l_blend lay) back src (cel_opacity lay c)
                    | None => Some back
                    end
                end
            end
          else Some back
      end
  end.

Definition spec_pixel (f : file) (fr x y : Z) : option pixel :=
  fold_left (layer_step f fr x y) (ziota (num_layers f)) (Some transparent).

(* C06: the pixel of a cel image: the stored colour with alpha scaled by the opacity *)
Definition scale_alpha (p : pixel) (o : Z) : pixel := let '(r, g, b, a) := p in (r, g, b, mul_un8 a o).

Definition cel_spec_pixel (f : file) (fr l x y : Z) : option pixel :=
  match cel_at f fr l with
  | None => Some transparent
  | Some c0 =>
      match aget (f_layers f) l with
      | None => None
      | Some lay =>
          match resolve f c0 l with
          | None => Some transparent
          | Some c =>
              match cel_px f lay c x y with
              | Some src => Some (scale_alpha src (cel_opacity lay c))
              | None => Some transparent
              end
          end
      end
  end.

(* ------------------------------------------------------------------ *)
(* well-formedness of the parts of a file the renderer reads.  Every file produced by
   `validate` satisfies the first two items by construction (cels are stored under their
   own layer id; pixel buffers are built by arr_of_list). *)

Definition arr_dense {A} (a : arr A) : Prop := forall i, 0 <= i < alen a -> aget a i <> None.
Definition pixels_dense (px : pixels) : Prop :=
  match px with PRgba _ => True | PGray a => arr_dense a | PIndexed _ _ _ a => arr_dense a end.
Definition cel_dense (c : cel pixels) : Prop :=
  match c_content c with CRaw _ _ px => pixels_dense px | _ => True end.

Record render_wf (f : file) : Prop := {
  wf_cel_layer : forall fr l c, cel_at f fr l = Some c -> cc_layer (c_data c) = l;
  wf_cel_dense : forall fr l c, cel_at f fr l = Some c -> cel_dense c;
  wf_tileset : forall k ts, zfind k (f_tilesets f) = Some ts ->
                 0 < ts_w ts /\ 0 < ts_h ts /\
                 forall px, ts_pixels ts = Some px -> pixels_dense px }.
