(* The loader factored in two: FRAMING (byte stream -> header fields + per frame the duration
   and the list of (chunk type, payload) pairs; no chunk is decoded) and ASSEMBLY (a fold of
   the model's own `process_chunk` over those pairs).  Definitions only; the theorem that
   `parse_file` succeeds exactly when framing followed by assembly does is in Proofs/Factor.v.

   `frame_chunks` repeats `parse_frame` (Model/Parse.v) and `framing` repeats `parse_file`
   read for read and check for check, with the chunk processing left out. *)
From Ase Require Export Model.Validate.

(* the header fields that are used *)
Record rawheader := {
  rh_frames : Z; rh_width : Z; rh_height : Z; rh_depth : Z; rh_default_time : Z;
  rh_transparent : Z; rh_pixel_w : Z; rh_pixel_h : Z }.

(* a chunk: its type code and its payload; a frame: its duration and its chunks in file order *)
Definition rawchunk : Type := Z * list Z.
Definition rawframe : Type := Z * list rawchunk.

(* one frame header and its chunks (parse_frame without the `match chunk_type`) *)
Definition frame_chunks : IT rawframe :=
  num_bytes <- dword ;; magic <- word ;;
  if negb (magic =? 61946) then Fail EInvalid else
  old_n <- word ;; duration <- word ;; _ <- word ;; new_n <- dword ;;
  let num_chunks := if new_n =? 0 then old_n else new_n in
  st <- iterZ num_chunks read_chunk ([], num_bytes - 16) ;;
  Ret (duration, frev (fst st)).

(* frames are collected newest first *)
Definition framing_step (acc : list rawframe) : IT (list rawframe) :=
  fr <- frame_chunks ;; Ret (fr :: acc).

(* the 128-byte header, its checks, then num_frames frames *)
Definition framing : IT (rawheader * list rawframe) :=
  _ <- dword ;; magic <- word ;;
  if negb (magic =? 42464) then Fail EInvalid else
  num_frames <- word ;; width <- word ;; height <- word ;; depth <- word ;;
  _ <- dword ;; default_time <- word ;; _ <- dword ;; _ <- dword ;;
  transparent <- byte ;; _ <- byte ;; _ <- word ;; _ <- word ;;
  pixel_w <- byte ;; pixel_h <- byte ;;
  _ <- short ;; _ <- short ;; _ <- word ;; _ <- word ;;
  _ <- skip 84 ;;
  if negb (pixel_w =? 0) && negb (pixel_h =? 0) && negb ((pixel_w =? 1) && (pixel_h =? 1))
  then Fail EUnsupported else
  _ <- lift (parse_pixel_format depth transparent) ;;
  acc <- iterZ num_frames framing_step [] ;;
  Ret ({| rh_frames := num_frames; rh_width := width; rh_height := height; rh_depth := depth;
          rh_default_time := default_time; rh_transparent := transparent;
          rh_pixel_w := pixel_w; rh_pixel_h := pixel_h |}, rev acc).

(* the header value of parse_file, from the raw fields and the pixel format *)
Definition header_of (rh : rawheader) (fmt : pixfmt) : header :=
  {| h_frames := rh_frames rh; h_width := rh_width rh; h_height := rh_height rh; h_fmt := fmt |}.

Section WithInflate.
Variable inflate : list Z -> Z -> zres.

(* one frame: record the duration, then the chunks in order *)
Definition assemble_frame (fmt : pixfmt) (st : pinfo * Z) (fr : rawframe) : res (pinfo * Z) :=
  let '(p, frame_id) := st in
  let '(duration, chunks) := fr in
  p' <-- rfold (process_chunk inflate fmt frame_id) chunks
               (with_times p (zadd frame_id duration (pi_times p))) ;;;
  Ok (p', frame_id + 1).

Definition assemble (fmt : pixfmt) (nframes default_time : Z) (frames : list rawframe) : res pinfo :=
  rmap fst (rfold (assemble_frame fmt) frames (pinfo_new nframes default_time, 0)).

End WithInflate.

(* all chunks of a file, in file order *)
Definition all_chunks (frames : list rawframe) : list rawchunk := flat_map snd frames.
