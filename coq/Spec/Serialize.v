(* Chunk programs: a whole Aseprite file as a VALUE together with every encoding choice the
   format leaves open, and its serialisation to bytes.

   A `sprite_prog` is the header fields (with the content of the header's unused fields) and,
   per frame, the duration, the way the chunk count is written (old WORD field only, both
   fields, new DWORD field with anything in the old one), the two reserved bytes, and the list
   of chunks in file order.  A chunk (`chunk_item`) is one constructor per chunk kind carrying
   the value it encodes, the content of its unused fields, and the bytes that follow the last
   field inside the chunk (`tail`; readers skip them).  Compressed payloads carry the zlib
   stream `z` AND the bytes it stands for (`bytes`); the serialiser writes `z` only, and the
   theorems assume that inflating `z` gives `bytes` (inflate_ok, Proofs/EndToEnd.v).

   `serialize` writes the 128-byte header, then every frame: the 16-byte frame header with the
   exact frame size and the chunk count in the chosen field(s), then the chunks, each with its
   size DWORD and type WORD.  `wf_prog` says that every value fits its field (the predicates of
   Spec/EncodeChunks.v), that the counts and sizes fit, that the header announces the number of
   frames present, and that all junk consists of bytes.

   Definitions only.  Proofs/EndToEnd.v shows that loading `serialize s` is the fold of the
   C10 `step` over the events of s followed by validation (C01 end to end). *)
From Ase Require Export Spec.EncodeChunks Spec.Framing.

(* ------------------------------------------------------------------ *)
(* the unused fields of the 128-byte header (see enc_header) *)
Record hjunk := {
  hj_fsize : list Z;     (* file size DWORD *)
  hj_flags : list Z;     (* flags DWORD *)
  hj_j2 : list Z;        (* two deprecated DWORDs *)
  hj_j3 : list Z;        (* 3 ignored bytes + number of colours *)
  hj_grid : list Z;      (* grid x, y, w, h *)
  hj_rsv : list Z }.     (* 84 reserved bytes *)

(* how a frame header announces its n chunks: old WORD field only (new = 0); both fields (the
   old one saturating at 0xFFFF, as the format prescribes); new DWORD field, the old field
   holding anything *)
Inductive count_choice := CountOld | CountBoth | CountNew (old : Z).

(* tileset pixels: absent, or a zlib stream z standing for `bytes` *)
Inductive tile_body := TilesNone | TilesZ (z bytes : list Z).

(* ------------------------------------------------------------------ *)
(* chunks.  Parameters after the value(s): unused fields in encoder order, then the tail. *)
Inductive chunk_item :=
| ILayer (l : layer) (fw : Z) (dsize rsv tail : list Z)                          (* 0x2004 *)
| ITags (ts : list (tag * list Z)) (rsv tail : list Z)                            (* 0x2018 *)
| ISlice (s : slice) (flags : Z) (rsv tail : list Z)                              (* 0x2022 *)
| IPalette (total first : Z) (entries : list (palentry * Z)) (rsv tail : list Z)  (* 0x2019 *)
| IOldPalette (six : bool) (packets : list (Z * list rgb)) (tail : list Z)        (* 0x0011 / 0x0004 *)
| IUserData (u : userdata) (flags : Z) (tail : list Z)                            (* 0x2020 *)
| IExternal (es : list ((Z * list Z) * list Z)) (rsv tail : list Z)               (* 0x2008 *)
| IColorProfile (ty flags : Z) (gamma rsv tail : list Z)                          (* 0x2007 *)
| ITileset (t : tileset rawpixels) (flags : Z) (rsv clen : list Z) (body : tile_body) (tail : list Z)  (* 0x2023 *)
| ICelRaw (c : celcommon) (rsv : list Z) (w h : Z) (bytes tail : list Z)          (* 0x2005, type 0 *)
| ICelLinked (c : celcommon) (rsv : list Z) (frame : Z) (tail : list Z)           (* 0x2005, type 1 *)
| ICelZ (c : celcommon) (rsv : list Z) (w h : Z) (z bytes tail : list Z)          (* 0x2005, type 2 *)
| ICelTilemap (c : celcommon) (rsv : list Z) (w h idmask : Z) (masks rsv2 z bytes tail : list Z)  (* 0x2005, type 3 *)
| IIgnorable (ty : Z) (data : list Z).                                            (* cel extra, mask, path *)

(* type code and payload *)
Definition item_chunk (it : chunk_item) : rawchunk :=
  match it with
  | ILayer l fw dsize rsv tail => (8196, enc_layer l fw dsize rsv ++ tail)
  | ITags ts rsv tail => (8216, enc_tags ts rsv ++ tail)
  | ISlice s flags rsv tail => (8226, enc_slice s flags rsv ++ tail)
  | IPalette total first entries rsv tail => (8217, enc_palette total first entries rsv ++ tail)
  | IOldPalette six packets tail => (if six then 17 else 4, enc_old_palette packets ++ tail)
  | IUserData u flags tail => (8224, enc_userdata u flags ++ tail)
  | IExternal es rsv tail => (8200, enc_external es rsv ++ tail)
  | IColorProfile ty flags gamma rsv tail => (8199, enc_color_profile ty flags gamma rsv ++ tail)
  | ITileset t flags rsv clen body tail =>
      (8227, enc_tileset_hdr t flags rsv clen
             ++ match body with TilesNone => tail | TilesZ z _ => z ++ tail end)
  | ICelRaw c rsv w h bytes tail => (8197, enc_cel_raw c rsv w h bytes ++ tail)
  | ICelLinked c rsv frame tail => (8197, enc_cel_linked c rsv frame ++ tail)
  | ICelZ c rsv w h z _ tail => (8197, enc_cel_zimage c rsv w h z ++ tail)
  | ICelTilemap c rsv w h idmask masks rsv2 z _ tail =>
      (8197, enc_cel_hdr c 3 rsv ++ enc_tilemap_hdr w h idmask masks rsv2 ++ z ++ tail)
  | IIgnorable ty data => (ty, data)
  end.

(* ------------------------------------------------------------------ *)
(* frames and the file *)
Record frame_prog := {
  fp_duration : Z;
  fp_count : count_choice;
  fp_rsv : list Z;                 (* the 2 reserved bytes of the frame header *)
  fp_items : list chunk_item }.

Record sprite_prog := {
  sp_header : hfields;
  sp_junk : hjunk;
  sp_frames : list frame_prog }.

(* a chunk on disk: size DWORD (6 + payload), type WORD, payload *)
Definition ser_chunk (ch : rawchunk) : list Z :=
  e_dword (6 + zlen (snd ch)) ++ e_word (fst ch) ++ snd ch.
Definition ser_chunks (chunks : list rawchunk) : list Z := flat_map ser_chunk chunks.

(* (old field, new field) for n chunks *)
Definition count_fields (c : count_choice) (n : Z) : Z * Z :=
  match c with
  | CountOld => (n, 0)
  | CountBoth => (Z.min n 65535, n)
  | CountNew old => (old, n)
  end.

(* what framing is expected to deliver for a frame *)
Definition frame_chunks_of (fr : frame_prog) : rawframe :=
  (fp_duration fr, map item_chunk (fp_items fr)).

(* a frame on disk: size DWORD (the whole frame), magic, old count, duration, 2 reserved bytes,
   new count, chunks *)
Definition ser_frame (fr : frame_prog) : list Z :=
  let body := ser_chunks (map item_chunk (fp_items fr)) in
  let cnt := count_fields (fp_count fr) (zlen (fp_items fr)) in
  e_dword (16 + zlen body) ++ e_word 61946 ++ e_word (fst cnt) ++ e_word (fp_duration fr)
  ++ fp_rsv fr ++ e_dword (snd cnt) ++ body.

Definition ser_header (h : hfields) (j : hjunk) : list Z :=
  enc_header h (hj_fsize j) (hj_flags j) (hj_j2 j) (hj_j3 j) (hj_grid j) (hj_rsv j).

Definition serialize (s : sprite_prog) : list Z :=
  ser_header (sp_header s) (sp_junk s) ++ flat_map ser_frame (sp_frames s).

(* what framing is expected to deliver for the header *)
Definition rawheader_of (s : sprite_prog) : rawheader :=
  let h := sp_header s in
  {| rh_frames := hf_frames h; rh_width := hf_width h; rh_height := hf_height h;
     rh_depth := hf_depth h; rh_default_time := hf_default_time h;
     rh_transparent := hf_transparent h; rh_pixel_w := hf_pixel_w h; rh_pixel_h := hf_pixel_h h |}.

(* the pixel format announced by the header (the default is never used for a wf header) *)
Definition prog_fmt (s : sprite_prog) : pixfmt :=
  match header_fmt (sp_header s) with Some f => f | None => FRgba end.

(* ------------------------------------------------------------------ *)
(* well-formedness *)

Definition ignorable_code (ty : Z) : Prop := ty = 8198 \/ ty = 8214 \/ ty = 8215.

(* every value fits its field, every unused field has its length.  fmt: pixel sizes. *)
Definition wf_item (fmt : pixfmt) (it : chunk_item) : Prop :=
  match it with
  | ILayer l fw dsize rsv _ => wf_layer l fw /\ junk 4 dsize /\ junk 3 rsv
  | ITags ts rsv _ => wf_tags ts /\ junk 8 rsv
  | ISlice s flags rsv _ => wf_slice s flags /\ junk 4 rsv
  | IPalette total first entries rsv _ => is_dword total /\ wf_palette first entries /\ junk 8 rsv
  | IOldPalette six packets _ => wf_old_palette six packets
  | IUserData u flags _ => wf_userdata u flags
  | IExternal es rsv _ => wf_external es /\ junk 8 rsv
  | IColorProfile ty flags gamma rsv _ => wf_color_profile ty flags /\ junk 4 gamma /\ junk 8 rsv
  | ITileset t flags rsv clen body _ =>
      wf_tileset_hdr t flags /\ junk 14 rsv /\ junk 4 clen /\
      match body with
      | TilesNone => bit flags 2 = false
      | TilesZ _ bytes =>
          bit flags 2 = true /\ ts_count t * ts_h t * ts_w t < 4294967296 /\
          zlen bytes = bytes_per_pixel fmt * (ts_count t * ts_h t * ts_w t)
      end
  | ICelRaw c rsv w h bytes _ =>
      wf_celcommon c /\ junk 7 rsv /\ is_word w /\ is_word h /\ zlen bytes = bytes_per_pixel fmt * (w * h)
  | ICelLinked c rsv frame _ => wf_celcommon c /\ junk 7 rsv /\ is_word frame
  | ICelZ c rsv w h _ bytes _ =>
      wf_celcommon c /\ junk 7 rsv /\ is_word w /\ is_word h /\ zlen bytes = bytes_per_pixel fmt * (w * h)
  | ICelTilemap c rsv w h idmask masks rsv2 _ bytes _ =>
      wf_celcommon c /\ junk 7 rsv /\ is_word w /\ is_word h /\ is_dword idmask /\
      junk 12 masks /\ junk 10 rsv2 /\ zlen bytes = 4 * (w * h)
  | IIgnorable ty _ => ignorable_code ty
  end.

(* the parts of a chunk that the predicates above leave free consist of bytes *)
Definition item_bytes (it : chunk_item) : Prop :=
  match it with
  | ILayer _ _ dsize rsv tail => all_bytes dsize /\ all_bytes rsv /\ all_bytes tail
  | ITags ts rsv tail => Forall (fun tj => all_bytes (snd tj)) ts /\ all_bytes rsv /\ all_bytes tail
  | ISlice _ _ rsv tail => all_bytes rsv /\ all_bytes tail
  | IPalette _ _ _ rsv tail => all_bytes rsv /\ all_bytes tail
  | IOldPalette _ _ tail => all_bytes tail
  | IUserData _ _ tail => all_bytes tail
  | IExternal es rsv tail => Forall (fun ej => all_bytes (snd ej)) es /\ all_bytes rsv /\ all_bytes tail
  | IColorProfile _ _ gamma rsv tail => all_bytes gamma /\ all_bytes rsv /\ all_bytes tail
  | ITileset _ _ rsv clen body tail =>
      all_bytes rsv /\ all_bytes clen /\ all_bytes tail /\
      match body with TilesNone => True | TilesZ z _ => all_bytes z end
  | ICelRaw _ rsv _ _ bytes tail => all_bytes rsv /\ all_bytes bytes /\ all_bytes tail
  | ICelLinked _ rsv _ tail => all_bytes rsv /\ all_bytes tail
  | ICelZ _ rsv _ _ z _ tail => all_bytes rsv /\ all_bytes z /\ all_bytes tail
  | ICelTilemap _ rsv _ _ _ masks rsv2 z _ tail =>
      all_bytes rsv /\ all_bytes masks /\ all_bytes rsv2 /\ all_bytes z /\ all_bytes tail
  | IIgnorable _ data => all_bytes data
  end.

(* the count fits the field(s) that carry it *)
Definition wf_count (c : count_choice) (n : Z) : Prop :=
  match c with
  | CountOld => n < 65536
  | CountBoth => 0 < n < 4294967296
  | CountNew old => is_word old /\ 0 < n < 4294967296
  end.

Definition wf_frame_prog (fmt : pixfmt) (fr : frame_prog) : Prop :=
  is_word (fp_duration fr) /\ junk 2 (fp_rsv fr) /\ all_bytes (fp_rsv fr) /\
  wf_count (fp_count fr) (zlen (fp_items fr)) /\
  16 + zlen (ser_chunks (map item_chunk (fp_items fr))) < 4294967296 /\
  Forall (wf_item fmt) (fp_items fr) /\ Forall item_bytes (fp_items fr).

Definition wf_hjunk (j : hjunk) : Prop :=
  wf_header_junk (hj_fsize j) (hj_flags j) (hj_j2 j) (hj_j3 j) (hj_grid j) (hj_rsv j) /\
  all_bytes (hj_fsize j) /\ all_bytes (hj_flags j) /\ all_bytes (hj_j2 j) /\ all_bytes (hj_j3 j) /\
  all_bytes (hj_grid j) /\ all_bytes (hj_rsv j).

Definition wf_prog (s : sprite_prog) : Prop :=
  wf_header (sp_header s) /\ wf_hjunk (sp_junk s) /\
  hf_frames (sp_header s) = zlen (sp_frames s) /\
  Forall (wf_frame_prog (prog_fmt s)) (sp_frames s).
