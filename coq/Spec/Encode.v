(* Little-endian encoders: the inverse direction of the reader primitives of
   Base/Prelude.v (byte word short dword long str).  Definitions only; the decode
   lemmas are in Proofs/ITLemmas.v. *)
From Ase Require Export Base.Prelude.

(* BYTE *)
Definition e_byte (v : Z) : list Z := [v].
(* WORD: 16 bit unsigned, low byte first *)
Definition e_word (v : Z) : list Z := [v mod 256; v / 256].
(* SHORT: 16 bit two's complement *)
Definition e_short (v : Z) : list Z := e_word (v mod 65536).
(* DWORD: 32 bit unsigned, low byte first *)
Definition e_dword (v : Z) : list Z :=
  [v mod 256; (v / 256) mod 256; (v / 65536) mod 256; v / 16777216].
(* LONG: 32 bit two's complement *)
Definition e_long (v : Z) : list Z := e_dword (v mod 4294967296).
(* STRING: WORD length, then the bytes *)
Definition e_str (s : list Z) : list Z := e_word (zlen s) ++ s.

(* every element is a byte *)
Definition all_bytes (l : list Z) : Prop := Forall is_byte l.
