#!/usr/bin/env python3
"""Development aid (never part of a registered command): the false-alarm side of the seeding rounds.  Sub-agents left
behaviour-preserving rewrites of the crate in /tmp/h1_<Cxx>/out/patchK.diff (+ noteK.md).  For each of them, on a scratch
worktree of /repo (/tmp/sw_<n>, own cargo target dir; /repo itself is never modified):
 (1) apply the patch, run the unedited suite (--lib, --doc);
 (2) run ./check <ids> --tier quick with VERIF_REPO / VERIF_CARGO_TARGET / VERIF_OUT pointing at the scratch copies for the
     property the rewrite was written against, its neighbours, and the resource / fault / profile checks (C12, C14, C16);
 (3) store patch, note and meta.json under /verif/harmless/<id>_<k>/.
A check that prints VIOLATION here is either a false alarm of ours or a rewrite that is not harmless after all; both are
looked at by hand.
usage: harmless_round.py [--workers N] [--only C03_3,...] [--recheck] [--all-checks] [--kept] [C02 ...]"""
import json, os, shutil, subprocess, sys, time, threading, queue, glob

EXTRA = {
    "C02": ["C19", "C06"], "C06": ["C02"], "C04": ["C05"], "C05": ["C04"], "C09": ["C02"], "C19": ["C06"], "C08": ["C05"],
    "C17": ["C03"], "C03": ["C17"], "C01": ["C07"], "C07": ["C01"], "C10": ["C01"], "C11": ["C01"], "C13": ["C14"], "C14": ["C13"],
    "C15": ["C04"], "C16": ["C05"], "C12": ["C04"], "C18": [],
}


def sh(cmd, cwd=None, timeout=3000, env=None):
    e = dict(os.environ)
    if env:
        e.update(env)
    r = subprocess.run(["bash", "-c", cmd], cwd=cwd, stdout=subprocess.PIPE, stderr=subprocess.STDOUT, text=True, timeout=timeout, env=e)
    return r.returncode, r.stdout

PREFIX = "/tmp/h1_"
ALWAYS = ["C12", "C14", "C16"]
ALL = ["C%02d" % i for i in range(1, 20)]


def run_one(worker, pid, k, patch, meta, checks):
    wt = "/tmp/sw_%d" % worker
    env = {"VERIF_REPO": wt, "VERIF_CARGO_TARGET": "/tmp/sw_%d_target" % worker, "VERIF_OUT": "/tmp/sw_%d_out" % worker}
    clean = "git checkout -- . && git clean -fdq -e Cargo.lock && cp -n /repo/Cargo.lock ."
    sh(clean, cwd=wt)
    rc, out = sh("git apply %s" % patch, cwd=wt)
    if rc != 0:
        meta["error"] = "patch does not apply: " + out[-300:]
        return
    try:
        cenv = "CARGO_TARGET_DIR=/tmp/sw_%d_suite CARGO_NET_OFFLINE=true" % worker
        _, out1 = sh("(%s cargo test --offline --lib 2>&1; %s cargo test --offline --doc 2>&1) | grep -E 'test result|^error'" % (cenv, cenv), cwd=wt)
        meta["suite_with_patch"] = "pass" if out1.count("test result: ok") >= 2 and "FAILED" not in out1 and "error" not in out1 else "FAIL: " + out1[-300:]
        for cid in checks:
            t0 = time.time()
            rc, out = sh("cd /verif && ./check %s --tier quick 2>/tmp/sw_%d_out/stderr_%s.txt | grep -E '^(VIOLATION|KNOWN-FINDING)' | head -3; echo EXIT=${PIPESTATUS[0]}"
                         % (cid, worker, cid), env=env, timeout=3600)
            alarm = "VIOLATION" in out
            rec = {"check": cid, "alarm": alarm, "line": out.strip()[:400], "wall_s": round(time.time() - t0, 1)}
            if "EXIT=0" not in out and not alarm:
                rec["alarm"] = True
                rec["line"] += " (non-zero exit without a VIOLATION line)"
            if alarm:
                try:
                    rp = out.split("replay=")[1].split()[0]
                    rec["no_failing_input"] = "no-failing-input-found" in out.split("\n")[0]
                    rj = json.load(open(rp))
                    rec["replay_what"] = str(rj.get("what") or rj.get("note"))[:400]
                    if rj.get("broken_obligations"):
                        rec["broken_obligations"] = [str(x)[:300] for x in rj["broken_obligations"][:4]]
                    keep = "/verif/harmless/%s_%d/replay_%s.json" % (pid, k, cid)
                    os.makedirs(os.path.dirname(keep), exist_ok=True)
                    shutil.copy(rp, keep)
                except Exception as e:
                    rec["replay_error"] = str(e)
            meta["ran"].append(rec)
    finally:
        sh(clean, cwd=wt)


def main():
    args = sys.argv[1:]
    workers, only, recheck, allc, kept, wbase = 4, None, False, False, False, 0
    while args and args[0].startswith("--"):
        if args[0] == "--workers":
            workers = int(args[1]); args = args[2:]
        elif args[0] == "--worker-base":
            wbase = int(args[1]); args = args[2:]
        elif args[0] == "--only":
            only = set(args[1].split(",")); args = args[2:]
        elif args[0] == "--recheck":
            recheck = True; args = args[1:]
        elif args[0] == "--all-checks":
            allc = True; args = args[1:]
        elif args[0] == "--kept":
            kept = True; recheck = True; args = args[1:]
    jobs = []
    if kept:
        for d in sorted(glob.glob("/verif/harmless/C*_*")):
            name = os.path.basename(d)
            pid, k = name.split("_")
            if (only and name not in only) or (args and pid not in args):
                continue
            jobs.append((pid, int(k), os.path.join(d, "patch.diff"), None))
    else:
        for pid in (args or ALL):
            for k in (1, 2, 3, 4):
                p = "%s%s/out/patch%d.diff" % (PREFIX, pid, k)
                if os.path.exists(p) and not (only and "%s_%d" % (pid, k) not in only):
                    jobs.append((pid, k, p, "%s%s/out/note%d.md" % (PREFIX, pid, k)))
    jobs.sort(key=lambda j: (j[1], j[0]))
    for w in range(wbase, wbase + workers):
        if not os.path.exists("/tmp/sw_%d" % w):
            sh("git -C /repo worktree add --detach /tmp/sw_%d HEAD -q" % w)
        os.makedirs("/tmp/sw_%d_out" % w, exist_ok=True)
    q = queue.Queue()
    for j in jobs:
        q.put(j)
    lock = threading.Lock()

    def work(w):
        env = {"VERIF_REPO": "/tmp/sw_%d" % w, "VERIF_CARGO_TARGET": "/tmp/sw_%d_target" % w, "VERIF_OUT": "/tmp/sw_%d_out" % w}
        sh("git checkout -- . && git clean -fdq -e Cargo.lock && cp -n /repo/Cargo.lock .", cwd="/tmp/sw_%d" % w)
        rc, out = sh("cd /verif && python3 -c \"import sys; sys.path.insert(0, 'tools'); import vplib; vplib.build_harness(['release', 'dev', 'relchk'])\"", env=env)
        if rc != 0:
            print("worker %d: harness build failed: %s" % (w, out[-500:]), flush=True)
            return
        while True:
            try:
                pid, k, patch, note = q.get_nowait()
            except queue.Empty:
                return
            dst = "/verif/harmless/%s_%d" % (pid, k)
            mpath = os.path.join(dst, "meta.json")
            if os.path.exists(mpath) and not recheck:
                continue
            meta = json.load(open(mpath)) if os.path.exists(mpath) else {"property": pid, "variant": k, "kind": "behaviour-preserving rewrite"}
            meta["ran"] = []
            meta.pop("error", None)
            checks = ALL if allc else list(dict.fromkeys([pid] + EXTRA.get(pid, []) + ALWAYS))
            os.makedirs(dst, exist_ok=True)
            if os.path.abspath(patch) != os.path.abspath(os.path.join(dst, "patch.diff")):
                shutil.copy(patch, os.path.join(dst, "patch.diff"))
            if note and os.path.exists(note):
                shutil.copy(note, os.path.join(dst, "note.md"))
                txt = open(note).read()
                meta["summary"] = txt.split("\n")[0].lstrip("# ").strip()[:240]
            run_one(w, pid, k, os.path.join(dst, "patch.diff"), meta, checks)
            meta["what_ran"] = ("the patch applied to a scratch worktree of /repo; the unedited suite (--lib, --doc); ./check <id> --tier quick "
                                "(VERIF_REPO pointing at the worktree) for the ids under 'ran'")
            json.dump(meta, open(mpath, "w"), indent=1)
            with lock:
                print(pid, k, meta.get("suite_with_patch"), [(r["check"], "ALARM" if r["alarm"] else "quiet", r.get("no_failing_input")) for r in meta["ran"]],
                      meta.get("error", ""), flush=True)
    ts = [threading.Thread(target=work, args=(w,)) for w in range(wbase, wbase + workers)]
    for t in ts:
        t.start()
    for t in ts:
        t.join()


main()
