#!/usr/bin/env python3
"""Development aid: markdown table of the seeded changes under /verif/seeded and which quick checks report them
(from the meta.json files written by seed_all.py / seed_round.py).  usage: seed_table.py [round]"""
import glob, json, os, sys

rnd = int(sys.argv[1]) if len(sys.argv) > 1 else None
rows = []
for d in sorted(glob.glob("/verif/seeded/C*_*"), key=lambda p: (os.path.basename(p).split("_")[0], int(os.path.basename(p).split("_")[1]))):
    m = json.load(open(os.path.join(d, "meta.json")))
    r = m.get("round", 1)
    if rnd is not None and r != rnd:
        continue
    name = os.path.basename(d).replace("_", "/")
    summ = (m.get("needs_summary") or "").replace("|", "/")
    summ = summ.split(":", 1)[1].strip() if summ.lower().startswith("change") and ":" in summ else summ
    own = next((x for x in m.get("ran", []) if x["check"] == m["property"]), None)
    if own is None:
        rep = "(not run)"
    elif not own["detected"]:
        rep = "**missed**"
    else:
        rep = (own.get("replay_what") or "").replace("|", "/")[:110]
        if own.get("no_failing_input"):
            rep = "obligation / correspondence only: " + rep
    others = ", ".join(x["check"] + ("*" if x.get("no_failing_input") else "") for x in m.get("ran", []) if x["check"] != m["property"] and x["detected"]) or "-"
    rows.append("| %s | %s | %s | %s |" % (name, summ[:130], rep, others))
print("| seed | change | reported by its own check as | also reported by (* = without a failing input) |\n|---|---|---|---|")
print("\n".join(rows))
