"""ase.py -- build, serialize, walk and mutate Aseprite (.aseprite / .ase) files.

Test infrastructure for the Rust decoder in /repo (crate ``asefile`` 0.3.8).
The byte layout follows what that decoder reads (src/parse.rs and the chunk
parsers), which is the authority here; where the published format differs
(cel z-index, external-file type byte) the decoder's view is used and the
difference is noted in a comment.

Standard library only.  Python >= 3.10 (keyword-only dataclass fields).

Overview
--------
Builder     : ``Sprite`` / ``Frame`` / ``*Chunk`` dataclasses, ``serialize(sprite)``.
              No numeric field is range checked; every value is masked to the
              width of its field when it is written (signed fields therefore
              take negative numbers as two's complement).
Walker      : ``walk(data)`` -> list of ``Field``; ``chunk_spans``; ``frame_spans``.
              Never raises, stops where the structure stops making sense.
              It follows the decoder: frames are read back to back (the frame
              byte count is *not* used to find the next frame), the chunk
              count is the new count unless that is 0.
Mutators    : ``boundary_values``, ``set_field``, ``single_field_mutations``,
              ``random_multi_field``, ``truncations``, ``bit_flips``,
              ``dup_chunk``, ``del_chunk``, ``swap_chunks``.
"""
from __future__ import annotations

import random
import struct  # noqa: F401  (kept for users: ``ase.struct``)
import zlib
from dataclasses import dataclass, field
from typing import Iterator, List, Optional, Sequence, Tuple, Union

# --------------------------------------------------------------------------
# constants
# --------------------------------------------------------------------------
MAGIC_FILE = 0xA5E0
MAGIC_FRAME = 0xF1FA
HEADER_SIZE = 128
FRAME_HEADER_SIZE = 16
CHUNK_HEADER_SIZE = 6

CT_OLD_PALETTE_04 = 0x0004
CT_OLD_PALETTE_11 = 0x0011
CT_LAYER = 0x2004
CT_CEL = 0x2005
CT_CEL_EXTRA = 0x2006
CT_COLOR_PROFILE = 0x2007
CT_EXTERNAL_FILES = 0x2008
CT_MASK = 0x2016
CT_PATH = 0x2017
CT_TAGS = 0x2018
CT_PALETTE = 0x2019
CT_USER_DATA = 0x2020
CT_SLICE = 0x2022
CT_TILESET = 0x2023

#: chunk types the decoder knows (everything else makes it return an error)
KNOWN_CHUNK_TYPES = (
    CT_OLD_PALETTE_04, CT_OLD_PALETTE_11, CT_LAYER, CT_CEL, CT_CEL_EXTRA,
    CT_COLOR_PROFILE, CT_EXTERNAL_FILES, CT_MASK, CT_PATH, CT_TAGS,
    CT_PALETTE, CT_USER_DATA, CT_SLICE, CT_TILESET,
)
#: chunk types the decoder accepts and skips
IGNORED_CHUNK_TYPES = (CT_CEL_EXTRA, CT_MASK, CT_PATH)

CHUNK_NAMES = {
    CT_OLD_PALETTE_04: "oldpal", CT_OLD_PALETTE_11: "oldpal",
    CT_LAYER: "layer", CT_CEL: "cel", CT_CEL_EXTRA: "celextra",
    CT_COLOR_PROFILE: "profile", CT_EXTERNAL_FILES: "extfiles",
    CT_MASK: "mask", CT_PATH: "path", CT_TAGS: "tags", CT_PALETTE: "palette",
    CT_USER_DATA: "userdata", CT_SLICE: "slice", CT_TILESET: "tileset",
}

FIELD_KINDS = frozenset({
    "size", "count", "index", "offset", "enum", "flags", "dim", "opacity",
    "color", "length", "reserved", "magic", "duration", "id", "zlib_hdr",
    "other",
})

Str = Union[str, bytes]


# --------------------------------------------------------------------------
# low level encoding helpers
# --------------------------------------------------------------------------
def _le(value: int, width: int) -> bytes:
    """``value`` masked to ``width`` bytes, little endian (two's complement)."""
    return (int(value) & ((1 << (8 * width)) - 1)).to_bytes(width, "little")


def u8(v: int) -> bytes:
    return _le(v, 1)


def u16(v: int) -> bytes:
    return _le(v, 2)


def u32(v: int) -> bytes:
    return _le(v, 4)


def _raw(s: Str) -> bytes:
    if isinstance(s, str):
        return s.encode("utf-8", "surrogatepass")
    return bytes(s)


def ase_string(s: Str) -> bytes:
    """STRING = WORD length + bytes.  ``bytes`` input is written verbatim."""
    b = _raw(s)
    return u16(len(b)) + b


def bpp(depth: int) -> int:
    """Bytes per pixel for a color depth (32 -> 4, 16 -> 2, 8 -> 1)."""
    return {32: 4, 16: 2, 8: 1}.get(depth, max(1, int(depth) // 8))


def rgba_bytes(pixels: Sequence[Tuple[int, int, int, int]]) -> bytes:
    return b"".join(bytes((r & 255, g & 255, b & 255, a & 255)) for r, g, b, a in pixels)


def gray_bytes(pixels: Sequence[Tuple[int, int]]) -> bytes:
    return b"".join(bytes((v & 255, a & 255)) for v, a in pixels)


def indexed_bytes(pixels: Sequence[int]) -> bytes:
    return bytes(p & 255 for p in pixels)


def tile_bytes(tiles: Sequence[int]) -> bytes:
    return b"".join(u32(t) for t in tiles)


def deflate(data: bytes, zlevel: Union[int, str] = 6) -> bytes:
    """zlib stream for ``data``.

    ``zlevel`` is a zlib level (0..9, -1) or the string ``"stored"``: the data
    is cut into pieces of at most 5 bytes, each emitted as its own stored
    (uncompressed) deflate block (``compressobj(0)`` + ``Z_FULL_FLUSH``).
    """
    if zlevel == "stored":
        co = zlib.compressobj(0)
        out = []
        for i in range(0, len(data), 5):
            out.append(co.compress(data[i:i + 5]))
            out.append(co.flush(zlib.Z_FULL_FLUSH))
        out.append(co.flush())
        return b"".join(out)
    return zlib.compress(data, int(zlevel))


# --------------------------------------------------------------------------
# chunks
# --------------------------------------------------------------------------
@dataclass
class Chunk:
    """Base class.  ``ctype`` is keyword-only (and preset) in all subclasses
    except ``RawChunk``, where it is the first positional argument."""
    ctype: int = field(default=0, kw_only=True)
    tail: bytes = field(default=b"", kw_only=True)
    size_override: Optional[int] = field(default=None, kw_only=True)

    def payload(self, sprite: Optional["Sprite"] = None) -> bytes:
        return b""

    def encode(self, sprite: Optional["Sprite"] = None) -> bytes:
        body = self.payload(sprite) + bytes(self.tail)
        size = CHUNK_HEADER_SIZE + len(body) if self.size_override is None else self.size_override
        return u32(size) + u16(self.ctype) + body


@dataclass
class RawChunk(Chunk):
    """Arbitrary chunk: ignorable types (0x2006, 0x2016, 0x2017), unknown
    types, or a hand written payload for a known type."""
    ctype: int = field()      # required, positional
    data: bytes = b""

    def payload(self, sprite=None) -> bytes:
        return bytes(self.data)


@dataclass
class LayerChunk(Chunk):
    flags: int = 1            # 1 visible, 2 editable, 4 lock move, 8 background, ...
    ltype: int = 0            # 0 image, 1 group, 2 tilemap
    level: int = 0            # child level
    default_w: int = 0
    default_h: int = 0
    blend: int = 0            # 0..18
    opacity: int = 255
    reserved: bytes = b"\0\0\0"   # BYTE + WORD
    name: Str = ""
    tileset: int = 0          # written iff ltype == 2
    ctype: int = field(default=CT_LAYER, kw_only=True)

    def payload(self, sprite=None) -> bytes:
        out = (u16(self.flags) + u16(self.ltype) + u16(self.level) + u16(self.default_w)
               + u16(self.default_h) + u16(self.blend) + u8(self.opacity)
               + bytes(self.reserved) + ase_string(self.name))
        if self.ltype == 2:
            out += u32(self.tileset)
        return out


DEFAULT_TILE_MASKS = (0x1FFFFFFF, 0x20000000, 0x40000000, 0x80000000)


@dataclass
class CelChunk(Chunk):
    """Cel.  ``ctype_cel``: 0 raw, 1 linked, 2 compressed image, 3 compressed
    tilemap.  Any other value writes ``w, h, pixels`` verbatim like type 0.

    The 7 ``reserved`` bytes are SHORT z-index + 5 reserved in the published
    format; the decoder skips all 7.
    """
    layer: int = 0
    x: int = 0
    y: int = 0
    opacity: int = 255
    ctype_cel: int = 2
    reserved: bytes = b"\0" * 7
    w: int = 0
    h: int = 0
    pixels: bytes = b""
    linked: int = 0
    zlevel: Union[int, str] = 6
    zraw: Optional[bytes] = None
    tm_bits: int = 32
    tm_masks: Tuple[int, int, int, int] = DEFAULT_TILE_MASKS
    tm_reserved: bytes = b"\0" * 10
    tiles: List[int] = field(default_factory=list)
    ctype: int = field(default=CT_CEL, kw_only=True)

    def zdata(self) -> bytes:
        """The zlib stream that is written for type 2 / 3."""
        if self.zraw is not None:
            return bytes(self.zraw)
        raw = tile_bytes(self.tiles) if self.ctype_cel == 3 else bytes(self.pixels)
        return deflate(raw, self.zlevel)

    def payload(self, sprite=None) -> bytes:
        out = (u16(self.layer) + u16(self.x) + u16(self.y) + u8(self.opacity)
               + u16(self.ctype_cel) + bytes(self.reserved))
        t = self.ctype_cel
        if t == 1:
            out += u16(self.linked)
        elif t == 2:
            out += u16(self.w) + u16(self.h) + self.zdata()
        elif t == 3:
            m = tuple(self.tm_masks)
            out += (u16(self.w) + u16(self.h) + u16(self.tm_bits)
                    + u32(m[0]) + u32(m[1]) + u32(m[2]) + u32(m[3])
                    + bytes(self.tm_reserved) + self.zdata())
        else:
            out += u16(self.w) + u16(self.h) + bytes(self.pixels)
        return out


@dataclass
class PaletteChunk(Chunk):
    """New palette (0x2019).  ``entries``: (r, g, b, a, name|None) or (r, g, b, a)."""
    first: int = 0
    entries: List[tuple] = field(default_factory=list)
    total: Optional[int] = None        # default len(entries)
    last: Optional[int] = None         # default first + len(entries) - 1
    reserved: bytes = b"\0" * 8
    entry_flags: Optional[List[int]] = None
    ctype: int = field(default=CT_PALETTE, kw_only=True)

    def payload(self, sprite=None) -> bytes:
        n = len(self.entries)
        total = n if self.total is None else self.total
        last = self.first + n - 1 if self.last is None else self.last
        out = u32(total) + u32(self.first) + u32(last) + bytes(self.reserved)
        for i, e in enumerate(self.entries):
            r, g, b, a = e[0], e[1], e[2], e[3]
            name = e[4] if len(e) > 4 else None
            if self.entry_flags is not None and i < len(self.entry_flags):
                fl = self.entry_flags[i]
            else:
                fl = 1 if name is not None else 0
            out += u16(fl) + u8(r) + u8(g) + u8(b) + u8(a)
            if name is not None:
                out += ase_string(name)
        return out


@dataclass
class OldPaletteChunk(Chunk):
    """Old palette, ``kind`` 0x0004 (8 bit) or 0x0011 (6 bit components).
    ``packets``: [(skip, [(r, g, b), ...]), ...].  The count byte of a packet
    is ``len(colors) & 255`` (so 256 colors -> 0)."""
    kind: int = CT_OLD_PALETTE_04
    packets: List[tuple] = field(default_factory=list)
    count_override: Optional[int] = None
    ctype: int = field(default=CT_OLD_PALETTE_04, init=False)

    def __setattr__(self, key, value):
        # ``kind`` and ``ctype`` are the same thing for this chunk
        object.__setattr__(self, key, value)
        if key == "kind":
            object.__setattr__(self, "ctype", value)
        elif key == "ctype":
            object.__setattr__(self, "kind", value)

    def payload(self, sprite=None) -> bytes:
        n = len(self.packets) if self.count_override is None else self.count_override
        out = u16(n)
        for skip, colors in self.packets:
            out += u8(skip) + u8(len(colors))
            for r, g, b in colors:
                out += u8(r) + u8(g) + u8(b)
        return out


@dataclass
class Tag:
    from_: int = 0
    to: int = 0
    direction: int = 0         # 0 forward, 1 reverse, 2 ping-pong
    repeat: int = 0
    reserved: bytes = b"\0" * 6
    color: Union[int, tuple] = 0   # DWORD (r | g<<8 | b<<16 | extra<<24) or (r, g, b[, extra])
    name: Str = ""

    def encode(self) -> bytes:
        if isinstance(self.color, (tuple, list)):
            c = list(self.color) + [0] * (4 - len(self.color))
            col = bytes(x & 255 for x in c[:4])
        else:
            col = u32(self.color)
        return (u16(self.from_) + u16(self.to) + u8(self.direction) + u16(self.repeat)
                + bytes(self.reserved) + col + ase_string(self.name))


@dataclass
class TagsChunk(Chunk):
    tags: List[Tag] = field(default_factory=list)
    count_override: Optional[int] = None
    reserved: bytes = b"\0" * 8
    ctype: int = field(default=CT_TAGS, kw_only=True)

    def payload(self, sprite=None) -> bytes:
        n = len(self.tags) if self.count_override is None else self.count_override
        return u16(n) + bytes(self.reserved) + b"".join(t.encode() for t in self.tags)


@dataclass
class SliceKey:
    frame: int = 0
    x: int = 0
    y: int = 0
    w: int = 0
    h: int = 0
    center: Optional[Tuple[int, int, int, int]] = None   # (cx, cy, cw, ch)
    pivot: Optional[Tuple[int, int]] = None              # (px, py)

    def encode(self, flags: int) -> bytes:
        out = u32(self.frame) + u32(self.x) + u32(self.y) + u32(self.w) + u32(self.h)
        if flags & 1:
            cx, cy, cw, ch = self.center if self.center is not None else (0, 0, 0, 0)
            out += u32(cx) + u32(cy) + u32(cw) + u32(ch)
        if flags & 2:
            px, py = self.pivot if self.pivot is not None else (0, 0)
            out += u32(px) + u32(py)
        return out


@dataclass
class SliceChunk(Chunk):
    name: Str = ""
    flags: int = 0             # 1 = 9-patch, 2 = pivot
    reserved: int = 0
    keys: List[SliceKey] = field(default_factory=list)
    count_override: Optional[int] = None
    ctype: int = field(default=CT_SLICE, kw_only=True)

    def payload(self, sprite=None) -> bytes:
        n = len(self.keys) if self.count_override is None else self.count_override
        return (u32(n) + u32(self.flags) + u32(self.reserved) + ase_string(self.name)
                + b"".join(k.encode(self.flags) for k in self.keys))


@dataclass
class UserDataChunk(Chunk):
    flags: Optional[int] = None       # default: 1 if text given | 2 if color given
    text: Optional[Str] = None
    color: Optional[Tuple[int, int, int, int]] = None
    ctype: int = field(default=CT_USER_DATA, kw_only=True)

    def effective_flags(self) -> int:
        if self.flags is not None:
            return self.flags
        return (1 if self.text is not None else 0) | (2 if self.color is not None else 0)

    def payload(self, sprite=None) -> bytes:
        fl = self.effective_flags()
        out = u32(fl)
        if fl & 1:
            out += ase_string(self.text if self.text is not None else "")
        if fl & 2:
            r, g, b, a = self.color if self.color is not None else (0, 0, 0, 0)
            out += u8(r) + u8(g) + u8(b) + u8(a)
        return out


@dataclass
class ExternalFilesChunk(Chunk):
    """``entry_reserved`` is BYTE type + 7 reserved in the published format;
    the decoder skips all 8."""
    entries: List[Tuple[int, Str]] = field(default_factory=list)
    count_override: Optional[int] = None
    reserved: bytes = b"\0" * 8
    entry_reserved: bytes = b"\0" * 8
    ctype: int = field(default=CT_EXTERNAL_FILES, kw_only=True)

    def payload(self, sprite=None) -> bytes:
        n = len(self.entries) if self.count_override is None else self.count_override
        out = u32(n) + bytes(self.reserved)
        for fid, name in self.entries:
            out += u32(fid) + bytes(self.entry_reserved) + ase_string(name)
        return out


@dataclass
class TilesetChunk(Chunk):
    id: int = 0
    flags: int = 2 | 4         # 1 external link, 2 tiles embedded, 4 empty tile is id 0
    tile_count: int = 1
    tile_w: int = 1
    tile_h: int = 1
    base_index: int = 1
    reserved: bytes = b"\0" * 14
    name: Str = ""
    ext: Optional[Tuple[int, int]] = None   # (external file id, tileset id), written iff flags & 1
    pixels: bytes = b""                     # tile_w * tile_h * tile_count pixels, written iff flags & 2
    zlevel: Union[int, str] = 6
    zraw: Optional[bytes] = None
    compressed_len_override: Optional[int] = None
    ctype: int = field(default=CT_TILESET, kw_only=True)

    def zdata(self) -> bytes:
        if self.zraw is not None:
            return bytes(self.zraw)
        return deflate(bytes(self.pixels), self.zlevel)

    def payload(self, sprite=None) -> bytes:
        out = (u32(self.id) + u32(self.flags) + u32(self.tile_count) + u16(self.tile_w)
               + u16(self.tile_h) + u16(self.base_index) + bytes(self.reserved)
               + ase_string(self.name))
        if self.flags & 1:
            fid, tid = self.ext if self.ext is not None else (0, 0)
            out += u32(fid) + u32(tid)
        if self.flags & 2:
            z = self.zdata()
            n = len(z) if self.compressed_len_override is None else self.compressed_len_override
            out += u32(n) + z
        return out


@dataclass
class ColorProfileChunk(Chunk):
    ptype: int = 1             # 0 none, 1 sRGB, 2 ICC
    flags: int = 0             # 1 = fixed gamma
    gamma: int = 0             # 16.16 fixed
    reserved: bytes = b"\0" * 8
    icc: bytes = b""           # written (with DWORD length) iff ptype == 2
    ctype: int = field(default=CT_COLOR_PROFILE, kw_only=True)

    def payload(self, sprite=None) -> bytes:
        out = u16(self.ptype) + u16(self.flags) + u32(self.gamma) + bytes(self.reserved)
        if self.ptype == 2:
            out += u32(len(self.icc)) + bytes(self.icc)
        return out


# --------------------------------------------------------------------------
# frame / sprite
# --------------------------------------------------------------------------
@dataclass
class Frame:
    """``count_mode``:
    ``"both"`` old = min(n, 0xFFFF), new = n;
    ``"old"``  old = n, new = 0 (only meaningful for n < 0xFFFF);
    ``"new"``  old = 0xFFFF, new = n (n = 0 makes the decoder use 0xFFFF);
    or an explicit ``(old, new)`` tuple."""
    duration: int = 100
    chunks: List[Chunk] = field(default_factory=list)
    count_mode: Union[str, Tuple[int, int]] = "both"
    reserved: bytes = b"\0\0"
    nbytes_override: Optional[int] = None
    magic: int = MAGIC_FRAME

    def counts(self) -> Tuple[int, int]:
        n = len(self.chunks)
        m = self.count_mode
        if isinstance(m, (tuple, list)) and m[0] == "new":
            # the new field carries the (current) count, the old field holds the given value
            return int(m[1]), n
        if isinstance(m, (tuple, list)):
            return int(m[0]), int(m[1])
        if m == "both":
            return min(n, 0xFFFF), n
        if m == "old":
            return n, 0
        if m == "new":
            return 0xFFFF, n
        raise ValueError("bad count_mode %r" % (m,))

    def encode(self, sprite: Optional["Sprite"] = None) -> bytes:
        body = b"".join(c.encode(sprite) for c in self.chunks)
        old, new = self.counts()
        nbytes = FRAME_HEADER_SIZE + len(body) if self.nbytes_override is None else self.nbytes_override
        return (u32(nbytes) + u16(self.magic) + u16(old) + u16(self.duration)
                + bytes(self.reserved) + u32(new) + body)


@dataclass
class Sprite:
    width: int
    height: int
    depth: int = 32
    frames: List[Frame] = field(default_factory=list)
    flags: int = 1
    speed: int = 100
    transparent: int = 0
    ncolors: int = 0
    pixel_w: int = 1
    pixel_h: int = 1
    grid: Tuple[int, int, int, int] = (0, 0, 16, 16)   # x, y (signed), w, h
    ignore: Tuple[int, int] = (0, 0)                   # BYTE, WORD after the transparent index
    placeholders: Tuple[int, int] = (0, 0)             # the two DWORDs after speed
    reserved: bytes = b"\0" * 84
    nframes_override: Optional[int] = None
    size_override: Optional[int] = None
    magic: int = MAGIC_FILE
    trailer: bytes = b""

    @property
    def bpp(self) -> int:
        return bpp(self.depth)


def serialize(sprite: Sprite) -> bytes:
    """Header + frames + trailer.  The header file size is the length of the
    whole output (trailer included) unless ``size_override`` is set."""
    body = b"".join(f.encode(sprite) for f in sprite.frames)
    tail = bytes(sprite.trailer)
    nframes = len(sprite.frames) if sprite.nframes_override is None else sprite.nframes_override
    hdr_rest = (
        u16(sprite.magic) + u16(nframes) + u16(sprite.width) + u16(sprite.height)
        + u16(sprite.depth) + u32(sprite.flags) + u16(sprite.speed)
        + u32(sprite.placeholders[0]) + u32(sprite.placeholders[1])
        + u8(sprite.transparent) + u8(sprite.ignore[0]) + u16(sprite.ignore[1])
        + u16(sprite.ncolors) + u8(sprite.pixel_w) + u8(sprite.pixel_h)
        + u16(sprite.grid[0]) + u16(sprite.grid[1]) + u16(sprite.grid[2]) + u16(sprite.grid[3])
        + bytes(sprite.reserved)
    )
    size = 4 + len(hdr_rest) + len(body) + len(tail) if sprite.size_override is None else sprite.size_override
    return u32(size) + hdr_rest + body + tail


# --------------------------------------------------------------------------
# walker
# --------------------------------------------------------------------------
@dataclass(frozen=True)
class Field:
    offset: int
    width: int
    kind: str
    name: str
    chunk: Optional[int]      # global chunk index (over the whole file) or None
    ctype: Optional[int]      # chunk type code or None
    signed: bool = False


class _Stop(Exception):
    pass


class _Cur:
    """Bounded cursor that records every integer it reads as a Field."""
    __slots__ = ("data", "pos", "end", "out", "chunk", "ctype", "prefix")

    def __init__(self, data, pos, end, out, chunk, ctype, prefix):
        self.data = data
        self.pos = pos
        self.end = end
        self.out = out
        self.chunk = chunk
        self.ctype = ctype
        self.prefix = prefix

    def int(self, width, kind, name, signed=False):
        p = self.pos
        if p + width > self.end:
            raise _Stop()
        self.out.append(Field(p, width, kind, self.prefix + name, self.chunk, self.ctype, signed))
        self.pos = p + width
        return int.from_bytes(self.data[p:p + width], "little", signed=signed)

    def block(self, n, name):
        """Reserved byte block, recorded as one field of width n."""
        return self.int(n, "reserved", name)

    def skip(self, n):
        if self.pos + n > self.end:
            raise _Stop()
        self.pos += n

    def string(self, name):
        n = self.int(2, "length", name + "_len")
        self.skip(n)

    def sub(self, prefix):
        c = _Cur(self.data, self.pos, self.end, self.out, self.chunk, self.ctype, self.prefix + prefix)
        return c


def _w_layer(c):
    c.int(2, "flags", "flags")
    t = c.int(2, "enum", "type")
    c.int(2, "other", "level")
    c.int(2, "dim", "default_w")
    c.int(2, "dim", "default_h")
    c.int(2, "enum", "blend")
    c.int(1, "opacity", "opacity")
    c.int(1, "reserved", "reserved1")
    c.int(2, "reserved", "reserved2")
    c.string("name")
    if t == 2:
        c.int(4, "index", "tileset")


def _w_cel(c):
    c.int(2, "index", "layer")
    c.int(2, "offset", "x", True)
    c.int(2, "offset", "y", True)
    c.int(1, "opacity", "opacity")
    t = c.int(2, "enum", "type")
    c.block(7, "reserved")
    if t == 0:
        c.int(2, "dim", "w")
        c.int(2, "dim", "h")
    elif t == 1:
        c.int(2, "index", "linked")
    elif t == 2:
        c.int(2, "dim", "w")
        c.int(2, "dim", "h")
        c.int(2, "zlib_hdr", "zlib_hdr")
    elif t == 3:
        c.int(2, "dim", "w")
        c.int(2, "dim", "h")
        c.int(2, "other", "tm_bits")
        c.int(4, "other", "tm_mask_id")
        c.int(4, "other", "tm_mask_xflip")
        c.int(4, "other", "tm_mask_yflip")
        c.int(4, "other", "tm_mask_rot")
        c.block(10, "tm_reserved")
        c.int(2, "zlib_hdr", "zlib_hdr")


def _w_profile(c):
    t = c.int(2, "enum", "type")
    c.int(2, "flags", "flags")
    c.int(4, "other", "gamma")
    c.block(8, "reserved")
    if t == 2:
        c.int(4, "length", "icc_len")


def _w_extfiles(c):
    n = c.int(4, "count", "count")
    c.block(8, "reserved")
    for i in range(n):
        e = c.sub("entry%d." % i)
        e.int(4, "id", "id")
        e.block(8, "reserved")
        e.string("name")
        c.pos = e.pos


def _w_tags(c):
    n = c.int(2, "count", "count")
    c.block(8, "reserved")
    for i in range(n):
        e = c.sub("tag%d." % i)
        e.int(2, "index", "from")
        e.int(2, "index", "to")
        e.int(1, "enum", "direction")
        e.int(2, "count", "repeat")
        e.block(6, "reserved")
        e.int(4, "color", "color")
        e.string("name")
        c.pos = e.pos


def _w_palette(c):
    c.int(4, "count", "total")
    first = c.int(4, "index", "first")
    last = c.int(4, "index", "last")
    c.block(8, "reserved")
    if last < first:
        return
    for i in range(last - first + 1):
        e = c.sub("entry%d." % i)
        fl = e.int(2, "flags", "flags")
        e.int(4, "color", "rgba")
        if fl & 1:
            e.string("name")
        c.pos = e.pos


def _w_oldpal(c):
    n = c.int(2, "count", "packets")
    for i in range(n):
        e = c.sub("pkt%d." % i)
        e.int(1, "offset", "skip")
        k = e.int(1, "count", "count")
        if k == 0:
            k = 256
        for j in range(k):
            e.int(3, "color", "color%d" % j)
        c.pos = e.pos


def _w_userdata(c):
    fl = c.int(4, "flags", "flags")
    if fl & 1:
        c.string("text")
    if fl & 2:
        c.int(4, "color", "color")


def _w_slice(c):
    n = c.int(4, "count", "nkeys")
    fl = c.int(4, "flags", "flags")
    c.int(4, "reserved", "reserved")
    c.string("name")
    for i in range(n):
        e = c.sub("key%d." % i)
        e.int(4, "index", "frame")
        e.int(4, "offset", "x", True)
        e.int(4, "offset", "y", True)
        e.int(4, "dim", "w")
        e.int(4, "dim", "h")
        if fl & 1:
            e.int(4, "offset", "cx", True)
            e.int(4, "offset", "cy", True)
            e.int(4, "dim", "cw")
            e.int(4, "dim", "ch")
        if fl & 2:
            e.int(4, "offset", "px", True)
            e.int(4, "offset", "py", True)
        c.pos = e.pos


def _w_tileset(c):
    c.int(4, "id", "id")
    fl = c.int(4, "flags", "flags")
    c.int(4, "count", "ntiles")
    c.int(2, "dim", "tile_w")
    c.int(2, "dim", "tile_h")
    c.int(2, "other", "base_index", True)
    c.block(14, "reserved")
    c.string("name")
    if fl & 1:
        c.int(4, "id", "ext_file_id")
        c.int(4, "id", "ext_tileset_id")
    if fl & 2:
        c.int(4, "length", "zlen")
        c.int(2, "zlib_hdr", "zlib_hdr")


_PAYLOAD_WALKERS = {
    CT_OLD_PALETTE_04: _w_oldpal, CT_OLD_PALETTE_11: _w_oldpal,
    CT_LAYER: _w_layer, CT_CEL: _w_cel, CT_COLOR_PROFILE: _w_profile,
    CT_EXTERNAL_FILES: _w_extfiles, CT_TAGS: _w_tags, CT_PALETTE: _w_palette,
    CT_USER_DATA: _w_userdata, CT_SLICE: _w_slice, CT_TILESET: _w_tileset,
}


def _scan_into(data, fields, chunks, frames):
    n = len(data)
    c = _Cur(data, 0, n, fields, None, None, "hdr.")
    c.int(4, "size", "file_size")
    magic = c.int(2, "magic", "magic")
    nframes = c.int(2, "count", "frames")
    c.int(2, "dim", "width")
    c.int(2, "dim", "height")
    c.int(2, "enum", "depth")
    c.int(4, "flags", "flags")
    c.int(2, "duration", "speed")
    c.int(4, "reserved", "placeholder1")
    c.int(4, "reserved", "placeholder2")
    c.int(1, "index", "transparent")
    c.int(1, "reserved", "ignore1")
    c.int(2, "reserved", "ignore2")
    c.int(2, "count", "ncolors")
    c.int(1, "other", "pixel_w")
    c.int(1, "other", "pixel_h")
    c.int(2, "offset", "grid_x", True)
    c.int(2, "offset", "grid_y", True)
    c.int(2, "dim", "grid_w")
    c.int(2, "dim", "grid_h")
    c.block(84, "reserved")
    if magic != MAGIC_FILE:
        raise _Stop()
    pos = c.pos
    gidx = 0
    for fi in range(nframes):
        fstart = pos
        fc = _Cur(data, pos, n, fields, None, None, "frame%d." % fi)
        fc.int(4, "size", "nbytes")
        fmagic = fc.int(2, "magic", "magic")
        old = fc.int(2, "count", "nchunks_old")
        fc.int(2, "duration", "duration")
        fc.int(2, "reserved", "reserved")
        new = fc.int(4, "count", "nchunks_new")
        if fmagic != MAGIC_FRAME:
            raise _Stop()
        pos = fc.pos
        span = [fstart, pos]
        frames.append(span)
        nchunks = new if new != 0 else old
        for _k in range(nchunks):
            hc = _Cur(data, pos, n, fields, gidx, None, "chunk%d." % gidx)
            # peek the type so that both header fields carry it
            if pos + CHUNK_HEADER_SIZE <= n:
                hc.ctype = int.from_bytes(data[pos + 4:pos + 6], "little")
            size = hc.int(4, "size", "size")
            ctype = hc.int(2, "enum", "type")
            if size < CHUNK_HEADER_SIZE:
                raise _Stop()
            end = pos + size
            walker = _PAYLOAD_WALKERS.get(ctype)
            if walker is not None:
                pc = _Cur(data, hc.pos, min(end, n), fields, gidx, ctype,
                          "chunk%d.%s." % (gidx, CHUNK_NAMES[ctype]))
                try:
                    walker(pc)
                except _Stop:
                    pass
            if end > n:
                raise _Stop()
            chunks.append((fi, gidx, pos, end, ctype))
            gidx += 1
            pos = end
            span[1] = end


def _scan(data, strict=False):
    data = bytes(data)
    fields: List[Field] = []
    chunks: List[Tuple[int, int, int, int, int]] = []
    frames: List[List[int]] = []
    try:
        _scan_into(data, fields, chunks, frames)
    except _Stop:
        pass
    except Exception:  # pragma: no cover - must never escape on arbitrary input
        if strict:
            raise
    return fields, chunks, [(a, b) for a, b in frames]


def walk(data: bytes) -> List[Field]:
    """Every integer field the decoder would look at, in file order."""
    return _scan(data)[0]


def chunk_spans(data: bytes) -> List[Tuple[int, int, int, int, int]]:
    """(frame_idx, chunk_idx, start, end, ctype) for every chunk that lies
    completely inside ``data``.  ``chunk_idx`` is the global index used in
    ``Field.chunk`` and in field names; start is the offset of the chunk
    header and end = start + size."""
    return _scan(data)[1]


def frame_spans(data: bytes) -> List[Tuple[int, int]]:
    """(start, end) of every frame with a valid magic; end is the end of the
    last chunk that was walked (= start + frame byte count for well formed
    files)."""
    return _scan(data)[2]


def get_field(data: bytes, f: Field) -> int:
    return int.from_bytes(data[f.offset:f.offset + f.width], "little", signed=f.signed)


def field_by_name(data: bytes, name: str) -> Optional[Field]:
    for f in walk(data):
        if f.name == name:
            return f
    return None


# --------------------------------------------------------------------------
# mutators
# --------------------------------------------------------------------------
def boundary_values(width: int, value: int, signed: bool = False, extended: bool = False) -> List[int]:
    """Sorted unique boundary values for a ``width``-byte field holding
    ``value``: {0, 1, 2, value-1, value+1, 0x7f.., 0x80.., max-1, max}, all
    reduced mod 2**(8*width), without the current value.  For ``signed`` the
    values are returned in two's complement signed form (so max is -1).
    ``extended`` adds the 8 and 16 bit boundaries (0x7f 0x80 0xff 0x100 0x7fff
    0x8000 0xffff 0x10000) for wider fields, aimed at ``as u8``/``as u16``
    truncation."""
    bits = 8 * width
    mod = 1 << bits
    cur = int(value) % mod
    cand = {0, 1, 2, cur - 1, cur + 1, (mod >> 1) - 1, mod >> 1, mod - 2, mod - 1}
    if extended:
        cand |= {0x7F, 0x80, 0xFF, 0x100, 0x7FFF, 0x8000, 0xFFFF, 0x10000}
    vals = {v % mod for v in cand}
    vals.discard(cur)
    if signed:
        vals = {v - mod if v >= (mod >> 1) else v for v in vals}
    return sorted(vals)


def set_field(data: bytes, f: Field, value: int) -> bytes:
    """``data`` with field ``f`` replaced by ``value`` (masked to its width)."""
    if f.offset < 0 or f.offset + f.width > len(data):
        raise ValueError("field %s outside of data" % (f.name,))
    return bytes(data[:f.offset]) + _le(value, f.width) + bytes(data[f.offset + f.width:])


_SKIP_KINDS = ("reserved", "color")


def mutable_fields(data: bytes) -> List[Field]:
    """Walked fields without the kinds ``reserved`` and ``color``."""
    return [f for f in walk(data) if f.kind not in _SKIP_KINDS]


def single_field_mutations(data: bytes, extended: bool = False) -> Iterator[Tuple[str, bytes]]:
    """Every walked field (except kinds reserved / color) x boundary_values."""
    data = bytes(data)
    for f in mutable_fields(data):
        cur = get_field(data, f)
        for v in boundary_values(f.width, cur, f.signed, extended):
            yield ("%s@%d:%d->%d" % (f.name, f.offset, cur, v), set_field(data, f, v))


def random_multi_field(data: bytes, rng: random.Random, k: int) -> Tuple[str, bytes]:
    """Change ``k`` distinct random fields at once (3 out of 4 times to a
    boundary value, otherwise to a uniformly random value).  All offsets are
    those of the *original* structure."""
    data = bytes(data)
    fs = mutable_fields(data)
    if not fs:
        return ("multi:noop", data)
    picks = rng.sample(fs, min(k, len(fs)))
    picks.sort(key=lambda f: f.offset)
    out = bytearray(data)
    descs = []
    for f in picks:
        cur = get_field(data, f)
        bv = boundary_values(f.width, cur, f.signed)
        if bv and rng.random() < 0.75:
            v = rng.choice(bv)
        else:
            v = rng.randrange(1 << (8 * f.width))
        out[f.offset:f.offset + f.width] = _le(v, f.width)
        descs.append("%s@%d:%d->%d" % (f.name, f.offset, cur, v))
    return ("multi[" + ", ".join(descs) + "]", bytes(out))


def truncation_points(data: bytes) -> List[int]:
    """Structurally interesting prefix lengths (< len(data)): start, middle
    and end of every walked field, start / end-1 / end of every chunk, frame
    ends, 0 and len-1."""
    data = bytes(data)
    fields, chunks, frames = _scan(data)
    pts = {0, len(data) - 1}
    for f in fields:
        pts.add(f.offset)
        pts.add(f.offset + 1)
        pts.add(f.offset + f.width)
    for _fi, _ci, s, e, _t in chunks:
        pts.update((s, e - 1, e))
    for s, e in frames:
        pts.update((s, e - 1, e))
    return sorted(p for p in pts if 0 <= p < len(data))


def truncations(data: bytes, every: bool = False) -> Iterator[Tuple[str, bytes]]:
    """Prefixes of ``data``: at ``truncation_points`` or, with ``every``, all
    proper prefixes."""
    data = bytes(data)
    pts = range(len(data)) if every else truncation_points(data)
    for p in pts:
        yield ("trunc@%d/%d" % (p, len(data)), data[:p])


def bit_flips(data: bytes, rng: random.Random, n: int, per: int = 1) -> Iterator[Tuple[str, bytes]]:
    """``n`` mutants, each with ``per`` random bits flipped."""
    data = bytes(data)
    if not data:
        return
    for _ in range(n):
        out = bytearray(data)
        descs = []
        for _j in range(per):
            off = rng.randrange(len(data))
            bit = rng.randrange(8)
            out[off] ^= 1 << bit
            descs.append("%d.%d" % (off, bit))
        yield ("bitflip@" + ",".join(descs), bytes(out))


# ---- chunk level edits ------------------------------------------------------
def _explode(data: bytes):
    """(header bytes, [[frame header bytes, [chunk bytes, ...]], ...], rest)
    or None when no frame can be walked."""
    data = bytes(data)
    _f, chunks, frames = _scan(data)
    if not frames:
        return None
    out = []
    for fi, (s, _e) in enumerate(frames):
        out.append([data[s:s + FRAME_HEADER_SIZE],
                    [data[a:b] for (f, _g, a, b, _t) in chunks if f == fi]])
    return data[:frames[0][0]], out, data[frames[-1][1]:]


def _fix_counts(old: int, new: int, delta: int) -> Tuple[int, int]:
    eff = new if new != 0 else old
    n = eff + delta
    if n <= 0:
        return 0, 0
    if new == 0:                       # old style header
        return (n, 0) if n < 0xFFFF else (0xFFFF, n)
    if old == 0xFFFF:                  # "new" style (or saturated "both")
        return 0xFFFF, n
    if old == eff:                     # "both"
        return min(n, 0xFFFF), n
    return old, n                      # explicit odd pair: keep old


def _implode(orig, frames) -> bytes:
    """Rebuild a file from ``_explode`` output ``orig`` with the edited chunk
    lists ``frames`` (same number of frames).  Frame byte counts, chunk counts
    and the header file size are adjusted by the *difference* to the original,
    so consistent inputs stay consistent."""
    header, oframes, rest = orig
    parts = []
    total_delta = 0
    for (fh, ochunks), chunks in zip(oframes, frames):
        dbytes = sum(map(len, chunks)) - sum(map(len, ochunks))
        dn = len(chunks) - len(ochunks)
        nbytes = int.from_bytes(fh[0:4], "little")
        old = int.from_bytes(fh[6:8], "little")
        new = int.from_bytes(fh[12:16], "little")
        if dn != 0:
            old, new = _fix_counts(old, new, dn)
        fh2 = u32(nbytes + dbytes) + fh[4:6] + u16(old) + fh[8:12] + u32(new)
        parts.append(fh2 + b"".join(chunks))
        total_delta += dbytes
    size = int.from_bytes(header[0:4], "little")
    return u32(size + total_delta) + header[4:] + b"".join(parts) + rest


def _all_chunks(frames):
    return [(fi, ci) for fi, (_h, cs) in enumerate(frames) for ci in range(len(cs))]


def _ctype_of(chunk: bytes) -> int:
    return int.from_bytes(chunk[4:6], "little")


def dup_chunk(data: bytes, rng: random.Random, adjacent: bool = True) -> Tuple[str, bytes]:
    """Duplicate a random chunk.  The copy goes right behind the original or,
    with ``adjacent=False``, to a random chunk boundary of a random frame."""
    ex = _explode(data)
    if ex is None:
        return ("dup_chunk:noop", bytes(data))
    frames = [list(cs) for _h, cs in ex[1]]
    allc = _all_chunks(ex[1])
    if not allc:
        return ("dup_chunk:noop", bytes(data))
    fi, ci = rng.choice(allc)
    chunk = frames[fi][ci]
    if adjacent:
        fj, pos = fi, ci + 1
    else:
        fj = rng.randrange(len(frames))
        pos = rng.randint(0, len(frames[fj]))
    frames[fj].insert(pos, chunk)
    desc = "dup_chunk f%dc%d(0x%04x)->f%d@%d" % (fi, ci, _ctype_of(chunk), fj, pos)
    return (desc, _implode(ex, frames))


def del_chunk(data: bytes, rng: random.Random) -> Tuple[str, bytes]:
    """Delete a random chunk."""
    ex = _explode(data)
    if ex is None:
        return ("del_chunk:noop", bytes(data))
    frames = [list(cs) for _h, cs in ex[1]]
    allc = _all_chunks(ex[1])
    if not allc:
        return ("del_chunk:noop", bytes(data))
    fi, ci = rng.choice(allc)
    chunk = frames[fi].pop(ci)
    return ("del_chunk f%dc%d(0x%04x)" % (fi, ci, _ctype_of(chunk)), _implode(ex, frames))


def swap_chunks(data: bytes, rng: random.Random, same_frame: bool = False) -> Tuple[str, bytes]:
    """Swap two distinct random chunks (anywhere in the file, or within one
    frame with ``same_frame``)."""
    ex = _explode(data)
    if ex is None:
        return ("swap_chunks:noop", bytes(data))
    frames = [list(cs) for _h, cs in ex[1]]
    allc = _all_chunks(ex[1])
    if same_frame:
        cands = [fi for fi, cs in enumerate(frames) if len(cs) >= 2]
        if not cands:
            return ("swap_chunks:noop", bytes(data))
        fi = rng.choice(cands)
        a, b = rng.sample(range(len(frames[fi])), 2)
        p, q = (fi, a), (fi, b)
    else:
        if len(allc) < 2:
            return ("swap_chunks:noop", bytes(data))
        p, q = rng.sample(allc, 2)
    ca, cb = frames[p[0]][p[1]], frames[q[0]][q[1]]
    frames[p[0]][p[1]], frames[q[0]][q[1]] = cb, ca
    desc = "swap_chunks f%dc%d(0x%04x)<->f%dc%d(0x%04x)" % (
        p[0], p[1], _ctype_of(ca), q[0], q[1], _ctype_of(cb))
    return (desc, _implode(ex, frames))


__all__ = [
    "Chunk", "RawChunk", "LayerChunk", "CelChunk", "PaletteChunk", "OldPaletteChunk",
    "Tag", "TagsChunk", "SliceKey", "SliceChunk", "UserDataChunk", "ExternalFilesChunk",
    "TilesetChunk", "ColorProfileChunk", "Frame", "Sprite", "serialize", "bpp",
    "rgba_bytes", "gray_bytes", "indexed_bytes", "tile_bytes", "deflate", "ase_string",
    "Field", "walk", "chunk_spans", "frame_spans", "get_field", "field_by_name",
    "boundary_values", "set_field", "mutable_fields", "single_field_mutations",
    "random_multi_field", "truncation_points", "truncations", "bit_flips",
    "dup_chunk", "del_chunk", "swap_chunks",
    "KNOWN_CHUNK_TYPES", "IGNORED_CHUNK_TYPES", "CHUNK_NAMES", "FIELD_KINDS",
]
