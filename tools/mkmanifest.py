#!/usr/bin/env python3
"""Regenerates /verif/MANIFEST.json from the table below (kept valid at all times)."""
import json, os, sys
sys.path.insert(0, os.path.dirname(os.path.abspath(__file__)))

PROPS = ["C%02d" % i for i in range(1, 20)]

# property -> (technique, level text, level note, design ref)
CLAIMED = {}

def claim(pid, technique, text, note, ref):
    CLAIMED[pid] = (technique, text, note, ref)

exec(open(os.path.join(os.path.dirname(os.path.abspath(__file__)), "claims.py")).read())

BASE_NOTE = ("Trusted: Coq 8.16.1 kernel (vm_compute for finite sweeps, no native_compute); no axioms declared (Print Assumptions per theorem, "
             "primitive float/int63 operations only where named); the hand-written Gallina model is tied to /repo by this check's correspondence "
             "run (model extracted to OCaml with ExtrOcamlBasic/ExtrOCamlFloats/ExtrOCamlInt63 vs the implementation built from the working tree); "
             "zlib inflate uninterpreted in theorems, flate2 at run time; harness and Python generators/differ. ")

m = {
    "version": 1,
    "setup_cmd": "cd /verif && ./tools/setup.sh",
    "hooks": {
        "guard": "asefile_verif",
        "enable": "no hooks are needed: every observation goes through the public API (the harness crate in /verif/harness depends on /repo by path); the guard name is reserved",
        "baseline_off_cmd": "cd /repo && cargo test --workspace --no-fail-fast --offline",
        "source_commits": [],
        "add_only": True,
    },
    "engines": [
        {"name": "coq", "path": "/verif/coq", "serves_properties": sorted(CLAIMED), "kind_free_text": "Coq 8.16.1 development: model (Base, Model), specifications (Spec), proofs (Proofs), property theorems (Props)"},
        {"name": "correspondence", "path": "/verif/check", "serves_properties": sorted(CLAIMED), "kind_free_text": "Python orchestrator: generators, extracted-model driver (driver/main.ml), implementation driver (harness/), differ, direct property evaluation"},
    ],
    "checks": [],
    "not_applicable": [],
    "notes": "See DESIGN.md. Every check = Coq obligations (full make + Props/<id>.v recompiled, Print Assumptions allowlist, forbidden-construct grep) + correspondence run (model vs implementation) + direct evaluation of the property on the implementation. Known findings: known_findings.json.",
}
for pid in PROPS:
    if pid in CLAIMED:
        tech, text, note, ref = CLAIMED[pid]
        m["checks"].append({
            "property_id": pid,
            "quick_cmd": "./check %s --tier quick" % pid,
            "thorough_cmd": "./check %s --tier thorough" % pid,
            "evidence_file": "/verif/evidence/%s.json" % pid,
            "replay_cmd_template": "./check %s --replay {path}" % pid,
            "engine": "coq+correspondence",
            "level_claimed": {"category": "proof", "text": text, "design_ref": ref},
            "level_note": BASE_NOTE + note,
            "technique": tech,
        })
    else:
        m["not_applicable"].append({"property_id": pid, "reason": "not claimed yet: the check for this property is still being built (the technique applies; see DESIGN.md section 5)"})
json.dump(m, open("/verif/MANIFEST.json", "w"), indent=1)
print("claimed:", sorted(CLAIMED))
