#!/bin/bash
# Development aid: run every check of one tier in sequence and print one line per check (exit status, wall time,
# VIOLATION / KNOWN-FINDING lines).   usage: tools/run_all.sh quick|thorough [ids...]
tier="${1:-quick}"; shift
ids="$@"; [ -z "$ids" ] && ids="C01 C02 C03 C04 C05 C06 C07 C08 C09 C10 C11 C12 C13 C14 C15 C16 C17 C18 C19"
cd /verif
for id in $ids; do
  t0=$(date +%s)
  out=$(./check "$id" --tier "$tier" 2>/tmp/run_all_$id.err); rc=$?
  t1=$(date +%s)
  echo "$id $tier exit=$rc $((t1 - t0))s $(echo "$out" | grep -E '^(VIOLATION|KNOWN-FINDING)' | head -2 | tr '\n' ' ')"
done
