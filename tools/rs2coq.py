#!/usr/bin/env python3
"""rs2coq.py -- translate /repo/src/blend.rs (a first-order, loop-free subset of Rust) into Gallina.

The output (BlendGen.v) is regenerated from the working tree on every run of the C03 / C17 checks and
then proved equal, for all byte-ranged inputs, to the hand-written model Model/Blend.v by the static
proof file coq/Gen/BlendGenEq.v; so the blend theorems are re-checked against what the code says now.

Semantics (coq/Gen/RustSem.v): every translated function returns `option`; None = a panic in a build
with overflow checks and debug assertions.  Integer `+ - * /` are checked in their Rust type, `as`
casts wrap or saturate as Rust defines, `<<`/`>>` check only the shift amount, f64 is binary64.

Supported: fn items (generic over Fn(..) -> .. parameters), let / let mut / deferred let, tuple and
array patterns, assignment to locals and to elements of a local [T; 3], if / else if / else as
statement (joined over the assigned variables) or as expression, early `return` in an `if` whose other
branch falls through empty, debug_assert!, arithmetic, comparisons, casts, min/max/sqrt/unsigned_abs/
contains, tuples, arrays, Rgba([...]), indexing, `if CONST` folding for `const NAME: bool`.
Anything else raises Unsupported (the check then reports the tie as broken and searches for a failing
input with the pixel correspondence run).

usage: rs2coq.py <repo>/src <out.v>
"""
import re
import sys


class Unsupported(Exception):
    pass


# ----------------------------------------------------------------------------------------------
# lexer
# ----------------------------------------------------------------------------------------------
TOKEN = re.compile(r"""
    (?P<ws>\s+|//[^\n]*|/\*.*?\*/)
  | (?P<float>\d[\d_]*\.\d[\d_]*(?:[eE][+-]?\d+)?(?:_?f64|_?f32)?|\d[\d_]*(?:_?f64|_?f32))
  | (?P<int>0x[0-9a-fA-F_]+(?:[iu](?:8|16|32|64|size))?|\d[\d_]*(?:[iu](?:8|16|32|64|size))?)
  | (?P<str>"(?:[^"\\]|\\.)*")
  | (?P<life>'[A-Za-z_]\w*(?!'))
  | (?P<chr>'(?:[^'\\]|\\.)')
  | (?P<id>[A-Za-z_]\w*)
  | (?P<op>\.\.=|\.\.|->|=>|::|<<=|>>=|<<|>>|<=|>=|==|!=|&&|\|\||\+=|-=|\*=|/=|[-+*/%<>=!&|^.,;:()\[\]{}\#?@])
""", re.S | re.X)


def lex(src):
    out, i = [], 0
    while i < len(src):
        m = TOKEN.match(src, i)
        if not m:
            raise Unsupported("cannot tokenise at %r" % src[i:i + 30])
        i = m.end()
        k = m.lastgroup
        if k == "ws":
            continue
        out.append((k, m.group(k)))
    out.append(("eof", ""))
    return out


# ----------------------------------------------------------------------------------------------
# parser
# ----------------------------------------------------------------------------------------------
class Parser:
    def __init__(self, toks):
        self.t, self.i = toks, 0

    def peek(self, k=0):
        return self.t[self.i + k]

    def at(self, v, k=0):
        return self.t[self.i + k][1] == v and self.t[self.i + k][0] in ("op", "id")

    def eat(self, v=None):
        tok = self.t[self.i]
        if v is not None and tok[1] != v:
            raise Unsupported("expected %r, found %r (token %d)" % (v, tok[1], self.i))
        self.i += 1
        return tok

    def skip_balanced(self, open_, close):
        depth = 0
        while True:
            k, v = self.eat()
            if k == "eof":
                raise Unsupported("unbalanced %s" % open_)
            if k == "op" and v == open_:
                depth += 1
            elif k == "op" and v == close:
                depth -= 1
                if depth == 0:
                    return

    # ---- items ----
    def items(self):
        fns, consts = {}, {}
        while self.peek()[0] != "eof":
            attrs = []
            while self.at("#"):
                start = self.i
                self.eat("#")
                if self.at("!"):
                    self.eat()
                self.skip_balanced("[", "]")
                attrs.append("".join(v for _, v in self.t[start:self.i]))
            test_only = any("test" in a for a in attrs)
            if self.at("pub"):
                self.eat()
                if self.at("("):
                    self.skip_balanced("(", ")")
            if self.at("use") or self.at("type"):
                while not self.at(";"):
                    self.eat()
                self.eat(";")
            elif self.at("const"):
                self.eat()
                name = self.eat()[1]
                self.eat(":")
                ty = self.type_()
                self.eat("=")
                e = self.expr()
                self.eat(";")
                consts[name] = (ty, e)
            elif self.at("fn"):
                # a function the subset cannot express is only a problem if the blend functions reach it (translate.visit)
                start = self.i
                name = self.t[self.i + 1][1]
                try:
                    f = self.fn(test_only)
                except Unsupported as e:
                    self.i = start
                    while not self.at("{"):
                        if self.peek()[0] == "eof":
                            raise
                        self.eat()
                    self.skip_balanced("{", "}")
                    f = {"name": name, "unsupported": str(e)}
                if f is not None:
                    if f["name"] in fns:
                        raise Unsupported("duplicate fn " + f["name"])
                    fns[f["name"]] = f
            else:
                raise Unsupported("unsupported item starting with %r" % (self.peek()[1],))
        return fns, consts

    def fn(self, skip):
        self.eat("fn")
        name = self.eat()[1]
        generics = []
        if self.at("<"):
            self.eat()
            while not self.at(">"):
                generics.append(self.eat()[1])
                if self.at(","):
                    self.eat()
            self.eat(">")
        self.eat("(")
        params = []
        while not self.at(")"):
            mut = False
            if self.at("mut"):
                self.eat()
                mut = True
            pn = self.eat()[1]
            self.eat(":")
            params.append((pn, self.type_(), mut))
            if self.at(","):
                self.eat()
        self.eat(")")
        ret = "unit"
        if self.at("->"):
            self.eat()
            ret = self.type_()
        bounds = {}
        if self.at("where"):
            self.eat()
            while not self.at("{"):
                g = self.eat()[1]
                self.eat(":")
                self.eat("Fn")
                self.eat("(")
                args = []
                while not self.at(")"):
                    args.append(self.type_())
                    if self.at(","):
                        self.eat()
                self.eat(")")
                self.eat("->")
                bounds[g] = ("fn", args, self.type_())
                if self.at(","):
                    self.eat()
        if skip:
            self.skip_balanced("{", "}")
            return None
        body = self.block()
        for g in generics:
            if g not in bounds:
                raise Unsupported("generic parameter %s of %s without an Fn bound" % (g, name))
        params = [(pn, bounds.get(ty, ty) if isinstance(ty, str) else ty, mut) for pn, ty, mut in params]
        return {"name": name, "params": params, "ret": ret, "body": body}

    def type_(self):
        if self.at("("):
            self.eat()
            ts = []
            while not self.at(")"):
                ts.append(self.type_())
                if self.at(","):
                    self.eat()
            self.eat(")")
            return ("tuple", ts) if ts else "unit"
        if self.at("["):
            self.eat()
            el = self.type_()
            self.eat(";")
            n = int(self.eat()[1])
            self.eat("]")
            return ("array", el, n)
        if self.at("&"):
            self.eat()
            return self.type_()
        name = self.eat()[1]
        if name == "Rgba":
            self.eat("<")
            el = self.type_()
            self.eat(">")
            return ("array", el, 4)
        if name == "Color8":
            return ("array", "u8", 4)
        return name

    # ---- statements ----
    def block(self):
        self.eat("{")
        stmts, tail = [], None
        while not self.at("}"):
            if self.at(";"):
                self.eat()
                continue
            if self.at("let"):
                self.eat()
                pat = self.pattern()
                ty = None
                if self.at(":"):
                    self.eat()
                    ty = self.type_()
                init = None
                if self.at("="):
                    self.eat()
                    init = self.expr()
                self.eat(";")
                stmts.append(("let", pat, ty, init))
            elif self.at("return"):
                self.eat()
                e = None if self.at(";") else self.expr()
                if self.at(";"):
                    self.eat()
                stmts.append(("return", e))
            else:
                # an expression statement that starts with `if` or `{` ends at its closing brace
                e = self.primary() if (self.at("if") or self.at("{")) else self.expr()
                if self.at("="):
                    self.eat()
                    rhs = self.expr()
                    self.eat(";")
                    stmts.append(("assign", e, rhs))
                elif self.at(";"):
                    self.eat()
                    stmts.append(("expr", e))
                elif self.at("}"):
                    tail = e
                elif e[0] in ("if", "block"):
                    stmts.append(("expr", e))
                else:
                    raise Unsupported("unexpected token %r after an expression" % (self.peek()[1],))
        self.eat("}")
        # a trailing `if` statement without semicolon is the block's value
        if tail is None and stmts and stmts[-1][0] == "expr" and stmts[-1][1][0] in ("if", "block"):
            tail = stmts.pop()[1]
        return ("block", stmts, tail)

    def pattern(self):
        if self.at("("):
            self.eat()
            ps = []
            while not self.at(")"):
                ps.append(self.pattern())
                if self.at(","):
                    self.eat()
            self.eat(")")
            return ("ptuple", ps)
        if self.at("["):
            self.eat()
            ps = []
            while not self.at("]"):
                ps.append(self.pattern())
                if self.at(","):
                    self.eat()
            self.eat("]")
            return ("ptuple", ps)
        if self.at("mut"):
            self.eat()
        name = self.eat()[1]
        return ("pwild",) if name == "_" else ("pvar", name)

    # ---- expressions (precedence climbing) ----
    BIN = [["||"], ["&&"], ["==", "!=", "<", ">", "<=", ">="], ["|"], ["^"], ["&"], ["<<", ">>"], ["+", "-"], ["*", "/", "%"]]

    def expr(self, no_struct=False):
        e = self.binary(0)
        if self.at("..="):
            self.eat()
            hi = self.binary(0)
            return ("range_incl", e, hi)
        return e

    def binary(self, lvl):
        if lvl == len(self.BIN):
            return self.cast()
        l = self.binary(lvl + 1)
        while self.peek()[0] == "op" and self.peek()[1] in self.BIN[lvl]:
            op = self.eat()[1]
            r = self.binary(lvl + 1)
            l = ("binary", op, l, r)
        return l

    def cast(self):
        e = self.unary()
        while self.at("as"):
            self.eat()
            e = ("cast", e, self.type_())
        return e

    def unary(self):
        if self.at("-") or self.at("!"):
            op = self.eat()[1]
            return ("unary", op, self.unary())
        if self.at("&"):
            self.eat()
            if self.at("mut"):
                self.eat()
            return self.unary()
        return self.postfix()

    def postfix(self):
        e = self.primary()
        while True:
            if self.at("("):
                e = ("call", e, self.args("(", ")"))
            elif self.at("["):
                self.eat()
                idx = self.expr()
                self.eat("]")
                e = ("index", e, idx)
            elif self.at("."):
                self.eat()
                k, v = self.eat()
                if k == "int":
                    e = ("field", e, int(v))
                elif k == "float":           # `x.0.1` lexes as a float
                    a, b = v.split(".")
                    e = ("field", ("field", e, int(a)), int(b))
                elif self.at("("):
                    e = ("mcall", e, v, self.args("(", ")"))
                else:
                    raise Unsupported("field access .%s" % v)
            else:
                return e

    def args(self, o, c):
        self.eat(o)
        out = []
        while not self.at(c):
            out.append(self.expr())
            if self.at(","):
                self.eat()
        self.eat(c)
        return out

    def primary(self):
        k, v = self.peek()
        if k == "int":
            self.eat()
            m = re.match(r"(0x[0-9a-fA-F_]+|\d[\d_]*)([iu](?:8|16|32|64|size))?$", v)
            return ("int", int(m.group(1).replace("_", ""), 0), m.group(2))
        if k == "float":
            self.eat()
            return ("float", re.sub(r"_?f(64|32)$", "", v).replace("_", ""))
        if self.at("("):
            self.eat()
            es = []
            trailing = False
            while not self.at(")"):
                es.append(self.expr())
                trailing = False
                if self.at(","):
                    self.eat()
                    trailing = True
            self.eat(")")
            if len(es) == 1 and not trailing:
                return es[0]
            return ("tuple", es)
        if self.at("["):
            return ("array", self.args("[", "]"))
        if self.at("{"):
            return self.block()
        if self.at("if"):
            self.eat()
            c = self.expr()
            th = self.block()
            el = None
            if self.at("else"):
                self.eat()
                if self.at("if"):
                    inner = self.primary()
                    el = ("block", [], inner)
                else:
                    el = self.block()
            return ("if", c, th, el)
        if k == "id":
            self.eat()
            if v in ("true", "false"):
                return ("bool", v == "true")
            if self.at("!"):
                self.eat()
                return ("macro", v, self.args("(", ")"))
            if self.at("::"):
                raise Unsupported("path expression %s::" % v)
            return ("var", v)
        raise Unsupported("unexpected token %r in an expression" % (v,))


# ----------------------------------------------------------------------------------------------
# translation
# ----------------------------------------------------------------------------------------------
INTS = {"u8": "U8", "i32": "I32", "u32": "U32", "usize": "USIZE"}
RANGE = {"u8": (0, 255), "i32": (-2 ** 31, 2 ** 31 - 1), "u32": (0, 2 ** 32 - 1), "usize": (0, 2 ** 64 - 1)}
RESERVED = {"at", "as", "in", "end", "fun", "let", "match", "return", "then", "else", "if", "forall", "exists", "Type", "Prop",
            "Set", "fix", "with", "using", "where", "cofix", "for", "mod", "struct", "IF", "Some", "None", "pixel", "obind"}


def cq(name):
    return name + "_" if name in RESERVED else name


def coq_type(t):
    if isinstance(t, str):
        if t in INTS:
            return "Z"
        if t == "f64":
            return "float"
        if t == "bool":
            return "bool"
        if t == "unit":
            return "unit"
        raise Unsupported("type " + t)
    if t[0] == "tuple":
        return "(" + " * ".join(coq_type(x) for x in t[1]) + ")%type"
    if t[0] == "array":
        if t == ("array", "u8", 4):
            return "pixel"
        return "(" + " * ".join([coq_type(t[1])] * t[2]) + ")%type"
    if t[0] == "fn":
        return "(" + " -> ".join([coq_type(x) for x in t[1]] + ["option " + coq_type(t[2])]) + ")"
    raise Unsupported("type %r" % (t,))


def proj(term, n, k):
    names = ["p%d_" % i for i in range(n)]
    return "(let '(%s) := %s in %s)" % (", ".join(names), term, names[k])


def unify(a, b):
    """the common type of a and b, where 'int?' (an unsuffixed integer literal) fits any integer type; None if none"""
    if a == b:
        return a
    if a == "int?" and b in INTS:
        return b
    if b == "int?" and a in INTS:
        return a
    if isinstance(a, tuple) and isinstance(b, tuple) and a[0] == b[0] == "tuple" and len(a[1]) == len(b[1]):
        us = [unify(x, y) for x, y in zip(a[1], b[1])]
        return None if any(u is None for u in us) else ("tuple", us)
    if isinstance(a, tuple) and isinstance(b, tuple) and a[0] == b[0] == "array" and a[2] == b[2]:
        u = unify(a[1], b[1])
        return None if u is None else ("array", u, a[2])
    return None


def ity(t):
    return INTS["i32" if t == "int?" else t]


def is_int(t):
    return t == "int?" or t in INTS


class Tr:
    def __init__(self, fns, consts):
        self.fns, self.consts = fns, consts
        self.n = 0
        self.calls = set()

    def fresh(self):
        self.n += 1
        return "t%d_" % self.n

    # ---- expressions: returns (binds, term, type); binds are "pat <-? term ;;" prefixes ----
    def expr(self, e, env, want=None):
        k = e[0]
        if k == "int":
            ty = {"u8": "u8", "i32": "i32", "u32": "u32", "usize": "usize"}.get(e[2]) if e[2] else want
            if ty == "f64":
                raise Unsupported("integer literal where f64 is expected")
            if ty is None or ty not in INTS:
                if not -2 ** 31 <= e[1] < 2 ** 31:
                    raise Unsupported("literal %d needs a type" % e[1])
                return [], str(e[1]), "int?"
            lo, hi = RANGE[ty]
            if not lo <= e[1] <= hi:
                raise Unsupported("literal %d out of range for %s" % (e[1], ty))
            return [], str(e[1]), ty
        if k == "float":
            txt = e[1]
            txt = re.sub(r"\.0+$", "", txt) if re.match(r"^\d+\.0+$", txt) else txt
            return [], "%s%%float" % txt, "f64"
        if k == "bool":
            return [], "true" if e[1] else "false", "bool"
        if k == "var":
            n = e[1]
            if n in env:
                if env[n] is None:
                    raise Unsupported("use of the unassigned variable " + n)
                return [], cq(n), env[n]
            if n in self.consts:
                return self.expr(self.consts[n][1], {}, self.consts[n][0])
            if n in self.fns:
                f = self.fns[n]
                if "unsupported" in f:
                    raise Unsupported("function %s (needed by the blend functions): %s" % (n, f["unsupported"]))
                self.calls.add(n)
                return [], cq(n), ("fn", [p[1] for p in f["params"]], f["ret"])
            raise Unsupported("unknown name " + n)
        if k == "tuple":
            bs, ts, tys = [], [], []
            wants = want[1] if want and want[0] == "tuple" and len(want[1]) == len(e[1]) else [None] * len(e[1])
            for x, w in zip(e[1], wants):
                b, t, ty = self.expr(x, env, w)
                bs += b
                ts.append(t)
                tys.append(ty)
            return bs, "(" + ", ".join(ts) + ")", ("tuple", tys)
        if k == "array":
            bs, ts, tys = [], [], []
            w = want[1] if want and want[0] == "array" else None
            for x in e[1]:
                b, t, ty = self.expr(x, env, w)
                bs += b
                ts.append(t)
                tys.append(ty)
                w = w or ty
            u = tys[0]
            for x in tys[1:]:
                u = unify(u, x) if u is not None else None
            if u is None:
                raise Unsupported("array of mixed types")
            return bs, "(" + ", ".join(ts) + ")", ("array", u, len(ts))
        if k == "cast":
            b, t, ty = self.expr(e[1], env, None if e[1][0] != "int" else (e[2] if e[2] in INTS else "i32"))
            to = e[2]
            if ty == "int?":
                ty = to if to in INTS else "i32"
            if ty in INTS and to in INTS:
                (lo, hi), (lo2, hi2) = RANGE[ty], RANGE[to]
                return b, (t if lo2 <= lo and hi <= hi2 else "(rs_cast %s %s)" % (INTS[to], t)), to
            if ty in INTS and to == "f64":
                return b, "(rs_i2f %s)" % t, "f64"
            if ty == "f64" and to in INTS:
                return b, "(rs_f2i %s %s)" % (INTS[to], t), to
            if ty == to:
                return b, t, to
            raise Unsupported("cast from %s to %s" % (ty, to))
        if k == "unary":
            b, t, ty = self.expr(e[2], env, want)
            if e[1] == "-":
                if ty == "f64":
                    return b, "(PrimFloat.opp %s)" % t, ty
                if is_int(ty):
                    v = self.fresh()
                    return b + ["%s <-? rs_neg %s %s ;;" % (v, ity(ty), t)], v, ty
            if e[1] == "!" and ty == "bool":
                return b, "(negb %s)" % t, ty
            raise Unsupported("unary %s on %s" % (e[1], ty))
        if k == "binary":
            return self.binary(e, env, want)
        if k == "field":
            b, t, ty = self.expr(e[1], env)
            if isinstance(ty, tuple) and ty[0] == "array" and e[2] == 0:
                return b, t, ty                       # Rgba(..).0
            if isinstance(ty, tuple) and ty[0] == "tuple":
                return b, proj(t, len(ty[1]), e[2]), ty[1][e[2]]
            raise Unsupported("field .%s of %r" % (e[2], ty))
        if k == "index":
            b, t, ty = self.expr(e[1], env)
            if not (isinstance(ty, tuple) and ty[0] == "array"):
                raise Unsupported("indexing a %r" % (ty,))
            if e[2][0] == "int" and 0 <= e[2][1] < ty[2]:
                return b, proj(t, ty[2], e[2][1]), ty[1]
            b2, ti, tyi = self.expr(e[2], env, "usize")
            if unify(tyi, "usize") != "usize" or ty[2] not in (3, 4):
                raise Unsupported("run-time index of type %s into %r" % (tyi, ty))
            v = self.fresh()
            return b + b2 + ["%s <-? arr%d_get %s %s ;;" % (v, ty[2], t, ti)], v, ty[1]
        if k == "mcall":
            return self.mcall(e, env, want)
        if k == "call":
            return self.call(e, env, want)
        if k in ("if", "block"):
            ty, term = self.value_block(e, env, want, False)
            v = self.fresh()
            return ["%s <-? %s ;;" % (v, term)], v, ty
        if k == "macro":
            raise Unsupported("macro %s! in expression position" % e[1])
        raise Unsupported("expression kind " + k)

    def binary(self, e, env, want):
        op, l, r = e[1], e[2], e[3]
        arith = op in ("+", "-", "*", "/", "%")
        cmp_ = op in ("==", "!=", "<", ">", "<=", ">=")
        if op in ("&&", "||"):
            b1, t1, ty1 = self.expr(l, env, "bool")
            b2, t2, ty2 = self.expr(r, env, "bool")
            if b2:
                raise Unsupported("a right operand of %s that can panic" % op)
            if ty1 != "bool" or ty2 != "bool":
                raise Unsupported("%s on non-bool" % op)
            return b1, "(%s %s %s)" % (t1, op, t2), "bool"
        if op in ("<<", ">>"):
            b1, t1, ty1 = self.expr(l, env, want)
            b2, t2, ty2 = self.expr(r, env, "u32" if r[0] == "int" else None)
            if not is_int(ty1) or not is_int(ty2):
                raise Unsupported("shift on %s" % ty1)
            ty1 = "i32" if ty1 == "int?" else ty1
            v = self.fresh()
            return b1 + b2 + ["%s <-? %s %s %s %s ;;" % (v, "rs_shl" if op == "<<" else "rs_shr", ity(ty1), t1, t2)], v, ty1
        # operand typing: a literal takes the type of the other side
        w = want if arith else None
        if l[0] == "int" and l[2] is None and r[0] != "int":
            b2, t2, ty2 = self.expr(r, env, w)
            b1, t1, ty1 = self.expr(l, env, ty2)
        else:
            b1, t1, ty1 = self.expr(l, env, w)
            b2, t2, ty2 = self.expr(r, env, ty1)
        u = unify(ty1, ty2)
        if u is None:
            raise Unsupported("operator %s on %s and %s" % (op, ty1, ty2))
        ty1 = ty2 = u
        if arith and u == "int?":
            ty1 = ty2 = unify(u, want) if (want in INTS) else "i32"
        b = b1 + b2
        if arith:
            if ty1 == "f64":
                if op == "%":
                    raise Unsupported("% on f64")
                return b, "(%s %s %s)%%float" % (t1, op, t2), "f64"
            if is_int(ty1):
                fn = {"+": "rs_add", "-": "rs_sub", "*": "rs_mul", "/": "rs_div", "%": "rs_rem"}[op]
                v = self.fresh()
                return b + ["%s <-? %s %s %s %s ;;" % (v, fn, ity(ty1), t1, t2)], v, ty1
            raise Unsupported("arithmetic on %s" % (ty1,))
        if cmp_:
            if ty1 == "f64":
                m = {"<": "(%s <? %s)%%float" % (t1, t2), ">": "(%s <? %s)%%float" % (t2, t1),
                     "<=": "(%s <=? %s)%%float" % (t1, t2), ">=": "(%s <=? %s)%%float" % (t2, t1),
                     "==": "(%s =? %s)%%float" % (t1, t2), "!=": "(negb (%s =? %s)%%float)" % (t1, t2)}[op]
                return b, m, "bool"
            if is_int(ty1):
                m = {"<": "(%s <? %s)", ">": "(%s >? %s)", "<=": "(%s <=? %s)", ">=": "(%s >=? %s)", "==": "(%s =? %s)",
                     "!=": "(negb (%s =? %s))"}[op] % (t1, t2)
                return b, m, "bool"
            if ty1 == "bool" and op in ("==", "!="):
                return b, ("(Bool.eqb %s %s)" if op == "==" else "(negb (Bool.eqb %s %s))") % (t1, t2), "bool"
            raise Unsupported("comparison on %r" % (ty1,))
        raise Unsupported("operator " + op)

    def mcall(self, e, env, want):
        recv, name, args = e[1], e[2], e[3]
        if recv[0] == "range_incl" and name == "contains" and len(args) == 1:
            b3, t3, ty3 = self.expr(args[0], env)
            b1, t1, _ = self.expr(recv[1], env, ty3)
            b2, t2, _ = self.expr(recv[2], env, ty3)
            if not is_int(ty3):
                raise Unsupported("contains on %s" % ty3)
            return b3 + b1 + b2, "((%s <=? %s) && (%s <=? %s))" % (t1, t3, t3, t2), "bool"
        b, t, ty = self.expr(recv, env, want if name in ("min", "max") else None)
        if name in ("min", "max") and len(args) == 1:
            b2, t2, ty2 = self.expr(args[0], env, ty)
            if unify(ty, ty2) is None:
                raise Unsupported("%s on %s and %s" % (name, ty, ty2))
            ty = unify(ty, ty2)
            if ty == "f64":
                return b + b2, "(rs_f%s %s %s)" % (name, t, t2), ty
            if is_int(ty):
                return b + b2, "(Z.%s %s %s)" % (name, t, t2), ty
        if name == "sqrt" and ty == "f64" and not args:
            return b, "(PrimFloat.sqrt %s)" % t, ty
        if name == "abs" and ty == "f64" and not args:
            return b, "(PrimFloat.abs %s)" % t, ty
        if name == "unsigned_abs" and ty == "i32" and not args:
            return b, "(rs_unsigned_abs %s)" % t, "u32"
        raise Unsupported("method .%s on %r" % (name, ty))

    def call(self, e, env, want):
        f, args = e[1], e[2]
        if f[0] != "var":
            raise Unsupported("call of a computed function")
        name = f[1]
        if name == "Rgba" and len(args) == 1:
            b, t, ty = self.expr(args[0], env, ("array", "u8", 4))
            if unify(ty, ("array", "u8", 4)) is None:
                raise Unsupported("Rgba of %r" % (ty,))
            return b, t, ("array", "u8", 4)
        if name in env:
            fty = env[name]
        elif name in self.fns:
            fn = self.fns[name]
            if "unsupported" in fn:
                raise Unsupported("function %s (needed by the blend functions): %s" % (name, fn["unsupported"]))
            fty = ("fn", [p[1] for p in fn["params"]], fn["ret"])
            self.calls.add(name)
        else:
            raise Unsupported("call of unknown function " + name)
        if not (isinstance(fty, tuple) and fty[0] == "fn") or len(fty[1]) != len(args):
            raise Unsupported("bad call of " + name)
        bs, ts = [], []
        for a, pt in zip(args, fty[1]):
            b, t, ty = self.expr(a, env, pt)
            if unify(ty, pt) != pt:
                raise Unsupported("argument of %s: expected %r, found %r" % (name, pt, ty))
            bs += b
            ts.append(t)
        v = self.fresh()
        return bs + ["%s <-? %s %s ;;" % (v, cq(name), " ".join(ts))], v, fty[2]

    # ---- blocks ----
    def fold_const_if(self, e):
        """`if CONST {a} else {b}` with `const CONST: bool = true|false`"""
        while e[0] == "if" and e[1][0] == "var" and e[1][1] in self.consts and self.consts[e[1][1]][1][0] == "bool":
            e = e[2] if self.consts[e[1][1]][1][1] else (e[3] or ("block", [], None))
        return e

    def value_block(self, e, env, want, fnlevel):
        """an if / block expression as a term of type option T; returns (T, term)"""
        e = self.fold_const_if(e)
        if e[0] == "if":
            if e[3] is None:
                raise Unsupported("if expression without else used as a value")
            bc, tc, tyc = self.expr(e[1], env, "bool")
            if tyc != "bool":
                raise Unsupported("condition of type %r" % (tyc,))
            ty1, a = self.value_block(e[2], env, want, fnlevel)
            ty2, b = self.value_block(e[3], env, want or ty1, fnlevel)
            if unify(ty1, ty2) is None:
                raise Unsupported("branches of types %r and %r" % (ty1, ty2))
            ty1 = unify(ty1, ty2)
            return ty1, "(" + " ".join(bc) + " if %s then %s else %s)" % (tc, a, b)
        if e[0] != "block":
            b, t, ty = self.expr(e, env, want)
            return ty, "(" + " ".join(b) + " Some %s)" % t
        out = {}

        def fin(env2):
            if e[2] is None:
                raise Unsupported("block without a value used as a value")
            tail = self.fold_const_if(e[2])
            if tail[0] in ("if", "block"):
                ty, term = self.value_block(tail, env2, want, fnlevel)
                out["ty"] = ty
                return term
            b, t, ty = self.expr(tail, env2, want)
            out["ty"] = ty
            return " ".join(b) + " Some %s" % t
        term = self.seq(e[1], 0, dict(env), fin, want if fnlevel else None, out)
        return out["ty"], "(" + term + ")"

    def seq(self, stmts, i, env, fin, fnret, out):
        if i == len(stmts):
            return fin(env)
        s = stmts[i]

        def rest(env2):
            return self.seq(stmts, i + 1, env2, fin, fnret, out)
        if s[0] == "let":
            _, pat, ty, init = s
            if init is None:
                if pat[0] != "pvar":
                    raise Unsupported("deferred let with a pattern")
                env2 = dict(env)
                env2[pat[1]] = None
                return rest(env2)
            init = self.fold_const_if(init)
            if init[0] in ("if", "block"):
                tyv, term = self.value_block(init, env, ty, False)
                env2 = dict(env)
                p = self.bind_pattern(pat, tyv, env2)
                return "%s <-? %s ;; %s" % (p, term, rest(env2))
            b, t, tyv = self.expr(init, env, ty)
            if ty is not None:
                if unify(ty, tyv) != ty:
                    raise Unsupported("let of declared type %r initialised with %r" % (ty, tyv))
                tyv = ty
            env2 = dict(env)
            p = self.bind_pattern(pat, tyv, env2)
            return " ".join(b) + " let %s := %s in %s" % (p, t, rest(env2))
        if s[0] == "assign":
            lhs, rhs = s[1], s[2]
            if lhs[0] == "var":
                n = lhs[1]
                if n not in env:
                    raise Unsupported("assignment to unknown variable " + n)
                b, t, ty = self.expr(rhs, env, env[n])
                if env[n] is not None and unify(env[n], ty) is None:
                    raise Unsupported("assignment of %r to %s : %r" % (ty, n, env[n]))
                env2 = dict(env)
                env2[n] = ty if env[n] is None else unify(env[n], ty)
                return " ".join(b) + " let %s := %s in %s" % (cq(n), t, rest(env2))
            if lhs[0] == "index" and lhs[1][0] == "var":
                n = lhs[1][1]
                aty = env.get(n)
                if not (isinstance(aty, tuple) and aty[0] == "array" and aty[2] == 3):
                    raise Unsupported("element assignment into %r" % (aty,))
                bi, ti, tyi = self.expr(lhs[2], env, "usize")
                if unify(tyi, "usize") != "usize":
                    raise Unsupported("index of type %s" % tyi)
                b, t, ty = self.expr(rhs, env, aty[1])
                if unify(ty, aty[1]) != aty[1]:
                    raise Unsupported("element of type %r assigned %r" % (aty[1], ty))
                return " ".join(bi + b) + " %s <-? arr3_set %s %s %s ;; %s" % (cq(n), cq(n), ti, t, rest(env))
            raise Unsupported("assignment target")
        if s[0] == "return":
            if fnret is None:
                raise Unsupported("return inside a nested value block")
            if s[1] is None:
                raise Unsupported("return without a value")
            b, t, ty = self.expr(s[1], env, fnret)
            if unify(ty, fnret) != fnret:
                raise Unsupported("return of %r in a function returning %r" % (ty, fnret))
            return " ".join(b) + " Some %s" % t
        if s[0] == "expr":
            e = self.fold_const_if(s[1])
            if e[0] == "macro":
                if e[1] == "debug_assert" and len(e[2]) == 1:
                    b, t, ty = self.expr(e[2][0], env, "bool")
                    if ty != "bool":
                        raise Unsupported("debug_assert! of %r" % (ty,))
                    return " ".join(b) + " _ <-? rs_assert %s ;; %s" % (t, rest(env))
                raise Unsupported("macro %s!" % e[1])
            if e[0] == "block":
                # nested statement block: its lets are local; join over the assigned outer variables
                return self.join([(None, e)], env, rest, fnret)
            if e[0] == "if":
                return self.if_stmt(e, env, rest, fnret)
            raise Unsupported("expression statement of kind " + e[0])
        raise Unsupported("statement " + s[0])

    def bind_pattern(self, pat, ty, env):
        if pat[0] == "pwild":
            return "_"
        if pat[0] == "pvar":
            env[pat[1]] = ty
            return cq(pat[1])
        if isinstance(ty, tuple) and ty[0] == "tuple":
            tys = ty[1]
        elif isinstance(ty, tuple) and ty[0] == "array":
            tys = [ty[1]] * ty[2]
        else:
            raise Unsupported("pattern against %r" % (ty,))
        if len(tys) != len(pat[1]):
            raise Unsupported("pattern arity")
        return "'(" + ", ".join(self.bind_pattern(p, t, env).lstrip("'") for p, t in zip(pat[1], tys)) + ")"

    @staticmethod
    def always_returns(block):
        stmts, tail = block[1], block[2]
        if stmts and stmts[-1][0] == "return" and tail is None:
            return True
        last = tail if tail is not None else (stmts[-1][1] if stmts and stmts[-1][0] == "expr" else None)
        if last is not None and last[0] == "if" and last[3] is not None:
            return Tr.always_returns(last[2]) and Tr.always_returns(last[3])
        return False

    @staticmethod
    def assigned(block, acc, local):
        local = set(local)
        for s in block[1] + ([("expr", block[2])] if block[2] is not None else []):
            if s[0] == "let":
                def names(p):
                    return [p[1]] if p[0] == "pvar" else ([] if p[0] == "pwild" else sum((names(q) for q in p[1]), []))
                local |= set(names(s[1]))
            elif s[0] == "assign":
                t = s[1]
                n = t[1] if t[0] == "var" else (t[1][1] if t[0] == "index" and t[1][0] == "var" else None)
                if n is not None and n not in local and n not in acc:
                    acc.append(n)
            elif s[0] == "expr" and s[1][0] == "if":
                Tr.assigned(s[1][2], acc, local)
                if s[1][3] is not None:
                    Tr.assigned(s[1][3], acc, local)
            elif s[0] == "expr" and s[1][0] == "block":
                Tr.assigned(s[1], acc, local)
        return acc

    def if_stmt(self, e, env, rest, fnret):
        # flatten the else-if chain
        chain, cur = [], e
        while True:
            chain.append((cur[1], cur[2]))
            el = cur[3]
            if el is None:
                chain.append((None, ("block", [], None)))
                break
            if el[0] == "block" and not el[1] and el[2] is not None and el[2][0] == "if":
                cur = el[2]
                continue
            chain.append((None, el))
            break
        rets = [self.always_returns(b) for _, b in chain]
        if any(rets):
            falls = [k for k, r in enumerate(rets) if not r]
            if any(chain[k][1][1] or chain[k][1][2] is not None for k in falls) or falls not in ([], [len(chain) - 1]):
                raise Unsupported("an if statement that mixes early returns with non-empty fall-through branches")
            if fnret is None:
                raise Unsupported("return inside a nested value block")
            out = ""
            close = 0
            for (c, b), r in zip(chain, rets):
                if c is not None:
                    bc, tc, tyc = self.expr(c, env, "bool")
                    body = self.seq(b[1] + ([("expr", b[2])] if b[2] is not None else []), 0, dict(env),
                                    lambda env2: (_ for _ in ()).throw(Unsupported("fall through in a returning branch")), fnret, {})
                    out += "%s if %s then (%s) else (" % (" ".join(bc), tc, body)
                    close += 1
                elif r:
                    out += self.seq(b[1] + ([("expr", b[2])] if b[2] is not None else []), 0, dict(env),
                                    lambda env2: (_ for _ in ()).throw(Unsupported("fall through in a returning branch")), fnret, {})
                else:
                    out += rest(env)
            return out + ")" * close
        return self.join(chain, env, rest, fnret)

    def join(self, chain, env, rest, fnret):
        names = []
        for _, b in chain:
            self.assigned(b, names, [])
        names = [n for n in names if n in env]
        envs = []

        def branch(b):
            def fin(env2):
                envs.append(env2)
                for n in names:
                    if env2.get(n) is None:
                        raise Unsupported("variable %s is not assigned on every path" % n)
                return "Some (%s)" % ", ".join(cq(n) for n in names) if names else "Some tt"
            if b[2] is not None:
                raise Unsupported("a statement block with a value")
            return self.seq(b[1], 0, dict(env), fin, None, {})
        if len(chain) == 1 and chain[0][0] is None:
            term = "(" + branch(chain[0][1]) + ")"
        else:
            term, close = "", 0
            for c, b in chain:
                if c is not None:
                    bc, tc, tyc = self.expr(c, env, "bool")
                    if tyc != "bool":
                        raise Unsupported("condition of type %r" % (tyc,))
                    term += "%s if %s then (%s) else (" % (" ".join(bc), tc, branch(b))
                    close += 1
                else:
                    term += branch(b)
            term = "(" + term + ")" * close + ")"
        env2 = dict(env)
        for n in names:
            u = envs[0][n]
            for x in envs[1:]:
                u = unify(u, x[n]) if u is not None else None
            if u is None:
                raise Unsupported("variable %s gets different types on different paths" % n)
            env2[n] = u
        pat = ("'(%s)" % ", ".join(cq(n) for n in names)) if len(names) > 1 else (cq(names[0]) if names else "_")
        return "%s <-? %s ;; %s" % (pat, term, rest(env2))

    # ---- functions ----
    def function(self, f):
        self.n = 0
        self.calls = set()
        env = {}
        sig = []
        for pn, ty, _ in f["params"]:
            env[pn] = ty
            sig.append("(%s : %s)" % (cq(pn), coq_type(ty)))
        ty, term = self.value_block(f["body"], env, f["ret"], True)
        if unify(ty, f["ret"]) != f["ret"]:
            raise Unsupported("%s returns %r, declared %r" % (f["name"], ty, f["ret"]))
        text = "Definition %s %s : option %s :=\n  %s." % (cq(f["name"]), " ".join(sig), coq_type(f["ret"]), term)
        return text, set(self.calls)


def dispatch_tables(srcdir):
    """mode id -> enum variant (layer.rs parse_blend_mode), enum variant -> blend function (file.rs)"""
    lay = open(srcdir + "/layer.rs").read()
    m = re.search(r"fn parse_blend_mode\(id: u16\) -> Result<BlendMode> \{\s*match id \{(.*?)\n    \}\n\}", lay, re.S)
    ids = {}
    if m:
        body = re.sub(r"//[^\n]*", "", m.group(1))
        arms = re.findall(r"(\d+|_)\s*=>\s*(Ok\(BlendMode::(\w+)\)|Err\()", body)
        if len(arms) != body.count("=>"):
            raise Unsupported("parse_blend_mode has an arm of an unsupported form")
        for pat, _, variant in arms:
            if pat != "_":
                if not variant:
                    raise Unsupported("parse_blend_mode: id %s is refused" % pat)
                ids[int(pat)] = variant
    else:
        # the table form: `const T: [BlendMode; N] = [BlendMode::A, ...];` and a body `T.get(id as usize).copied().ok_or_else(..)`
        nc = re.sub(r"//[^\n]*", "", lay)
        m = re.search(r"fn parse_blend_mode\(id: u16\) -> Result<BlendMode> \{\s*(\w+)\s*\.get\(\s*(?:id as usize|usize::from\(id\))\s*\)\s*\.copied\(\)\s*"
                      r"\.ok_or_else\(\|\|\s*\{?\s*AsepriteParseError::\w+\(format!\([^;]*?\)\)\s*\}?\s*\)\s*\n\}", nc, re.S)
        if not m:
            raise Unsupported("parse_blend_mode not found in layer.rs (neither the match nor the table form)")
        t = re.search(r"const\s+%s\s*:\s*\[BlendMode;\s*(\d+)\]\s*=\s*\[(.*?)\];" % re.escape(m.group(1)), nc, re.S)
        if not t:
            raise Unsupported("table %s of parse_blend_mode not found" % m.group(1))
        entries = [e.strip() for e in t.group(2).split(",") if e.strip()]
        if len(entries) != int(t.group(1)) or not all(re.fullmatch(r"BlendMode::\w+", e) for e in entries):
            raise Unsupported("table %s has an entry of an unsupported form" % m.group(1))
        for k, e in enumerate(entries):
            ids[k] = e.split("::")[1]
    # the BlendMode -> blend function table: a function `fn f(x: BlendMode) -> T { match x { BlendMode::V => <fn>, ... } }` in
    # any source file; an arm may name the function as `Box::new(blend::f)`, `blend::f`, `crate::blend::f` or plain `f`
    import glob
    arms = None
    for path in sorted(glob.glob(srcdir + "/*.rs")):
        txt = re.sub(r"//[^\n]*", "", open(path).read())
        for m in re.finditer(r"fn\s+\w+\(\s*(\w+)\s*:\s*BlendMode\s*\)\s*->\s*\w+\s*\{\s*match\s+(\w+)\s*\{(.*?)\n\s*\}\s*\}", txt, re.S):
            if m.group(1) != m.group(2):
                continue
            body = m.group(3)
            found = re.findall(r"BlendMode::(\w+)\s*=>\s*(?:Box::new\(\s*)?(?:(?:crate::)?blend::)?(\w+)\s*\)?\s*(?:,|$)", body)
            if found and len(found) == body.count("=>"):
                if arms is not None:
                    raise Unsupported("more than one BlendMode -> function table")
                arms = found
    if arms is None:
        raise Unsupported("no BlendMode -> blend function table (a match with one `BlendMode::V => function` arm per mode) found in src/")
    fns = dict(arms)
    out = {}
    for i, v in sorted(ids.items()):
        if v not in fns:
            raise Unsupported("no blend function for BlendMode::" + v)
        out[i] = fns[v]
    return out


def translate(srcdir):
    src = open(srcdir + "/blend.rs").read()
    fns, consts = Parser(lex(src)).items()
    table = dispatch_tables(srcdir)
    tr = Tr(fns, consts)
    done, order, texts = {}, [], {}

    def visit(name, stack):
        if name in done:
            return
        if name in stack:
            raise Unsupported("recursion through " + name)
        if name not in fns:
            raise Unsupported("blend function %s not found in blend.rs" % name)
        if "unsupported" in fns[name]:
            raise Unsupported("function %s (needed by the blend functions): %s" % (name, fns[name]["unsupported"]))
        text, calls = tr.function(fns[name])
        for c in sorted(calls):
            visit(c, stack + [name])
        done[name] = True
        order.append(name)
        texts[name] = text
    for i in sorted(table):
        visit(table[i], [])
        f = fns[table[i]]
        if [p[1] for p in f["params"]] != [("array", "u8", 4), ("array", "u8", 4), "u8"] or f["ret"] != ("array", "u8", 4):
            raise Unsupported("blend function %s does not have the BlendFn signature" % table[i])
    out = ["(* GENERATED by tools/rs2coq.py from src/blend.rs, src/file.rs (blend_mode_to_blend_fn) and src/layer.rs",
           "   (parse_blend_mode) of the working tree.  Do not edit. *)",
           "From Ase Require Import Gen.RustSem.", "From Coq Require Import Floats.", "Open Scope Z_scope.", ""]
    for n in order:
        out.append(texts[n])
        out.append("")
    out.append("(* blend mode id -> function, as parse_blend_mode and blend_mode_to_blend_fn compose *)")
    out.append("Definition blend_fn_of_mode (mode : Z) : option (pixel -> pixel -> Z -> option pixel) :=")
    out.append("  match mode with")
    for i in sorted(table):
        out.append("  | %d => Some %s" % (i, cq(table[i])))
    out.append("  | _ => None\n  end.")
    out.append("Definition blend (mode : Z) (backdrop src : pixel) (opacity : Z) : option pixel :=")
    out.append("  match blend_fn_of_mode mode with Some f => f backdrop src opacity | None => None end.")
    out.append("Definition translated_functions : list (list Z) := [].  (* %s *)" % " ".join(order))
    return "\n".join(out) + "\n"


def main(argv):
    try:
        text = translate(argv[1])
    except Unsupported as e:
        print("rs2coq: unsupported: %s" % e, file=sys.stderr)
        return 2
    with open(argv[2], "w") as f:
        f.write(text)
    return 0


if __name__ == "__main__":
    sys.exit(main(sys.argv))
