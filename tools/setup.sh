#!/bin/bash
# Offline setup after a fresh restore: Coq development, extraction, OCaml driver, harness in three profiles.
set -e
export CARGO_NET_OFFLINE=true CARGO_TARGET_DIR=/verif/.build/cargo
mkdir -p /verif/.build /verif/evidence /verif/replay
/verif/tools/build_model.sh
cp /repo/Cargo.lock /verif/harness/Cargo.lock
cd /verif/harness
cargo build --offline -q --release --bin impl_driver --bin zoracle
cargo build --offline -q --bin impl_driver --bin zoracle
cargo build --offline -q --profile relchk --bin impl_driver --bin zoracle
# translate src/blend.rs and prove the tie once (cached by content hash; the checks re-translate every run)
python3 -c "import sys; sys.path.insert(0, '/verif/tools'); import vplib
for p in ('C17', 'C03'):
    ob = vplib.gen_blend_obligations(p); print('gen', p, 'ok' if ob.ok else ob.errors)"
echo "setup: ok"
