"""gen.py -- structured sprite generator.

An *abstract sprite* (plain dicts) is generated from one random.Random; from it come
  * the bytes (through tools/ase.py, under a vector of encoding choices), and
  * the expected STRUCT observation (tools/SCHEMA.md) computed independently of the
    model and of the implementation (what the file encodes, by construction).
"""
from __future__ import annotations

import copy
import random
from typing import Dict, List, Optional, Tuple

import ase

NAMES = ["", "a", "Layer 1", "bg", "Tag", "x" * 40, "été", "日本", "\U0001f600", "a", "Layer 1",
         "zß", "long name with spaces", "\u0001", "\x7f", "key=1\0", "\0\0", " trailing space ", "\0"]


def pick(rng: random.Random, lo: int, hi: int) -> int:
    """boundary-biased integer in [lo, hi]"""
    if rng.random() < 0.5:
        mid = (lo + hi) // 2
        cands = [lo, lo + 1, lo + 2, mid - 1, mid, mid + 1, hi - 1, hi]
        cands = [c for c in cands if lo <= c <= hi]
        return rng.choice(cands)
    return rng.randint(lo, hi)


def name(rng: random.Random) -> str:
    if rng.random() < 0.15:
        # a long name in which multi-byte characters start at every alignment: k ASCII bytes, then 2-, 3- and 4-byte characters
        # (anything that cuts, pads or measures a name by bytes meets a character boundary problem on one of these)
        k = rng.choice([0, 1, 2, 3, 22, 23, 24, 25, 31, 62, 63, rng.randrange(0, 70)])
        tail = "".join(rng.choice(["\u00e4", "\u00df", "\u65e5", "\u20ac", "\U0001f600", "\u0416"]) for _ in range(rng.choice([2, 9, 30, 90])))
        return "n" * k + tail
    return rng.choice(NAMES)


def gen_userdata(rng: random.Random) -> dict:
    k = rng.randint(0, 3)
    return {"text": name(rng) if k & 1 else None,
            "color": tuple(pick(rng, 0, 255) for _ in range(4)) if k & 2 else None}


def gen_levels(rng: random.Random, n: int) -> List[int]:
    """a forest: first level 0, each at most one more than its predecessor"""
    lv = []
    for i in range(n):
        if i == 0:
            lv.append(0)
        else:
            r = rng.random()
            if r < 0.35:
                lv.append(lv[-1] + 1)
            elif r < 0.7:
                lv.append(lv[-1])
            else:
                lv.append(rng.randint(0, lv[-1]))
    return lv


def rand_pixel(rng, depth, pal_ids):
    if depth == 32:
        a = rng.choice([0, 1, 127, 128, 254, 255, 255, 255, rng.randint(0, 255)])
        return (rng.randint(0, 255), rng.randint(0, 255), rng.randint(0, 255), a)
    if depth == 16:
        return (rng.randint(0, 255), rng.choice([0, 1, 128, 255, 255, rng.randint(0, 255)]))
    return rng.choice(pal_ids)


def pix_bytes(depth, px) -> bytes:
    if depth == 32:
        return ase.rgba_bytes(px)
    if depth == 16:
        return ase.gray_bytes(px)
    return ase.indexed_bytes(px)


def gen_sprite(rng: random.Random, *, max_canvas=10, max_layers=6, max_frames=4, depth=None,
               tilemaps=True, palette_kind=None, rich=True, blend_modes=None, all_visible=False) -> dict:
    depth = depth if depth is not None else rng.choice([32, 32, 16, 8])
    W = rng.randint(1, max_canvas)
    H = rng.randint(1, max_canvas)
    nframes = rng.randint(1, max_frames)
    nlayers = rng.randint(1, max_layers)
    if nframes == nlayers and rng.random() < 0.8:
        nframes = nframes + 1                      # non-square frame/layer counts
    s = {"width": W, "height": H, "depth": depth, "transparent": pick(rng, 0, 255) if depth == 8 else rng.randint(0, 255),
         "durations": [pick(rng, 0, 65535) for _ in range(nframes)], "speed": pick(rng, 0, 65535)}
    # ---- palette ----
    pal: Dict[int, tuple] = {}
    s["palette_chunks"] = []          # list of ("new", first, [(r,g,b,a,name|None)]) / ("old4"/"old11", packets)
    kind = palette_kind if palette_kind is not None else (rng.choice(["new", "new", "old4", "old11", "both", "both_rev"])
                                                           if (depth == 8 or rng.random() < 0.4) else None)
    if kind in ("new", "both", "both_rev"):
        first = rng.choice([0, 0, 1, 3, 250]) if depth != 8 else rng.choice([0, 0, 0, 2])
        n = rng.randint(1, 12)
        if rng.random() < 0.2:
            # entries beyond index 255 (the format stores 32-bit indices): a pixel byte k must not pick up entry 256 + k
            first, n = rng.choice([0, 0, 2, 250]), rng.choice([257, 260, 300])
        entries = []
        for i in range(n):
            a = rng.choice([255, 255, 255, 0, 128, rng.randint(0, 255)])
            nm = name(rng) if rng.random() < 0.25 else None
            entries.append((rng.randint(0, 255), rng.randint(0, 255), rng.randint(0, 255), a, nm))
        newc = ("new", first, entries)
        for i, e in enumerate(entries):
            pal[first + i] = e
    if kind in ("old4", "old11", "both", "both_rev"):
        six = (kind == "old11") or (kind in ("both", "both_rev") and rng.random() < 0.5)
        packets = []
        pos = 0
        oldpal: Dict[int, tuple] = {}
        for _ in range(rng.randint(1, 3)):
            skip = rng.choice([0, 0, 1, 5])
            cnt = rng.randint(1, 6)
            cols = []
            pos += skip
            for j in range(cnt):
                if six:
                    c = tuple(pick(rng, 0, 63) for _ in range(3))
                    cols.append(c)
                    oldpal[pos + j] = tuple((v << 2 | v >> 4) for v in c) + (255, None)
                else:
                    c = tuple(rng.randint(0, 255) for _ in range(3))
                    cols.append(c)
                    oldpal[pos + j] = c + (255, None)
            # the decoder's ids restart from the cumulative skip, not from the end of the previous packet
            packets.append((skip, cols))
        oldc = ("old11" if six else "old4", packets)
        if kind in ("old4", "old11"):
            pal = oldpal
    if kind == "new":
        s["palette_chunks"] = [newc]
    elif kind in ("old4", "old11"):
        s["palette_chunks"] = [oldc]
    elif kind == "both":
        s["palette_chunks"] = [newc, oldc]          # new wins in either order
    elif kind == "both_rev":
        s["palette_chunks"] = [oldc, newc]
    s["palette"] = pal if kind is not None else None
    s["sprite_ud"] = gen_userdata(rng) if (kind in ("old4", "old11", "both", "both_rev") and rng.random() < 0.6) else None
    pal_ids = sorted(k for k in pal if k < 256) if pal else []
    if depth == 8 and not pal_ids:
        # an indexed sprite needs a palette: give it one
        entries = [(rng.randint(0, 255), rng.randint(0, 255), rng.randint(0, 255), 255, None) for _ in range(4)]
        s["palette_chunks"] = [("new", 0, entries)]
        s["palette"] = pal = {i: e for i, e in enumerate(entries)}
        pal_ids = [0, 1, 2, 3]
        s["sprite_ud"] = None
    if depth == 8 and rng.random() < 0.7:
        s["transparent"] = rng.choice(pal_ids + [pick(rng, 0, 255)])
    # ---- external files ----
    s["ext_files"] = [(pick(rng, 0, 2 ** 32 - 1), name(rng)) for _ in range(rng.randint(0, 3))] if rich and rng.random() < 0.4 else []
    # ---- tilesets ----
    s["tilesets"] = []
    if tilemaps and rng.random() < 0.45:
        for _ in range(rng.randint(1, 2)):
            tid = rng.choice([0, 1, 2, 7, 2 ** 32 - 1])
            if any(t["id"] == tid for t in s["tilesets"]):
                continue
            tw, th = rng.randint(1, 5), rng.randint(1, 5)
            cnt = rng.randint(1, 6)
            px = [rand_pixel(rng, depth, pal_ids) for _ in range(cnt * tw * th)]
            # tile 0 is the empty tile: fully transparent
            for i in range(tw * th):
                px[i] = (0, 0, 0, 0) if depth == 32 else ((0, 0) if depth == 16 else px[i])
            ext = (pick(rng, 0, 2 ** 32 - 1), pick(rng, 0, 2 ** 32 - 1)) if rng.random() < 0.2 else None
            s["tilesets"].append({"id": tid, "count": cnt, "tw": tw, "th": th, "base": pick(rng, -32768, 32767),
                                  "name": name(rng), "ext": ext, "empty0": rng.random() < 0.8, "pixels": px})
    # ---- layers ----
    levels = gen_levels(rng, nlayers)
    layers = []
    for i in range(nlayers):
        is_group = (i + 1 < nlayers and levels[i + 1] > levels[i])
        lt = 1 if is_group else 0
        ts = 0
        if not is_group and s["tilesets"] and rng.random() < 0.5:
            lt = 2
            ts = rng.choice(s["tilesets"])["id"]
        flags = rng.randint(0, 127)
        if all_visible or rng.random() < 0.6:
            flags |= 1
        if depth == 8 and rng.random() < 0.3:
            flags |= 8
        mode = rng.choice(blend_modes) if blend_modes else rng.randint(0, 18)
        layers.append({"flags": flags, "ltype": lt, "level": levels[i], "blend": mode,
                       "opacity": pick(rng, 0, 255), "name": name(rng), "tileset": ts,
                       "ud": gen_userdata(rng) if rng.random() < 0.3 else None,
                       "default_w": rng.randint(0, 65535), "default_h": rng.randint(0, 65535)})
    s["layers"] = layers
    # ---- cels ----
    cels: Dict[Tuple[int, int], dict] = {}
    for f in range(nframes):
        for l in range(nlayers):
            if rng.random() < 0.25:
                continue
            lay = layers[l]
            c = {"opacity": pick(rng, 0, 255), "ud": gen_userdata(rng) if rng.random() < 0.2 else None}
            # offsets: on-canvas, partly off, fully off, extremes
            r = rng.random()
            if lay["ltype"] == 2:
                ts = next(t for t in s["tilesets"] if t["id"] == lay["tileset"])
                c["kind"] = "tilemap"
                c["w"], c["h"] = rng.randint(1, 4), rng.randint(1, 4)
                c["tiles"] = [rng.randrange(ts["count"]) for _ in range(c["w"] * c["h"])]
                # the flip / rotate bits of the tile words (masks as Aseprite writes them): the library reads the id through the id mask
                # and draws the tile untransformed; whatever it does with the other bits, it must not fail on them
                c["tile_bits"] = [rng.choice([0, 0, 0x20000000, 0x40000000, 0x80000000, 0xE0000000, 0xA0000000]) for _ in c["tiles"]] if rng.random() < 0.4 else None
                ox = rng.choice([0, 0, 1, -1, 2, -3, 40]) * ts["tw"]
                oy = rng.choice([0, 0, 1, -1, 2, -2, 40]) * ts["th"]
                c["x"], c["y"] = max(-32768, min(32767, ox)), max(-32768, min(32767, oy))
            else:
                c["kind"] = rng.choice(["zlib", "zlib", "raw"])
                c["w"], c["h"] = rng.randint(1, 8), rng.randint(1, 8)
                if rng.random() < 0.04:
                    # one dimension beyond 255 (a strip of 256 / 257 / 300 pixels), placed so that its far end lies on the canvas
                    big = rng.choice([256, 257, 300, 300, 32768, 40000])
                    if rng.random() < 0.5:
                        c["w"], c["h"] = big, rng.randint(1, 2)
                    else:
                        c["w"], c["h"] = rng.randint(1, 2), big
                if c["w"] > 8 or c["h"] > 8:
                    c["x"] = max(-32768, rng.choice([0, W - 1, -(c["w"] - 2), -(c["w"] - W)])) if c["w"] > 8 else rng.randint(0, W - 1)
                    c["y"] = max(-32768, rng.choice([0, H - 1, -(c["h"] - 2), -(c["h"] - H)])) if c["h"] > 8 else rng.randint(0, H - 1)
                elif r < 0.5:
                    c["x"], c["y"] = rng.randint(0, W - 1), rng.randint(0, H - 1)
                elif r < 0.8:
                    c["x"], c["y"] = rng.randint(-c["w"], W), rng.randint(-c["h"], H)
                elif r < 0.9:
                    c["x"], c["y"] = rng.choice([-32768, 32767, -100, W + 5]), rng.choice([-32768, 32767, -100, H + 5])
                else:
                    c["x"], c["y"] = -c["w"] + 1, -c["h"] + 1
                c["pixels"] = [rand_pixel(rng, depth, pal_ids) for _ in range(c["w"] * c["h"])]
            cels[(f, l)] = c
    # linked cels: replace some cels by links to a non-linked cel of the same layer in another frame
    link_targets = set()
    for (f, l) in list(cels):
        if rng.random() < 0.15 and (f, l) not in link_targets:
            targets = [g for g in range(nframes) if g != f and (g, l) in cels and cels[(g, l)]["kind"] != "linked"]
            if targets:
                tg = rng.choice(targets)
                link_targets.add((tg, l))
                cels[(f, l)] = {"kind": "linked", "frame": tg, "x": rng.randint(-3, 3), "y": rng.randint(-3, 3),
                                "opacity": pick(rng, 0, 255), "ud": cels[(f, l)]["ud"]}
    s["cels"] = cels
    # ---- tags / slices ----
    s["tags"] = []
    if rich and rng.random() < 0.6:
        for _ in range(rng.randint(0, 4)):
            s["tags"].append({"from": pick(rng, 0, 65535), "to": pick(rng, 0, 65535), "dir": rng.randint(0, 2),
                              "repeat": pick(rng, 0, 65535), "name": name(rng), "color": rng.randint(0, 2 ** 32 - 1),
                              "ud": gen_userdata(rng) if rng.random() < 0.4 else None})
    s["has_tags_chunk"] = bool(s["tags"]) or (rich and rng.random() < 0.1)
    s["slices"] = []
    if rich and rng.random() < 0.5:
        for _ in range(rng.randint(1, 3)):
            fl = rng.randint(0, 3)
            keys = []
            for _k in range(rng.randint(0, 3)):
                keys.append({"frame": pick(rng, 0, 2 ** 32 - 1), "x": pick(rng, -2 ** 31, 2 ** 31 - 1), "y": pick(rng, -2 ** 31, 2 ** 31 - 1),
                             "w": pick(rng, 0, 2 ** 32 - 1), "h": pick(rng, 0, 2 ** 32 - 1),
                             "center": (pick(rng, -2 ** 31, 2 ** 31 - 1), pick(rng, -2 ** 31, 2 ** 31 - 1), pick(rng, 0, 2 ** 32 - 1), pick(rng, 0, 2 ** 32 - 1)) if fl & 1 else None,
                             "pivot": (pick(rng, -2 ** 31, 2 ** 31 - 1), pick(rng, -2 ** 31, 2 ** 31 - 1)) if fl & 2 else None})
                if keys and rng.random() < 0.35:
                    # a key that repeats the region of the key before it (or of the first key) for another frame - or for the same frame
                    src = dict(rng.choice([keys[-1], keys[0]]))
                    src["frame"] = rng.choice([src["frame"], (src["frame"] + 1) & 0xFFFFFFFF, pick(rng, 0, 2 ** 32 - 1)])
                    keys.append(src)
            s["slices"].append({"name": name(rng), "flags": fl | (rng.choice([0, 4, 0xFFFFFFFC]) if rng.random() < 0.3 else 0),
                                "keys": keys, "ud": gen_userdata(rng) if rng.random() < 0.4 else None})
    return s


# --------------------------------------------------------------------------
# encoding: abstract sprite + choices -> ase.Sprite -> bytes
# --------------------------------------------------------------------------
IGNORABLE = [ase.CT_CEL_EXTRA, ase.CT_MASK, ase.CT_PATH]


def default_choices() -> dict:
    return {"count_mode": "both", "ignorable": 0.0, "tails": 0.0, "trailer": b"", "unused": False, "pixel_ratio": (1, 1),
            "zlevels": [6], "cel_storage": None, "shuffle_cels": False, "profile": None, "extra_old_palette": False}


def random_choices(rng: random.Random) -> dict:
    return {"count_mode": rng.choice(["both", "old", "new", "newany"]), "ignorable": rng.choice([0.0, 0.2, 0.5]),
            "tails": rng.choice([0.0, 0.3, 0.8]), "trailer": bytes(rng.randrange(256) for _ in range(rng.choice([0, 1, 17]))),
            "unused": rng.random() < 0.5, "pixel_ratio": rng.choice([(1, 1), (0, 0), (0, 7), (3, 0)]),
            "zlevels": rng.choice([[6], [0], [1], [9], [0, 1, 6, 9], ["stored"]]), "cel_storage": rng.choice([None, "raw", "zlib"]),
            "shuffle_cels": rng.random() < 0.5, "profile": rng.choice([None, 0, 1]), "extra_old_palette": rng.random() < 0.3,
            "ext_late": rng.choice([None, None, "after", "between"])}


def ud_chunk(u: dict) -> ase.UserDataChunk:
    return ase.UserDataChunk(text=u["text"], color=u["color"])


def build(s: dict, ch: Optional[dict] = None, rng: Optional[random.Random] = None) -> ase.Sprite:
    ch = ch or default_choices()
    rng = rng or random.Random(0)
    depth = s["depth"]
    nframes = len(s["durations"])
    frames: List[ase.Frame] = []

    def zl():
        return rng.choice(ch["zlevels"])

    def junk(n):
        if ch.get("junk_pattern"):
            return (ch["junk_pattern"] * n)[:n]          # every reserved / unused run starts with this pattern (probe sprites)
        if not ch["unused"]:
            return b"\0" * n
        if rng.random() < 0.35:
            # boundary patterns in the first bytes (a reserved field that a later format version reads as a signed or unsigned word)
            pat = rng.choice([b"\xff\x7f", b"\x00\x80", b"\xff\xff", b"\x01\x00", b"\xfe\x7f", b"\xff\xff\xff\x7f", b"\x00\x00\x00\x80", b"\x04", b"\xff"])
            return (pat + bytes(rng.randrange(256) for _ in range(n)))[:n]
        return bytes(rng.randrange(256) for _ in range(n))

    def decorate(chunks: List[ase.Chunk]) -> List[ase.Chunk]:
        """tails on chunks, ignorable chunks in the gaps (never between an entity and its user data is NOT
        required: ignorable chunks do not break the association)"""
        out = []
        for c in chunks:
            if ch["ignorable"] and rng.random() < ch["ignorable"]:
                # payload sizes from nothing to several kilobytes (a 64 x 64 mask chunk has 539 bytes)
                out.append(ase.RawChunk(rng.choice(IGNORABLE), bytes(rng.randrange(256) for _ in range(rng.choice(ch.get("ign_sizes") or [0, 1, 3, 12, 36, 127, 128, 129, 539, 4100])))))
            if ch["tails"] and rng.random() < ch["tails"] and not isinstance(c, ase.RawChunk):
                c.tail = bytes(rng.randrange(256) for _ in range(rng.choice([1, 2, 16, 16, 127, 128, 129, 300, 5000])))
            out.append(c)
        if ch["ignorable"] and rng.random() < ch["ignorable"]:
            out.append(ase.RawChunk(rng.choice(IGNORABLE), bytes(rng.randrange(256) for _ in range(rng.choice([0, 3, 20])))))
        return out

    def cel_chunks(f: int) -> List[List[ase.Chunk]]:
        groups = []
        for (ff, l), c in sorted(s["cels"].items()):
            if ff != f:
                continue
            if c["kind"] == "linked":
                cc = ase.CelChunk(layer=l, x=c["x"], y=c["y"], opacity=c["opacity"], ctype_cel=1, linked=c["frame"], reserved=junk(7))
            elif c["kind"] == "tilemap":
                cc = ase.CelChunk(layer=l, x=c["x"], y=c["y"], opacity=c["opacity"], ctype_cel=3, w=c["w"], h=c["h"],
                                  tiles=[t | b for t, b in zip(c["tiles"], c.get("tile_bits") or [0] * len(c["tiles"]))],
                                  zlevel=zl(), reserved=junk(7), tm_reserved=junk(10))
            else:
                storage = ch["cel_storage"] or c["kind"]
                cc = ase.CelChunk(layer=l, x=c["x"], y=c["y"], opacity=c["opacity"], ctype_cel=0 if storage == "raw" else 2,
                                  w=c["w"], h=c["h"], pixels=pix_bytes(depth, c["pixels"]), zlevel=zl(), reserved=junk(7))
            g: List[ase.Chunk] = [cc]
            if c.get("ud"):
                g.append(ud_chunk(c["ud"]))
            groups.append(g)
        if ch["shuffle_cels"]:
            rng.shuffle(groups)
        return groups

    def layer_chunks(lay):
        fl = lay["flags"] | (rng.choice([0, 0x80, 0xFF80]) if ch["unused"] else 0)
        out = [ase.LayerChunk(flags=fl, ltype=lay["ltype"], level=lay["level"], blend=lay["blend"],
                              opacity=lay["opacity"], name=lay["name"], tileset=lay["tileset"],
                              default_w=lay["default_w"], default_h=lay["default_h"], reserved=junk(3))]
        if lay["ud"]:
            out.append(ud_chunk(lay["ud"]))
        return out

    for f in range(nframes):
        chunks: List[ase.Chunk] = []
        if f == 0:
            if ch["profile"] is not None:
                chunks.append(ase.ColorProfileChunk(ptype=ch["profile"], gamma=rng.randrange(2 ** 32) if ch["unused"] else 0, reserved=junk(8)))
            has_old = False
            for pc in s["palette_chunks"]:
                if pc[0] == "new":
                    chunks.append(ase.PaletteChunk(first=pc[1], entries=list(pc[2]), reserved=junk(8),
                                                   total=rng.randrange(2 ** 32) if ch["unused"] else None))
                else:
                    chunks.append(ase.OldPaletteChunk(kind=ase.CT_OLD_PALETTE_11 if pc[0] == "old11" else ase.CT_OLD_PALETTE_04,
                                                      packets=list(pc[1])))
                    has_old = True
                    if s["sprite_ud"]:
                        chunks.append(ud_chunk(s["sprite_ud"]))
            if ch["extra_old_palette"] and not has_old and any(pc[0] == "new" for pc in s["palette_chunks"]):
                # a redundant legacy palette beside the new one (after it, or before it)
                oc = ase.OldPaletteChunk(kind=ase.CT_OLD_PALETTE_04, packets=[(0, [(1, 2, 3), (4, 5, 6)])])
                if rng.random() < 0.5:
                    chunks.append(oc)
                else:
                    chunks.insert(len(chunks) - 1, oc)
            ext_chunk = ase.ExternalFilesChunk(entries=list(s["ext_files"]), reserved=junk(8), entry_reserved=junk(8)) if s["ext_files"] else None
            # the external-files chunk normally precedes the tilesets that refer to it; nothing requires that ("ext_late": after them)
            if ext_chunk is not None and not ch.get("ext_late"):
                chunks.append(ext_chunk)
            for ti_, t in enumerate(s["tilesets"]):
                if ext_chunk is not None and ch.get("ext_late") == "between" and ti_ == len(s["tilesets"]) // 2 and ti_ > 0:
                    chunks.append(ext_chunk)
                    ext_chunk = None
                fl = 2 | (4 if t["empty0"] else 0) | (1 if t["ext"] else 0)
                if ch["unused"]:
                    fl |= rng.choice([0, 8, 0xFFFFFFF8])
                chunks.append(ase.TilesetChunk(id=t["id"], flags=fl, tile_count=t["count"], tile_w=t["tw"], tile_h=t["th"],
                                               base_index=t["base"], name=t["name"], ext=t["ext"], pixels=pix_bytes(depth, t["pixels"]),
                                               zlevel=zl(), reserved=junk(14),
                                               compressed_len_override=rng.randrange(2 ** 32) if ch["unused"] else None))
            if ext_chunk is not None and ch.get("ext_late"):
                chunks.append(ext_chunk)
            late = ch.get("late_layers") if nframes >= 2 else None
            for li_, lay in enumerate(s["layers"]):
                if late is not None and li_ >= late:
                    break      # these layer chunks are written at the start of frame 1 (the caller guarantees they have no cel in frame 0)
                chunks.extend(layer_chunks(lay))
            if s["has_tags_chunk"]:
                chunks.append(ase.TagsChunk(tags=[ase.Tag(from_=t["from"], to=t["to"], direction=t["dir"], repeat=t["repeat"],
                                                          name=t["name"], color=t["color"], reserved=junk(6)) for t in s["tags"]],
                                            reserved=junk(8)))
                # user data records follow the tags chunk, one per tag, in order; a tag without a record
                # still consumes a slot, so records are emitted up to the last tag that has one
                last = max([i for i, t in enumerate(s["tags"]) if t["ud"]], default=-1)
                for i in range(last + 1):
                    u = s["tags"][i]["ud"]
                    chunks.append(ud_chunk(u if u else {"text": None, "color": None}))
            for sl in s["slices"]:
                chunks.append(ase.SliceChunk(name=sl["name"], flags=sl["flags"], reserved=rng.randrange(2 ** 32) if ch["unused"] else 0,
                                             keys=[ase.SliceKey(frame=k["frame"], x=k["x"], y=k["y"], w=k["w"], h=k["h"],
                                                                center=k["center"], pivot=k["pivot"]) for k in sl["keys"]]))
                if sl["ud"]:
                    chunks.append(ud_chunk(sl["ud"]))
        if f == 1 and ch.get("late_layers") is not None:
            for lay in s["layers"][ch["late_layers"]:]:
                chunks.extend(layer_chunks(lay))
        for g in cel_chunks(f):
            chunks.extend(g)
        dc = decorate(chunks)
        # an empty frame cannot say "use the new field" (new = 0 means "use the old field")
        cm = "both" if (not dc and ch["count_mode"] in ("new", "newany")) else ch["count_mode"]
        if cm == "newany":
            # the new field carries the count; the old field holds something else (Props/C07.v, C07_count_field_*: any old value)
            cm = ("new", rng.choice([0, max(0, len(dc) - 1), len(dc) + 1, 0xFFFF, rng.randrange(65536)]))
        if ch.get("pad_frame0_to") and f == 0:
            # exactly that many chunks in frame 0 (empty ignorable chunks appended), counted the way ch["pad_count"] says
            dc = dc + [ase.RawChunk(IGNORABLE[i % 3], b"") for i in range(ch["pad_frame0_to"] - len(dc))]
            cm = ch.get("pad_count", cm)
        frames.append(ase.Frame(duration=s["durations"][f], chunks=dc, count_mode=cm, reserved=junk(2)))
    sp = ase.Sprite(width=s["width"], height=s["height"], depth=depth, frames=frames, speed=s["speed"],
                    transparent=s["transparent"], pixel_w=ch["pixel_ratio"][0], pixel_h=ch["pixel_ratio"][1], trailer=ch["trailer"])
    if ch["unused"]:
        sp.flags = rng.randrange(2 ** 32)
        sp.speed = rng.choice([0, 1, 100, 250, 65535, rng.randrange(65536)])      # deprecated: every frame carries its own duration
        tr_ = s["transparent"]
        sp.ncolors = rng.choice([rng.randrange(65536), 0, 1, 2, max(0, tr_ - 1), tr_, tr_ + 1, 255, 256, 257, len(s["palette"] or {})])
        sp.grid = (rng.randint(-32768, 32767), rng.randint(-32768, 32767), rng.randrange(65536), rng.randrange(65536))
        if s["tilesets"] and rng.random() < 0.5:
            # a grid whose cell is exactly a tile of one of the tilesets, with an origin that is not a multiple of it
            t = rng.choice(s["tilesets"])
            sp.grid = (rng.choice([1, 3, -1, t["tw"] + 1, rng.randint(-40, 40)]), rng.choice([1, 2, -1, t["th"] + 1, rng.randint(-40, 40)]), t["tw"], t["th"])
        sp.ignore = (rng.randrange(256), rng.randrange(65536))
        sp.placeholders = (rng.randrange(2 ** 32), rng.randrange(2 ** 32))
        sp.reserved = junk(84)
        # the header's file-size field is informational: smaller than, equal to, larger than the real length
        sp.size_override = rng.choice([0, 4, 100, 127, 128, 129, rng.randrange(1, 600), rng.randrange(2 ** 32), 2 ** 32 - 1])
    if ch.get("hdr_flags") is not None:
        sp.flags = ch["hdr_flags"]
    return sp


def encode(s: dict, ch: Optional[dict] = None, rng: Optional[random.Random] = None) -> bytes:
    return ase.serialize(build(s, ch, rng))


# --------------------------------------------------------------------------
# expected STRUCT observation (tools/SCHEMA.md), from the abstract sprite alone
# --------------------------------------------------------------------------
def utf8(sx) -> List[int]:
    return list(sx.encode("utf-8")) if isinstance(sx, str) else list(sx)


def ud_lines(kind, i, j, u) -> List[List[int]]:
    if not u:
        return []
    c = u["color"]
    out = [[6, kind, i, j, 1 if u["text"] is not None else 0, 1 if c else 0] + (list(c) if c else [0, 0, 0, 0])]
    if u["text"] is not None:
        out.append([7, kind, i, j] + utf8(u["text"]))
    return out


def parents_of(levels: List[int]) -> List[int]:
    ps = []
    for i, lv in enumerate(levels):
        p = -1
        if lv != 0:
            for q in range(i - 1, -1, -1):
                if levels[q] < lv:
                    p = q
                    break
        ps.append(p)
    return ps


def visible_of(s: dict) -> List[int]:
    ps = parents_of([l["level"] for l in s["layers"]])
    vis = []
    for i, l in enumerate(s["layers"]):
        v = l["flags"] & 1
        if ps[i] >= 0:
            v = v and vis[ps[i]]
        vis.append(1 if v else 0)
    return vis


def expected_struct(s: dict) -> List[List[int]]:
    L = s["layers"]
    nl, nt = len(L), len(s["tags"])
    depth = s["depth"]
    out = [[2, s["width"], s["height"], len(s["durations"]), {32: 0, 16: 1, 8: 2}[depth],
            s["transparent"] if depth == 8 else -1, 1 if depth == 8 else 0, nl, nt, len(s["slices"])]]
    out += ud_lines(0, 0, 0, s["sprite_ud"])
    out += [[3, f, d] for f, d in enumerate(s["durations"])]
    ps = parents_of([l["level"] for l in L])
    vis = visible_of(s)
    for i, l in enumerate(L):
        out.append([4, i, l["flags"] & 127, l["blend"], l["opacity"], l["ltype"], l["tileset"] if l["ltype"] == 2 else -1,
                    ps[i], vis[i], 1 if l["ltype"] == 2 else 0])
        out.append([5, i] + utf8(l["name"]))
        out += ud_lines(1, i, 0, l["ud"])
    last_ud = max([i for i, t in enumerate(s["tags"]) if t["ud"]], default=-1)
    for i, t in enumerate(s["tags"]):
        out.append([8, i, t["from"], t["to"], t["dir"], t["repeat"]])
        out.append([9, i] + utf8(t["name"]))
        if i <= last_ud:
            out += ud_lines(3, i, 0, t["ud"] if t["ud"] else {"text": None, "color": None})
    for i, sl in enumerate(s["slices"]):
        out.append([10, i, len(sl["keys"])])
        out.append([11, i] + utf8(sl["name"]))
        out += ud_lines(4, i, 0, sl["ud"])
        for k, key in enumerate(sl["keys"]):
            c = key["center"] if sl["flags"] & 1 else None
            p = key["pivot"] if sl["flags"] & 2 else None
            out.append([12, i, k, key["frame"], key["x"], key["y"], key["w"], key["h"], 1 if c else 0]
                       + (list(c) if c else [0, 0, 0, 0]) + [1 if p else 0] + (list(p) if p else [0, 0]))
    pal = s["palette"]
    if pal is None:
        out.append([13, 0, 0])
    else:
        out.append([13, 1, len(pal)])
        for k in sorted(pal):
            if k >= 65536:
                continue
            r, g, b, a, nm = pal[k]
            out.append([14, k, r, g, b, a, 1 if nm is not None else 0])
            if nm is not None:
                out.append([15, k] + utf8(nm))
    ext: Dict[int, str] = {}
    for fid, nm in s["ext_files"]:
        ext[fid] = nm
    for fid in sorted(ext):
        out.append([16, fid] + utf8(ext[fid]))
    tss = sorted(s["tilesets"], key=lambda t: t["id"])
    for t in tss:
        e = t["ext"]
        out.append([17, t["id"], 1 if t["empty0"] else 0, t["count"], t["tw"], t["th"], t["base"], 1 if e else 0] + (list(e) if e else [0, 0]))
        out.append([18, t["id"]] + utf8(t["name"]))
    # lookups
    names = [utf8(l["name"]) for l in L]
    for i in range(nl):
        out.append([21, 0, i, 0, names.index(names[i])])
    out.append([21, 0, -1, 0, -1])
    tn = [utf8(t["name"]) for t in s["tags"]]
    for i in range(nt):
        out.append([21, 1, i, 0, tn.index(tn[i])])
    out.append([21, 1, -1, 0, -1])
    ks = [0] + ([nt - 1] if nt >= 1 else []) + [nt, nt + 1, 4294967295]
    out += [[21, 2, k, 0, 1 if k < nt else 0] for k in ks]
    out += [[21, 3, k, 0, 1 if k in ext else 0] for k in [0, 1, 2, 4294967295] + sorted(ext)]
    tsid = [t["id"] for t in tss]
    out += [[21, 4, k, 0, 1 if k in tsid else 0] for k in [0, 1, 2, 4294967295] + tsid]
    out += [[21, 5, k, 0, 1 if (pal is not None and k in pal) else 0] for k in [0, 1, 255, 256, 4294967295]]
    out.append([21, 6, nl, 0, 0])
    out += [[21, 6, -1, i, i] for i in range(nl)]
    out.append([21, 7, len(tss), 1 if not tss else 0, 0])
    out += [[21, 8, 0, 0, nl], [21, 8, 1, 0, nl - 1 if nl >= 1 else -1], [21, 8, 2, 0, 1 if nl >= 2 else -1],
            [21, 8, 3, 0, -1], [21, 8, 4, 0, -1], [21, 8, 5, 0, -1]]
    return out


def expected_cel_heads(s: dict) -> Dict[Tuple[int, int], List[int]]:
    """(frame, layer) -> [is_empty, x, y, is_tilemap] of line 23"""
    out = {}
    for f in range(len(s["durations"])):
        for l in range(len(s["layers"])):
            c = s["cels"].get((f, l))
            if c is None:
                out[(f, l)] = [1, 0, 0, 0]
            else:
                out[(f, l)] = [0, c["x"], c["y"], 1 if c["kind"] == "tilemap" else 0]
    return out


def describe(s: dict) -> dict:
    """small summary for evidence samples"""
    kinds = {}
    for c in s["cels"].values():
        kinds[c["kind"]] = kinds.get(c["kind"], 0) + 1
    return {"canvas": [s["width"], s["height"]], "depth": s["depth"], "frames": len(s["durations"]), "layers": len(s["layers"]),
            "levels": [l["level"] for l in s["layers"]], "blend": [l["blend"] for l in s["layers"]],
            "cels": kinds, "tags": len(s["tags"]), "slices": len(s["slices"]),
            "palette": None if s["palette"] is None else len(s["palette"]), "tilesets": len(s["tilesets"]), "ext": len(s["ext_files"])}
