#!/usr/bin/env python3
"""Development aid: confirm seeded changes produced in /tmp/mut_Cxx/out and run the checks against them.
For each patchK.diff: (1) in the scratch worktree: demo passes without the patch, the existing suite passes with the
patch, the demo fails with the patch; (2) apply the patch to /repo, run ./check <ids> --tier quick, restore /repo;
(3) store patch, demo, note and meta.json under /verif/seeded/<id>_<k>/.   usage: seed_all.py C02 [C04 ...]"""
import json, os, shutil, subprocess, sys, time

EXTRA = {  # neighbouring checks worth running against a change to that property
    "C02": ["C19"], "C06": ["C02"], "C04": ["C05"], "C05": ["C04"], "C09": ["C02"], "C19": ["C06"], "C08": ["C05"],
    "C17": ["C03"], "C03": ["C17"], "C01": ["C07"], "C07": ["C01"], "C10": ["C01"], "C11": ["C01"], "C13": ["C14"], "C14": ["C13"],
    "C15": ["C04"], "C16": ["C05"], "C12": ["C04"], "C18": [],
}


def sh(cmd, cwd=None, timeout=3000):
    r = subprocess.run(cmd, shell=True, cwd=cwd, stdout=subprocess.PIPE, stderr=subprocess.STDOUT, text=True, timeout=timeout)
    return r.returncode, r.stdout


def main():
    args = sys.argv[1:]
    rnd = 1
    if args and args[0] == "--round":
        rnd = int(args[1]); args = args[2:]
    for pid in args:
        wt = ("/tmp/mut_%s" if rnd == 1 else "/tmp/m2_%s") % pid
        for k in (1, 2, 3):
            patch = "%s/out/patch%d.diff" % (wt, k)
            demo = "%s/out/demo%d.rs" % (wt, k)
            if not os.path.exists(patch):
                continue
            dst = "/verif/seeded/%s_%d" % (pid, k + 2 * (rnd - 1))
            if os.path.exists(os.path.join(dst, "meta.json")):
                continue
            meta = {"property": pid, "variant": k + 2 * (rnd - 1), "round": rnd, "ran": []}
            env = "CARGO_TARGET_DIR=%s/target CARGO_NET_OFFLINE=true" % wt
            feat = " --features utils" if pid == "C18" else ""
            sh("git checkout -- . && git clean -fdq tests/demo*.rs", cwd=wt)
            if os.path.exists(demo):
                shutil.copy(demo, "%s/tests/seeddemo.rs" % wt)
                rc0, out0 = sh("%s cargo test --offline%s --test seeddemo 2>&1 | tail -5" % (env, feat), cwd=wt)
                meta["demo_without_patch"] = "pass" if "test result: ok" in out0 else "FAIL"
            rc, out = sh("git apply %s" % patch, cwd=wt)
            if rc != 0:
                meta["error"] = "patch does not apply in the worktree: " + out[-300:]
            else:
                rc1, out1 = sh("(%s cargo test --offline --lib 2>&1; %s cargo test --offline --doc 2>&1) | grep 'test result'" % (env, env), cwd=wt)
                meta["suite_with_patch"] = "pass" if out1.count("test result: ok") >= 2 and "FAILED" not in out1 else "FAIL: " + out1[-300:]
                if os.path.exists(demo):
                    rc2, out2 = sh("%s cargo test --offline%s --test seeddemo 2>&1 | tail -8" % (env, feat), cwd=wt)
                    meta["demo_with_patch"] = "fail" if ("FAILED" in out2 or "panicked" in out2 or "error" in out2.lower()) and "test result: ok" not in out2 else "PASS(unexpected)"
            sh("git checkout -- . ; rm -f tests/seeddemo.rs", cwd=wt)
            # now our checks against the change
            rc, out = sh("git -C /repo diff --quiet && git -C /repo apply %s" % patch)
            if rc != 0:
                meta["error"] = "patch does not apply to /repo: " + out[-300:]
            else:
                try:
                    for cid in [pid] + EXTRA.get(pid, []):
                        t0 = time.time()
                        rc, out = sh("cd /verif && ./check %s --tier quick 2>/dev/null | grep -E '^(VIOLATION|KNOWN-FINDING)' | head -3" % cid)
                        det = "VIOLATION" in out
                        rec = {"check": cid, "detected": det, "line": out.strip()[:300], "wall_s": round(time.time() - t0, 1)}
                        if det:
                            rp = out.split("replay=")[1].split()[0]
                            try:
                                rj = json.load(open(rp))
                                rec["replay_what"] = str(rj.get("what") or rj.get("note"))[:300]
                            except Exception:
                                pass
                        meta["ran"].append(rec)
                finally:
                    sh("git -C /repo checkout -- .")
            os.makedirs(dst, exist_ok=True)
            shutil.copy(patch, os.path.join(dst, "patch.diff"))
            if os.path.exists(demo):
                shutil.copy(demo, os.path.join(dst, "demo.rs"))
            note = "%s/out/note%d.md" % (wt, k)
            if os.path.exists(note):
                shutil.copy(note, os.path.join(dst, "note.md"))
                meta["needs"] = open(note).read()[:1500]
            json.dump(meta, open(os.path.join(dst, "meta.json"), "w"), indent=1)
            print(pid, k, meta.get("demo_without_patch"), meta.get("suite_with_patch"), meta.get("demo_with_patch"),
                  [(r["check"], r["detected"]) for r in meta["ran"]], meta.get("error", ""), flush=True)
        # restore evidence of the unchanged tree later (the caller re-runs the checks)


main()
