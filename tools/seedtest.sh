#!/bin/bash
# Development aid (never part of a registered command): apply one seeded change to /repo, run the
# given checks against it, and restore /repo.   usage: tools/seedtest.sh <patch.diff> <check id>...
set -u
patch="$1"; shift
cd /repo
if ! git diff --quiet; then echo "seedtest: /repo has uncommitted changes"; exit 2; fi
git apply "$patch" || { echo "seedtest: patch does not apply"; exit 2; }
trap 'git -C /repo checkout -- . ' EXIT
cd /verif
for id in "$@"; do
  out=$(./check "$id" --tier quick 2>/dev/null | grep -E "^(VIOLATION|KNOWN-FINDING)" | head -3)
  if [ -n "$out" ]; then echo "$id: DETECTED: $out"; else echo "$id: missed"; fi
done
