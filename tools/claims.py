# claims of MANIFEST.json (executed by mkmanifest.py)
