# claims of MANIFEST.json (executed by mkmanifest.py)
claim("C13", "Coq theorem on the free-monad reader (run_truncated lifted to the loader) + every-offset correspondence run",
      "Theorems C13_truncation / C13_extension hold for every byte string, every inflate function and every cut offset of the model's loader "
      "(any file that loads with `rest` left over fails with UnexpectedEof at every cut before the consumed length, and its consumed prefix "
      "followed by anything loads identically); the check re-proves them, then cuts generated and corpus files at every offset and compares "
      "model, implementation and the property itself.",
      "Modelled, not verified: the loader model (Parse.v/Validate.v) against src/parse.rs and the chunk decoders; cut offsets explored exhaustively only on the files of the run.",
      "DESIGN.md section 5, C13")
claim("C14", "Coq theorems on read_exact over event schedules (run_s / run_fault) + schedule and fault-injection correspondence run",
      "Theorems C14_schedule (any schedule of short reads and Interrupted results without a hard error gives the plain result, for every tree of "
      "read_exact requests, hence for the whole loader), C14_fault_offset and C14_fault_event (a hard error of kind k yields either the plain "
      "result or Err(IoError k), exactly according to whether the consumed length was reached; never another sprite, never a panic) for all inputs "
      "and schedules; the check re-proves them and drives the real library through instrumented readers (one byte at a time, random partitions, "
      "Interrupted before every read, BufReader/Cursor/chain/read_file, a hard error at every offset), comparing with the plain read and with the model.",
      "Modelled, not verified: std::io::Read::read_exact/read_to_end/Take as in Model/Sched.v; BufReader, File and byteorder are observed only.",
      "DESIGN.md section 5, C14")
claim("C09", "Coq theorems on compute_parents / the ancestor walk + exhaustive forest correspondence run",
      "Theorems C09_parent (parent = nearest preceding layer of smaller level, None at level 0, for every layer list on which compute_parents succeeds), "
      "C09_parent_lt, C09_total (succeeds on every forest; fails with InvalidInput exactly on orphan layers; never panics), C09_visible (is_visible = "
      "conjunction of the flags of the layer and all its ancestors, at any depth, loop fuel never exhausted), C09_hidden/C09_hidden_image (hidden layers "
      "contribute nothing to frame images), for all inputs; the check re-proves them and runs every forest of up to 6 (quick) / 8 (thorough) layers with "
      "every flag assignment, random forests up to 300 layers and chains up to depth 65535 against the implementation and the model.",
      "Modelled, not verified: compute_parents / is_visible / frame_row models against src/layer.rs and src/file.rs (tied by the exhaustive run).",
      "DESIGN.md section 5, C09")
claim("C18", "Coq theorems on the raw-buffer model of util.rs (all palette insertion orders) + differential run with the utils feature",
      "Theorems C18_extrude (dimensions and the clamp formula for every w,h >= 1 image), C18_lookup_transparent / _absent / _present / _last (for every "
      "insertion order of the palette entries, which covers the unspecified IntMap iteration order), C18_indexed; the check re-proves them and compares "
      "extrude_border, PaletteMapper::lookup and to_indexed_image of the real crate (release and dev) with the formula and with the model.",
      "Modelled, not verified: image::RgbaImage as a raw row-major buffer; IntMap as a finite map with arbitrary iteration order.",
      "DESIGN.md section 5, C18")
claim("C17", "Coq theorems about the blend wrapper for all 19 modes (finite sweeps only over byte-ranged helper domains) + law evaluation on rendered pixels",
      "Theorems C17_alpha, C17_src_transparent, C17_zero_opacity, C17_over_transparent, C17_normal_opaque hold for every mode id, all byte pixels and "
      "opacities with no float reasoning (proved once for the generic wrapper over any colour function preserving source alpha); C17_range_int / "
      "C17_range_soft: no overflow check, debug assertion or division by zero and every channel in 0..255 for Normal, the 14 integer modes and soft light "
      "(65536-point sweep on primitive floats); for the four HSL modes C17_range_hsl_only_failure shows the float-to-byte range check is the only possible "
      "failure and C17_range_hsl_partial assumes it passes (goal_C17_range_hsl keeps the unconditional statement visible). The check re-proves them and "
      "evaluates the laws on ~1.7 million rendered pixels per quick run in builds with overflow checks and debug assertions.",
      "Partial: the HSL range statement carries the computable guard hsl_ok. Print Assumptions lists only primitive float/int63 operations. Modelled: Model/Blend.v against src/blend.rs (tied by the pixel correspondence run).",
      "DESIGN.md section 5, C17")
claim("C03", "Coq refinement proof Model/Blend.v = Spec/AseRef.v (transcribed Aseprite C++) + pixel-exact comparison through Frame::image",
      "Theorems C03_int (Normal and the 14 integer modes: the model's blend equals the transcribed Aseprite function on packed colours for all byte pixels "
      "and opacities), C03_soft (soft light, via a 65536-point sweep of the channel function on primitive floats), C03_hsl_preclip (unconditional: both "
      "sides pass the same float triple to clip_color, including the r==g<b aliasing quirk of set_sat) and C03_hsl_partial (under the computable hsl_guard; "
      "goal_C03_hsl keeps the full statement); the check re-proves them and renders two-layer sprites enumerating channel squares, alpha squares, tie/ordering "
      "lattices and random pixels for every mode, comparing implementation = model = extracted AseRef on every pixel and recording hsl_guard on every HSL pixel.",
      "Partial: HSL bit-exactness is proved up to hsl_guard (no float error analysis). Spec/AseRef.v is trusted as the meaning of Aseprite's blend functions (parts transcribed from memory of upstream blend_funcs.cpp, see DESIGN.md Appendix E). Print Assumptions lists only primitive float/int63 operations.",
      "DESIGN.md section 5, C03")
