# claims of MANIFEST.json (executed by mkmanifest.py)
claim("C13", "Coq theorem on the free-monad reader (run_truncated lifted to the loader) + every-offset correspondence run",
      "Theorems C13_truncation / C13_extension / C13_prefix_classified / C13_prefix_never_other (every prefix of a loading file either fails with UnexpectedEof or loads as the very same sprite, decided by its length alone) hold for every byte string, every inflate function and every cut offset of the model's loader "
      "(any file that loads with `rest` left over fails with UnexpectedEof at every cut before the consumed length, and its consumed prefix "
      "followed by anything loads identically); for whole files given as chunk programs (Props/C13_e2e.v, C13_e2e_prefixes): a serialised well-formed program "
      "that satisfies the load condition loads, followed by anything, and every strict prefix of it fails with UnexpectedEof; the check re-proves them, then cuts generated and corpus files at every offset and compares "
      "model, implementation and the property itself.",
      "Modelled, not verified: the loader model (Parse.v/Validate.v) against src/parse.rs and the chunk decoders; cut offsets explored exhaustively only on the files of the run.",
      "DESIGN.md section 5, C13")
claim("C14", "Coq theorems on read_exact over event schedules (run_s / run_fault) + schedule and fault-injection correspondence run",
      "Theorems C14_schedule (any schedule of short reads and Interrupted results without a hard error gives the plain result, for every tree of "
      "read_exact requests, hence for the whole loader), C14_fault_offset and C14_fault_event (a hard error of kind k yields either the plain "
      "result or Err(IoError k), exactly according to whether the consumed length was reached; never another sprite, never a panic), with the corollaries "
      "C14_schedules_agree, C14_sched_no_panic / C14_fault_no_panic (combined with the loader's no-panic theorem) and C14_sched_ok_same (a sprite obtained through any reader is the sprite of the plain load) for all inputs "
      "and schedules; the check re-proves them and drives the real library through instrumented readers (one byte at a time, random partitions, "
      "Interrupted before every read, BufReader/Cursor/chain/read_file, a hard error at every offset), comparing with the plain read and with the model.",
      "Modelled, not verified: std::io::Read::read_exact/read_to_end/Take as in Model/Sched.v; BufReader, File and byteorder are observed only.",
      "DESIGN.md section 5, C14")
claim("C09", "Coq theorems on compute_parents / the ancestor walk + exhaustive forest correspondence run",
      "Theorems C09_parent (parent = nearest preceding layer of smaller level, None at level 0, for every layer list on which compute_parents succeeds), "
      "C09_parent_lt, C09_total (succeeds on every forest; fails with InvalidInput exactly on orphan layers; never panics), C09_visible (is_visible = "
      "conjunction of the flags of the layer and all its ancestors, at any depth, loop fuel never exhausted), C09_hidden/C09_hidden_image (hidden layers "
      "contribute nothing to frame images), for all inputs; end to end (Props/C09_e2e.v): for every serialised program that loads, Layer::parent and "
      "Layer::is_visible of the loaded sprite are the rule applied to the layer chunks of the program (C09_e2e_parent, C09_e2e_visible); the check re-proves them and runs every forest of up to 6 (quick) / 8 (thorough) layers with "
      "every flag assignment, random forests up to 300 layers and chains up to depth 65535 against the implementation and the model.",
      "Modelled, not verified: compute_parents / is_visible / frame_row models against src/layer.rs and src/file.rs (tied by the exhaustive run).",
      "DESIGN.md section 5, C09")
claim("C18", "Coq theorems on the raw-buffer model of util.rs (all palette insertion orders) + differential run with the utils feature",
      "Theorems C18_extrude (dimensions and the clamp formula for every w,h >= 1 image), C18_extrude_none_iff (fails exactly on a zero side or a buffer of the wrong length), C18_extrude_interior (interior = input), C18_extrude_edges (border rows / columns repeat their neighbours), C18_extrude_pixels_from_input (no colour is invented), C18_lookup_transparent / _absent / _present / _last (for every "
      "insertion order of the palette entries, which covers the unspecified IntMap iteration order), C18_indexed; the check re-proves them and compares "
      "extrude_border, PaletteMapper::lookup and to_indexed_image of the real crate (release and dev) with the formula and with the model.",
      "Modelled, not verified: image::RgbaImage as a raw row-major buffer; IntMap as a finite map with arbitrary iteration order.",
      "DESIGN.md section 5, C18")
claim("C17", "Coq theorems about the blend wrapper for all 19 modes, re-proved on every run for the Gallina text a translator (tools/rs2coq.py) regenerates from src/blend.rs with every i32/u8 operation overflow-checked + law evaluation on rendered pixels",
      "Theorems C17_alpha, C17_src_transparent, C17_zero_opacity, C17_over_transparent, C17_normal_opaque hold for every mode id, all byte pixels and "
      "opacities with no float reasoning (proved once for the generic wrapper over any colour function preserving source alpha); C17_range_int / "
      "C17_range_soft: no overflow check, debug assertion or division by zero and every channel in 0..255 for Normal, the 14 integer modes and soft light "
      "(65536-point sweep on primitive floats); for the four HSL modes C17_range_hsl_only_failure shows the float-to-byte range check is the only possible "
      "failure and C17_range_hsl_partial assumes it passes (goal_C17_range_hsl keeps the unconditional statement visible). Tie to the code, both ways: (a) every run "
      "translates the current src/blend.rs (and the two mode-dispatch tables of file.rs / layer.rs) to Gallina in the option monad - arithmetic checked in its Rust "
      "type, debug_assert!, division, run-time indices - and the kernel re-checks GEN_struct (what the code runs for mode id m is Normal or the wrapper `blender` "
      "around the generated baseline of that mode, None outside 0..18), GEN_baselines_shape (every generated baseline replaces the source colour, keeps its alpha and "
      "ends in normal - proved from the generated text itself, independently of what the colour functions compute, so a change that only alters colours leaves C17 "
      "proved) and C17_*_gen (the five laws; the range / no-overflow statements through complete 256 x 256 totality sweeps of the twelve generated channel functions "
      "and checked arithmetic for addition / subtract; the two guarded HSL range statements through the equality of the HSL float code with the model); (b) the laws are evaluated on ~1.7 million rendered pixels per quick run in builds with overflow checks and debug assertions.",
      "Partial: the HSL range statement carries the computable guard hsl_ok. Print Assumptions lists only primitive float/int63 operations. Trusted additionally: the translator tools/rs2coq.py and the operation semantics coq/Gen/RustSem.v (checked +,-,*,/ per integer type, wrapping shifts and casts, saturating float casts, NaN-ignoring min/max). A source change outside the translated subset, or one the static proof script no longer follows, is reported as a broken obligation (with a failing pixel when the run finds one, no-failing-input-found otherwise).",
      "DESIGN.md section 5, C17")
claim("C03", "Coq refinement proof (blend code regenerated from src/blend.rs by a translator on every run) = Model/Blend.v = Spec/AseRef.v (transcribed Aseprite C++) + pixel-exact comparison through Frame::image",
      "Theorems C03_int (Normal and the 14 integer modes: the model's blend equals the transcribed Aseprite function on packed colours for all byte pixels "
      "and opacities), C03_soft (soft light, via a 65536-point sweep of the channel function on primitive floats), C03_hsl_preclip (unconditional: both "
      "sides pass the same float triple to clip_color, including the r==g<b aliasing quirk of set_sat) and C03_hsl_partial (under the computable hsl_guard; "
      "goal_C03_hsl keeps the full statement); C03_int_gen / C03_soft_gen / C03_hsl_partial_gen state the same for the functions that tools/rs2coq.py regenerates from the "
      "current src/blend.rs, src/file.rs (blend_mode_to_blend_fn) and src/layer.rs (parse_blend_mode) on every run, through GEN_tie (generated = model for all byte "
      "inputs); the check re-translates, re-proves them and renders two-layer sprites enumerating channel squares, alpha squares, tie/ordering "
      "lattices and random pixels for every mode, comparing implementation = model = extracted AseRef on every pixel and recording hsl_guard on every HSL pixel.",
      "Partial: HSL bit-exactness is proved up to hsl_guard (no float error analysis). Spec/AseRef.v is trusted as the meaning of Aseprite's blend functions (parts transcribed from memory of upstream blend_funcs.cpp, see DESIGN.md Appendix E). Print Assumptions lists only primitive float/int63 operations. Trusted additionally: the translator tools/rs2coq.py and coq/Gen/RustSem.v (semantics of the Rust operations it emits).",
      "DESIGN.md section 5, C03")
claim("C02", "Coq per-pixel refinement proof of the renderer model against a declarative composition formula + pixel correspondence run",
      "Theorems C02_compose / C02_compose_loaded (for every file the loader accepts and every frame, the rendered image has the canvas dimensions and each "
      "pixel equals spec_pixel: a fold over the layer ids in order that blends the (link-resolved) cel pixel of each visible layer with the layer's mode and "
      "mul_un8(layer opacity, cel opacity), raw cels in the three formats and tilemap cels), C02_uncovered, C02_order / C02_order_image (cel chunk order does not "
      "matter), C02_write_raw / C02_write_tilemap (per-pixel characterisation of the two rasterisers with clipping); for all inputs, no size bound. End to end "
      "(Props/C02_e2e.v, C02_e2e_render): a serialised well-formed program that satisfies the load condition sprite_ok_ts and uses the integer modes or soft light "
      "loads, and every frame renders to a canvas-sized image of byte pixels each equal to the composition formula - bytes to pixels in one statement (C01 + C05 + "
      "C17 + C02_compose), with a non-vacuity example. The check "
      "re-proves them and compares model and implementation frame images on structured sprites (all modes, opacities, hidden groups, offsets at the i16 extremes) "
      "plus independent Python oracles (dimensions, uncovered pixels, single-visible-cel frames, the whole composition evaluated with the blend function extracted from Spec/AseRef.v, the complete opacity-product square).",
      "Modelled, not verified: Model/Render.v against src/file.rs (tied by the pixel correspondence run); image::RgbaImage as a width/height/pixel map.",
      "DESIGN.md section 5, C02")
claim("C04", "Coq proof that every Panic site of the loader model is unreachable on byte input + boundary-corruption correspondence run",
      "Theorems C04_total / C04_no_panic / C04_parse_total / C04_validate_total: for every inflate function and every byte string the model's loader returns a "
      "sprite or an error value; all index, assert, overflow and unwrap sites of parse.rs, cel.rs, layer.rs, tileset.rs, palette.rs as modelled (sites 0, 101-105) "
      "are unreachable; termination is by construction (structural recursion on the request tree, binary loop counters). The check re-proves them and loads ~27 000 "
      "malformed inputs per quick run (exhaustive single-field boundary corruption, multi-field corruption, chunk edits, truncations, hostile shapes) in the dev and "
      "relchk builds on a 2 MiB thread under a 2 GiB address-space limit, comparing the outcome class with the model.",
      "Partial: stack depth and allocator exhaustion are runtime facts observed on the implementation only; the model contributes that loading has no input-dependent recursion. The Panic inventory (DESIGN.md Appendix B) is hand-made and tied to the code by the corruption run.",
      "DESIGN.md section 5, C04")
claim("C05", "Coq invariant proof (validate establishes Valid; every accessor is total under Valid) + full API walk on every loadable corrupted input",
      "Theorems C05_valid (load Ok implies the invariant Valid: cels at their own layer index below the layer count, pixel counts = w x h, palette-complete indexed "
      "pixels, tile ids below the tile count, tileset pixel count = count x tile area, tile sizes >= 1, link targets exist and are not links, parents below children), "
      "C05_frame_image / C05_cel_image (Ok with the canvas dimensions, or only the blend-internal site 302), C05_*_plain (no residual site for the 15 non-HSL modes, "
      "through C17_range_int / C17_range_soft), C05_tilemap, C05_tile_lookup_total (any Z coordinates), C05_tile_image, C05_tileset_image, C05_layers, C05_cels, "
      "C05_struct, C05_walk (the whole observation walk); the check re-proves them and runs the complete public API walk (including Debug formatting) on every "
      "input of the corruption stream that loads, in dev and relchk builds, with full observation equality against the model.",
      "Partial: for the four HSL modes rendering totality is conditional on the float range guard (same gap as C17). Debug formatting and allocator exhaustion on documented-size results are observed, not modelled.",
      "DESIGN.md section 5, C05")
claim("C06", "Coq per-pixel proof of the cel image model (three pixel formats, links, absent cels) + independent Python pixel oracle",
      "Theorems C06_cel_pixels / C06_cel_pixels_loaded (for every loaded file and cel: canvas dimensions and each pixel = cel_spec_pixel, i.e. the stored pixel at the "
      "offset, clipped, with alpha scaled by mul_un8(layer, cel opacity); transparent elsewhere), C06_rgba / C06_gray / C06_indexed (format conversion incl. the "
      "transparent-index/background rule), C06_empty, C06_linked, C06_over_transparent (every mode over a transparent backdrop yields the source with scaled alpha); "
      "the check re-proves them, compares model and implementation cel observations and checks every cel image against a Python oracle computed from the generator's sprite.",
      "Modelled, not verified: Model/Render.v (cel_image, clone_as_rgba) against src/file.rs, src/pixel.rs.",
      "DESIGN.md section 5, C06")
claim("C08", "Coq proofs relating the three tilemap views (lookup, image, tile images) + view-consistency correspondence run",
      "Theorems C08_size (ceil division), C08_offsets, C08_lookup (stored id inside the stored area, 0 outside, for all integer coordinates), C08_tile_image_dims, "
      "C08_tileset_stacked, C08_tilemap_image, C08_image_lookup (each canvas pixel of the tilemap image is the looked-up tile's pixel with scaled alpha, transparent "
      "outside the stored area, for tile-aligned offsets); the check re-proves them and checks the same relations on the implementation's own output plus model equality.",
      "Modelled, not verified: tilemap_of / tilemap_tile / tile_image / tileset_image models against src/file.rs, src/tilemap.rs, src/tileset.rs.",
      "DESIGN.md section 5, C08")
claim("C10", "Coq invariant proof over the chunk-event state machine (owner/window rule) lifted to the loader + exhaustive chunk-sequence run",
      "Theorems C10_context_invariant, C10_attach (after any successful fold of chunk events every entity's user data is the last record of the window the "
      "declarative rule assigns to it; entities owning no record report none), C10_frame / C10_frame_rest (a record changes its owner and nothing else), "
      "C10_ignorable, C10_flags, C10_load (the same statement about the loaded file for every byte string that loads); the check re-proves them and runs every "
      "admissible chunk sequence up to length 4 (quick) / 5 (thorough) plus random ones against a Python window oracle and the model.",
      "Modelled, not verified: ParseInfo state machine model (Model/Parse.v) against src/parse.rs.",
      "DESIGN.md section 5, C10")
claim("C15", "Coq refusal lemmas per decoder lifted through the loader factorisation (framing + assembly) + feature-switch run at every position",
      "Theorems C15_propagation (a successful load implies every visited chunk was accepted by its decoder) and one loader-level theorem per feature "
      "(C15_pixel_ratio, C15_color_depth, C15_layer_type, C15_blend_mode, C15_cel_type, C15_bits_per_tile, C15_anim_direction, C15_icc_profile, C15_fixed_gamma, "
      "C15_profile_type, C15_external_tileset): if the header or any visited chunk uses the feature, load is not Ok, wherever the chunk sits; for whole serialised "
      "programs C15_program_refused (Props/C15_e2e.v): a well-formed program outside sprite_ok_ts - the exact load condition of C01_load_serialize_iff - is answered "
      "with an error value, whatever bytes follow it (non-vacuity: C15_program_refused_example, a tile id at the tile count); the check re-proves "
      "them and switches each feature on at every position of generated sprites.",
      "Modelled, not verified: framing and decoder models against src/parse.rs and the chunk parsers.",
      "DESIGN.md section 5, C15")
claim("C19", "Coq proofs that cel accessors depend only on (frame, layer) and that single-cel frames equal the cel image + three-route comparison run",
      "Theorems C19_routes / C19_accessors_agree (in the model the three Rust constructors are one function of (frame, layer), so agreement of the routes is carried "
      "by the correspondence run, which compares the three real routes field by field on non-square frame/layer counts), C19_single (a frame with exactly one visible "
      "cel renders that cel's image), C19_tilemap_image; the check re-proves them and compares the routes on the implementation.",
      "The route argument-order part of the property is decided by the correspondence run, not by the theorem (stated in DESIGN.md).",
      "DESIGN.md section 5, C19")
claim("C16", "Coq semantics of call histories and of threads sharing an immutable value (scheduler-independence theorem) + repeated/concurrent/cross-profile observation run",
      "Theorems C16_interleave / C16_schedule_independent (under any scheduler every thread that finishes holds exactly the results of running its calls alone; two "
      "complete schedules agree), C16_finished_results / C16_interleave_total / C16_finished_stable (a finished run holds the sequential results; for every family of call lists a finishing schedule exists, so the premises are never vacuous; a finished run is a fixed point of further scheduling), C16_history_pointwise / C16_history_permutation (a call's result does not depend on its position in a history); they are simple by "
      "design: the model has no mutable component, and the content of C16 is that the code refines it, which the run checks: observations repeated, after a reload, "
      "from 16 threads on one shared reference, in release and dev builds, all equal and equal to the model; the Send + Sync assertion binary must compile.",
      "Partial: Send/Sync is decided by rustc, not by Coq; data-race freedom is observed, not proved; profile independence rests on C04/C05 (no overflow site reachable) plus the dev-vs-release comparison.",
      "DESIGN.md section 5, C16")
claim("C12", "Coq theorems on the reader's buffering and the inflate size checks + an arithmetic bound for a cost function, validated by a counting allocator",
      "Theorems C12_buffered_le_input (for every request tree, hence for the whole loader and every payload decoder: the bytes the reader materialises never exceed "
      "the bytes supplied, whatever sizes the file declares), C12_buffered_consumed, C12_unzip_exact / C12_unzip_bounded (an accepted decompressed payload has exactly "
      "the declared size, is never inflated more than one byte past it, and under the recorded 1032:1 ratio is bounded by the compressed bytes), C12_take_bytes_bounded, "
      "C12_consumed_framing (whenever the framing of the loader succeeds the input paid 128 bytes for the header, 16 per frame, 6 per chunk and every payload byte), "
      "C12_bound_framing / C12_bound_loaded (for every byte string that loads, whatever it declares, the closed-form cost alloc_upper evaluated on the parameters measured "
      "on the input - entities, layer chunks, cel / tileset payload bytes - is below 64 MiB + 8192 B per input byte; the only hypothesis left is the recorded zlib ratio), "
      "C12_layer_chunks_long, C12_bound_partial (the older arithmetic form); the check re-proves them and measures "
      "peak live bytes and the largest request with a counting global allocator on inputs that inflate every declared size field, deflate bombs and count-driven tables, "
      "against both the property's bound and alloc_upper.",
      "Partial: the allocator, Vec/HashMap/BTreeMap growth and struct layout are modelled by alloc_upper and validated by measurement, not derived from the code; the byte budget itself is now derived from the framing parser (C12_bound_loaded), the constants of alloc_upper (512 B per declared frame, 256 B per entity, 6 B per inflated byte, ...) are not. A new declared-size reservation in the code is detected when an input makes the measurement exceed alloc_upper or the bound.",
      "DESIGN.md section 5, C12")
claim("C01", "Coq end-to-end theorem load(serialize s) over a whole-sprite serializer with every encoding choice + decode-after-encode theorems per chunk kind + accessor laws + structure correspondence run",
      "47 theorems: C01_header / C01_header_loaded (canvas, frame count, format, transparent index as encoded, for every value of the unused header fields), one "
      "round-trip theorem per chunk kind (layer, tags, slice with keys/9-slice/pivot, palette, external files, tileset header, user data, cel header and the four cel "
      "contents, colour profile, tilemap header; signed fields at their extremes; names any valid UTF-8; reserved fields arbitrary; any trailing bytes), the dispatcher "
      "lemmas C01_process_*, and the accessor laws C01_layer_by_name_lowest / C01_tag_by_name_lowest / C01_get_tag_range / C01_iteration / C01_layers_in_order, for all "
      "values with no size bound. End to end (Props/C01_e2e.v, 35 theorems): for every well-formed chunk program s (Spec/Serialize.v: a whole sprite with every encoding "
      "choice - junk in unused fields, chunk tails, either chunk-count field, raw or compressed cels, ignorable chunks anywhere) C01_framing_serialize, "
      "C01_assemble_serialize, C01_load_serialize (load (serialize s ++ tail) = fold of the chunk events, then validate) and C01_e2e_headline: under sprite_ok the load "
      "succeeds and reports exactly the canvas, format, frame count and durations, layers / tags / slices with keys in file order with the user data the window rule "
      "assigns, external files, palette and the cel at every (frame, layer); C01_e2e_example shows the hypotheses are satisfiable. The whole-file tie to the code is the "
      "correspondence run, which compares the implementation's complete STRUCT observation with the expectation computed from the generator's sprite and with the model "
      "on value-swept structured sprites and the corpus.",
      "C01_e2e_headline_ts / C01_load_serialize_total_ts (Proofs/EndToEndTotalTs.v) state the same for programs WITH tileset chunks, tilemap layers and tilemap cels "
      "(sprite_ok_ts: the last tileset chunk of every id carries pixels that validate, every tilemap layer names an id that has a chunk, every tilemap cel lies on a tilemap "
      "layer with its largest tile id below that tileset's tile count), adding the content of every cel and the tileset under every id to the reported values; "
      "C01_load_serialize_iff: a serialised well-formed program loads exactly when sprite_ok_ts holds (the conditions are necessary too - C01_fold_ok_inv and the inversion of validate), C01_sprite_ok_special_case shows sprite_ok is the tile-free special case, C01_e2e_tilesets_example_ok that the tile conditions are satisfiable. "
      "Modelled, not verified: decoders of Model/Chunks.v against the chunk parsers in src/ (tied by the correspondence run).",
      "DESIGN.md section 5, C01")
claim("C11", "Coq theorems for the three palette decoders (functional specs, finite 6-bit sweep), precedence and completeness + palette-program correspondence run",
      "20 theorems: C11_new (one entry per index of the stored range with the stored RGBA and optional name, nothing outside), C11_old / C11_old_last_wins / C11_old_single / "
      "C11_old_offsets (legacy chunks: ids at the cumulative skip offsets, alpha 255, count byte 0 = 256, later packets overwrite), C11_scale (0..63 -> c*4 + c/16, 0 -> 0, "
      "63 -> 255, strictly monotone, >= 64 refused; 64-value sweep), C11_precedence_* (new wins in either order), C11_complete_* (indexed pixels without a palette or with "
      "an index absent from it make validation and the load fail); the check re-proves them and runs palette programs (every 6-bit value, packet structures, ranges, both "
      "orders, missing indices in raw cels / zlib cels / tilesets) against a Python expectation and the model, in release and dev builds.",
      "Modelled, not verified: dec_palette / dec_old_palette / validate_pixels against src/palette.rs, src/pixel.rs.",
      "DESIGN.md section 5, C11")
claim("C07", "Coq equality theorems, one per encoding choice, up to load level through the factorisation + metamorphic encoding run",
      "61 theorems: C07_trailer (bytes after the last frame), C07_ignorable_chunk_* and C07_color_profile_chunk_* (inserting a cel-extra / mask / path / sRGB or "
      "none profile chunk anywhere: equal `load` on the encoded files), C07_chunk_tail_* (extra bytes at the end of any chunk; for compressed payloads under the "
      "explicit premise that inflate ignores bytes after the stream), C07_unused_* (every reserved / unused field of the header and of each chunk kind), "
      "C07_pixel_ratio (any ratio with a zero component or 1:1), C07_count_field_* (old-only, both, new-only chunk count), C07_raw_vs_zlib* and C07_zlib_stream_* "
      "(raw vs compressed storage, any compression level: only `inflate z = raw` is assumed), C07_legacy_palette*, C07_cel_order*; for all sprites and all values. "
      "The check re-proves them and encodes each generated sprite under several random vectors of these choices, requiring identical whole-API observations on the "
      "implementation and equality with the model.",
      "Assumed about zlib (recorded, checked at run time by using flate2 itself as the oracle): trailing bytes after a zlib stream are ignored. Modelled, not verified: as C01.",
      "DESIGN.md section 5, C07")
