# claims of MANIFEST.json (executed by mkmanifest.py)
claim("C13", "Coq theorem on the free-monad reader (run_truncated lifted to the loader) + every-offset correspondence run",
      "Theorems C13_truncation / C13_extension hold for every byte string, every inflate function and every cut offset of the model's loader "
      "(any file that loads with `rest` left over fails with UnexpectedEof at every cut before the consumed length, and its consumed prefix "
      "followed by anything loads identically); the check re-proves them, then cuts generated and corpus files at every offset and compares "
      "model, implementation and the property itself.",
      "Modelled, not verified: the loader model (Parse.v/Validate.v) against src/parse.rs and the chunk decoders; cut offsets explored exhaustively only on the files of the run.",
      "DESIGN.md section 5, C13")
claim("C14", "Coq theorems on read_exact over event schedules (run_s / run_fault) + schedule and fault-injection correspondence run",
      "Theorems C14_schedule (any schedule of short reads and Interrupted results without a hard error gives the plain result, for every tree of "
      "read_exact requests, hence for the whole loader), C14_fault_offset and C14_fault_event (a hard error of kind k yields either the plain "
      "result or Err(IoError k), exactly according to whether the consumed length was reached; never another sprite, never a panic) for all inputs "
      "and schedules; the check re-proves them and drives the real library through instrumented readers (one byte at a time, random partitions, "
      "Interrupted before every read, BufReader/Cursor/chain/read_file, a hard error at every offset), comparing with the plain read and with the model.",
      "Modelled, not verified: std::io::Read::read_exact/read_to_end/Take as in Model/Sched.v; BufReader, File and byteorder are observed only.",
      "DESIGN.md section 5, C14")
