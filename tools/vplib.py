"""vplib.py -- shared machinery of the checks: builds, drivers, observation parsing,
Coq obligations, evidence, verdicts.  Standard library only."""
from __future__ import annotations

import fcntl
import json
import os
import re
import shutil
import subprocess
import sys
import tempfile
import time
from concurrent.futures import ThreadPoolExecutor
from typing import Dict, Iterable, List, Optional, Sequence, Tuple

VERIF = "/verif"
# Development aid only (tools/seed_round.py runs the checks against scratch worktrees in parallel): the three
# variables below redirect the checks to another copy of the repository.  The registered commands never set them.
REPO = os.environ.get("VERIF_REPO", "/repo")
OUT = os.environ.get("VERIF_OUT", VERIF)                      # evidence/ and replay/ are written under OUT
BUILD = os.path.join(VERIF, ".build")
CARGO_TARGET = os.environ.get("VERIF_CARGO_TARGET", os.path.join(BUILD, "cargo"))
OCAML_DIR = os.path.join(BUILD, "ocaml")
MODEL_DRIVER = os.path.join(OCAML_DIR, "model_driver")
COQ = os.path.join(VERIF, "coq")
NCPU = min(16, os.cpu_count() or 4)

PROFILE_DIR = {"dev": "debug", "relchk": "relchk", "release": "release"}

ENV = dict(os.environ)
ENV.update({"CARGO_NET_OFFLINE": "true", "CARGO_TARGET_DIR": CARGO_TARGET,
            "VERIF_ZORACLE": os.path.join(CARGO_TARGET, "release", "zoracle")})


def log(msg: str) -> None:
    print("[check] " + msg, file=sys.stderr, flush=True)


class Lock:
    def __init__(self, name="lock"):
        os.makedirs(BUILD, exist_ok=True)
        self.path = os.path.join(BUILD, name)

    def __enter__(self):
        self.f = open(self.path, "w")
        fcntl.flock(self.f, fcntl.LOCK_EX)
        return self

    def __exit__(self, *a):
        fcntl.flock(self.f, fcntl.LOCK_UN)
        self.f.close()


# --------------------------------------------------------------------------
# builds
# --------------------------------------------------------------------------
def harness_dir() -> str:
    hd = os.path.join(VERIF, "harness")
    if REPO == "/repo":
        return hd
    # scratch copy of the harness whose path dependency points at the scratch repository
    d = os.path.join(CARGO_TARGET, "harness_src")
    if os.path.exists(d):
        shutil.rmtree(d)
    shutil.copytree(hd, d)
    t = open(os.path.join(d, "Cargo.toml")).read().replace('path = "/repo"', 'path = "%s"' % REPO)
    open(os.path.join(d, "Cargo.toml"), "w").write(t)
    return d


def cargo_lock_name() -> str:
    return "cargo.lock" if REPO == "/repo" else "cargo_%s.lock" % re.sub(r"\W", "_", CARGO_TARGET)


def build_harness(profiles: Sequence[str]) -> None:
    """cargo build of the harness (and therefore of /repo's current working tree)."""
    with Lock(cargo_lock_name()):
        hd = harness_dir()
        shutil.copyfile(os.path.join(REPO, "Cargo.lock"), os.path.join(hd, "Cargo.lock"))
        for p in profiles:
            args = ["cargo", "build", "--offline", "-q", "--bin", "impl_driver", "--bin", "zoracle"]
            if p == "release":
                args.append("--release")
            elif p != "dev":
                args += ["--profile", p]
            t0 = time.time()
            r = subprocess.run(args, cwd=hd, env=ENV, stdout=subprocess.PIPE, stderr=subprocess.PIPE, text=True,
                               timeout=1800)
            if r.returncode != 0:
                raise BuildError("cargo build (%s) failed:\n%s" % (p, r.stderr[-4000:]))
            log("harness %s built in %.1fs" % (p, time.time() - t0))


class BuildError(Exception):
    pass


def build_sendsync() -> Tuple[bool, str]:
    """compile-time assertion AsepriteFile: Send + Sync (a two-line binary of its own)"""
    with Lock(cargo_lock_name()):
        hd = harness_dir()
        r = subprocess.run(["cargo", "build", "--offline", "-q", "--bin", "sendsync"], cwd=hd, env=ENV, stdout=subprocess.PIPE,
                           stderr=subprocess.PIPE, text=True, timeout=1800)
    return r.returncode == 0, r.stderr[-3000:]


def impl_driver(profile: str) -> str:
    return os.path.join(CARGO_TARGET, PROFILE_DIR[profile], "impl_driver")


def build_model() -> None:
    with Lock("coq.lock"):
        r = subprocess.run([os.path.join(VERIF, "tools", "build_model.sh")], stdout=subprocess.PIPE,
                           stderr=subprocess.STDOUT, text=True, timeout=4000)
        if r.returncode != 0 or "build_model: ok" not in r.stdout:
            raise BuildError("model build failed:\n" + r.stdout[-6000:])


# --------------------------------------------------------------------------
# Coq obligations
# --------------------------------------------------------------------------
FORBIDDEN = re.compile(r"\b(Admitted|admit|Axiom|Axioms|Parameter|Parameters|Conjecture|Conjectures|Abort All)\b|"
                       r"Unset\s+Guard|Unset\s+Positivity|Unset\s+Universe|bypass_check|Admit\s+Obligations|"
                       r"-type-in-type|-impredicative-set|native_compute")

ALLOWED_AXIOM_PREFIXES = (
    # primitive types and operations of the standard library (Floats, Uint63): not axioms of ours
    "PrimFloat.", "Uint63.", "Coq.Floats.", "Coq.Numbers.Cyclic.Int63.", "Float", "float", "int",
    "PrimInt63.", "Sint63.",
)


def strip_comments(text: str) -> str:
    out, depth, i = [], 0, 0
    while i < len(text):
        if text.startswith("(*", i):
            depth += 1
            i += 2
        elif text.startswith("*)", i) and depth > 0:
            depth -= 1
            i += 2
        else:
            if depth == 0:
                out.append(text[i])
            i += 1
    return "".join(out)


def grep_forbidden() -> List[str]:
    bad = []
    for root, _d, files in os.walk(COQ):
        for fn in files:
            if not fn.endswith(".v"):
                continue
            p = os.path.join(root, fn)
            src = strip_comments(open(p).read())
            for m in FORBIDDEN.finditer(src):
                line = src.count("\n", 0, m.start()) + 1
                bad.append("%s:%d: %s" % (os.path.relpath(p, COQ), line, m.group(0)))
            # Variable / Hypothesis outside a section
            depth = 0
            for ln, l in enumerate(src.split("\n"), 1):
                s = l.strip()
                if re.match(r"Section\s+\w+\s*\.", s):
                    depth += 1
                elif re.match(r"End\s+\w+\s*\.", s) and depth > 0:
                    depth -= 1
                elif depth == 0 and re.match(r"(Variable|Variables|Hypothesis|Hypotheses|Context)\b", s):
                    bad.append("%s:%d: %s outside a section" % (os.path.relpath(p, COQ), ln, s.split()[0]))
    return bad


# a property theorem: `Theorem name : statement. Proof. exact lemma. Qed.` where lemma is a (qualified, possibly @-prefixed) name or a
# `conj` of such names; the statement may not contain another `Proof.` (one match cannot swallow a theorem proved differently)
PROPS_THEOREM = (r"(Theorem|Lemma)\s+\w+\s*:(?:(?!\bProof\.).)*?\.\s*Proof\.\s*exact\s+"
                 r"(?:@?[A-Za-z_][\w.']*|\((?:conj|[A-Za-z_][\w.']*|[\s()])*\))\s*\.\s*Qed\.")


class Obligations:
    """Result of compiling Props/<ID>.v: theorems, their assumptions."""
    def __init__(self):
        self.theorems: List[str] = []
        self.assumptions: Dict[str, List[str]] = {}
        self.errors: List[str] = []
        self.checker_cmd = ""
        self.wall = 0.0

    @property
    def ok(self) -> bool:
        return not self.errors and bool(self.theorems)


def check_obligations(prop_id: str, expected: Sequence[str] = (), extra_files: Sequence[str] = ()) -> Obligations:
    ob = _check_obligations_one(prop_id, prop_id, expected)
    for x in extra_files:
        o2 = _check_obligations_one(prop_id, x, ())
        ob.theorems += o2.theorems
        ob.assumptions.update(o2.assumptions)
        ob.errors += o2.errors
        ob.wall += o2.wall
        ob.checker_cmd += " && coqc Props/%s.v" % x
    return ob


def _check_obligations_one(prop_id: str, file_id: str, expected: Sequence[str] = ()) -> Obligations:
    """Full make of the development, then recompile Props/<ID>.v and read Print Assumptions."""
    ob = Obligations()
    t0 = time.time()
    try:
        build_model()
    except BuildError as e:
        ob.errors.append(str(e))
        ob.wall = time.time() - t0
        return ob
    vfile = os.path.join(COQ, "Props", file_id + ".v")
    ob.checker_cmd = "make -C /verif/coq (full .vo build) && coqc -Q /verif/coq Ase Props/%s.v (Print Assumptions)" % file_id
    if not os.path.exists(vfile):
        ob.errors.append("Props/%s.v is missing" % file_id)
        return ob
    bad = grep_forbidden()
    if bad:
        ob.errors.append("forbidden constructs: " + "; ".join(bad[:10]))
    src = strip_comments(open(vfile).read())
    # the property file may contain only imports, Theorem/Proof. exact/Qed, Check, Print Assumptions
    body = re.sub(PROPS_THEOREM, "", src, flags=re.S)
    body = re.sub(r"(From\s+\S+\s+)?Require\s+(Import|Export)\s+([A-Za-z_][\w.]*\s+)*[A-Za-z_][\w.]*?\.(?=\s|$)", "", body)
    body = re.sub(r"Print\s+Assumptions\s+\w+\s*\.", "", body)
    body = re.sub(r"Check\s+[^.]*\.", "", body)
    body = re.sub(r"(Import|Export|Open Scope|Local Open Scope)\s+[^.]*\.", "", body)
    if body.strip():
        ob.errors.append("Props/%s.v contains something other than theorems closed by exact: %r" % (file_id, body.strip()[:200]))
    ob.theorems = re.findall(r"(?:Theorem|Lemma)\s+(\w+)\s*:", src)
    with tempfile.TemporaryDirectory(prefix="vp_props_") as td:
        r = subprocess.run(["coqc", "-Q", COQ, "Ase", "-w", "-all", "-o", os.path.join(td, file_id + ".vo"), vfile],
                           stdout=subprocess.PIPE, stderr=subprocess.STDOUT, text=True, timeout=1800)
    if r.returncode != 0:
        ob.errors.append("coqc Props/%s.v failed: %s" % (file_id, r.stdout[-3000:]))
        ob.wall = time.time() - t0
        return ob
    # Print Assumptions output blocks, in order of the Print commands
    order = re.findall(r"Print\s+Assumptions\s+(\w+)\s*\.", src)
    blocks = re.split(r"(?m)^(?=Closed under the global context|Axioms:)", r.stdout)
    blocks = [b for b in blocks if b.startswith("Closed under") or b.startswith("Axioms:")]
    if len(blocks) != len(order):
        ob.errors.append("could not match Print Assumptions output (%d blocks, %d commands)" % (len(blocks), len(order)))
    for name, b in zip(order, blocks):
        if b.startswith("Closed under"):
            ob.assumptions[name] = []
        else:
            ax = re.findall(r"(?m)^([A-Za-z_][\w.']*)\s*:", b[len("Axioms:"):])
            ob.assumptions[name] = ax
            for a in ax:
                if not a.startswith(ALLOWED_AXIOM_PREFIXES):
                    ob.errors.append("theorem %s depends on axiom %s" % (name, a))
    for t in ob.theorems:
        if t not in ob.assumptions:
            ob.errors.append("no Print Assumptions for theorem %s" % t)
    for t in expected:
        if t not in ob.theorems:
            ob.errors.append("expected theorem %s is missing from Props/%s.v" % (t, file_id))
    ob.wall = time.time() - t0
    return ob


# --------------------------------------------------------------------------
# running drivers
# --------------------------------------------------------------------------
Block = List[List[int]]


def parse_blocks(text: str, n: int) -> List[Optional[Tuple[Block, List[str]]]]:
    """Split driver output into per-input blocks; None for blocks that were never closed."""
    res: List[Optional[Tuple[Block, List[str]]]] = [None] * n
    cur = None
    lines: Block = []
    comments: List[str] = []
    for l in text.split("\n"):
        if l.startswith("#BEGIN "):
            cur = int(l[7:])
            lines, comments = [], []
        elif l.startswith("#END "):
            if cur is not None and cur < n:
                res[cur] = (lines, comments)
            cur = None
        elif l.startswith("#"):
            comments.append(l)
        elif l and cur is not None:
            try:
                lines.append([int(x) for x in l.split()])
            except ValueError:
                comments.append("# unparsable: " + l[:80])
    return res


def _run_one(cmd: List[str], items: List[str], workdir: str, tag: str, timeout: float, mem_kb: Optional[int],
             model: bool, extra_env: Optional[dict] = None) -> List[Optional[Tuple[Block, List[str]]]]:
    """Run cmd on a list file holding `items`; restart after a lost block (abort, timeout)."""
    out: List[Optional[Tuple[Block, List[str]]]] = [None] * len(items)
    start = 0
    attempt = 0
    while start < len(items):
        lf = os.path.join(workdir, "%s_%d.lst" % (tag, attempt))
        attempt += 1
        with open(lf, "w") as f:
            f.write("\n".join(items[start:]) + "\n")
        pre = "ulimit -s unlimited 2>/dev/null; " if model else ""
        if mem_kb:
            pre += "ulimit -v %d; " % mem_kb
        sh = pre + "exec " + " ".join(cmd + [lf])
        try:
            env = ENV if not extra_env else dict(ENV, **extra_env)
            r = subprocess.run(["bash", "-c", sh], stdout=subprocess.PIPE, stderr=subprocess.PIPE, env=env,
                               timeout=timeout)
            text = r.stdout.decode("utf-8", "replace")
            status = "exit %d" % r.returncode
        except subprocess.TimeoutExpired as e:
            text = (e.stdout or b"").decode("utf-8", "replace")
            status = "timeout"
        blocks = parse_blocks(text, len(items) - start)
        done = 0
        for b in blocks:
            if b is None:
                break
            out[start + done] = b
            done += 1
        if start + done >= len(items):
            break
        # the process died inside block `start + done`
        out[start + done] = ([[1, 9]], ["# worker lost (%s)" % status])
        start = start + done + 1
    return out


def run_sharded(cmd: List[str], items: List[str], workdir: str, tag: str, shards: int = NCPU,
                timeout: float = 900, mem_kb: Optional[int] = None, model: bool = False, extra_env: Optional[dict] = None):
    if not items:
        return []
    shards = max(1, min(shards, len(items)))
    parts: List[List[int]] = [[] for _ in range(shards)]
    for i in range(len(items)):
        parts[i % shards].append(i)
    results: List[Optional[Tuple[Block, List[str]]]] = [None] * len(items)

    def work(k):
        idx = parts[k]
        r = _run_one(cmd, [items[i] for i in idx], workdir, "%s_s%d" % (tag, k), timeout, mem_kb, model, extra_env)
        for i, b in zip(idx, r):
            results[i] = b
    with ThreadPoolExecutor(max_workers=shards) as ex:
        list(ex.map(work, range(shards)))
    return results


def impl_observe(profile: str, paths: List[str], workdir: str, level: int, max_frames=None, max_layers=None,
                 timeout: float = 900, mem_kb: Optional[int] = 4000000, tag="impl", fresh_threads: bool = False, shards: int = NCPU,
                 extra_env: Optional[dict] = None):
    """By default the inputs of one shard are loaded and observed one after the other on ONE thread of the driver (state
    kept between loads shows up); fresh_threads=True gives every input a thread of its own (the isolated reference)."""
    cmd = [impl_driver(profile), "observe", "--level", str(level)]
    if max_frames is not None:
        cmd += ["--max-frames", str(max_frames)]
    if max_layers is not None:
        cmd += ["--max-layers", str(max_layers)]
    env = dict(extra_env or {})
    if fresh_threads:
        env["VERIF_FRESH_THREADS"] = "1"
    return run_sharded(cmd, paths, workdir, tag + "_" + profile, timeout=timeout, mem_kb=mem_kb, shards=shards, extra_env=env or None)


def model_observe(paths: List[str], workdir: str, level: int, max_frames=None, max_layers=None,
                  timeout: float = 1800, tag="model"):
    cmd = [MODEL_DRIVER, "observe", "--level", str(level & 15)]
    if max_frames is not None:
        cmd += ["--max-frames", str(max_frames)]
    if max_layers is not None:
        cmd += ["--max-layers", str(max_layers)]
    return run_sharded(cmd, paths, workdir, tag, timeout=timeout, mem_kb=None, model=True)


def outcome(block) -> int:
    """0 loaded, 1..4 error class, 9 panic / lost, -1 unknown"""
    if block is None:
        return 9
    lines = block[0]
    if lines and lines[0] and lines[0][0] == 1:
        return lines[0][1]
    return -1


def outcome_class(c: int) -> str:
    return "ok" if c == 0 else ("err" if 1 <= c <= 4 else "panic")


def section_panic(block) -> Optional[int]:
    if block is None:
        return None
    for l in block[0]:
        if l and l[0] == 99:
            return l[1]
    return None


def lines_of(block, kinds: Iterable[int]) -> Block:
    ks = set(kinds)
    return [l for l in block[0] if l and l[0] in ks]


def first_diff(a: Block, b: Block) -> Optional[str]:
    for i, (x, y) in enumerate(zip(a, b)):
        if x != y:
            j = next((k for k, (p, q) in enumerate(zip(x, y)) if p != q), min(len(x), len(y)))
            return "line %d (kind %s): word %d: impl %s / model %s (lens %d/%d)" % (
                i, x[0] if x else "?", j, x[j] if j < len(x) else "-", y[j] if j < len(y) else "-", len(x), len(y))
    if len(a) != len(b):
        k = min(len(a), len(b))
        extra = (a[k] if len(a) > len(b) else b[k])[:8]
        return "line count %d vs %d; first extra line starts %s" % (len(a), len(b), extra)
    return None


# --------------------------------------------------------------------------
# known findings, evidence, verdict
# --------------------------------------------------------------------------
def load_known() -> List[dict]:
    p = os.path.join(VERIF, "known_findings.json")
    if not os.path.exists(p):
        return []
    return json.load(open(p)).get("findings", [])


class Verdict:
    def __init__(self, prop_id: str, tier: str, seed: int, level: str):
        self.prop_id, self.tier, self.seed, self.level = prop_id, tier, seed, level
        self.t0 = time.time()
        self.violations: List[Tuple[str, str]] = []      # (replay path, tail words)
        self.known_hits: List[str] = []
        self.coverage: dict = {}
        self.assumptions: List[str] = []
        self.replay_dir = os.path.join(OUT, "replay")
        os.makedirs(self.replay_dir, exist_ok=True)

    def violation(self, name: str, payload: dict, data: Optional[bytes] = None, no_input: bool = False) -> str:
        base = os.path.join(self.replay_dir, "%s_%s_%d" % (self.prop_id, name, len(self.violations)))
        payload = dict(payload)
        payload.update({"property": self.prop_id, "tier": self.tier, "seed": self.seed})
        if data is not None:
            with open(base + ".aseprite", "wb") as f:
                f.write(data)
            payload["input_file"] = base + ".aseprite"
        with open(base + ".json", "w") as f:
            json.dump(payload, f, indent=1, default=str)
        self.violations.append((base + ".json", " no-failing-input-found" if no_input else ""))
        return base + ".json"

    def known(self, what: str) -> None:
        self.known_hits.append(what)

    def finish(self) -> int:
        ev = {
            "property_id": self.prop_id, "tier": self.tier, "seed": self.seed, "level": self.level,
            "coverage": self.coverage, "assumptions": self.assumptions,
            "wall_s": round(time.time() - self.t0, 2), "violations": len(self.violations),
        }
        os.makedirs(os.path.join(OUT, "evidence"), exist_ok=True)
        with open(os.path.join(OUT, "evidence", self.prop_id + ".json"), "w") as f:
            json.dump(ev, f, indent=1, default=str)
        for k in self.known_hits:
            print("KNOWN-FINDING: property=%s %s" % (self.prop_id, k))
        for path, tail in self.violations:
            print("VIOLATION property=%s replay=%s%s" % (self.prop_id, path, tail))
        sys.stdout.flush()
        return 1 if self.violations else 0


def obligations_coverage(ob: Obligations) -> dict:
    return {
        "obligations": len(ob.theorems),
        "discharged": len(ob.theorems) if ob.ok else max(0, len(ob.theorems) - len(ob.errors)),
        "checker_cmd": ob.checker_cmd,
        "theorems": ob.theorems,
        "axioms": {k: v for k, v in ob.assumptions.items() if v},
        "obligation_errors": ob.errors[:10],
        "obligations_wall_s": round(ob.wall, 1),
    }


TRUSTED_BASE = [
    "Coq 8.16.1 kernel (coqc; vm_compute in finite sweeps; no native_compute)",
    "no axioms declared by the development; Print Assumptions checked per theorem (primitive float/int63 operations only where listed)",
    "hand-written Gallina model of /repo/src tied to the code by the correspondence run of this check (differential testing)",
    "extraction to OCaml (ExtrOcamlBasic, ExtrOCamlFloats, ExtrOCamlInt63 only) and driver/main.ml glue",
    "zlib inflate is an uninterpreted function in the theorems and flate2 itself (zoracle) at run time",
    "harness/*.rs observation printer and tools/*.py generators, differ and direct evaluators",
]


# --------------------------------------------------------------------------
# the translated blend code (tools/rs2coq.py): regenerate from /repo, re-prove the tie
# --------------------------------------------------------------------------
GEN_DIR = os.path.join(BUILD, "gen")
# static proof files about the generated text, in dependency order; what each property's check needs
GEN_CHAIN = {
    # C17 does not depend on what the colour functions compute (BlendGenStruct.v), except for the guarded HSL range statements
    "C17": ["BlendGenBase.v", "BlendGenTotal.v", "BlendGenStruct.v", "BlendGenEqHsl.v", "BlendGenPropsC17.v"],
    "C03": ["BlendGenBase.v", "BlendGenTotal.v", "BlendGenStruct.v", "BlendGenEqHsl.v", "BlendGenEq.v", "BlendGenPropsC03.v"],
}
GEN_ALL = ["BlendGenBase.v", "BlendGenTotal.v", "BlendGenStruct.v", "BlendGenEqHsl.v", "BlendGenEq.v", "BlendGenPropsC17.v", "BlendGenPropsC03.v"]


def _enclosing_lemma(vfile: str, line: int) -> str:
    name = "?"
    try:
        for ln, l in enumerate(open(vfile), 1):
            if ln > line:
                break
            m = re.match(r"\s*(?:Lemma|Theorem|Definition|Ltac|Example)\s+(\w+)", l)
            if m:
                name = m.group(1)
    except OSError:
        pass
    return name


def gen_blend_obligations(prop: str = "C03") -> Obligations:
    """Translate /repo/src/blend.rs (+ the two dispatch tables) to Gallina (tools/rs2coq.py, on every call), then compile the
    result and the static proof files of GEN_CHAIN[prop] that tie it to Model/Blend.v and restate the property's theorems for
    the generated functions.  Compiled files are kept in a directory named by the content hash of (generated text, proof
    sources, every .v of the development), so an unchanged blend.rs costs a fraction of a second."""
    import hashlib
    ob = Obligations()
    t0 = time.time()
    chain = GEN_CHAIN[prop]
    ob.checker_cmd = ("python3 tools/rs2coq.py /repo/src BlendGen.v && coqc -Q /verif/coq Ase -Q . AseGen BlendGen.v %s "
                      "(Print Assumptions; compiled files cached by content hash)" % " ".join(chain))
    try:
        build_model()
    except BuildError as e:
        ob.errors.append(str(e))
        return ob
    os.makedirs(GEN_DIR, exist_ok=True)
    props_file = chain[-1]
    src = strip_comments(open(os.path.join(COQ, "Gen", props_file)).read())
    ob.theorems = re.findall(r"(?:Theorem|Lemma)\s+(\w+)\s*:", src)
    with tempfile.TemporaryDirectory(prefix="tr_", dir=GEN_DIR) as td:
        out = os.path.join(td, "BlendGen.v")
        r = subprocess.run([sys.executable, os.path.join(VERIF, "tools", "rs2coq.py"), os.path.join(REPO, "src"), out],
                           stdout=subprocess.PIPE, stderr=subprocess.STDOUT, text=True, timeout=120)
        if r.returncode != 0 or not os.path.exists(out):
            ob.errors.append("GEN (all generated-code theorems): src/blend.rs is outside the subset tools/rs2coq.py translates (%s); the "
                             "theorems cannot be re-checked against the current source" % r.stdout.strip()[-400:])
            ob.wall = time.time() - t0
            return ob
        gen_text = open(out).read()
    h = hashlib.sha256(gen_text.encode())
    for fn in GEN_ALL:
        h.update(open(os.path.join(COQ, "Gen", fn), "rb").read())
    for root, _d, files in sorted(os.walk(COQ)):
        for fn in sorted(files):
            if fn.endswith(".v"):
                h.update(open(os.path.join(root, fn), "rb").read())
    key = h.hexdigest()[:24]
    wd = os.path.join(GEN_DIR, "k_" + key)
    with Lock("gen.lock"):
        os.makedirs(wd, exist_ok=True)
        # keep the three most recent work directories
        olds = sorted((d for d in os.listdir(GEN_DIR) if d.startswith("k_") and d != "k_" + key),
                      key=lambda d: os.path.getmtime(os.path.join(GEN_DIR, d)))
        for d in olds[:-3]:
            shutil.rmtree(os.path.join(GEN_DIR, d), ignore_errors=True)
        with open(os.path.join(wd, "BlendGen.v"), "w") as f:
            f.write(gen_text)
        shutil.copyfile(os.path.join(wd, "BlendGen.v"), os.path.join(GEN_DIR, "BlendGen.last.v"))
        res_file = os.path.join(wd, props_file + ".json")
        if os.path.exists(res_file):
            c = json.load(open(res_file))
            ob.assumptions, ob.errors = c["assumptions"], c["errors"]
            ob.wall = time.time() - t0
            ob.checker_cmd += " [cache hit %s]" % key
            return ob
        log_all = ""
        for fn in ["BlendGen.v"] + chain:
            vo = os.path.join(wd, fn[:-2] + ".vo")
            failed = os.path.join(wd, fn + ".failed")
            if fn != "BlendGen.v":
                shutil.copyfile(os.path.join(COQ, "Gen", fn), os.path.join(wd, fn))
            if os.path.exists(vo) and fn != props_file:
                continue
            if os.path.exists(failed):
                ob.errors.append(open(failed).read())
                break
            try:
                r = subprocess.run(["coqc", "-Q", COQ, "Ase", "-Q", wd, "AseGen", "-w", "-all", os.path.join(wd, fn)],
                                   stdout=subprocess.PIPE, stderr=subprocess.STDOUT, text=True, timeout=1500, cwd=wd)
                rc, text = r.returncode, r.stdout
            except subprocess.TimeoutExpired:
                rc, text = 124, "coqc timed out"
            if rc != 0:
                m = re.search(r'line (\d+)', text)
                where = _enclosing_lemma(os.path.join(wd, fn), int(m.group(1))) if m else "?"
                msg = "generated-code obligation %s in Gen/%s no longer checks: %s" % (where, fn, text.strip()[-600:])
                ob.errors.append(msg)
                open(failed, "w").write(msg)
                break
            log_all = text
        if not ob.errors:
            order = re.findall(r"Print\s+Assumptions\s+(\w+)\s*\.", src)
            blocks = [b for b in re.split(r"(?m)^(?=Closed under the global context|Axioms:)", log_all)
                      if b.startswith("Closed under") or b.startswith("Axioms:")]
            if len(blocks) != len(order) or set(order) != set(ob.theorems):
                ob.errors.append("could not match Print Assumptions output of Gen/%s" % props_file)
            for name, b in zip(order, blocks):
                ax = [] if b.startswith("Closed under") else re.findall(r"(?m)^([A-Za-z_][\w.']*)\s*:", b[len("Axioms:"):])
                ob.assumptions[name] = ax
                for a in ax:
                    if not a.startswith(ALLOWED_AXIOM_PREFIXES):
                        ob.errors.append("theorem %s depends on axiom %s" % (name, a))
            body = re.sub(PROPS_THEOREM, "", src, flags=re.S)
            body = re.sub(r"(From\s+\S+\s+)?Require\s+(Import\s+|Export\s+)?([A-Za-z_][\w.]*\s+)*[A-Za-z_][\w.]*?\.(?=\s|$)", "", body)
            body = re.sub(r"Print\s+Assumptions\s+\w+\s*\.", "", body)
            if body.strip():
                ob.errors.append("Gen/%s contains something other than theorems closed by exact: %r" % (props_file, body.strip()[:200]))
        bad = grep_forbidden()
        if bad:
            ob.errors.append("forbidden constructs: " + "; ".join(bad[:10]))
        tmp = res_file + ".tmp%d" % os.getpid()
        json.dump({"assumptions": ob.assumptions, "errors": ob.errors}, open(tmp, "w"))
        os.replace(tmp, res_file)
    ob.wall = time.time() - t0
    return ob


def merge_obligations(ob: Obligations, extra: Obligations) -> Obligations:
    ob.theorems += extra.theorems
    ob.assumptions.update(extra.assumptions)
    ob.errors += extra.errors
    ob.wall += extra.wall
    ob.checker_cmd += " && " + extra.checker_cmd
    return ob
