"""checks.py -- one check per property.  Each check = Coq obligations + correspondence run
(model vs implementation on the same inputs) + direct evaluation of the property on the
implementation's output.  See DESIGN.md section 2."""
from __future__ import annotations

import glob
import hashlib
import json
import os
import random
import shutil
import subprocess
import sys
import tempfile
import time
from collections import Counter
from typing import Callable, Dict, List, Optional, Tuple

import ase
import gen
import vplib
from vplib import Verdict, log, outcome, outcome_class, lines_of, first_diff

CORPUS_DIRS = ["/repo/tests/data", "/repo/examples"]


def corpus_files() -> List[str]:
    out = []
    for d in CORPUS_DIRS:
        for root, _d, files in os.walk(d):
            for fn in files:
                if fn.endswith(".aseprite") or fn.endswith(".ase"):
                    out.append(os.path.join(root, fn))
    return sorted(out)


def regression_files(prop: str) -> List[str]:
    d = os.path.join(vplib.VERIF, "corpus")
    return sorted(glob.glob(os.path.join(d, "*.ase")) + glob.glob(os.path.join(d, "*.aseprite")))


class Work:
    """scratch directory holding the generated inputs of one check run"""
    def __init__(self, prop: str):
        base = os.path.join(vplib.BUILD, "tmp")
        os.makedirs(base, exist_ok=True)
        self.dir = tempfile.mkdtemp(prefix=prop + "_", dir=base)
        self.n = 0

    def put(self, data: bytes, tag: str = "in") -> str:
        p = os.path.join(self.dir, "%s_%06d.ase" % (tag, self.n))
        self.n += 1
        with open(p, "wb") as f:
            f.write(data)
        return p

    def cleanup(self):
        shutil.rmtree(self.dir, ignore_errors=True)


def same_block(ib, mb, kinds=None, strict_err=False) -> Optional[str]:
    """None when the implementation block and the model block agree"""
    io, mo = outcome(ib), outcome(mb)
    if outcome_class(io) != outcome_class(mo):
        return "outcome impl %d / model %d" % (io, mo)
    if io != 0:
        if strict_err and io != mo:
            return "error class impl %d / model %d" % (io, mo)
        return None
    a = [l for l in ib[0] if l and l[0] != 98]
    b = [l for l in mb[0] if l and l[0] != 98]
    if kinds is not None:
        ks = set(kinds)
        a = [l for l in a if l[0] in ks]
        b = [l for l in b if l[0] in ks]
    return first_diff(a, b)


def proof_level_coverage(v: Verdict, ob: vplib.Obligations, extra: dict) -> None:
    cov = vplib.obligations_coverage(ob)
    cov["trusted_base"] = list(vplib.TRUSTED_BASE)
    cov.update(extra)
    v.coverage = cov


def finish_with(v: Verdict, ob: vplib.Obligations, corr_fail: List[dict], direct_fail: List[dict],
                search: Optional[Callable[[], Optional[dict]]] = None) -> int:
    """Verdict rule of DESIGN.md section 2 step 4."""
    for d in direct_fail[:5]:
        v.violation("direct", d, data=d.pop("_data", None))
    if not direct_fail and (corr_fail or not ob.ok):
        found = search() if search else None
        if found:
            v.violation("direct", found, data=found.pop("_data", None))
        else:
            what = {"broken_obligations": ob.errors[:10], "theorems": ob.theorems,
                    "correspondence_disagreements": [{k: w for k, w in c.items() if k != "_data"} for c in corr_fail[:5]],
                    "note": "no input was found on which the property itself fails; the theorem(s) or the model/implementation "
                            "correspondence named here no longer check"}
            data = corr_fail[0].get("_data") if corr_fail else None
            v.violation("unproved", what, data=data, no_input=True)
    return v.finish()


# ==========================================================================
# C01  decoded structure equals what the file encodes
# ==========================================================================
def check_C01(tier: str, seed: int) -> int:
    v = Verdict("C01", tier, seed, "proof")
    ob = vplib.check_obligations("C01")
    vplib.build_harness(["release"])
    w = Work("C01")
    try:
        rng = random.Random(seed)
        n = 400 if tier == "quick" else 6000
        cases = []
        for i in range(n):
            s = gen.gen_sprite(rng, max_canvas=6, max_layers=7, max_frames=4)
            ch = gen.random_choices(rng) if i % 2 else gen.default_choices()
            data = gen.encode(s, ch, rng)
            cases.append((w.put(data), s, data))
        corpus = corpus_files()
        paths = [c[0] for c in cases] + corpus
        ib = vplib.impl_observe("release", paths, w.dir, 1)
        mb = vplib.model_observe(paths, w.dir, 1)
        corr_fail, direct_fail = [], []
        dist = Counter()
        sigs = set()
        for i, p in enumerate(paths):
            d = same_block(ib[i], mb[i])
            if d:
                corr_fail.append({"input": p, "diff": d, "_data": open(p, "rb").read()})
            if i < len(cases):
                s = cases[i][1]
                dist["depth%d" % s["depth"]] += 1
                sigs.add(json.dumps(gen.describe(s), sort_keys=True))
                if outcome(ib[i]) != 0:
                    direct_fail.append({"what": "well-formed generated sprite does not load", "outcome": outcome(ib[i]),
                                        "comments": ib[i][1][:3] if ib[i] else None, "sprite": gen.describe(s), "_data": cases[i][2]})
                    continue
                exp = gen.expected_struct(s)
                got = [l for l in ib[i][0][1:]]
                dd = first_diff(got, exp)
                if dd:
                    direct_fail.append({"what": "implementation reports something else than the file encodes",
                                        "diff(impl/expected)": dd, "sprite": gen.describe(s), "_data": cases[i][2]})
        proof_level_coverage(v, ob, {
            "evaluations": len(paths), "distinct_nontrivial": len(sigs) + len(corpus),
            "rule": "structured sprites from VERIF_SEED (boundary-biased attributes, forests, all chunk kinds, every second one under a random "
                    "encoding-choice vector) + the corpus files; distinct = distinct structural summaries; each compared (a) model STRUCT "
                    "observation = implementation STRUCT observation, (b) implementation observation = expectation computed from the generator's sprite",
            "samples": [gen.describe(c[1]) for c in cases[:3]], "distribution": dict(dist),
            "correspondence_disagreements": len(corr_fail), "direct_failures": len(direct_fail)})
        return finish_with(v, ob, corr_fail, direct_fail)
    finally:
        w.cleanup()



# ==========================================================================
# shared input streams
# ==========================================================================
def small_sprites(rng: random.Random, n: int, **kw) -> List[Tuple[dict, bytes]]:
    out = []
    for i in range(n):
        s = gen.gen_sprite(rng, **kw)
        ch = gen.random_choices(rng) if i % 2 else gen.default_choices()
        out.append((s, gen.encode(s, ch, rng)))
    return out


def small_corpus(limit: int) -> List[str]:
    return [p for p in corpus_files() if os.path.getsize(p) <= limit]


def special_files(rng: random.Random) -> List[Tuple[str, bytes]]:
    """hand-built hostile shapes: deep nesting, long chunk sequences, the section-6 probes"""
    out = []
    # deep nesting
    for depth in (300, 20000):
        fr = ase.Frame(chunks=[ase.LayerChunk(level=i, ltype=1, name="g") for i in range(depth)]
                       + [ase.CelChunk(layer=depth - 1, w=1, h=1, pixels=b"\1\2\3\4", ctype_cel=0)])
        out.append(("deep%d" % depth, ase.serialize(ase.Sprite(width=2, height=2, frames=[fr]))))
    # first layer at level > 0 (D1)
    out.append(("d1", ase.serialize(ase.Sprite(width=1, height=1, frames=[ase.Frame(chunks=[ase.LayerChunk(level=3)])]))))
    # cel for an undeclared layer (D2), also as a linked cel
    for ct in (0, 1):
        fr = ase.Frame(chunks=[ase.LayerChunk(), ase.CelChunk(layer=5, w=1, h=1, pixels=b"\0" * 4, ctype_cel=ct)])
        out.append(("d2_%d" % ct, ase.serialize(ase.Sprite(width=1, height=1, frames=[fr, ase.Frame()]))))
    # link to a frame that does not exist (D3)
    fr = ase.Frame(chunks=[ase.LayerChunk(), ase.CelChunk(layer=0, ctype_cel=1, linked=9)])
    out.append(("d3", ase.serialize(ase.Sprite(width=1, height=1, frames=[fr]))))
    # zlib payload shorter / longer than declared (D4)
    for npx in (1, 3, 9):
        fr = ase.Frame(chunks=[ase.LayerChunk(), ase.CelChunk(layer=0, w=2, h=2, pixels=b"\x10" * (4 * npx), ctype_cel=2)])
        out.append(("d4_%d" % npx, ase.serialize(ase.Sprite(width=4, height=4, frames=[fr]))))
    # tileset: zero tile size (D7), overflowing product (D5), short pixels (D6), tile id out of range (D8), short tile data (D9)
    def ts_sprite(tsc, cel=None):
        ch = [tsc, ase.LayerChunk(ltype=2, tileset=tsc.id)]
        if cel is not None:
            ch.append(cel)
        return ase.serialize(ase.Sprite(width=8, height=8, frames=[ase.Frame(chunks=ch)]))
    out.append(("d7", ts_sprite(ase.TilesetChunk(id=0, tile_count=1, tile_w=0, tile_h=2, pixels=b""),
                                ase.CelChunk(layer=0, ctype_cel=3, w=1, h=1, tiles=[0]))))
    out.append(("d5", ts_sprite(ase.TilesetChunk(id=0, tile_count=2 ** 31, tile_w=2, tile_h=2, pixels=b"\0" * 16))))
    out.append(("d6", ts_sprite(ase.TilesetChunk(id=0, tile_count=3, tile_w=2, tile_h=2, pixels=b"\0" * 16),
                                ase.CelChunk(layer=0, ctype_cel=3, w=1, h=1, tiles=[2]))))
    out.append(("d8", ts_sprite(ase.TilesetChunk(id=0, tile_count=2, tile_w=2, tile_h=2, pixels=b"\7" * 32),
                                ase.CelChunk(layer=0, ctype_cel=3, w=2, h=1, tiles=[1, 2]))))
    out.append(("d9", ts_sprite(ase.TilesetChunk(id=0, tile_count=2, tile_w=2, tile_h=2, pixels=b"\7" * 32),
                                ase.CelChunk(layer=0, ctype_cel=3, w=3, h=3, zraw=ase.deflate(b"\0" * 8)))))
    # palette first = 0, last = 2^32 - 1 (D11)
    out.append(("d11", ase.serialize(ase.Sprite(width=1, height=1, frames=[ase.Frame(chunks=[
        ase.PaletteChunk(first=0, last=2 ** 32 - 1, entries=[(1, 2, 3, 255)])])]))))
    # declared counts / sizes far beyond the data (D12-D16)
    out.append(("d12", ase.serialize(ase.Sprite(width=1, height=1, frames=[ase.Frame(chunks=[
        ase.ExternalFilesChunk(entries=[(1, "a")], count_override=2 ** 32 - 1)])]))))
    out.append(("d13", ase.serialize(ase.Sprite(width=1, height=1, frames=[ase.Frame(chunks=[
        ase.RawChunk(ase.CT_MASK, b"abc", size_override=2 ** 32 - 17)], nbytes_override=2 ** 32 - 1)]))))
    for ct in (0, 2):
        out.append(("d14_%d" % ct, ase.serialize(ase.Sprite(width=1, height=1, frames=[ase.Frame(chunks=[
            ase.LayerChunk(), ase.CelChunk(layer=0, w=65535, h=65535, pixels=b"\0" * 64, ctype_cel=ct)])]))))
    # many layers / many frames
    fr = ase.Frame(chunks=[ase.LayerChunk(name="") for _ in range(3000)])
    out.append(("many_layers", ase.serialize(ase.Sprite(width=1, height=1, frames=[fr]))))
    out.append(("many_frames", ase.serialize(ase.Sprite(width=1, height=1, frames=[ase.Frame() for _ in range(3000)]))))
    # frame count 65535 declared, none present
    out.append(("frames65535", ase.serialize(ase.Sprite(width=1, height=1, frames=[], nframes_override=65535))))
    # user data with no context, tags user data overflow
    out.append(("ud_dangling", ase.serialize(ase.Sprite(width=1, height=1, frames=[ase.Frame(chunks=[ase.UserDataChunk(text="x")])]))))
    out.append(("ud_tags", ase.serialize(ase.Sprite(width=1, height=1, frames=[ase.Frame(chunks=[
        ase.TagsChunk(tags=[ase.Tag(name="t")]), ase.UserDataChunk(text="a"), ase.UserDataChunk(text="b")])]))))
    return out


def corruption_stream(rng: random.Random, tier: str, w: Work) -> List[Tuple[str, str]]:
    """(path, description) of malformed inputs: single-field boundary corruption, truncation, multi-field
    corruption, chunk edits, bit flips, hostile shapes"""
    out: List[Tuple[str, str]] = []
    bases: List[Tuple[str, bytes]] = []
    ngen = 12 if tier == "quick" else 120
    for i, (s, data) in enumerate(small_sprites(rng, ngen, max_canvas=5, max_layers=4, max_frames=3)):
        bases.append(("gen%d" % i, data))
    cf = small_corpus(4096 if tier == "quick" else 40000)
    if tier == "quick":
        cf = cf[:8]
    for p in cf:
        bases.append((os.path.basename(p), open(p, "rb").read()))
    for name, data in bases:
        for desc, mut in ase.single_field_mutations(data, extended=(tier != "quick")):
            out.append((w.put(mut, "sf"), name + ":" + desc))
    nmulti = 4000 if tier == "quick" else 60000
    for i in range(nmulti):
        name, data = bases[rng.randrange(len(bases))]
        r = rng.random()
        if r < 0.6:
            desc, mut = ase.random_multi_field(data, rng, rng.randint(2, 4))
        elif r < 0.7:
            desc, mut = ase.dup_chunk(data, rng)
        elif r < 0.8:
            desc, mut = ase.del_chunk(data, rng)
        elif r < 0.9:
            desc, mut = ase.swap_chunks(data, rng)
        else:
            desc, mut = next(ase.bit_flips(data, rng, 1, per=rng.randint(1, 4)))
        out.append((w.put(mut, "mf"), name + ":" + desc))
    for name, data in bases[: (6 if tier == "quick" else 40)]:
        for desc, mut in ase.truncations(data, every=False):
            out.append((w.put(mut, "tr"), name + ":" + desc))
    for name, data in special_files(rng):
        out.append((w.put(data, "sp"), "special:" + name))
    for i in range(300 if tier == "quick" else 3000):
        n = rng.choice([0, 1, 5, 127, 128, 129, 200])
        out.append((w.put(bytes(rng.randrange(256) for _ in range(n)), "rnd"), "random bytes %d" % n))
    return out


def known_class(path: str, data: bytes) -> Optional[str]:
    """decidable input classes of known_findings.json (status 'known')"""
    for k in vplib.load_known():
        if k.get("status") != "known":
            continue
        if k.get("class") == "dense_cel_table" and dense_table_class(data):
            return k["id"]
    return None


def dense_table_class(data: bytes) -> bool:
    """frames x (max cel layer index + 1) x 128 B exceeds 64 MiB + 8192 x input length (D18)"""
    try:
        nframes = int.from_bytes(data[6:8], "little")
        mx = -1
        for (_fi, _ci, s, e, t) in ase.chunk_spans(data):
            if t == ase.CT_CEL and e - s >= 8:
                mx = max(mx, int.from_bytes(data[s + 6:s + 8], "little"))
        return nframes * (mx + 1) * 128 > 64 * 2 ** 20 + 8192 * len(data)
    except Exception:
        return False


# ==========================================================================
# C04  loading is total
# ==========================================================================
def check_C04(tier: str, seed: int) -> int:
    v = Verdict("C04", tier, seed, "proof")
    ob = vplib.check_obligations("C04")
    vplib.build_harness(["dev", "relchk"])
    w = Work("C04")
    try:
        rng = random.Random(seed)
        stream = corruption_stream(rng, tier, w)
        paths = [p for p, _ in stream]
        res = {}
        for prof in ("dev", "relchk"):
            res[prof] = vplib.impl_observe(prof, paths, w.dir, 0, timeout=1200, mem_kb=2 * 1024 * 1024)
        mb = vplib.model_observe(paths, w.dir, 0)
        corr_fail, direct_fail = [], []
        oc = Counter()
        kinds = Counter()
        distinct = set()
        for i, (p, desc) in enumerate(stream):
            kinds[desc.split(":")[0] if desc.startswith("special") or desc.startswith("random") else os.path.basename(p)[:2]] += 1
            mo = outcome(mb[i])
            for prof in ("dev", "relchk"):
                io = outcome(res[prof][i])
                oc["%s:%s" % (prof, outcome_class(io))] += 1
                if outcome_class(io) == "panic":
                    data = open(p, "rb").read()
                    direct_fail.append({"what": "load did not return a sprite or an error value", "profile": prof, "mutation": desc,
                                        "comments": res[prof][i][1][:3] if res[prof][i] else None, "_data": data})
                elif outcome_class(io) != outcome_class(mo):
                    corr_fail.append({"input": p, "mutation": desc, "profile": prof, "diff": "impl %d / model %d" % (io, mo),
                                      "_data": open(p, "rb").read()})
            distinct.add(hashlib.sha1(open(p, "rb").read()).hexdigest())
        proof_level_coverage(v, ob, {
            "evaluations": len(stream) * 2, "distinct_nontrivial": len(distinct),
            "rule": "malformed inputs: every walked field of each base file set to each boundary value (single-field, exhaustive per file), "
                    "random multi-field corruption, chunk duplication/deletion/swap, bit flips, structural truncations, hostile shapes "
                    "(20000-deep nesting, 3000 layers/frames, declared sizes at their maxima), random byte strings; each loaded in the dev and "
                    "relchk (release + overflow-checks + debug-assertions) builds on a 2 MiB thread under a 2 GiB address-space limit; "
                    "distinct = distinct byte strings",
            "samples": [d for _, d in stream[:3]] + [d for _, d in stream[-3:]],
            "outcomes": dict(oc), "correspondence_disagreements": len(corr_fail), "direct_failures": len(direct_fail)})
        v.assumptions = ["stack depth and allocator exhaustion are observed on the implementation, not modelled (DESIGN.md C04 partial)"]
        return finish_with(v, ob, corr_fail, direct_fail)
    finally:
        w.cleanup()


# ==========================================================================
# C13  truncated files are rejected
# ==========================================================================
def end_of_last_frame(data: bytes) -> int:
    fs = ase.frame_spans(data)
    return fs[-1][1] if fs else len(data)


def check_C13(tier: str, seed: int) -> int:
    v = Verdict("C13", tier, seed, "proof")
    ob = vplib.check_obligations("C13", expected=["C13_truncation"])
    vplib.build_harness(["release"])
    w = Work("C13")
    try:
        rng = random.Random(seed)
        bases: List[Tuple[str, bytes]] = []
        for i, (s, data) in enumerate(small_sprites(rng, 30 if tier == "quick" else 300, max_canvas=5, max_layers=4, max_frames=3)):
            if len(data) <= (1500 if tier == "quick" else 6000):
                bases.append(("gen%d" % i, data))
        for p in small_corpus(1300 if tier == "quick" else 16384):
            bases.append((p, open(p, "rb").read()))
        cases = []   # (path, base name, cut, must_fail)
        for name, data in bases:
            end = end_of_last_frame(data)
            for m in range(len(data) + 1):
                cases.append((w.put(data[:m], "cut"), name, m, m < end))
        paths = [c[0] for c in cases]
        ib = vplib.impl_observe("release", paths, w.dir, 1)
        mb = vplib.model_observe(paths, w.dir, 1)
        corr_fail, direct_fail = [], []
        full: Dict[str, list] = {}
        for i, (p, name, m, must_fail) in enumerate(cases):
            d = same_block(ib[i], mb[i])
            if d:
                corr_fail.append({"input": p, "base": name, "cut": m, "diff": d, "_data": open(p, "rb").read()})
            io = outcome(ib[i])
            if must_fail and not (1 <= io <= 4):
                direct_fail.append({"what": "a strict prefix ending before the end of the last frame did not fail with an error",
                                    "base": name, "cut": m, "outcome": io, "_data": open(p, "rb").read()})
            if not must_fail:
                full.setdefault(name, []).append((m, ib[i]))
        # from the end of the last frame on, the result is the full file's result
        for name, lst in full.items():
            ref = lst[-1][1]
            for m, b in lst:
                if outcome(ref) == 0 and (b is None or b[0] != ref[0]):
                    direct_fail.append({"what": "prefix that contains every frame loads differently from the whole file", "base": name, "cut": m})
        proof_level_coverage(v, ob, {
            "evaluations": len(cases), "distinct_nontrivial": len(cases) - len(bases),
            "rule": "every cut offset 0..len of %d base files (generated sprites with tails/ignorable chunks/trailers and small corpus files); "
                    "a case is non-trivial when the cut is a strict prefix; exhaustive over the offsets of each base file" % len(bases),
            "samples": [{"base": c[1], "cut": c[2], "must_fail": c[3]} for c in cases[:2] + cases[-2:]],
            "exhaustive": True, "correspondence_disagreements": len(corr_fail), "direct_failures": len(direct_fail)})
        return finish_with(v, ob, corr_fail, direct_fail)
    finally:
        w.cleanup()


CHECKS: Dict[str, Callable[[str, int], int]] = {"C01": check_C01, "C04": check_C04, "C13": check_C13}



def main(argv: List[str]) -> int:
    if len(argv) < 2 or argv[1] not in CHECKS:
        print("usage: check <%s> [--tier quick|thorough]" % "|".join(sorted(CHECKS)), file=sys.stderr)
        return 2
    tier = os.environ.get("VERIF_TIER", "quick")
    if "--tier" in argv:
        tier = argv[argv.index("--tier") + 1]
    seed = int(os.environ.get("VERIF_SEED", "20260926"))
    try:
        return CHECKS[argv[1]](tier, seed)
    except vplib.BuildError as e:
        # the tree does not build: nothing can be decided; report as a broken obligation
        v = Verdict(argv[1], tier, seed, "proof")
        v.coverage = {"evaluations": 1, "distinct_nontrivial": 2, "explanation": "build failed", "error": str(e)[-2000:]}
        v.violation("build", {"what": "build failed", "error": str(e)[-4000:]}, no_input=True)
        return v.finish()
