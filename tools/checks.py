"""checks.py -- one check per property.  Each check = Coq obligations + correspondence run
(model vs implementation on the same inputs) + direct evaluation of the property on the
implementation's output.  See DESIGN.md section 2."""
from __future__ import annotations

import glob
import hashlib
import json
import os
import random
import shutil
import subprocess
import sys
import tempfile
import time
from collections import Counter
from typing import Callable, Dict, List, Optional, Tuple

import ase
import gen
import vplib
from vplib import Verdict, log, outcome, outcome_class, lines_of, first_diff

CORPUS_DIRS = [vplib.REPO + "/tests/data", vplib.REPO + "/examples"]


def corpus_files() -> List[str]:
    out = []
    for d in CORPUS_DIRS:
        for root, _d, files in os.walk(d):
            for fn in files:
                if fn.endswith(".aseprite") or fn.endswith(".ase"):
                    out.append(os.path.join(root, fn))
    return sorted(out)


def regression_files(prop: str) -> List[str]:
    d = os.path.join(vplib.VERIF, "corpus")
    return sorted(glob.glob(os.path.join(d, "*.ase")) + glob.glob(os.path.join(d, "*.aseprite")))


class Work:
    """scratch directory holding the generated inputs of one check run"""
    def __init__(self, prop: str):
        base = os.path.join(vplib.BUILD, "tmp")
        os.makedirs(base, exist_ok=True)
        self.dir = tempfile.mkdtemp(prefix=prop + "_", dir=base)
        self.n = 0

    def put(self, data: bytes, tag: str = "in") -> str:
        p = os.path.join(self.dir, "%s_%06d.ase" % (tag, self.n))
        self.n += 1
        with open(p, "wb") as f:
            f.write(data)
        return p

    def cleanup(self):
        shutil.rmtree(self.dir, ignore_errors=True)


def same_block(ib, mb, kinds=None, strict_err=False) -> Optional[str]:
    """None when the implementation block and the model block agree"""
    io, mo = outcome(ib), outcome(mb)
    if outcome_class(io) != outcome_class(mo):
        return "outcome impl %d / model %d" % (io, mo)
    if io != 0:
        if strict_err and io != mo:
            return "error class impl %d / model %d" % (io, mo)
        return None
    a = [l for l in ib[0] if l and l[0] != 98]
    b = [l for l in mb[0] if l and l[0] != 98]
    if kinds is not None:
        ks = set(kinds)
        a = [l for l in a if l[0] in ks]
        b = [l for l in b if l[0] in ks]
    return first_diff(a, b)


def proof_level_coverage(v: Verdict, ob: vplib.Obligations, extra: dict) -> None:
    cov = vplib.obligations_coverage(ob)
    cov["trusted_base"] = list(vplib.TRUSTED_BASE)
    cov.update(extra)
    v.coverage = cov


def finish_with(v: Verdict, ob: vplib.Obligations, corr_fail: List[dict], direct_fail: List[dict],
                search: Optional[Callable[[], Optional[dict]]] = None) -> int:
    """Verdict rule of DESIGN.md section 2 step 4."""
    for d in direct_fail[:5]:
        v.violation("direct", d, data=d.pop("_data", None))
    if not direct_fail and (corr_fail or not ob.ok):
        found = search() if search else None
        if found:
            v.violation("direct", found, data=found.pop("_data", None))
        else:
            what = {"broken_obligations": ob.errors[:10], "theorems": ob.theorems,
                    "correspondence_disagreements": [{k: w for k, w in c.items() if k != "_data"} for c in corr_fail[:5]],
                    "note": "no input was found on which the property itself fails; the theorem(s) or the model/implementation "
                            "correspondence named here no longer check"}
            data = corr_fail[0].get("_data") if corr_fail else None
            v.violation("unproved", what, data=data, no_input=True)
    return v.finish()


# ==========================================================================
# C01  decoded structure equals what the file encodes
# ==========================================================================
def check_C01(tier: str, seed: int) -> int:
    v = Verdict("C01", tier, seed, "proof")
    ob = vplib.check_obligations("C01", expected=["C01_header", "C01_header_loaded", "C01_layer", "C01_tags", "C01_slice", "C01_palette", "C01_external", "C01_tileset_hdr", "C01_userdata", "C01_cel_hdr", "C01_layer_by_name_lowest", "C01_tag_by_name_lowest", "C01_get_tag_range", "C01_iteration"], extra_files=["C01_e2e"])
    vplib.build_harness(["release"])
    w = Work("C01")
    try:
        rng = random.Random(seed)
        n = 400 if tier == "quick" else 6000
        cases = []
        twin_pairs: List[Tuple[int, int]] = []
        for i in range(n):
            s = gen.gen_sprite(rng, max_canvas=6, max_layers=7, max_frames=4)
            ch = gen.random_choices(rng) if i % 2 else gen.default_choices()
            data = gen.encode(s, ch, rng)
            cases.append((w.put(data), s, data))
            if i % 4 == 0:
                # right behind it, the same sprite under other names (observed below pair after pair on one thread: the driver keeps
                # a sprite alive while the next one is loaded)
                t = name_twin_of(s, rng)
                td = gen.encode(t, None, rng)
                twin_pairs.append((len(cases) - 1, len(cases)))
                cases.append((w.put(td), t, td))
        nbig = 0
        for cnt in [(65535, 0), (65535, 65535), (1, 65535)]:
            # exactly 65535 chunks in frame 0: an old-format header (new = 0) whose count equals 0xFFFF, and the two other spellings
            nbig += 1
            s = gen.gen_sprite(rng, max_canvas=5, max_layers=4, max_frames=2)
            ch = gen.default_choices()
            ch["pad_frame0_to"], ch["pad_count"] = 65535, cnt
            data = gen.encode(s, ch, rng)
            cases.append((w.put(data), s, data))
        # a chunk of more than a megabyte (a stored 600 x 500 RGBA cel in frame 0; a 1.3 MB tileset) FOLLOWED by all the other
        # chunks of a rich sprite: whatever is kept between chunks (buffers sized by the previous payload) must not leak
        for kind in ("cel", "tileset"):
            nbig += 1
            while True:
                s = gen.gen_sprite(rng, max_canvas=6, max_layers=4, max_frames=2)
                if s["depth"] == 32 and s["layers"] and s["layers"][0]["ltype"] == 0 and (kind == "cel" or s["tilesets"]):
                    break
            ch = gen.default_choices()
            if kind == "cel":
                s["width"], s["height"] = 600, 500
                s["cels"][(0, 0)] = {"kind": "raw", "x": 0, "y": 0, "w": 600, "h": 500, "opacity": 255, "ud": None,
                                     "pixels": [((i * 3) & 255, (i >> 8) & 255, (i * 7) & 255, 255) for i in range(600 * 500)]}
                ch["cel_storage"] = "raw"
            else:
                t = s["tilesets"][0]
                t["tw"], t["th"], t["count"] = 64, 64, 80
                t["pixels"] = [((i * 5) & 255, (i >> 7) & 255, (i * 11) & 255, 255 if i >= 64 * 64 else 0) for i in range(64 * 64 * 80)]
                ch["zlevels"] = ["stored"]
                for c in s["cels"].values():
                    if c["kind"] == "tilemap":
                        c["tiles"] = [min(tt, 79) for tt in c["tiles"]]
            data = gen.encode(s, ch, rng)
            cases.append((w.put(data), s, data))
        corpus = corpus_files()
        paths = [c[0] for c in cases] + corpus
        # what the sprite reports must not depend on how the reader hands over the bytes (one at a time, 7 at a time, from a file)
        lines = []
        for pth in paths[:len(cases)][::3]:
            lines += ["%s plain" % pth, "%s one" % pth, "%s bufreader 7" % pth, "%s file" % pth]
        sb = run_sched([vplib.impl_driver("release"), "sched"], lines, w.dir, "c01sched", False)
        reader_fail = []
        for k in range(0, len(lines), 4):
            blocks = sb[k:k + 4]
            if any(b is None for b in blocks) or any(b[0] != blocks[0][0] for b in blocks[1:]):
                reader_fail.append({"what": "the loaded sprite depends on how the reader delivers the bytes (slice / one byte at a time / BufReader(7) / read_file)",
                                    "results": [b[0][:2] if b else None for b in blocks], "_data": open(lines[k].split()[0], "rb").read()})
        ib = vplib.impl_observe("release", paths, w.dir, 1)
        bigidx = set()                          # (the model handles 65535-chunk frames in well under a second since frev)
        small = [i for i in range(len(paths)) if i not in bigidx]
        mres = vplib.model_observe([paths[i] for i in small], w.dir, 1)
        mb = list(ib)
        for i, r in zip(small, mres):
            mb[i] = r
        corr_fail, direct_fail = [], list(reader_fail)
        # originals and their name-only twins, pair after pair on ONE thread (a -> b -> a): each reports what ITS file encodes
        tp_idx = [i for a_, b_ in twin_pairs for i in (a_, b_, a_)]
        tp = vplib.impl_observe("release", [paths[i] for i in tp_idx], w.dir, 1, shards=1, tag="twins")
        for i, b in zip(tp_idx, tp):
            if b is None or ib[i] is None or b[0] != ib[i][0]:
                direct_fail.append({"what": "what a sprite reports depends on another sprite that is alive at the same time (the same sprite under other names)",
                                    "sprite": gen.describe(cases[i][1]), "_data": cases[i][2]})
                break
        dist = Counter()
        sigs = set()
        for i, p in enumerate(paths):
            d = same_block(ib[i], mb[i])
            if d:
                corr_fail.append({"input": p, "diff": d, "_data": open(p, "rb").read()})
            if i < len(cases):
                s = cases[i][1]
                dist["depth%d" % s["depth"]] += 1
                sigs.add(json.dumps(gen.describe(s), sort_keys=True))
                if outcome(ib[i]) != 0:
                    direct_fail.append({"what": "well-formed generated sprite does not load", "outcome": outcome(ib[i]),
                                        "comments": ib[i][1][:3] if ib[i] else None, "sprite": gen.describe(s), "_data": cases[i][2]})
                    continue
                exp = gen.expected_struct(s)
                got = [l for l in ib[i][0][1:]]
                dd = first_diff(got, exp)
                if dd:
                    direct_fail.append({"what": "implementation reports something else than the file encodes",
                                        "diff(impl/expected)": dd, "sprite": gen.describe(s), "_data": cases[i][2]})
        proof_level_coverage(v, ob, {
            "evaluations": len(paths), "distinct_nontrivial": len(sigs) + len(corpus),
            "rule": "structured sprites from VERIF_SEED (boundary-biased attributes, forests, all chunk kinds, every second one under a random "
                    "encoding-choice vector) + the corpus files; distinct = distinct structural summaries; each compared (a) model STRUCT "
                    "observation = implementation STRUCT observation, (b) implementation observation = expectation computed from the generator's sprite",
            "samples": [gen.describe(c[1]) for c in cases[:3]], "distribution": dict(dist),
            "correspondence_disagreements": len(corr_fail), "direct_failures": len(direct_fail)})
        return finish_with(v, ob, corr_fail, direct_fail)
    finally:
        w.cleanup()



# ==========================================================================
# shared input streams
# ==========================================================================
def twin_of(s: dict, rng: random.Random) -> dict:
    """the same sprite structure (ids, sizes, offsets, layers) with other pixel values in its cels, tilesets and palette colours"""
    import copy
    t = copy.deepcopy(s)
    depth = t["depth"]

    def other(px):
        if depth == 32:
            return ((px[0] + 101) & 255, (px[1] + 53) & 255, (px[2] + 7) & 255, px[3])
        if depth == 16:
            return ((px[0] + 101) & 255, px[1])
        return px
    for c in t["cels"].values():
        if c["kind"] in ("raw", "zlib"):
            c["pixels"] = [other(p) for p in c["pixels"]]
    for ts in t["tilesets"]:
        ts["pixels"] = ts["pixels"][:ts["tw"] * ts["th"]] + [other(p) for p in ts["pixels"][ts["tw"] * ts["th"]:]]
    if t["palette"]:
        # indexed / any palette: change the colours, keep ids, alphas and names (pixel indices stay valid)
        def recol(e):
            return ((e[0] + 90) & 255, (e[1] + 45) & 255, (e[2] + 200) & 255, e[3], e[4])
        t["palette"] = {k: recol(e) for k, e in t["palette"].items()}
        pcs = []
        for pc in t["palette_chunks"]:
            if pc[0] == "new":
                pcs.append(("new", pc[1], [recol(e) for e in pc[2]]))
            else:
                pcs.append(pc)
        # legacy chunks carry their own colours: leave sprites with a legacy palette unchanged in that respect
        if all(pc[0] == "new" for pc in t["palette_chunks"]):
            t["palette_chunks"] = pcs
        else:
            t["palette"] = s["palette"]
    return t


def name_twin_of(s: dict, rng: random.Random) -> dict:
    """the same sprite - pixels, colours, ids, sizes - under other NAMES (palette entries, layers, tags, slices, tilesets,
    external files) and other user-data texts: two sprites that differ in nothing a colour or a size can tell apart"""
    import copy
    t = copy.deepcopy(s)

    def rn(x):
        return None if x is not None and rng.random() < 0.3 else ("twin-" + (x or "") + "\u00e9")[:rng.choice([3, 8, 40])]
    if t["palette"]:
        ren = {k: rn(e[4]) for k, e in t["palette"].items()}
        t["palette"] = {k: (e[0], e[1], e[2], e[3], ren[k]) for k, e in t["palette"].items()}
        if all(pc[0] == "new" for pc in t["palette_chunks"]):
            t["palette_chunks"] = [("new", pc[1], [(e[0], e[1], e[2], e[3], ren.get(pc[1] + j, e[4])) for j, e in enumerate(pc[2])]) for pc in t["palette_chunks"]]
            # a later chunk overwrites an earlier one: take the final names from the chunks, in order
            fin = {}
            for pc in t["palette_chunks"]:
                for j, e in enumerate(pc[2]):
                    fin[pc[1] + j] = e
            t["palette"] = {k: fin.get(k, e) for k, e in t["palette"].items()}
        else:
            t["palette"] = copy.deepcopy(s["palette"])
    for lay in t["layers"]:
        lay["name"] = rn(lay["name"]) or ""
    for tg in t["tags"]:
        tg["name"] = rn(tg["name"]) or ""
    for sl in t["slices"]:
        sl["name"] = rn(sl["name"]) or ""
    for ts in t["tilesets"]:
        ts["name"] = rn(ts["name"]) or ""
    t["ext_files"] = [(i, rn(nm) or "x") for i, nm in t["ext_files"]]
    return t


def poison_files() -> List[bytes]:
    """inputs that are refused INSIDE the inflate step (a corrupt deflate stream, a stream cut short, a stream that decodes to
    fewer bytes than declared, one that decodes to more): loaded between well-formed sprites on one thread, they must leave
    nothing behind"""
    good = ase.deflate(bytes(range(64)))
    out = []
    for z in (good[:2] + bytes([0xFF] * 12), good[:len(good) // 2], ase.deflate(bytes(16)), ase.deflate(bytes(300))):
        fr = ase.Frame(chunks=[ase.LayerChunk(), ase.CelChunk(layer=0, w=4, h=4, ctype_cel=2, zraw=z)])
        out.append(ase.serialize(ase.Sprite(width=4, height=4, frames=[fr])))
    return out


def small_sprites(rng: random.Random, n: int, **kw) -> List[Tuple[dict, bytes]]:
    out = []
    for i in range(n):
        s = gen.gen_sprite(rng, **kw)
        ch = gen.random_choices(rng) if i % 2 else gen.default_choices()
        out.append((s, gen.encode(s, ch, rng)))
    return out


def extreme_canvas_sprites(rng: random.Random, n: int) -> List[Tuple[dict, bytes]]:
    """tilemap sprites whose canvas width or height sits at the top of the u16 range (the other dimension tiny)"""
    out = []
    while len(out) < n:
        s = gen.gen_sprite(rng, max_canvas=6, max_layers=3, max_frames=2, rich=False)
        if not (s["tilesets"] and any(c["kind"] == "tilemap" for c in s["cels"].values())):
            continue
        big = rng.choice([65535, 65534, 65521, 65520, 65519, 32768, 32767])
        if rng.random() < 0.5:
            s["width"], s["height"] = big, rng.randint(1, 2)
        else:
            s["width"], s["height"] = rng.randint(1, 2), big
        out.append((s, gen.encode(s, None, rng)))
    return out


def many_layer_files(rng: random.Random) -> List[Tuple[str, bytes]]:
    """sprites with more than 256 (and more than 65536 / 256) layers and several frames, every cel a different colour: a result
    that depends on a truncated or packed (frame, layer) pair shows up as one cel rendering another cel's pixels"""
    out = []
    for nl, nf in [(257, 2), (258, 3), (513, 2), (300, 257)]:
        frames = []
        for f in range(nf):
            chunks: List[ase.Chunk] = []
            if f == 0:
                chunks += [ase.LayerChunk(flags=1, blend=0, opacity=255, name="L%d" % l) for l in range(nl)]
            ls = sorted(set(list(range(min(6, nl))) + [nl - 1, nl - 2, 255 % nl, 256 % nl]))
            if nf > 10 and f not in (0, 1, 2, 255, 256, nf - 1):
                ls = []
            for l in ls:
                px = bytes([(l * 7 + f * 31) & 255, ((l >> 8) * 80 + 3 * f) & 255, (l * 13 + f) & 255, 255] * 4)
                chunks.append(ase.CelChunk(layer=l, w=2, h=2, pixels=px, ctype_cel=0))
            frames.append(ase.Frame(chunks=chunks))
        out.append(("%d layers x %d frames, distinct colours per cel" % (nl, nf), ase.serialize(ase.Sprite(width=2, height=2, frames=frames))))
    return out


def big_tileset_files(rng: random.Random) -> List[Tuple[str, bytes]]:
    """an indexed sprite whose tileset is large enough (40 tiles of 96 x 96) for anything derived from it on first use to take a
    noticeable time: the cold-start pass of the threads mode then has 16 threads asking for it at once"""
    tw = th = 96
    nt = 40
    pal = [(rng.randrange(256), rng.randrange(256), rng.randrange(256), 255) for _ in range(16)]
    px = bytes(((t * 5 + (i // tw) + (i % tw) * 3) & 15) if t else 0 for t in range(nt) for i in range(tw * th))
    tiles = [rng.randrange(nt) for _ in range(4 * 3)]
    fr = ase.Frame(chunks=[ase.PaletteChunk(entries=pal), ase.TilesetChunk(id=0, tile_count=nt, tile_w=tw, tile_h=th, pixels=px, zlevel=6),
                           ase.LayerChunk(ltype=2, tileset=0, name="map"), ase.CelChunk(layer=0, ctype_cel=3, w=4, h=3, tiles=tiles, zlevel=6)])
    return [("indexed sprite with a 40 x 96x96 tileset (cold-start contention)", ase.serialize(ase.Sprite(width=200, height=150, depth=8, frames=[fr, ase.Frame()])))]


def small_corpus(limit: int) -> List[str]:
    return [p for p in corpus_files() if os.path.getsize(p) <= limit]


def special_files(rng: random.Random) -> List[Tuple[str, bytes]]:
    """hand-built hostile shapes: deep nesting, long chunk sequences, the section-6 probes"""
    out = []
    # deep nesting
    for depth in (300, 20000):
        fr = ase.Frame(chunks=[ase.LayerChunk(level=i, ltype=1, name="g") for i in range(depth)]
                       + [ase.CelChunk(layer=depth - 1, w=1, h=1, pixels=b"\1\2\3\4", ctype_cel=0)])
        out.append(("deep%d" % depth, ase.serialize(ase.Sprite(width=2, height=2, frames=[fr]))))
    # first layer at level > 0 (D1)
    out.append(("d1", ase.serialize(ase.Sprite(width=1, height=1, frames=[ase.Frame(chunks=[ase.LayerChunk(level=3)])]))))
    # cel for an undeclared layer (D2), also as a linked cel
    for ct in (0, 1):
        fr = ase.Frame(chunks=[ase.LayerChunk(), ase.CelChunk(layer=5, w=1, h=1, pixels=b"\0" * 4, ctype_cel=ct)])
        out.append(("d2_%d" % ct, ase.serialize(ase.Sprite(width=1, height=1, frames=[fr, ase.Frame()]))))
    # link to a frame that does not exist (D3)
    fr = ase.Frame(chunks=[ase.LayerChunk(), ase.CelChunk(layer=0, ctype_cel=1, linked=9)])
    out.append(("d3", ase.serialize(ase.Sprite(width=1, height=1, frames=[fr]))))
    # zlib payload shorter / longer than declared (D4)
    for npx in (1, 3, 9):
        fr = ase.Frame(chunks=[ase.LayerChunk(), ase.CelChunk(layer=0, w=2, h=2, pixels=b"\x10" * (4 * npx), ctype_cel=2)])
        out.append(("d4_%d" % npx, ase.serialize(ase.Sprite(width=4, height=4, frames=[fr]))))
    # tileset: zero tile size (D7), overflowing product (D5), short pixels (D6), tile id out of range (D8), short tile data (D9)
    def ts_sprite(tsc, cel=None):
        ch = [tsc, ase.LayerChunk(ltype=2, tileset=tsc.id)]
        if cel is not None:
            ch.append(cel)
        return ase.serialize(ase.Sprite(width=8, height=8, frames=[ase.Frame(chunks=ch)]))
    out.append(("d7", ts_sprite(ase.TilesetChunk(id=0, tile_count=1, tile_w=0, tile_h=2, pixels=b""),
                                ase.CelChunk(layer=0, ctype_cel=3, w=1, h=1, tiles=[0]))))
    out.append(("d5", ts_sprite(ase.TilesetChunk(id=0, tile_count=2 ** 31, tile_w=2, tile_h=2, pixels=b"\0" * 16))))
    out.append(("d6", ts_sprite(ase.TilesetChunk(id=0, tile_count=3, tile_w=2, tile_h=2, pixels=b"\0" * 16),
                                ase.CelChunk(layer=0, ctype_cel=3, w=1, h=1, tiles=[2]))))
    out.append(("d8", ts_sprite(ase.TilesetChunk(id=0, tile_count=2, tile_w=2, tile_h=2, pixels=b"\7" * 32),
                                ase.CelChunk(layer=0, ctype_cel=3, w=2, h=1, tiles=[1, 2]))))
    out.append(("d9", ts_sprite(ase.TilesetChunk(id=0, tile_count=2, tile_w=2, tile_h=2, pixels=b"\7" * 32),
                                ase.CelChunk(layer=0, ctype_cel=3, w=3, h=3, zraw=ase.deflate(b"\0" * 8)))))
    # palette first = 0, last = 2^32 - 1 (D11)
    out.append(("d11", ase.serialize(ase.Sprite(width=1, height=1, frames=[ase.Frame(chunks=[
        ase.PaletteChunk(first=0, last=2 ** 32 - 1, entries=[(1, 2, 3, 255)])])]))))
    # declared counts / sizes far beyond the data (D12-D16)
    out.append(("d12", ase.serialize(ase.Sprite(width=1, height=1, frames=[ase.Frame(chunks=[
        ase.ExternalFilesChunk(entries=[(1, "a")], count_override=2 ** 32 - 1)])]))))
    out.append(("d13", ase.serialize(ase.Sprite(width=1, height=1, frames=[ase.Frame(chunks=[
        ase.RawChunk(ase.CT_MASK, b"abc", size_override=2 ** 32 - 17)], nbytes_override=2 ** 32 - 1)]))))
    for ct in (0, 2):
        out.append(("d14_%d" % ct, ase.serialize(ase.Sprite(width=1, height=1, frames=[ase.Frame(chunks=[
            ase.LayerChunk(), ase.CelChunk(layer=0, w=65535, h=65535, pixels=b"\0" * 64, ctype_cel=ct)])]))))
    # many layers / many frames
    fr = ase.Frame(chunks=[ase.LayerChunk(name="") for _ in range(3000)])
    out.append(("many_layers", ase.serialize(ase.Sprite(width=1, height=1, frames=[fr]))))
    out.append(("many_frames", ase.serialize(ase.Sprite(width=1, height=1, frames=[ase.Frame() for _ in range(3000)]))))
    # frame count 65535 declared, none present
    out.append(("frames65535", ase.serialize(ase.Sprite(width=1, height=1, frames=[], nframes_override=65535))))
    # user data with no context, tags user data overflow
    out.append(("ud_dangling", ase.serialize(ase.Sprite(width=1, height=1, frames=[ase.Frame(chunks=[ase.UserDataChunk(text="x")])]))))
    out.append(("ud_tags", ase.serialize(ase.Sprite(width=1, height=1, frames=[ase.Frame(chunks=[
        ase.TagsChunk(tags=[ase.Tag(name="t")]), ase.UserDataChunk(text="a"), ase.UserDataChunk(text="b")])]))))
    # a tags chunk (with 0 / 1 tags) followed by more user-data chunks than a 16-bit counter can count
    for nt in (0, 1):
        fr = ase.Frame(chunks=[ase.TagsChunk(tags=[ase.Tag(name="t")] * nt)] + [ase.UserDataChunk(flags=0) for _ in range(65600)])
        out.append(("ud_tags_65600_%d" % nt, ase.serialize(ase.Sprite(width=1, height=1, frames=[fr]))))
    # user data whose flags announce the Aseprite 1.3 properties block (bit 4), with deeply nested vectors / maps in it
    def nested_props(depth, kind):
        # properties block: DWORD size, DWORD number of maps; map: DWORD key, DWORD count; property: STRING name, WORD type, value;
        # type 0x0011 vector: DWORD count, WORD element type (0 = mixed: each element WORD type + value); 0x0012 map: DWORD count, properties
        inner = b""
        for _ in range(depth):
            inner = (ase.u32(1) + ase.u16(0) + ase.u16(0x0011) + inner) if kind == "vec" else (ase.u32(1) + ase.ase_string("k") + ase.u16(0x0012) + inner)
        head_t = 0x0011 if kind == "vec" else 0x0012
        body = ase.u32(1) + ase.u32(0) + ase.u32(1) + ase.ase_string("p") + ase.u16(head_t) + inner
        return ase.u32(len(body) + 4) + body
    for depth, kind in ((3, "vec"), (100000, "vec"), (100000, "map")):
        ud = ase.RawChunk(ase.CT_USER_DATA, ase.u32(1 | 4) + ase.ase_string("x") + nested_props(depth, kind))
        out.append(("ud_props_%s_%d" % (kind, depth), ase.serialize(ase.Sprite(width=1, height=1, frames=[ase.Frame(chunks=[ase.LayerChunk(), ud])]))))
    # tilemap cels with other than 32 bits per tile whose payload has exactly the size that width would need (0, 8, 16, 24 bits)
    for bits in (0, 8, 16, 24):
        out.append(("tm_bits_%d" % bits, ts_sprite(ase.TilesetChunk(id=0, tile_count=2, tile_w=2, tile_h=2, pixels=b"\7" * 32),
                                                  ase.CelChunk(layer=0, ctype_cel=3, w=2, h=2, tm_bits=bits, zraw=ase.deflate(b"\0" * (4 * bits // 8))))))
    # an empty tileset whose tile size is 0 x 0, used by a tilemap layer with an empty (0 x 0) tilemap cel; also count 0 with a real size
    for tw, th in ((0, 0), (0, 4), (4, 4)):
        for cw, chh in ((0, 0), (1, 1)):
            out.append(("empty_tileset_%dx%d_cel_%dx%d" % (tw, th, cw, chh),
                        ts_sprite(ase.TilesetChunk(id=0, tile_count=0, tile_w=tw, tile_h=th, pixels=b""),
                                  ase.CelChunk(layer=0, ctype_cel=3, w=cw, h=chh, zraw=ase.deflate(b"\0" * (4 * cw * chh))))))
    # a chain of linked cels: frame k links to frame k - 1 (a link to a link is refused at load; were it accepted, a renderer
    # that follows links would have to follow 39 of them)
    for n in (3, 40):
        frs = [ase.Frame(chunks=[ase.LayerChunk(), ase.CelChunk(layer=0, w=1, h=1, pixels=b"\1\2\3\4", ctype_cel=0)])]
        frs += [ase.Frame(chunks=[ase.CelChunk(layer=0, ctype_cel=1, linked=k - 1)]) for k in range(1, n)]
        out.append(("link_chain_%d" % n, ase.serialize(ase.Sprite(width=1, height=1, frames=frs))))
    # two linked cels that link to EACH OTHER (refused: a link must lead to stored pixels; following links without a visited set never ends)
    frs = [ase.Frame(chunks=[ase.LayerChunk(), ase.CelChunk(layer=0, w=1, h=1, pixels=b"\1\2\3\4", ctype_cel=0)]),
           ase.Frame(chunks=[ase.CelChunk(layer=0, ctype_cel=1, linked=2)]), ase.Frame(chunks=[ase.CelChunk(layer=0, ctype_cel=1, linked=1)]),
           ase.Frame(chunks=[ase.CelChunk(layer=0, ctype_cel=1, linked=3)])]
    out.append(("link_cycle", ase.serialize(ase.Sprite(width=1, height=1, frames=frs))))
    # a tileset WITHOUT embedded pixels whose declared tile count x width x height passes 2^32 (refused for the missing pixels)
    for fl in (0, 1, 4):
        out.append(("pixelless_tileset_overflow_%d" % fl, ase.serialize(ase.Sprite(width=4, height=4, frames=[ase.Frame(chunks=[
            ase.TilesetChunk(id=0, flags=fl, ext=(1, 1) if fl & 1 else None, tile_count=0x01000000, tile_w=16, tile_h=16, pixels=b""),
            ase.LayerChunk(ltype=2, tileset=0)])]))))
    # a stored cel of more than a megabyte followed by other chunks
    big = bytes((i * 7) & 255 for i in range(600 * 500 * 4))
    out.append(("big_cel_then_chunks", ase.serialize(ase.Sprite(width=600, height=500, frames=[ase.Frame(chunks=[
        ase.LayerChunk(name="a"), ase.CelChunk(layer=0, w=600, h=500, pixels=big, ctype_cel=0), ase.LayerChunk(name="b", level=0),
        ase.TagsChunk(tags=[ase.Tag(name="t1"), ase.Tag(name="t2")]), ase.UserDataChunk(text="u")])]))))
    return out


def sparse_indexed_files(rng: random.Random, n: int) -> List[Tuple[str, bytes, bool]]:
    """indexed sprites over sparse palettes (legacy packets with skips, new-format ranges with first > 0, both) whose pixels fall
    on present indices, into the holes, or beyond the last index; in raw cels, zlib cels, tilesets and tilemap-rendered tiles.
    (description, bytes, every pixel index is present)"""
    out = []
    for i in range(n):
        chunks: List[ase.Chunk] = []
        present = set()
        kind = rng.choice(["old", "old", "new", "both"])
        if kind in ("old", "both"):
            pos = 0
            packets = []
            for pk in range(rng.randint(1, 4)):
                skip = rng.choice([0, 1, 2, 5]) if (pk > 0 or rng.random() < 0.5) else 0     # half of the palettes contain index 0
                cnt = rng.randint(1, 3)
                pos += skip
                present.update(range(pos, pos + cnt))
                packets.append((skip, [(rng.randrange(64), rng.randrange(64), rng.randrange(64)) for _ in range(cnt)]))
            chunks.append(ase.OldPaletteChunk(kind=rng.choice([ase.CT_OLD_PALETTE_04, ase.CT_OLD_PALETTE_11]), packets=packets))
        if kind in ("new", "both"):
            first = rng.choice([0, 1, 3, 200, 250, 257, 1000])
            cnt = rng.randint(1, 5) if first < 250 else rng.choice([3, 11, 20])      # ranges that reach past index 255
            if kind == "new":
                present = set(range(first, first + cnt))
            else:
                present = set(range(first, first + cnt)) if rng.random() < 2 else present   # the new palette replaces the legacy one
            chunks.append(ase.PaletteChunk(first=first, entries=[(rng.randrange(256), rng.randrange(256), rng.randrange(256), 255)] * cnt))
        hi = max(present)
        holes = [x for x in range(0, min(hi, 256)) if x not in present]
        cands = sorted(k for k in present if k < 256)
        where = rng.choice(["ok", "hole", "beyond", "top", "ok", "alias"])
        if where == "hole" and holes:
            bad = rng.choice(holes)
        elif where == "beyond":
            bad = rng.choice([hi + 1, len(present), 255])
            bad = bad if bad not in present and bad < 256 else None
        elif where == "alias":
            # an absent index p for which p + 256 k is present (a table of 256 slots filled with `id as u8` would find it)
            al = [k & 255 for k in present if k >= 256 and (k & 255) not in present]
            bad = rng.choice(al) if al else None
        else:
            bad = None
        if not cands:
            # every entry lies beyond 255: no pixel value is present at all
            bad = bad if bad is not None else rng.randrange(256)
            cands = [bad]
        good = max(cands) if where == "top" else rng.choice(cands)
        px = [good if bad is None or k != 2 else bad for k in range(4)]
        place = rng.choice(["raw", "zlib", "tileset"])
        if place == "tileset":
            # (flag 1: the tileset ALSO links to an external file; its embedded pixels are checked all the same)
            lk = rng.random() < 0.4
            chunks.append(ase.TilesetChunk(id=0, flags=(2 | 1 | rng.choice([0, 4])) if lk else 2 | rng.choice([0, 4]), ext=(1, 0) if lk else None,
                                           tile_count=2, tile_w=2, tile_h=1, pixels=bytes(px)))
            chunks.append(ase.LayerChunk(ltype=2, tileset=0))
            chunks.append(ase.CelChunk(layer=0, ctype_cel=3, w=2, h=2, tiles=[0, 1, 1, 0]))
        else:
            chunks.append(ase.LayerChunk(flags=rng.choice([1, 9])))
            chunks.append(ase.CelChunk(layer=0, w=2, h=2, pixels=bytes(px), ctype_cel=0 if place == "raw" else 2))
        if rng.random() < 0.25 and kind == "new":
            # the palette chunk AFTER the cel that uses it (and a short legacy palette before it, half of the time): pixels are checked
            # against the palette in effect at the end of the file
            pc = next(c for c in chunks if isinstance(c, ase.PaletteChunk))
            chunks.remove(pc)
            chunks.append(pc)
            if rng.random() < 0.5:
                chunks.insert(0, ase.OldPaletteChunk(kind=ase.CT_OLD_PALETTE_04, packets=[(0, [(1, 2, 3)])]))
        data = ase.serialize(ase.Sprite(width=4, height=2, depth=8, transparent=rng.choice([0, good, 77] + ([bad, bad] if bad is not None else [])),
                                        frames=[ase.Frame(chunks=chunks)]))
        out.append(("sparse palette %s present=%s pixel=%s in %s" % (kind, sorted(present)[:8], bad if bad is not None else good, place), data, bad is None))
    return out


def corruption_stream(rng: random.Random, tier: str, w: Work, scale: float = 1.0) -> List[Tuple[str, str]]:
    """(path, description) of malformed inputs: single-field boundary corruption, truncation, multi-field
    corruption, chunk edits, bit flips, hostile shapes"""
    out: List[Tuple[str, str]] = []
    bases: List[Tuple[str, bytes]] = []
    ngen = max(3, int((12 if tier == "quick" else 120) * scale))
    for i, (s, data) in enumerate(small_sprites(rng, ngen, max_canvas=5, max_layers=4, max_frames=3)):
        bases.append(("gen%d" % i, data))
    # probe sprites: every name a long run of multi-byte characters behind 20..26 ASCII bytes, every reserved / unused byte run starting with
    # a boundary pattern, an ignorable chunk of 0..5 bytes in every gap - so that each single-field corruption below (an unknown blend mode,
    # layer type, cel type, ...) meets those surroundings, deterministically
    for k, pat in enumerate([b"\xff\x7f", b"\x00\x80", b"\xff\xff\xff\xff", b"\x04\x00"][: (2 if tier == "quick" and scale < 1 else 4)]):
        for _try in range(50):
            s0 = gen.gen_sprite(rng, max_canvas=4, max_layers=4, max_frames=2)
            if len(s0["layers"]) >= 2 and sum(1 for (f_, l_) in s0["cels"] if f_ == 0) >= 2:
                break
        awkward = lambda j: "n" * (20 + (j + k) % 7) + "\u00e4\u65e5\U0001f600" * 12
        for j, lay in enumerate(s0["layers"]):
            lay["name"] = awkward(j)
        for j, t in enumerate(s0["tags"]):
            t["name"] = awkward(j + 3)
        for j, sl in enumerate(s0["slices"]):
            sl["name"] = awkward(j + 5)
        ch = gen.random_choices(rng)
        ch.update({"unused": True, "junk_pattern": pat, "ignorable": 1.0, "ign_sizes": [0, 1, 2, 3, 4, 5], "tails": 0.5, "count_mode": "both", "shuffle_cels": False})
        bases.append(("probe%d" % k, gen.encode(s0, ch, rng)))
    cf = small_corpus(4096 if tier == "quick" else 40000)
    if tier == "quick":
        cf = cf[:max(2, int(8 * scale))]
    for p in cf:
        bases.append((os.path.basename(p), open(p, "rb").read()))
    for name, data in bases:
        for desc, mut in ase.single_field_mutations(data, extended=(tier != "quick")):
            out.append((w.put(mut, "sf"), name + ":" + desc))
    nmulti = int((4000 if tier == "quick" else 60000) * scale)
    for i in range(nmulti):
        name, data = bases[rng.randrange(len(bases))]
        r = rng.random()
        if r < 0.6:
            desc, mut = ase.random_multi_field(data, rng, rng.randint(2, 4))
        elif r < 0.7:
            desc, mut = ase.dup_chunk(data, rng)
        elif r < 0.8:
            desc, mut = ase.del_chunk(data, rng)
        elif r < 0.9:
            desc, mut = ase.swap_chunks(data, rng)
        else:
            desc, mut = next(ase.bit_flips(data, rng, 1, per=rng.randint(1, 4)))
        out.append((w.put(mut, "mf"), name + ":" + desc))
    for name, data in bases[: (6 if tier == "quick" else 40)]:
        for desc, mut in ase.truncations(data, every=False):
            out.append((w.put(mut, "tr"), name + ":" + desc))
    # a frame whose declared byte size ends INSIDE the header of one of its chunks (1..5 bytes into it), alone and with the chunk
    # count raised by one: the bytes are all there, the frame's budget is not
    for name, data in bases[: (8 if tier == "quick" else 60)]:
        fields = list(ase.walk(data))
        frames_ = [f for f in fields if f.name.endswith(".nbytes")]
        chunks_ = [f for f in fields if f.name.startswith("chunk") and f.name.endswith(".size")]
        for fi_, ff in enumerate(frames_):
            fend = ff.offset + ase.get_field(data, ff)
            cnt_new = next((f for f in fields if f.name == ff.name.replace("nbytes", "nchunks_new")), None)
            cnt_old = next((f for f in fields if f.name == ff.name.replace("nbytes", "nchunks_old")), None)
            for cf in chunks_:
                if not (ff.offset < cf.offset < fend):
                    continue
                for k in (1, 3, 5):
                    mut = ase.set_field(data, ff, cf.offset - ff.offset + k)
                    out.append((w.put(mut, "fb"), "%s:%s ends %d bytes into the header of %s" % (name, ff.name, k, cf.name)))
                    if cnt_new is not None and cnt_old is not None and k == 3:
                        m2 = ase.set_field(ase.set_field(mut, cnt_new, ase.get_field(data, cnt_new) + 1), cnt_old, min(65535, ase.get_field(data, cnt_old) + 1))
                        out.append((w.put(m2, "fb"), "%s:%s ends 3 bytes into the header of %s, chunk count + 1" % (name, ff.name, cf.name)))
    for name, data in special_files(rng):
        out.append((w.put(data, "sp"), "special:" + name))
    for desc, data, _ok in sparse_indexed_files(rng, 400 if tier == "quick" else 3000):
        out.append((w.put(data, "ix"), "special:" + desc))
    for i in range(300 if tier == "quick" else 3000):
        n = rng.choice([0, 1, 5, 127, 128, 129, 200])
        out.append((w.put(bytes(rng.randrange(256) for _ in range(n)), "rnd"), "random bytes %d" % n))
    return out


def aftermath_sequences(rng: random.Random) -> List[Tuple[str, bytes]]:
    """inputs meant to be loaded IN THIS ORDER on one thread: a file whose load fails half-way (zlib stream with a damaged
    checksum / cut short / a chunk cut short, of several sizes), followed by small well-formed files (what a failed load leaves
    behind must not affect the loads that follow)"""
    out = []
    small = []
    for k in range(6):
        s = gen.gen_sprite(rng, max_canvas=4, max_layers=2, max_frames=2, rich=False)
        small.append(("well-formed after a failed load #%d" % k, gen.encode(s, None, rng)))
    for npx in (16, 64 * 64, 200 * 200):
        side = int(npx ** 0.5)
        px = bytes((i * 37 + (i >> 3)) & 255 for i in range(side * side * 4))
        z = bytearray(ase.deflate(px, 6))
        bad_adler = bytes(z[:-1]) + bytes([z[-1] ^ 0x55])
        cut = bytes(z[:max(2, len(z) // 2)])
        garbage = bytes(z[:2]) + bytes(rng.randrange(256) for _ in range(len(z)))
        for nm, zz in (("damaged checksum", bad_adler), ("stream cut short", cut), ("garbage after the zlib header", garbage)):
            fr = ase.Frame(chunks=[ase.LayerChunk(), ase.CelChunk(layer=0, w=side, h=side, zraw=zz, ctype_cel=2)])
            out.append(("zlib cel of %d pixels, %s" % (side * side, nm), ase.serialize(ase.Sprite(width=4, height=4, frames=[fr]))))
            out += [small[rng.randrange(len(small))], small[rng.randrange(len(small))]]
        # a file cut in the middle of a chunk payload
        whole = ase.serialize(ase.Sprite(width=4, height=4, frames=[ase.Frame(chunks=[ase.LayerChunk(), ase.CelChunk(layer=0, w=side, h=side, pixels=px, ctype_cel=0)])]))
        out.append(("file cut inside a %d-byte chunk" % len(px), whole[:len(whole) - len(px) // 2]))
        out += [small[rng.randrange(len(small))]]
    return out


def known_class(path: str, data: bytes) -> Optional[str]:
    """decidable input classes of known_findings.json (status 'known')"""
    for k in vplib.load_known():
        if k.get("status") != "known":
            continue
        if k.get("class") == "dense_cel_table" and dense_table_class(data):
            return k["id"]
    return None


def dense_table_class(data: bytes) -> bool:
    """frames x (max cel layer index + 1) x 128 B exceeds 64 MiB + 8192 x input length (D18)"""
    try:
        nframes = int.from_bytes(data[6:8], "little")
        mx = -1
        for (_fi, _ci, s, e, t) in ase.chunk_spans(data):
            if t == ase.CT_CEL and e - s >= 8:
                mx = max(mx, int.from_bytes(data[s + 6:s + 8], "little"))
        return nframes * (mx + 1) * 128 > 64 * 2 ** 20 + 8192 * len(data)
    except Exception:
        return False


# ==========================================================================
# C04  loading is total
# ==========================================================================
def check_C04(tier: str, seed: int) -> int:
    v = Verdict("C04", tier, seed, "proof")
    ob = vplib.check_obligations("C04", expected=["C04_total", "C04_no_panic", "C04_parse_total", "C04_validate_total", "C04_example"])
    vplib.build_harness(["dev", "relchk"])
    w = Work("C04")
    try:
        rng = random.Random(seed)
        stream = corruption_stream(rng, tier, w)
        paths = [p for p, _ in stream]
        res = {}
        for prof in ("dev", "relchk"):
            res[prof] = vplib.impl_observe(prof, paths, w.dir, 0, timeout=1200, mem_kb=2 * 1024 * 1024)
        mb = vplib.model_observe(paths, w.dir, 0)
        corr_fail, direct_fail = [], []
        oc = Counter()
        kinds = Counter()
        distinct = set()
        for i, (p, desc) in enumerate(stream):
            kinds[desc.split(":")[0] if desc.startswith("special") or desc.startswith("random") else os.path.basename(p)[:2]] += 1
            mo = outcome(mb[i])
            for prof in ("dev", "relchk"):
                io = outcome(res[prof][i])
                oc["%s:%s" % (prof, outcome_class(io))] += 1
                if outcome_class(io) == "panic":
                    data = open(p, "rb").read()
                    direct_fail.append({"what": "load did not return a sprite or an error value", "profile": prof, "mutation": desc,
                                        "comments": res[prof][i][1][:3] if res[prof][i] else None, "_data": data})
                elif outcome_class(io) != outcome_class(mo):
                    corr_fail.append({"input": p, "mutation": desc, "profile": prof, "diff": "impl %d / model %d" % (io, mo),
                                      "_data": open(p, "rb").read()})
            distinct.add(hashlib.sha1(open(p, "rb").read()).hexdigest())
        # loads that fail half-way followed by well-formed files, all on one thread of one driver process: the later loads must
        # still return a sprite or an error value, and the same one as when loaded alone
        seqs = aftermath_sequences(rng)
        sp = [w.put(d, "seq") for _, d in seqs]
        for prof in ("dev", "relchk"):
            one = vplib.impl_observe(prof, sp, w.dir, 0, timeout=1200, mem_kb=2 * 1024 * 1024, shards=1, tag="seq")
            alone = vplib.impl_observe(prof, sp, w.dir, 0, timeout=1200, mem_kb=2 * 1024 * 1024, fresh_threads=True, tag="alone")
            for i, (desc, data) in enumerate(seqs):
                io = outcome(one[i])
                oc["%s:seq:%s" % (prof, outcome_class(io))] += 1
                if outcome_class(io) == "panic":
                    direct_fail.append({"what": "load did not return a sprite or an error value (loaded on one thread after: %s)"
                                                % "; ".join(d for d, _ in seqs[max(0, i - 3):i]), "profile": prof, "mutation": desc,
                                        "comments": one[i][1][:3] if one[i] else None, "_data": data})
                elif one[i] is None or alone[i] is None or one[i][0] != alone[i][0]:
                    corr_fail.append({"input": sp[i], "mutation": desc, "profile": prof,
                                      "diff": "the result of a load depends on the loads before it on the same thread: %s / alone %s"
                                              % (one[i][0][:1] if one[i] else None, alone[i][0][:1] if alone[i] else None), "_data": data})
        proof_level_coverage(v, ob, {
            "evaluations": len(stream) * 2 + 2 * len(seqs), "distinct_nontrivial": len(distinct),
            "rule": "malformed inputs: every walked field of each base file set to each boundary value (single-field, exhaustive per file), "
                    "random multi-field corruption, chunk duplication/deletion/swap, bit flips, structural truncations, hostile shapes "
                    "(20000-deep nesting, 3000 layers/frames, declared sizes at their maxima), random byte strings; each loaded in the dev and "
                    "relchk (release + overflow-checks + debug-assertions) builds on a 2 MiB thread under a 2 GiB address-space limit; "
                    "distinct = distinct byte strings",
            "samples": [d for _, d in stream[:3]] + [d for _, d in stream[-3:]],
            "outcomes": dict(oc), "correspondence_disagreements": len(corr_fail), "direct_failures": len(direct_fail)})
        v.assumptions = ["stack depth and allocator exhaustion are observed on the implementation, not modelled (DESIGN.md C04 partial)"]
        return finish_with(v, ob, corr_fail, direct_fail)
    finally:
        w.cleanup()


# ==========================================================================
# C13  truncated files are rejected
# ==========================================================================
def end_of_last_frame(data: bytes) -> int:
    fs = ase.frame_spans(data)
    return fs[-1][1] if fs else len(data)


def check_C13(tier: str, seed: int) -> int:
    v = Verdict("C13", tier, seed, "proof")
    ob = vplib.check_obligations("C13", expected=["C13_truncation", "C13_extension", "C13_prefix_classified", "C13_prefix_never_other"], extra_files=["C13_e2e"] if os.path.exists(os.path.join(vplib.COQ, "Props", "C13_e2e.v")) else ())
    vplib.build_harness(["release"])
    w = Work("C13")
    try:
        rng = random.Random(seed)
        bases: List[Tuple[str, bytes]] = []
        for i, (s, data) in enumerate(small_sprites(rng, 30 if tier == "quick" else 300, max_canvas=5, max_layers=4, max_frames=3)):
            if len(data) <= (1500 if tier == "quick" else 6000):
                bases.append(("gen%d" % i, data))
        for p in small_corpus(1300 if tier == "quick" else 16384):
            bases.append((p, open(p, "rb").read()))
        # endings where a missing length check would go unnoticed: an ignorable chunk with a body, a padded chunk,
        # a user-data chunk, an empty last frame, a frame that uses only the old chunk-count field
        for k, last in enumerate([ase.RawChunk(ase.CT_CEL_EXTRA, bytes(range(36))), ase.RawChunk(ase.CT_MASK, b"m" * 20), ase.RawChunk(ase.CT_PATH, b"p" * 9),
                                  ase.UserDataChunk(text="tail"), ase.LayerChunk(name="z", tail=b"\1\2\3\4\5"), None]):
            for mode in ("both", "old"):
                fr0 = ase.Frame(chunks=[ase.LayerChunk(name="a"), ase.CelChunk(layer=0, w=1, h=1, pixels=b"\1\2\3\4", ctype_cel=0)], count_mode=mode)
                fr1 = ase.Frame(chunks=[last] if last is not None else [], count_mode=mode)
                bases.append(("ending%d_%s" % (k, mode), ase.serialize(ase.Sprite(width=1, height=1, frames=[fr0, fr1]))))
        # a legacy palette chunk as the very last chunk, behind a new-format palette (it is read and skipped: its bytes must still be there)
        for k, kindc in enumerate((ase.CT_OLD_PALETTE_04, ase.CT_OLD_PALETTE_11)):
            fr0 = ase.Frame(chunks=[ase.PaletteChunk(first=0, entries=[(1, 2, 3, 255), (4, 5, 6, 255)]), ase.LayerChunk(name="a"),
                                    ase.CelChunk(layer=0, w=1, h=1, pixels=b"\1", ctype_cel=0)])
            fr1 = ase.Frame(chunks=[ase.OldPaletteChunk(kind=kindc, packets=[(0, [(9, 8, 7), (6, 5, 4), (3, 2, 1)])])])
            bases.append(("ending_oldpal%d" % k, ase.serialize(ase.Sprite(width=1, height=1, depth=8, frames=[fr0, fr1]))))
        # the header's file-size field pointing at the start of one of the later frames (informational: a prefix stays a prefix)
        for name, data in list(bases[:8]):
            starts = [f.offset for f in ase.walk(data) if f.name.endswith(".nbytes")]
            for fo in starts[1:]:
                bases.append(("%s:size=%d" % (name, fo), fo.to_bytes(4, "little") + data[4:]))
        # frames whose 32-bit field carries the count while the 16-bit field holds a smaller number (or zero)
        for k in range(6 if tier == "quick" else 40):
            s0 = gen.gen_sprite(rng, max_canvas=4, max_layers=3, max_frames=2, rich=False)
            sp = gen.build(s0, None, rng)
            for fr in sp.frames:
                n = len(fr.chunks)
                if n >= 2:
                    fr.count_mode = (rng.choice([0, 1, n - 1, n // 2]), n)
            data = ase.serialize(sp)
            if len(data) <= 2500:
                bases.append(("count_old_smaller_%d" % k, data))
        cases = []   # (path, base name, cut, must_fail)
        for name, data in bases:
            end = end_of_last_frame(data)
            for m in range(len(data) + 1):
                cases.append((w.put(data[:m], "cut"), name, m, m < end))
        # payloads larger than any block size a reader might use (64 KiB, 8 KiB): an uncompressed cel / a compressed cel / an ignorable
        # chunk of about 70-160 KB as the last chunk; cut offsets sampled (every block boundary +-1, the last 40 offsets, a stride)
        bigs = []
        for k, (cw, chh) in enumerate([(132, 130), (200, 200)]):
            px = bytes((i * 7 + (i >> 8)) & 255 for i in range(cw * chh * 4))
            for ct in (0, 2):
                fr = ase.Frame(chunks=[ase.LayerChunk(name="a"), ase.CelChunk(layer=0, w=cw, h=chh, pixels=px, ctype_cel=ct, zlevel=0)])
                bigs.append(("big%d_cel%d" % (k, ct), ase.serialize(ase.Sprite(width=4, height=4, frames=[ase.Frame(), fr]))))
        bigs.append(("big_mask", ase.serialize(ase.Sprite(width=1, height=1, frames=[ase.Frame(chunks=[ase.LayerChunk(), ase.RawChunk(ase.CT_MASK, b"m" * 70000)])]))))
        # a last frame of several hundred small chunks (an atlas with 300 slices; 700 user-data chunks): the cut may fall after any of them
        bigs.append(("many_slices", ase.serialize(ase.Sprite(width=8, height=8, frames=[ase.Frame(chunks=[ase.LayerChunk(name="a")]), ase.Frame(chunks=[
            ase.SliceChunk(name="s%d" % i, keys=[ase.SliceKey(frame=0, x=i, y=1, w=2, h=2)]) for i in range(300)])]))))
        bigs.append(("many_userdata", ase.serialize(ase.Sprite(width=1, height=1, frames=[ase.Frame(chunks=[ase.LayerChunk(name="a")] + [
            ase.UserDataChunk(text="u%d" % i) for i in range(700)])]))))
        for name, data in bigs:
            end = end_of_last_frame(data)
            cuts = set(range(max(0, len(data) - 40), len(data) + 1)) | set(range(0, len(data), 4093 if tier == "quick" else 509))
            if name.startswith("many_"):
                cuts |= set(range(0, len(data), 37 if tier == "quick" else 3))
            for blk in (8192, 65536):
                for q in range(1, len(data) // blk + 1):
                    cuts |= {q * blk - 1, q * blk, q * blk + 1}
                    # the same distances measured from the start of the last chunk's payload
                    cuts |= {len(data) - q * blk - 1, len(data) - q * blk, len(data) - q * blk + 1}
            for m in sorted(c for c in cuts if 0 <= c <= len(data)):
                cases.append((w.put(data[:m], "cut"), name, m, m < end))
        paths = [c[0] for c in cases]
        ib = vplib.impl_observe("release", paths, w.dir, 1)
        mb = vplib.model_observe(paths, w.dir, 1)
        corr_fail, direct_fail = [], []
        # the same prefixes as files on disk, through the path-based entry point: a truncated file must fail there as well
        sel = [i for i in range(len(cases)) if cases[i][3] and (i % 5 == 0 or cases[i][2] >= 0 and i % 2 == 0 and len(cases) < 20000)]
        fl = run_sched([vplib.impl_driver("release"), "sched"], ["%s file" % cases[i][0] for i in sel], w.dir, "c13file", False)
        for i, b in zip(sel, fl):
            if not (1 <= outcome(b) <= 4):
                direct_fail.append({"what": "a strict prefix ending before the end of the last frame, loaded with read_file, did not fail with an error",
                                    "base": cases[i][1], "cut": cases[i][2], "outcome": outcome(b), "_data": open(cases[i][0], "rb").read()})
                if len(direct_fail) > 4:
                    break
        full: Dict[str, list] = {}
        for i, (p, name, m, must_fail) in enumerate(cases):
            d = same_block(ib[i], mb[i])
            if d:
                corr_fail.append({"input": p, "base": name, "cut": m, "diff": d, "_data": open(p, "rb").read()})
            io = outcome(ib[i])
            if must_fail and not (1 <= io <= 4):
                direct_fail.append({"what": "a strict prefix ending before the end of the last frame did not fail with an error",
                                    "base": name, "cut": m, "outcome": io, "_data": open(p, "rb").read()})
            if not must_fail:
                full.setdefault(name, []).append((m, ib[i]))
        # from the end of the last frame on, the result is the full file's result
        for name, lst in full.items():
            ref = lst[-1][1]
            for m, b in lst:
                if outcome(ref) == 0 and (b is None or b[0] != ref[0]):
                    direct_fail.append({"what": "prefix that contains every frame loads differently from the whole file", "base": name, "cut": m})
        proof_level_coverage(v, ob, {
            "evaluations": len(cases), "distinct_nontrivial": len(cases) - len(bases),
            "rule": "every cut offset 0..len of %d base files (generated sprites with tails/ignorable chunks/trailers and small corpus files); "
                    "a case is non-trivial when the cut is a strict prefix; exhaustive over the offsets of each base file" % len(bases),
            "samples": [{"base": c[1], "cut": c[2], "must_fail": c[3]} for c in cases[:2] + cases[-2:]],
            "exhaustive": True, "correspondence_disagreements": len(corr_fail), "direct_failures": len(direct_fail)})
        return finish_with(v, ob, corr_fail, direct_fail)
    finally:
        w.cleanup()



# ==========================================================================
# pixel helpers (direct oracles that need no blend arithmetic beyond mul_un8)
# ==========================================================================
def mul_un8(a: int, b: int) -> int:
    t = a * b + 128
    return (((t >> 8) + t) >> 8) & 255


def packpix(r, g, b, a) -> int:
    return 0 if a == 0 else r + 256 * g + 65536 * b + 16777216 * a


def unpackpix(v: int) -> Tuple[int, int, int, int]:
    return (v & 255, (v >> 8) & 255, (v >> 16) & 255, (v >> 24) & 255)


def to_rgba(s: dict, px, bg: bool) -> Tuple[int, int, int, int]:
    d = s["depth"]
    if d == 32:
        return tuple(px)
    if d == 16:
        return (px[0], px[0], px[0], px[1])
    r, g, b, a, _n = s["palette"][px]
    if px == s["transparent"] and not bg:
        a = 0
    return (r, g, b, a)


def expected_cel_image(s: dict, f: int, l: int) -> List[int]:
    """canvas-sized image (packed, row-major) of cel (f, l): stored pixels at the offset, clipped,
    alpha scaled by the rounded product of layer and cel opacity; links resolved"""
    W, H = s["width"], s["height"]
    img = [0] * (W * H)
    c = s["cels"].get((f, l))
    if c is None:
        return img
    if c["kind"] == "linked":
        c = s["cels"][(c["frame"], l)]
    lay = s["layers"][l]
    op = mul_un8(lay["opacity"], c["opacity"])
    bg = bool(lay["flags"] & 8)

    def put(x, y, rgba):
        if 0 <= x < W and 0 <= y < H:
            a = mul_un8(rgba[3], op)
            img[y * W + x] = packpix(rgba[0], rgba[1], rgba[2], a)
    if c["kind"] == "tilemap":
        ts = next(t for t in s["tilesets"] if t["id"] == lay["tileset"])
        tw, th = ts["tw"], ts["th"]
        for ty in range(c["h"]):
            for tx in range(c["w"]):
                tid = c["tiles"][ty * c["w"] + tx]
                for py in range(th):
                    for px_ in range(tw):
                        p = ts["pixels"][tid * tw * th + py * tw + px_]
                        put(tx * tw + px_ + c["x"], ty * th + py + c["y"], to_rgba(s, p, False))
    else:
        for yy in range(c["h"]):
            for xx in range(c["w"]):
                put(c["x"] + xx, c["y"] + yy, to_rgba(s, c["pixels"][yy * c["w"] + xx], bg))
    return img


def covered_mask(s: dict, f: int) -> List[bool]:
    """pixels of frame f covered by the rectangle of some cel of a visible layer"""
    W, H = s["width"], s["height"]
    m = [False] * (W * H)
    vis = gen.visible_of(s)
    for l in range(len(s["layers"])):
        c = s["cels"].get((f, l))
        if c is None or not vis[l]:
            continue
        if c["kind"] == "linked":
            c = s["cels"][(c["frame"], l)]
        if c["kind"] == "tilemap":
            ts = next(t for t in s["tilesets"] if t["id"] == s["layers"][l]["tileset"])
            w, h = c["w"] * ts["tw"], c["h"] * ts["th"]
        else:
            w, h = c["w"], c["h"]
        for y in range(max(0, c["y"]), min(H, c["y"] + h)):
            for x in range(max(0, c["x"]), min(W, c["x"] + w)):
                m[y * W + x] = True
    return m


def layer_sources(s: dict, f: int, l: int):
    """(opacity product, {canvas index: unscaled RGBA of the cel pixel there}) of layer l in frame f, or None when the layer
    has no cel there; links resolved, clipping applied"""
    W, H = s["width"], s["height"]
    c = s["cels"].get((f, l))
    if c is None:
        return None
    if c["kind"] == "linked":
        c = s["cels"][(c["frame"], l)]
    lay = s["layers"][l]
    op = mul_un8(lay["opacity"], c["opacity"])
    bg = bool(lay["flags"] & 8)
    src = {}
    if c["kind"] == "tilemap":
        ts = next(t for t in s["tilesets"] if t["id"] == lay["tileset"])
        tw, th = ts["tw"], ts["th"]
        for ty in range(c["h"]):
            for tx in range(c["w"]):
                tid = c["tiles"][ty * c["w"] + tx]
                for py in range(th):
                    y = ty * th + py + c["y"]
                    if not 0 <= y < H:
                        continue
                    for px_ in range(tw):
                        x = tx * tw + px_ + c["x"]
                        if 0 <= x < W:
                            src[y * W + x] = to_rgba(s, ts["pixels"][tid * tw * th + py * tw + px_], False)
    else:
        for yy in range(c["h"]):
            y = c["y"] + yy
            if not 0 <= y < H:
                continue
            for xx in range(c["w"]):
                x = c["x"] + xx
                if 0 <= x < W:
                    src[y * W + x] = to_rgba(s, c["pixels"][yy * c["w"] + xx], bg)
    return op, src


def blendref_batch(lines: List[str], workdir: str, tag: str) -> List[int]:
    """AseRef.blend_n (extracted from Coq) on `mode backdrop source opacity` lines; -1 where the reference is undefined"""
    if not lines:
        return []
    nsh = max(1, min(vplib.NCPU, len(lines) // 20000 + 1))
    parts = [lines[i::nsh] for i in range(nsh)]
    files = []
    for i, part in enumerate(parts):
        lf = os.path.join(workdir, "%s_%d.ref" % (tag, i))
        with open(lf, "w") as fh:
            fh.write("\n".join(part) + "\n")
        files.append(lf)

    def run_ref(lf):
        r = subprocess.run("ulimit -s unlimited; exec %s blendref %s" % (vplib.MODEL_DRIVER, lf), shell=True, executable="/bin/bash",
                           stdout=subprocess.PIPE, env=vplib.ENV, timeout=1800)
        return [int(l.split()[1]) for l in r.stdout.decode().split("\n") if l.startswith("71 ")]
    from concurrent.futures import ThreadPoolExecutor
    with ThreadPoolExecutor(max_workers=vplib.NCPU) as ex:
        res = list(ex.map(run_ref, files))
    out = [-2] * len(lines)
    for i, r in enumerate(res):
        if len(r) != len(parts[i]):
            raise RuntimeError("blendref evaluated %d of %d lines" % (len(r), len(parts[i])))
        out[i::nsh] = r
    return out


def compose_oracle(sprites: List[dict], workdir: str) -> List[Dict[int, List[Optional[int]]]]:
    """The property's own formula, evaluated independently of the model: per sprite and frame the canvas obtained by starting
    transparent and blending, for each visible layer with a cel from the lowest index up, that cel's pixels (clipped) with the
    layer's mode and the rounded opacity product, the blend function being Spec/AseRef.blend_n (extracted from Coq).  A pixel
    whose chain meets an undefined reference value (HSL out of range) is None."""
    state = []     # (sprite index, frame, image list)
    plan = []      # per state entry: list of (mode, op, src dict) bottom to top
    for si, s in enumerate(sprites):
        vis = gen.visible_of(s)
        for f in range(len(s["durations"])):
            steps = []
            for l in range(len(s["layers"])):
                if not vis[l]:
                    continue
                ls = layer_sources(s, f, l)
                if ls is not None:
                    steps.append((s["layers"][l]["blend"], ls[0], ls[1]))
            state.append((si, f, [0] * (s["width"] * s["height"])))
            plan.append(steps)
    rnd = 0
    while True:
        lines, where = [], []
        for k, steps in enumerate(plan):
            if rnd < len(steps):
                mode, op, src = steps[rnd]
                img = state[k][2]
                for idx, rgba in src.items():
                    if img[idx] is None:
                        continue
                    lines.append("%d %d %d %d" % (mode, img[idx], rgba[0] | rgba[1] << 8 | rgba[2] << 16 | rgba[3] << 24, op))
                    where.append((k, idx))
        if not lines and all(rnd >= len(st) for st in plan):
            break
        res = blendref_batch(lines, workdir, "compose%d" % rnd)
        for (k, idx), r in zip(where, res):
            state[k][2][idx] = None if r < 0 else (0 if (r >> 24) == 0 else r)
        rnd += 1
    out: List[Dict[int, List[Optional[int]]]] = [dict() for _ in sprites]
    for si, f, img in state:
        out[si][f] = img
    return out


def images_of(block, kind: int) -> Dict[tuple, List[int]]:
    """{key words before the image: [w, h, pixels...]}: 22 f | 24 f l | 27 l f | 19 id | 20 id t"""
    nkey = {22: 1, 24: 2, 27: 2, 19: 1, 20: 2}[kind]
    return {tuple(l[1:1 + nkey]): l[1 + nkey:] for l in block[0] if l and l[0] == kind}


# ==========================================================================
# generic runner for the rendering family
# ==========================================================================
def run_sprites(prop: str, tier: str, seed: int, level: int, nq: int, nt: int, genkw: dict, kinds,
                direct: Callable[[dict, bytes, object], List[str]], rule: str, expected: List[str],
                profiles=("release",), extra_cases: Optional[Callable] = None, include_corpus=True,
                max_frames=None, max_layers=None, compose: bool = False, extra_direct: Optional[Callable] = None) -> int:
    v = Verdict(prop, tier, seed, "proof")
    ob = vplib.check_obligations(prop, expected=expected, extra_files=["C02_e2e"] if prop == "C02" else ())
    vplib.build_harness(list(profiles))
    w = Work(prop)
    try:
        rng = random.Random(seed)
        n = nq if tier == "quick" else nt
        cases = []
        for i, (s, data) in enumerate(small_sprites(rng, n, **genkw)):
            cases.append((s, data, w.put(data)))
            if i % 3 == 0:
                # a twin right behind it: the same structure with other pixel values (see the one-thread pass below)
                t = twin_of(s, rng)
                td = gen.encode(t, None, rng)
                cases.append((t, td, w.put(td)))
            elif i % 3 == 1 and i < 400:
                # or a twin that differs in names only (the driver keeps the previous sprite alive while the next one is loaded)
                t = name_twin_of(s, rng)
                td = gen.encode(t, None, rng)
                cases.append((t, td, w.put(td)))
        if extra_cases:
            for i, (s, data) in enumerate(extra_cases(rng, tier)):
                cases.append((s, data, w.put(data)))
                if i % 3 == 0 and s["width"] * s["height"] <= 4096:
                    t = twin_of(s, rng)
                    td = gen.encode(t, None, rng)
                    cases.append((t, td, w.put(td)))
        paths = [c[2] for c in cases]
        corpus = corpus_files() if include_corpus else []
        allp = paths + corpus
        ib = vplib.impl_observe(profiles[0], allp, w.dir, level, max_frames=max_frames if max_frames else None,
                                max_layers=max_layers)
        others = {p: vplib.impl_observe(p, allp, w.dir, level, max_frames=max_frames, max_layers=max_layers) for p in profiles[1:]}
        # (a generated sprite marked "_nomodel" - tens of thousands of layers, which the model's inductive integers make slow - is compared
        # with the expectations computed from the sprite only)
        nomodel = {i for i, c in enumerate(cases) if c[0].get("_nomodel")}
        msel = [i for i in range(len(allp)) if i not in nomodel]
        mres = vplib.model_observe([allp[i] for i in msel], w.dir, level, max_frames=max_frames, max_layers=max_layers)
        mb = list(ib)
        for i, r in zip(msel, mres):
            mb[i] = r
        corr_fail, direct_fail = [], []
        sigs = set()
        for i, p in enumerate(allp):
            d = same_block(ib[i], mb[i], kinds)
            if d:
                corr_fail.append({"input": p, "diff": d, "_data": open(p, "rb").read()})
            for prof, ob_ in others.items():
                if ob_[i] is None or ib[i] is None or ob_[i][0] != ib[i][0]:
                    direct_fail.append({"what": "observation differs between build profiles", "profiles": [profiles[0], prof],
                                        "input": p, "_data": open(p, "rb").read()})
            if vplib.section_panic(ib[i]) is not None or outcome(ib[i]) == 9:
                direct_fail.append({"what": "accessor panicked", "input": p, "comments": ib[i][1][:3] if ib[i] else None,
                                    "_data": open(p, "rb").read()})
                continue
            if i < len(cases):
                s, data, _ = cases[i]
                sigs.add(json.dumps(gen.describe(s), sort_keys=True))
                if outcome(ib[i]) != 0:
                    direct_fail.append({"what": "well-formed generated sprite does not load", "outcome": outcome(ib[i]),
                                        "comments": ib[i][1][:3], "sprite": gen.describe(s), "_data": data})
                    continue
                for msg in direct(s, data, ib[i]):
                    direct_fail.append({"what": msg, "sprite": gen.describe(s), "_data": data})
        if extra_direct:
            direct_fail += extra_direct(w)
        # the generated sprites once more, all on ONE thread of ONE driver process, in list order (twins - same structure, other
        # pixel values - sit next to each other): a result must not depend on what was loaded or rendered before
        # ... nor on an input that was REFUSED before it: every 12th position of the list gets a file that fails inside inflate
        poison = [w.put(d) for d in poison_files()]
        seq_paths, pos = [], []
        for i, pth in enumerate(paths):
            if i % 12 == 5:
                seq_paths.append(poison[(i // 12) % len(poison)])
            pos.append(len(seq_paths))
            seq_paths.append(pth)
        seq_all = vplib.impl_observe(profiles[0], seq_paths, w.dir, level, max_frames=max_frames, max_layers=max_layers, shards=1, tag="seq")
        seq = [seq_all[k] for k in pos]
        for i, (s, data, _p) in enumerate(cases):
            if seq[i] is None or ib[i] is None or seq[i][0] != ib[i][0]:
                direct_fail.append({"what": "the observation of a sprite depends on the sprites loaded and rendered before it on the same thread",
                                    "input": paths[i], "sprite": gen.describe(s), "_data": data})
                for msg in (direct(s, data, seq[i]) if seq[i] is not None and outcome(seq[i]) == 0 and vplib.section_panic(seq[i]) is None else []):
                    direct_fail.append({"what": msg + " (when loaded after other sprites on the same thread)", "sprite": gen.describe(s), "_data": data})
                break
        composed = 0
        if compose:
            # every rendered pixel against the composition formula with Aseprite's blend functions (Spec/AseRef.v)
            exp = compose_oracle([c[0] for c in cases], w.dir)
            for i, (s, data, _p) in enumerate(cases):
                if outcome(ib[i]) != 0 or vplib.section_panic(ib[i]) is not None:
                    continue
                imgs = images_of(ib[i], 22)
                for f, want in exp[i].items():
                    im = imgs.get((f,))
                    if im is None or len(im) != 2 + len(want):
                        continue
                    for k, wv in enumerate(want):
                        if wv is None:
                            continue
                        composed += 1
                        if im[2 + k] != wv:
                            direct_fail.append({"what": "frame %d pixel (%d,%d) is %s, the bottom-to-top composition of the visible cels gives %s"
                                                        % (f, k % s["width"], k // s["width"], unpackpix(im[2 + k]), unpackpix(wv)),
                                                "sprite": gen.describe(s), "_data": data})
                            break
                    else:
                        continue
                    break
        proof_level_coverage(v, ob, {
            "evaluations": len(allp), "distinct_nontrivial": len(sigs) + len(corpus), "rule": rule,
            "pixels_against_composition_formula": composed,
            "samples": [gen.describe(c[0]) for c in cases[:3]],
            "correspondence_disagreements": len(corr_fail), "direct_failures": len(direct_fail)})
        return finish_with(v, ob, corr_fail, direct_fail)
    finally:
        w.cleanup()


# ==========================================================================
# C02  frame image = bottom-to-top composition of visible layers
# ==========================================================================
def direct_C02(s, data, blk) -> List[str]:
    out = []
    W, H = s["width"], s["height"]
    imgs = images_of(blk, 22)
    for f in range(len(s["durations"])):
        im = imgs.get((f,))
        if im is None:
            out.append("frame %d image missing" % f)
            continue
        if im[0] != W or im[1] != H or len(im) != 2 + W * H:
            out.append("frame %d image has dimensions %s, canvas is %dx%d" % (f, im[:2], W, H))
            continue
        cov = covered_mask(s, f)
        for k in range(W * H):
            if not cov[k] and im[2 + k] != 0:
                out.append("frame %d pixel %d is covered by no visible cel but is not transparent" % (f, k))
                break
        # a frame with exactly one visible layer that has a cel equals that cel's image
        vis = gen.visible_of(s)
        ls = [l for l in range(len(s["layers"])) if vis[l] and (f, l) in s["cels"]]
        if len(ls) == 1 and im[2:] != expected_cel_image(s, f, ls[0]):
            out.append("frame %d has the single visible cel of layer %d but differs from that cel's pixels" % (f, ls[0]))
        if not ls and any(im[2:]):
            out.append("frame %d has no visible cel but is not fully transparent" % f)
    return out


def check_C02(tier, seed):
    def extra(rng, tier):
        # the same sprite with its cel chunks stored in a different order
        out = []
        for _ in range(40 if tier == "quick" else 400):
            s = gen.gen_sprite(rng, max_canvas=8, max_layers=6, max_frames=2, rich=False)
            ch = gen.default_choices()
            ch["shuffle_cels"] = True
            out.append((s, gen.encode(s, ch, rng)))
        # nesting shapes (several groups closing at once, hidden inner groups under visible outer ones): one pixel per leaf layer
        shapes = [lv for n in (5, 6, 7) for lv in forests(n) if max(lv) >= 2]
        for lv in rng.sample(shapes, min(len(shapes), 150 if tier == "quick" else 1500)):
            flags = [rng.choice([1, 1, 1, 0]) for _ in lv]
            s = forest_sprite(lv, flags, rng)
            out.append((s, gen.encode(s, None, rng)))
        # the complete (layer opacity, cel opacity) square of the opacity product (quick: a quarter of it, rotating with the seed)
        # the complete (layer opacity, cel opacity) square of the opacity product (both tiers: a rounding slip may hit two dozen pairs only)
        for g in range(64):
            s = opacity_square_sprite(g)
            out.append((s, gen.encode(s, None, rng)))
        for s in big_canvas_sprites(rng):
            out.append((s, gen.encode(s, None, rng)))
        # cels of more than 65536 pixels (300 x 220, 257 x 256) placed so that only their LAST rows and columns lie on the small canvas: the
        # pixels drawn have source indices beyond 65535
        for (cw, chh), kind in (((300, 220), "raw"), ((257, 256), "zlib"), ((220, 300), "zlib")):
            px = [((x * 3 + y) & 255, (y * 5 + x) & 255, (x ^ y) & 255, 255 if (x + y) % 5 else 140) for y in range(chh) for x in range(cw)]
            big = {"width": 6, "height": 5, "depth": 32, "transparent": 0, "durations": [100], "speed": 100, "palette_chunks": [], "palette": None,
                   "sprite_ud": None, "ext_files": [], "tilesets": [],
                   "layers": [{"flags": 1, "ltype": 0, "level": 0, "blend": b_, "opacity": 255, "name": "L%d" % i, "tileset": 0, "ud": None, "default_w": 0, "default_h": 0}
                              for i, b_ in enumerate((0, rng.randrange(19)))],
                   "cels": {(0, 0): {"kind": "raw", "x": 0, "y": 0, "w": 6, "h": 5, "opacity": 255, "pixels": [(9, 9, 9, 255)] * 30, "ud": None},
                            (0, 1): {"kind": kind, "x": 6 - cw + 1, "y": 5 - chh + 1, "w": cw, "h": chh, "opacity": rng.choice([255, 180]), "pixels": px, "ud": None}},
                   "tags": [], "has_tags_chunk": False, "slices": []}
            out.append((big, gen.encode(big, None, rng)))
        for g in range(16 if tier == "quick" else 96):
            s = covering_sprite(g, rng)
            out.append((s, gen.encode(s, None, rng)))
        for _ in range(30 if tier == "quick" else 300):
            s = occluder_sprite(rng)
            out.append((s, gen.encode(s, None, rng)))
        for vertical in (False, True):
            s = far_tilemap_sprite(rng, vertical)
            out.append((s, gen.encode(s, None, rng)))
        return out
    return run_sprites("C02", tier, seed, 2, 300, 4000, dict(max_canvas=10, max_layers=8, max_frames=3, rich=False), [1, 22],
                       direct_C02,
                       "structured sprites (canvas <= 10x10, 1-8 layers, all 19 blend modes, boundary-biased opacities on layer and cel, hidden layers "
                       "and groups, linked/tilemap/raw/zlib cels, offsets on/partly off/fully off canvas and at the i16 extremes, cel chunks shuffled) "
                       "+ corpus; model frame images = implementation frame images; direct: canvas dimensions, uncovered pixels transparent, "
                       "single-visible-cel frames equal the cel's pixels, and every pixel of every frame against the composition formula evaluated "
                       "in Python with the blend function extracted from Spec/AseRef.v; distinct = distinct structural summaries",
                       ["C02_dims", "C02_compose", "C02_uncovered", "C02_order", "C02_compose_loaded"], extra_cases=extra, max_frames=4,
                       compose=True)


# ==========================================================================
# C06  cel pixels decode correctly
# ==========================================================================
def direct_C06(s, data, blk) -> List[str]:
    out = []
    imgs = images_of(blk, 24)
    heads = {(l[2], l[3]): l for l in blk[0] if l and l[0] == 23 and l[1] == 0}
    exp_heads = gen.expected_cel_heads(s)
    for (f, l), eh in exp_heads.items():
        h = heads.get((f, l))
        if h is None:
            out.append("cel (%d,%d) not reported" % (f, l))
            continue
        if h[4:6] != [f, l] or h[6:10] != eh:
            out.append("cel (%d,%d) reports frame/layer/is_empty/x/y/is_tilemap %s, expected %s" % (f, l, h[4:10], [f, l] + eh))
        im = imgs.get((f, l))
        if im is None or im[:2] != [s["width"], s["height"]]:
            out.append("cel (%d,%d) image missing or not canvas sized" % (f, l))
        elif im[2:] != expected_cel_image(s, f, l):
            out.append("cel (%d,%d) image differs from the stored pixels placed at the offset" % (f, l))
    return out[:3]


def large_uniform_cels(w: Work) -> List[dict]:
    """a 1024 x 1024 RGBA cel of one colour with three marker pixels (4 MB decoded; deflate packs it about 1020 : 1), stored raw and
    compressed at levels 1 / 6 / 9: every storage must load and give the same cel image (implementation only, images as digests)"""
    px = bytearray(bytes([200, 60, 20, 255]) * (1024 * 1024))
    for k, pos in enumerate((0, 1024 * 517 + 333, 1024 * 1024 - 1)):
        px[4 * pos:4 * pos + 4] = bytes([k + 1, 2, 3, 255])
    files = []
    for tag, ct, zl_ in (("raw", 0, 0), ("zlib level 1", 2, 1), ("zlib level 6", 2, 6), ("zlib level 9", 2, 9)):
        fr = ase.Frame(chunks=[ase.LayerChunk(name="u"), ase.CelChunk(layer=0, x=-3, y=2, w=1024, h=1024, pixels=bytes(px), ctype_cel=ct, zlevel=zl_)])
        files.append((tag, w.put(ase.serialize(ase.Sprite(width=1030, height=1030, frames=[fr])))))
    ub = vplib.impl_observe("release", [p_ for _, p_ in files], w.dir, 5, extra_env={"VERIF_IMAGE_DIGEST": "65536"}, mem_kb=6000000, shards=4, tag="uniform")
    out = []
    for (tag, p_), b in zip(files, ub):
        if b is None or outcome(b) != 0 or ub[0] is None or b[0] != ub[0][0]:
            out.append({"what": "a well-formed 1024 x 1024 cel stored as '%s' does not load / decode like the same cel stored raw" % tag,
                        "outcome": outcome(b), "comments": b[1][:3] if b else None})
    return out


def check_C06(tier, seed):
    return run_sprites("C06", tier, seed, 4, 300, 4000, dict(max_canvas=8, max_layers=5, max_frames=3, rich=False), [1, 23, 24, 6, 7],
                       direct_C06,
                       "structured sprites in the three pixel formats (transparent index over 0..255, background and non-background layers, raw and "
                       "zlib storage, sparse palettes with alpha < 255, linked cels, tilemap cels) + corpus; model cel observations = implementation; "
                       "direct: every cel's image equals the stored pixels at the offset with alpha scaled by mul_un8(layer, cel) computed "
                       "independently in Python; emptiness/offset/tilemap-ness as encoded",
                       ["C06_empty", "C06_linked", "C06_cel_pixels", "C06_cel_pixels_loaded"], max_frames=4, max_layers=6, extra_direct=large_uniform_cels,
                       extra_cases=lambda rng, tier: [(s, gen.encode(s, None, rng)) for s in opacity_grid_sprites() + big_canvas_sprites(rng)])


# ==========================================================================
# C19  all access paths agree
# ==========================================================================
def direct_C19(s, data, blk) -> List[str]:
    out = []
    r = {}
    for l in blk[0]:
        if l and l[0] == 23:
            r.setdefault((l[2], l[3]), {})[l[1]] = l[4:]
    for key, routes in r.items():
        if len(routes) != 3 or not (routes[0] == routes[1] == routes[2]):
            out.append("routes to cel %s disagree: %s" % (key, routes))
        elif routes[0][:2] != list(key):
            out.append("cel %s reports coordinates %s" % (key, routes[0][:2]))
        elif (routes[0][2] == 1) != ((key[0], key[1]) not in s["cels"]):
            # (is_empty is what the FILE says about that frame and layer: a cel chunk for exactly them, or none)
            out.append("cel %s reports is_empty = %d, the file has %s cel chunk for that frame and layer" % (key, routes[0][2], "no" if (key[0], key[1]) not in s["cels"] else "a"))
    cel_imgs = images_of(blk, 24)
    for (l, f), im in images_of(blk, 27).items():
        if cel_imgs.get((f, l)) != im:
            out.append("tilemap image of layer %d frame %d differs from its cel's image" % (l, f))
    # a frame in which exactly one visible layer has a cel renders exactly that cel's image
    vis = gen.visible_of(s)
    frame_imgs = images_of(blk, 22)
    for (f,), fim in frame_imgs.items():
        ls = [l for l in range(len(s["layers"])) if vis[l] and (f, l) in s["cels"]]
        if len(ls) == 1 and (f, ls[0]) in cel_imgs and cel_imgs[(f, ls[0])] != fim:
            out.append("frame %d has exactly one visible layer with a cel (layer %d) but its image differs from that cel's image" % (f, ls[0]))
        if not ls and any(fim[2:]):
            out.append("frame %d has no visible cel but is not fully transparent" % f)
    return out[:3]


def check_C19(tier, seed):
    def single_layer(rng, tier):
        # sprites with one layer (plus, half of the time, hidden ones): every frame is a single-visible-layer frame
        out = []
        for i in range(80 if tier == "quick" else 1500):
            s = gen.gen_sprite(rng, max_canvas=6, max_layers=1 if i % 2 else 3, max_frames=5, rich=False)
            keep = rng.randrange(len(s["layers"]))
            for j, lay in enumerate(s["layers"]):
                lay["flags"] = (lay["flags"] | 1) if j == keep else (lay["flags"] & ~1)
                lay["level"] = 0
                if lay["ltype"] == 1:
                    lay["ltype"] = 0
            # every third sprite: one cel with opacity 0 (its pixels keep their colours: invisible is not the same as absent), and
            # opacity 0 in the link chunks (a linked cel is drawn with the opacity of the cel it links to)
            if i % 3 == 0 and s["cels"]:
                ks = sorted(s["cels"])
                s["cels"][ks[rng.randrange(len(ks))]]["opacity"] = 0
                for c in s["cels"].values():
                    if c["kind"] == "linked":
                        c["opacity"] = 0
            ch = None
            if i % 4 == 1:
                # the one visible layer sits inside a visible GROUP that has an opacity and a blend mode of its own, and the header's flags
                # word has the "group opacity valid" bits set: a group's opacity and mode take no part in compositing
                grp = {"flags": 1, "ltype": 1, "level": 0, "blend": rng.choice([0, 1, 16]), "opacity": rng.choice([128, 0, 200]), "name": "grp", "tileset": 0,
                       "ud": None, "default_w": 0, "default_h": 0}
                for lay in s["layers"]:
                    lay["level"] = 1
                s["layers"].insert(0, grp)
                s["cels"] = {(f_, l_ + 1): c for (f_, l_), c in s["cels"].items()}
                ch = gen.default_choices()
                ch["hdr_flags"] = rng.choice([2, 3, 6, 7, 0xFFFFFFFF])
            out.append((s, gen.encode(s, ch, rng)))
        for g in range(16 if tier == "quick" else 96):
            s = covering_sprite(g, rng)
            out.append((s, gen.encode(s, None, rng)))
        # more layers than a 16-bit index can tell apart: 65538 layers, cels on layers 0 and 1 only (the cel of layer 65537 is
        # absent - not the cel of layer 1; the observation looks at the first layers and at the last one)
        nl = 65538
        layers = [{"flags": 1 if i != 0 else 0, "ltype": 0, "level": 0, "blend": 0, "opacity": 255, "name": "", "tileset": 0, "ud": None, "default_w": 0, "default_h": 0}
                  for i in range(nl)]
        cels = {(0, 0): {"kind": "raw", "x": 0, "y": 0, "w": 1, "h": 1, "opacity": 255, "pixels": [(250, 1, 2, 255)], "ud": None},
                (0, 1): {"kind": "raw", "x": 1, "y": 0, "w": 1, "h": 1, "opacity": 255, "pixels": [(3, 240, 4, 255)], "ud": None},
                (1, 1): {"kind": "raw", "x": 0, "y": 1, "w": 1, "h": 1, "opacity": 200, "pixels": [(5, 6, 230, 255)], "ud": None}}
        # (a cel chunk stores its layer as a 16-bit word: layers 65536 and 65537 can have no cel at all)
        big = {"width": 2, "height": 2, "depth": 32, "transparent": 0, "durations": [100, 100], "speed": 100, "palette_chunks": [], "palette": None,
               "sprite_ud": None, "ext_files": [], "tilesets": [], "layers": layers, "cels": cels, "tags": [], "has_tags_chunk": False, "slices": [],
               "_nomodel": True}
        out.append((big, gen.encode(big, None, rng)))
        return out
    return run_sprites("C19", tier, seed, 15, 200, 3000, dict(max_canvas=6, max_layers=5, max_frames=4, rich=False),
                       [1, 22, 23, 24, 25, 27, 6, 7], direct_C19,
                       "structured sprites with non-square frame/layer counts; for every (frame, layer) the three routes report identical coordinates, "
                       "emptiness, offset, tilemap-ness; tilemap image = cel image; model = implementation on all of it",
                       ["C19_routes", "C19_accessors_agree", "C19_single", "C19_tilemap_image"], extra_cases=single_layer, max_frames=5, max_layers=6)


# ==========================================================================
# C08  tilemap and tileset images agree with tile lookups
# ==========================================================================
def direct_C08(s, data, blk) -> List[str]:
    out = []
    W, H = s["width"], s["height"]
    tile_imgs = images_of(blk, 20)
    full = images_of(blk, 19)
    for t in s["tilesets"]:
        tw, th, cnt = t["tw"], t["th"], t["count"]
        fi = full.get((t["id"],))
        if fi is None or fi[:2] != [tw, th * cnt]:
            out.append("tileset %d image has dimensions %s" % (t["id"], fi[:2] if fi else None))
            continue
        for i in range(min(cnt, 64)):
            ti = tile_imgs.get((t["id"], i))
            if ti is None or ti[:2] != [tw, th]:
                out.append("tile image %d of tileset %d has dimensions %s" % (i, t["id"], ti[:2] if ti else None))
            elif ti[2:] != fi[2 + i * tw * th: 2 + (i + 1) * tw * th]:
                out.append("tileset %d image is not its tile images stacked (tile %d)" % (t["id"], i))
    heads = {(l[1], l[2]): l for l in blk[0] if l and l[0] == 25 and l[1] >= 0}
    lookups = {(l[1], l[2]): l[4:] for l in blk[0] if l and l[0] == 26}
    tm_imgs = images_of(blk, 27)
    for (l, f), h in heads.items():
        c = s["cels"].get((f, l))
        is_tm = c is not None and c["kind"] == "tilemap"
        if h[3] != (1 if is_tm else 0):
            out.append("tilemap(%d,%d) presence %d" % (l, f, h[3]))
            continue
        if not is_tm:
            continue
        ts = next(t for t in s["tilesets"] if t["id"] == s["layers"][l]["tileset"])
        tw, th = ts["tw"], ts["th"]
        ew, eh = -(-W // tw), -(-H // th)

        def tdiv(a, b):
            q = abs(a) // b
            return q if a >= 0 else -q
        exp = [1, ew, eh, tw, th, tdiv(c["x"], tw), tdiv(c["y"], th), c["x"], c["y"]]
        if h[3:] != exp:
            out.append("tilemap(%d,%d) header %s, expected %s" % (l, f, h[3:], exp))
            continue
        ids = lookups.get((l, f))
        gw, gh = min(ew + 2, 20), min(eh + 2, 20)
        ox, oy = exp[5], exp[6]

        def stored(X, Y):
            x, y = X - ox, Y - oy
            return c["tiles"][y * c["w"] + x] if (0 <= x < c["w"] and 0 <= y < c["h"]) else 0
        k = 0
        for Y in range(gh):
            for X in range(gw):
                if ids[k] != stored(X, Y):
                    out.append("tile(%d,%d) of tilemap(%d,%d) is %d, stored %d" % (X, Y, l, f, ids[k], stored(X, Y)))
                k += 1
        LAT = [0, 1, 65535, 65536, 2147483647, 2147483648, 4294967295]
        for Y in LAT:
            for X in LAT:
                if ids[k] != stored(X, Y):
                    out.append("tile(%d,%d) of tilemap(%d,%d) is %d, stored %d" % (X, Y, l, f, ids[k], stored(X, Y)))
                k += 1
        # the image shows, at each canvas position, the pixel of the looked-up tile (alpha scaled)
        im = tm_imgs.get((l, f))
        op = mul_un8(s["layers"][l]["opacity"], c["opacity"])
        if im is not None and c["x"] % tw == 0 and c["y"] % th == 0 and ew <= 18 and eh <= 18:
            for y in range(H):
                for x in range(W):
                    X, Y = x // tw, y // th
                    inside = 0 <= X - ox < c["w"] and 0 <= Y - oy < c["h"]
                    if inside:
                        tid = ids[Y * gw + X]
                        ti = tile_imgs.get((ts["id"], tid))
                        if ti is None:
                            continue
                        r, g, b, a = unpackpix(ti[2 + (y % th) * tw + (x % tw)])
                        want = packpix(r, g, b, mul_un8(a, op))
                    else:
                        want = 0
                    if im[2 + y * W + x] != want:
                        out.append("tilemap(%d,%d) image pixel (%d,%d) is %d, tile lookup says %d" % (l, f, x, y, im[2 + y * W + x], want))
                        return out[:3]
        elif im is not None and c["x"] % tw == 0 and c["y"] % th == 0 and s["depth"] == 32:
            # maps larger than the looked-up grid: the image against the tiles the file stores (the lookup agrees with them on the grid)
            exp_im = expected_cel_image(s, f, l)
            if im[2:] != exp_im:
                k = next(i for i in range(len(exp_im)) if im[2 + i] != exp_im[i])
                out.append("tilemap(%d,%d) image pixel (%d,%d) is %d, the stored tile there has %d" % (l, f, k % W, k // W, im[2 + k], exp_im[k]))
                return out[:3]
    return out[:3]


def check_C08(tier, seed):
    def only_tilemaps(rng, tier):
        out = []
        n = 150 if tier == "quick" else 2500
        while len(out) < n:
            s = gen.gen_sprite(rng, max_canvas=12, max_layers=4, max_frames=2, rich=False)
            if s["tilesets"] and any(c["kind"] == "tilemap" for c in s["cels"].values()):
                out.append((s, gen.encode(s, gen.random_choices(rng), rng)))
        # a tilemap cel that stores more than 65535 tiles (256 x 257 tiles of 1 x 1; the last row uses another tile)
        tiles = [1 + ((x + y) % 2) for y in range(256) for x in range(256)] + [3] * 256
        big = {"width": 256, "height": 257, "depth": 32, "transparent": 0, "durations": [100], "speed": 100, "palette_chunks": [],
               "palette": None, "sprite_ud": None, "ext_files": [],
               "tilesets": [{"id": 0, "count": 4, "tw": 1, "th": 1, "base": 1, "name": "t", "ext": None, "empty0": True,
                             "pixels": [(0, 0, 0, 0), (255, 0, 0, 255), (0, 255, 0, 255), (0, 0, 255, 200)]}],
               "layers": [{"flags": 1, "ltype": 2, "level": 0, "blend": 0, "opacity": 255, "name": "m", "tileset": 0, "ud": None,
                           "default_w": 0, "default_h": 0}],
               "cels": {(0, 0): {"kind": "tilemap", "x": 0, "y": 0, "w": 256, "h": 257, "opacity": 255, "tiles": tiles, "ud": None}},
               "tags": [], "has_tags_chunk": False, "slices": []}
        out.append((big, gen.encode(big, None, rng)))
        # the same size with UNPREDICTABLE tile ids over a 251-tile tileset (the compressed tile stream is then far larger than any
        # buffer an inflater works with: about 66 KB), stored at level 6 and as stored blocks
        for zl_ in (6, "stored"):
            import copy as _c
            noisy = _c.deepcopy(big)
            noisy["tilesets"][0]["count"] = 251
            noisy["tilesets"][0]["pixels"] = [(0, 0, 0, 0)] + [((k * 5) & 255, (k * 11) & 255, k, 255) for k in range(1, 251)]
            noisy["cels"][(0, 0)]["tiles"] = [rng.randrange(251) for _ in range(256 * 257)]
            ch = gen.default_choices()
            ch["zlevels"] = [zl_]
            out.append((noisy, gen.encode(noisy, ch, rng)))
        # a tileset of more than 65536 pixels (300 tiles of 16 x 16, each tile its own colour) in the three pixel formats, with a tilemap
        # cel that never uses tile 0 and one that does
        for depth in (32, 16, 8):
            for lowest in (5, 0):
                ntl, tl = 300, 16
                pal = {k: ((k * 9) & 255, (k * 5 + 1) & 255, (255 - k) & 255, 255 if k else 0, None) for k in range(256)} if depth == 8 else None
                def tp(t):
                    return (t & 255, t >> 8, 77, 255) if depth == 32 else (((t * 3) & 255, 255) if depth == 16 else (1 + t % 255))
                pixels = [((0, 0, 0, 0) if depth == 32 else ((0, 0) if depth == 16 else 0))] * (tl * tl)
                for t in range(1, ntl):
                    pixels += [tp(t)] * (tl * tl)
                tiles = [lowest + ((x * 7 + y * 13) % (ntl - lowest)) for y in range(3) for x in range(4)]
                tiles[5] = lowest
                sp_ = {"width": 64, "height": 48, "depth": depth, "transparent": 0, "durations": [100], "speed": 100,
                       "palette_chunks": [("new", 0, [pal[k] for k in range(256)])] if pal else [], "palette": pal, "sprite_ud": None, "ext_files": [],
                       "tilesets": [{"id": 0, "count": ntl, "tw": tl, "th": tl, "base": 1, "name": "large", "ext": None, "empty0": True, "pixels": pixels}],
                       "layers": [{"flags": 1, "ltype": 2, "level": 0, "blend": 0, "opacity": 255, "name": "m", "tileset": 0, "ud": None, "default_w": 0, "default_h": 0}],
                       "cels": {(0, 0): {"kind": "tilemap", "x": 0, "y": 0, "w": 4, "h": 3, "opacity": 255, "tiles": tiles, "ud": None}},
                       "tags": [], "has_tags_chunk": False, "slices": []}
                out.append((sp_, gen.encode(sp_, None, rng)))
        # tiles that start beyond coordinate 32767
        for vertical in (False, True):
            fs = far_tilemap_sprite(rng, vertical)
            out.append((fs, gen.encode(fs, None, rng)))
        return out + extreme_canvas_sprites(rng, 10 if tier == "quick" else 100)
    return run_sprites("C08", tier, seed, 12, 50, 500, dict(max_canvas=12, max_layers=4, max_frames=2, rich=False),
                       [1, 19, 20, 25, 26, 27], direct_C08,
                       "structured sprites with tilesets (tile sizes 1..5 x 1..5, 1-6 tiles, three pixel formats) and tilemap cels of any stored size at "
                       "tile-aligned offsets incl. negative and far off-canvas; lookups on the grid and on the lattice {0,1,65535,65536,2^31-1,2^31,2^32-1}^2; "
                       "direct: size = ceil(canvas/tile), offsets = cel offset / tile size, lookups = stored ids or 0 outside, image pixel = looked-up "
                       "tile's pixel with scaled alpha, tileset image = stacked tile images; model = implementation",
                       ["C08_size", "C08_offsets", "C08_lookup", "C08_tileset_stacked", "C08_image_lookup"], extra_cases=only_tilemaps, max_frames=3, max_layers=5)


# ==========================================================================
# C05  a sprite that loads is fully usable
# ==========================================================================
def check_C05(tier: str, seed: int) -> int:
    v = Verdict("C05", tier, seed, "proof")
    ob = vplib.check_obligations("C05", expected=["C05_valid", "C05_valid_bytes", "C05_layers", "C05_cels", "C05_struct", "C05_frame_image", "C05_cel_image", "C05_frame_image_total", "C05_cel_image_total", "C05_tilemap", "C05_tile_lookup_total", "C05_tile_image", "C05_tileset_image", "C05_walk", "C05_walk_total"], extra_files=["C05_C17"])
    vplib.build_harness(["dev", "relchk"])
    w = Work("C05")
    try:
        rng = random.Random(seed + 5)
        stream = corruption_stream(rng, tier, w, scale=0.3 if tier == "quick" else 1.0)
        for s, data in small_sprites(rng, 150 if tier == "quick" else 2000, max_canvas=8, max_layers=6, max_frames=3):
            stream.append((w.put(data, "wf"), "well-formed generated sprite"))
        for p in corpus_files():
            stream.append((p, "corpus"))
        paths = [p for p, _ in stream]
        # first pass: which inputs load (cheap), then the full API walk on those
        pre = vplib.impl_observe("relchk", paths, w.dir, 0, mem_kb=2 * 1024 * 1024)
        loaded = [i for i in range(len(paths)) if outcome(pre[i]) == 0]
        lp = [paths[i] for i in loaded]
        # the model is compared on a seeded sample of the loaded inputs (1500 in the quick tier, 40000 in the thorough tier)
        cap = 1500 if tier == "quick" else 40000
        msel = set(range(len(lp))) if len(lp) <= cap else set(rng.sample(range(len(lp)), cap))
        if tier == "quick":
            # 20000 nested groups cost the model (inductive integers, quadratic ancestor walks) more than two minutes: thorough tier only
            msel = {k for k in msel if not stream[loaded[k]][1].startswith("special:deep")}
        corr_fail, direct_fail = [], []
        distinct = set()
        nmodel = 0
        # observations are large (every image of every loadable input, ~25 canvas-sized images each): compare batch by batch, a
        # batch being at most 4000 inputs and at most ~60 M observed pixels (the parsed observations of the two builds then
        # stay below ~5 GB).  Images of more than DIGEST pixels - canvases of millions of pixels that a corrupted size field
        # produces - are rendered and walked like all others but reported by the driver as dimensions + a hash
        # (VERIF_IMAGE_DIGEST), and the model is not run on those inputs.
        DIGEST = 1 << 20
        def canvas_of(path):
            h = open(path, "rb").read(12)
            return max(1, int.from_bytes(h[8:10], "little") * int.from_bytes(h[10:12], "little")) if len(h) == 12 else 1
        canv = [canvas_of(path) for path in lp]
        msel = {k for k in msel if canv[k] <= DIGEST}
        batches, cur, cost = [], [], 0
        for k, path in enumerate(lp):
            c = 25 * min(canv[k], DIGEST) + 500
            if cur and (len(cur) >= 4000 or cost + c > 60_000_000):
                batches.append(cur)
                cur, cost = [], 0
            cur.append(k)
            cost += c
        if cur:
            batches.append(cur)
        nhuge = 0
        for idx in batches:
            lo_ = idx[0]
            blp = [lp[k] for k in idx]
            t_ = time.time()
            # a canvas of more than 64 M pixels (both header dimensions corrupted at once: 32768 x 32767 is a 4 GB image) is walked
            # without the canvas-sized images: whether a buffer of the documented size can be had is the allocator's answer, not the library's
            hugeb = [j for j, k in enumerate(idx) if canv[k] > (64 << 20)]
            nhuge += len(hugeb)
            if hugeb and len(hugeb) < len(idx):
                # keep batches homogeneous: move the huge ones to a batch of their own at the end
                batches.append([idx[j] for j in hugeb])
                hs = set(hugeb)
                idx = [k for j, k in enumerate(idx) if j not in hs]
                blp = [lp[k] for k in idx]
                nhuge -= len(hugeb)
                hugeb = []
            lvl = 17 if hugeb else 31
            res = {prof: vplib.impl_observe(prof, blp, w.dir, lvl, max_frames=3, max_layers=6, timeout=2400, mem_kb=4 * 1024 * 1024, tag="walk%d" % lo_,
                                            extra_env={"VERIF_IMAGE_DIGEST": str(DIGEST)})
                   for prof in ("dev", "relchk")}
            log("C05 batch %d: walks of %d inputs in %.1fs" % (lo_, len(blp), time.time() - t_))
            t_ = time.time()
            msel_l = [j for j, k in enumerate(idx) if k in msel]
            mres = vplib.model_observe([blp[j] for j in msel_l], w.dir, 15, max_frames=3, max_layers=6, timeout=3000, tag="model%d" % lo_)
            log("C05 batch %d: model on %d inputs in %.1fs" % (lo_, len(msel_l), time.time() - t_))
            mb = {j: mres[t] for t, j in enumerate(msel_l)}
            nmodel += len(mb)
            for j, k in enumerate(idx):
                i = loaded[k]
                p, desc = stream[i]
                distinct.add(hashlib.sha1(open(p, "rb").read()).hexdigest())
                for prof in ("dev", "relchk"):
                    b = res[prof][j]
                    sp = vplib.section_panic(b)
                    if outcome(b) != 0 or sp is not None or not any(l and l[0] == 98 for l in b[0]):
                        direct_fail.append({"what": "an accessor failed on a sprite that loaded", "profile": prof, "section": sp, "mutation": desc,
                                            "comments": b[1][:3] if b else None, "_data": open(p, "rb").read()})
                d = same_block(res["relchk"][j], mb[j]) if j in mb else None
                if d:
                    corr_fail.append({"input": p, "mutation": desc, "diff": d, "_data": open(p, "rb").read()})
                if res["dev"][j] is not None and res["relchk"][j] is not None and res["dev"][j][0] != res["relchk"][j][0]:
                    direct_fail.append({"what": "observation differs between dev and relchk builds", "mutation": desc, "_data": open(p, "rb").read()})
                # documented dimensions
                b = res["relchk"][j]
                if outcome(b) == 0:
                    hdr = next((l for l in b[0] if l[0] == 2), None)
                    for l in b[0]:
                        if l[0] in (22, 24, 27) and hdr:
                            off = {22: 2, 24: 3, 27: 3}[l[0]]
                            digest = hdr[1] * hdr[2] > DIGEST and len(l) == off + 5 and l[off + 2] == -1
                            if l[off:off + 2] != hdr[1:3] or not (digest or len(l) == off + 2 + hdr[1] * hdr[2]):
                                direct_fail.append({"what": "image does not have the canvas dimensions", "line": l[:5], "_data": open(p, "rb").read()})
                                break
            del res, mres, mb
            if len(direct_fail) > 50:
                break
        proof_level_coverage(v, ob, {
            "evaluations": len(paths) + 2 * len(lp), "distinct_nontrivial": len(distinct),
            "rule": "the corruption stream of C04 plus well-formed sprites and the corpus; every input that loads gets the complete public API walk "
                    "(STRUCT, FRAMES, CELS, TILES, Debug formatting; all accessors, tile lookups on a coordinate lattice) in the dev and relchk builds; "
                    "no panic, documented image dimensions, dev = relchk, and full observation equality with the model; distinct = distinct loadable byte strings",
            "samples": [stream[i][1] for i in loaded[:3]] + [stream[i][1] for i in loaded[-2:]],
            "loaded": len(lp), "inputs": len(paths), "model_compared": nmodel, "huge_canvas_inputs_walked_without_images": nhuge,
            "correspondence_disagreements": len(corr_fail), "direct_failures": len(direct_fail)})
        v.assumptions = ["canvas area is bounded by what the generated files declare; allocator exhaustion on a documented-size result is an environment limit"]
        return finish_with(v, ob, corr_fail, direct_fail)
    finally:
        w.cleanup()



# ==========================================================================
# C14  result independent of reader behaviour; I/O errors are returned
# ==========================================================================
IOKINDS = [1, 2, 3, 5, 6, 7, 8, 9, 10, 11]     # every code of the harness table except Interrupted (4)


def run_sched(driver_cmd: List[str], cases: List[str], workdir: str, tag: str, model: bool):
    return vplib.run_sharded(driver_cmd, cases, workdir, tag, timeout=1800, mem_kb=None if model else 4000000, model=model)


def check_C14(tier: str, seed: int) -> int:
    v = Verdict("C14", tier, seed, "proof")
    ob = vplib.check_obligations("C14", expected=["C14_schedule", "C14_fault_offset", "C14_fault_event", "C14_schedules_agree", "C14_sched_no_panic", "C14_fault_no_panic", "C14_sched_ok_same"])
    vplib.build_harness(["release", "dev"])
    w = Work("C14")
    try:
        rng = random.Random(seed)
        bases: List[Tuple[str, bytes, str]] = []
        for i, (s, data) in enumerate(small_sprites(rng, 30 if tier == "quick" else 400, max_canvas=5, max_layers=4, max_frames=3)):
            if len(data) <= (1200 if tier == "quick" else 5000):
                bases.append(("gen%d" % i, data, w.put(data)))
        for p in small_corpus(1300 if tier == "quick" else 16384):
            bases.append((p, open(p, "rb").read(), p))
        # the same files with the header's file-size field zeroed / maximal (informational: the loader reads until the frames are done)
        for name, data, _p in list(bases[:6]) + list(bases[-2:]):
            for tag, val in (("size0", 0), ("sizemax", 2 ** 32 - 1)):
                d2 = val.to_bytes(4, "little") + data[4:]
                bases.append(("%s:%s" % (tag, name), d2, w.put(d2)))
        # also a few malformed inputs: the result (an error) must be schedule independent too
        for name, data in special_files(rng)[2:10]:
            bases.append(("special:" + name, data, w.put(data)))
        cases: List[Tuple[str, str, str, tuple]] = []     # (case line, base, kind, args)
        consumed_of: Dict[str, int] = {}
        for name, data, path in bases:
            n = len(data)
            try:
                consumed_of[name] = end_of_last_frame(data)
            except Exception:
                consumed_of[name] = 0
            cases.append(("%s plain" % path, name, "plain", ()))
            cases.append(("%s one" % path, name, "one", ()))
            for k in range(8 if tier == "quick" else 60):
                sd, mx = rng.randrange(1, 2 ** 32), rng.choice([1, 2, 3, 7, 16, 100, 4096])
                cases.append(("%s chunks %d %d" % (path, sd, mx), name, "chunks", (sd, mx)))
                cases.append(("%s intr %d %d" % (path, sd, mx), name, "intr", (sd, mx)))
            for cap in (1, 7, 8192):
                cases.append(("%s bufreader %d" % (path, cap), name, "other", ()))
            cases.append(("%s cursor" % path, name, "other", ()))
            cases.append(("%s file" % path, name, "other", ()))
            cases.append(("%s pipe" % path, name, "pipe", ()))       # read_file on the read end of a pipe (implementation only)
            cases.append(("%s chain %d" % (path, n // 2), name, "other", ()))
            step = 1 if n <= 400 or tier != "quick" else 3
            for off in list(range(0, n + 2, step)):
                kind = IOKINDS[(off + len(cases)) % len(IOKINDS)]
                cases.append(("%s hard %d %d" % (path, off, kind), name, "hard", (off, kind)))
            # transient faults: the error is reported once, later reads would succeed again; it must still be returned
            for off in sorted(set([0, 1, 4, 127, 128, 129, n // 2, n - 1, n] + [rng.randrange(0, n + 1) for _ in range(6 if tier == "quick" else 40)])):
                if 0 <= off <= n:
                    kind = [7, 10, 7, 10, 5, 9][(off + len(cases)) % 6]          # TimedOut, WouldBlock, BrokenPipe, Other
                    cases.append(("%s once %d %d" % (path, off, kind), name, "hard", (off, kind)))
        lines = [c[0] for c in cases]
        ib = run_sched([vplib.impl_driver("release"), "sched"], lines, w.dir, "isched", False)
        mb = run_sched([vplib.MODEL_DRIVER, "sched"], lines, w.dir, "msched", True)
        plain: Dict[str, Tuple[object, object]] = {}
        corr_fail, direct_fail = [], []
        # the same schedules and faults in the dev build (debug assertions, overflow checks): an error path that trips an
        # assertion there is a panic instead of the returned error.  Quick tier: the bases of at most 700 bytes.
        size_of = {name: len(data) for name, data, _ in bases}
        dsel = [i for i, c in enumerate(cases) if size_of[c[1]] <= (700 if tier == "quick" else 6000)]
        db = run_sched([vplib.impl_driver("dev"), "sched"], [lines[i] for i in dsel], w.dir, "dsched", False)
        for i, bd in zip(dsel, db):
            if outcome_class(outcome(bd)) == "panic":
                direct_fail.append({"what": "panic / lost worker under a reader schedule in the dev build", "case": lines[i], "comments": bd[1][:3] if bd else None})
            elif ib[i] is not None and bd[0] != ib[i][0]:
                direct_fail.append({"what": "dev and release builds disagree under a reader schedule", "case": lines[i], "dev": bd[0][:3], "release": ib[i][0][:3]})
        # a file of more than a megabyte delivered one byte at a time and in blocks, with and without an Interrupted result before every read
        # (more than 65536 transient interruptions in one load): implementation only, against its own plain read
        # (520 x 520 stored RGBA: a chunk payload of more than a megabyte, followed by one more chunk)
        bigs = ase.Sprite(width=520, height=520, frames=[ase.Frame(chunks=[
            ase.LayerChunk(flags=1, blend=0, opacity=255, name="big"),
            ase.CelChunk(layer=0, w=520, h=520, opacity=255, ctype_cel=0,
                         pixels=bytes(((x * 7 + (x >> 9)) & 255) for x in range(520 * 520 * 4))),
            ase.UserDataChunk(text="after the big one")])])
        bigp = w.put(ase.serialize(bigs))
        biglines = ["%s plain" % bigp, "%s one" % bigp, "%s intr %d 1" % (bigp, rng.randrange(1, 2 ** 32)), "%s chunks %d 1" % (bigp, rng.randrange(1, 2 ** 32)),
                    "%s intr %d 3" % (bigp, rng.randrange(1, 2 ** 32)), "%s intr %d 4096" % (bigp, rng.randrange(1, 2 ** 32)),
                    "%s intr %d 70000" % (bigp, rng.randrange(1, 2 ** 32)), "%s bufreader 8192" % bigp, "%s file" % bigp]
        bb = run_sched([vplib.impl_driver("release"), "sched"], biglines, w.dir, "bsched", False)
        for ln, b in zip(biglines[1:], bb[1:]):
            if b is None or bb[0] is None or outcome(bb[0]) != 0 or b[0] != bb[0][0]:
                direct_fail.append({"what": "result depends on how the reader delivers the bytes", "case": ln + " (a %d-byte file)" % len(ase.serialize(bigs)),
                                    "got": b[0][:3] if b else None, "plain": bb[0][0][:3] if bb[0] else None})
        kinds = Counter()
        for i, (line, name, kind, args) in enumerate(cases):
            kinds[kind] += 1
            if kind == "plain":
                plain[name] = (ib[i], mb[i])
        for i, (line, name, kind, args) in enumerate(cases):
            bi, bm = ib[i], mb[i]
            pi, pm = plain[name]
            io = outcome(bi)
            if outcome_class(io) == "panic":
                direct_fail.append({"what": "panic / lost worker under a reader schedule", "case": line, "comments": bi[1][:3] if bi else None})
                continue
            if kind in ("one", "chunks", "intr", "other", "pipe"):
                if bi[0] != pi[0]:
                    direct_fail.append({"what": "result depends on how the reader delivers the bytes", "case": line,
                                        "got": bi[0][:3], "plain": pi[0][:3]})
            elif kind == "hard":
                off, kc = args
                ok_same = bi[0] == pi[0]
                l30 = next((l for l in bi[0] if l[0] == 30), None)
                is_ioerr = io == 4 and l30 is not None and l30[1] == kc and l30[2] == 1 and l30[3] == kc
                if not (ok_same or is_ioerr):
                    direct_fail.append({"what": "an injected I/O error came back neither as the plain result nor as IoError carrying that error",
                                        "case": line, "got": bi[0][:3], "plain": pi[0][:3]})
                elif outcome(pi) == 0 and off < consumed_of[name] and not is_ioerr:
                    # the loader needs the bytes up to the end of the last frame: an error reported before that must come back
                    direct_fail.append({"what": "the reader reported an I/O error at offset %d, before the needed data (%d bytes) was delivered, "
                                                "but loading did not return that error" % (off, consumed_of[name]),
                                        "case": line, "got": bi[0][:3]})
                if io == 0 and outcome(pi) != 0:
                    direct_fail.append({"what": "a sprite was returned although the plain load fails", "case": line})
            # model vs implementation: same outcome, same error kind, same observation hash
            if kind != "pipe" and (bi is None or bm is None or bi[0] != bm[0]):
                if not (1 <= io <= 3 and 1 <= outcome(bm) <= 3):
                    corr_fail.append({"case": line, "impl": bi[0][:3] if bi else None, "model": bm[0][:3] if bm else None})
        proof_level_coverage(v, ob, {
            "evaluations": len(cases), "distinct_nontrivial": len(cases) - kinds["plain"],
            "rule": "per base file (%d files: generated, small corpus, malformed): one byte at a time; random partitions of the byte stream (xorshift, "
                    "max sizes 1..4096) with and without an Interrupted result before every read; BufReader capacities 1/7/8192, Cursor, chained "
                    "reader, read_file on the path; a hard I/O error of rotating kind (10 kinds) at every byte offset (every third offset for files "
                    "above 400 bytes in the quick tier); transient faults (reported once, TimedOut / WouldBlock / BrokenPipe / Other) at boundary and random "
                    "offsets; non-trivial = not the plain read" % len(bases),
            "samples": lines[:2] + lines[-2:], "schedule_kinds": dict(kinds),
            "correspondence_disagreements": len(corr_fail), "direct_failures": len(direct_fail)})
        v.assumptions = ["BufReader, the file system and byteorder are std/third-party code observed, not modelled; the theorems are about any reader "
                         "following the Read contract as modelled in Model/Sched.v"]
        return finish_with(v, ob, corr_fail, direct_fail)
    finally:
        w.cleanup()



# ==========================================================================
# C09  layer parents and visibility follow the nesting levels
# ==========================================================================
def forests(n: int):
    """all level sequences of length n: first 0, each at most one more than its predecessor"""
    def rec(prefix):
        if len(prefix) == n:
            yield list(prefix)
            return
        for v in range(0, prefix[-1] + 2):
            prefix.append(v)
            yield from rec(prefix)
            prefix.pop()
    if n == 0:
        yield []
    else:
        yield from rec([0])


def forest_sprite(levels: List[int], flags: List[int], rng: random.Random, late: Optional[int] = None) -> dict:
    """`late`: the layers from this index on have no cel in frame 0 (a stored cel in frame 1 instead), so that their layer chunks
    can be written in frame 1 (encoding choice "late_layers")"""
    n = len(levels)
    layers = []
    cels = {}
    # one canvas pixel per layer, row-major on a canvas at most 256 wide (cel offsets are 16-bit signed fields)
    W = max(1, min(n, 256))
    H = max(1, -(-n // W))
    for i in range(n):
        group = i + 1 < n and levels[i + 1] > levels[i]
        # (a layer with deeper layers behind it is their parent whatever its type: one in four of them is an IMAGE layer, with a cel)
        plain_parent = group and rng.random() < 0.25
        if plain_parent:
            group = False
        layers.append({"flags": flags[i], "ltype": 1 if group else 0, "level": levels[i], "blend": rng.choice([0, 0, 0, 1, 2, 16, 18]), "opacity": 255, "name": "L%d" % i,
                       "tileset": 0, "ud": None, "default_w": 0, "default_h": 0})
        if not group:
            if rng.random() < 0.3:
                # a tilemap layer (1 x 1 tiles; tile 1 is opaque): visibility through the ancestors applies to it like to any layer
                layers[-1]["ltype"], layers[-1]["tileset"] = 2, 0
                cels[(0, i)] = {"kind": "tilemap", "x": i % W, "y": i // W, "w": 1, "h": 1, "opacity": 255, "tiles": [1], "ud": None}
            else:
                cels[(0, i)] = {"kind": "raw", "x": i % W, "y": i // W, "w": 1, "h": 1, "opacity": 255,
                                "pixels": [((10 + i) & 255, 20, 30, 255)], "ud": None}
    tilesets = [{"id": 0, "count": 2, "tw": 1, "th": 1, "base": 1, "name": "t", "ext": None, "empty0": True, "pixels": [(0, 0, 0, 0), (200, 100, 50, 255)]}]
    # a second frame in which every leaf holds a LINKED cel (to its cel of frame 0): visibility applies to those like to any cel
    for (f0, i) in list(cels):
        if late is not None and i >= late:
            cels[(1, i)] = cels.pop((0, i))
        else:
            cels[(1, i)] = {"kind": "linked", "frame": 0, "x": 0, "y": 0, "opacity": 255, "ud": None}
    return {"width": W, "height": H, "depth": 32, "transparent": 0, "durations": [100, 100], "speed": 100, "palette_chunks": [],
            "palette": None, "sprite_ud": None, "ext_files": [], "tilesets": tilesets if any(l["ltype"] == 2 for l in layers) else [],
            "layers": layers, "cels": cels, "tags": [], "has_tags_chunk": False, "slices": []}


def opacity_grid_sprites(depths=(32, 16, 8)) -> List[dict]:
    """the complete (layer opacity, cel opacity) square again, for checks that look at the first 6 layers and 4 frames of a sprite only:
    sprites of 6 layers x 4 frames on a 1 x 1 canvas, 24 pairs each (2731 sprites), in the three pixel formats in turn"""
    out = []
    pairs = [(lo, co) for lo in range(256) for co in range(256)]
    for k in range(0, len(pairs), 24):
        depth = depths[(k // 24) % len(depths)]
        chunk = pairs[k:k + 24]
        lops = sorted({lo for lo, _ in chunk})
        # 24 consecutive pairs span at most two layer opacities: layers 0..5 take them in turn, frames 0..3 the cel opacities
        layers, cels = [], {}
        for li in range(6):
            layers.append({"flags": 1, "ltype": 0, "level": 0, "blend": 0, "opacity": chunk[li * 4][0] if li * 4 < len(chunk) else 255, "name": "g%d" % li,
                           "tileset": 0, "ud": None, "default_w": 0, "default_h": 0})
        for idx, (lo, co) in enumerate(chunk):
            li, f = idx // 4, idx % 4
            px = (201, 77, 13, 255) if depth == 32 else ((180, 255) if depth == 16 else 1)
            cels[(f, li)] = {"kind": "raw", "x": 0, "y": 0, "w": 1, "h": 1, "opacity": co, "pixels": [px], "ud": None}
        pal = {0: (0, 0, 0, 0, None), 1: (9, 99, 199, 255, None)} if depth == 8 else None
        out.append({"width": 1, "height": 1, "depth": depth, "transparent": 0, "durations": [100] * 4, "speed": 100,
                    "palette_chunks": [("new", 0, [pal[0], pal[1]])] if pal else [], "palette": pal, "sprite_ud": None, "ext_files": [], "tilesets": [],
                    "layers": layers, "cels": cels, "tags": [], "has_tags_chunk": False, "slices": []})
    return out


def big_canvas_sprites(rng: random.Random) -> List[dict]:
    """canvases with a side of 32768 pixels and more (the other side 1 or 2): a cel at a non-negative offset near the origin and one
    near the far end are both on the canvas"""
    out = []
    for (W, H) in ((40000, 1), (1, 32768), (65535, 1), (2, 33000)):
        far = (min(32767, W - 3), 0) if W > H else (0, min(32767, H - 3))      # (cel offsets are 16-bit signed fields)
        layers = [{"flags": 1, "ltype": 0, "level": 0, "blend": rng.choice([0, 0, 2]), "opacity": rng.choice([255, 200]), "name": "L%d" % i, "tileset": 0,
                   "ud": None, "default_w": 0, "default_h": 0} for i in range(2)]
        cels = {(0, 0): {"kind": "raw", "x": 0, "y": 0, "w": min(W, 2), "h": min(H, 2), "opacity": 255,
                         "pixels": [(10 + i, 200, 30, 255) for i in range(min(W, 2) * min(H, 2))], "ud": None},
                (0, 1): {"kind": "zlib", "x": far[0], "y": far[1], "w": 1, "h": 1, "opacity": rng.choice([255, 101]), "pixels": [(1, 2, 250, 255)], "ud": None}}
        out.append({"width": W, "height": H, "depth": 32, "transparent": 0, "durations": [100], "speed": 100, "palette_chunks": [], "palette": None,
                    "sprite_ud": None, "ext_files": [], "tilesets": [], "layers": layers, "cels": cels, "tags": [], "has_tags_chunk": False, "slices": []})
    return out


def opacity_square_sprite(g: int) -> dict:
    """256 layers (layer opacity = layer index, blend mode = index mod 19) x 4 frames (cel opacity 4g .. 4g+3): every layer holds a
    1 x 1 cel at x = layer index, so the 64 sprites g = 0..63 together enumerate the complete (layer opacity, cel opacity) square
    of the opacity product, each pair over a transparent backdrop (where every mode shows the source with its alpha scaled)"""
    layers = [{"flags": 1, "ltype": 0, "level": 0, "blend": i % 19, "opacity": i, "name": "o%d" % i, "tileset": 0, "ud": None,
               "default_w": 0, "default_h": 0} for i in range(256)]
    cels = {}
    for f in range(4):
        for i in range(256):
            cels[(f, i)] = {"kind": "raw", "x": i, "y": 0, "w": 1, "h": 1, "opacity": 4 * g + f,
                            "pixels": [((i * 7 + f) & 255, 200 - f, 50 + g, (255, 128, 254, 1)[(i + f + g) & 3])], "ud": None}
    return {"width": 256, "height": 1, "depth": 32, "transparent": 0, "durations": [100] * 4, "speed": 100, "palette_chunks": [],
            "palette": None, "sprite_ud": None, "ext_files": [], "tilesets": [], "layers": layers, "cels": cels, "tags": [],
            "has_tags_chunk": False, "slices": []}


def covering_sprite(g: int, rng: random.Random) -> dict:
    """ONE layer whose cel covers the canvas exactly (256 x 1 at the origin, alpha = x: every alpha value), in 4 frames with
    layer and cel opacities strictly inside 1..254 (pair g of a fixed list and three random ones): the plainest possible frame -
    bottom-most cel, Normal or any other mode over the blank canvas - where the two roundings of the opacity product and of the
    alpha scaling must still be applied in the order the composition formula gives"""
    lo = [100, 101, 102, 103, 77, 200, 254, 1, 128, 129, 50, 150, 33, 66, 99, 250][g % 16]
    cos = [[103, 101, 254, 1], [2, 127, 128, 200], [100, 150, 77, 253]][g % 3]
    layers = [{"flags": 1, "ltype": 0, "level": 0, "blend": 0 if g % 4 else rng.randrange(19), "opacity": lo, "name": "c", "tileset": 0, "ud": None,
               "default_w": 0, "default_h": 0}]
    cels = {}
    for f in range(4):
        co = cos[f] if f else rng.randrange(2, 254)
        cels[(f, 0)] = {"kind": rng.choice(["raw", "zlib"]), "x": 0, "y": 0, "w": 256, "h": 1, "opacity": co, "ud": None,
                        "pixels": [((x * 3 + f) & 255, (200 - x) & 255, (x ^ g) & 255, x) for x in range(256)]}
    return {"width": 256, "height": 1, "depth": 32, "transparent": 0, "durations": [100] * 4, "speed": 100, "palette_chunks": [],
            "palette": None, "sprite_ud": None, "ext_files": [], "tilesets": [], "layers": layers, "cels": cels, "tags": [],
            "has_tags_chunk": False, "slices": []}


def far_tilemap_sprite(rng: random.Random, vertical: bool) -> dict:
    """a tilemap whose last tiles start beyond coordinate 32767 (129 tiles of 256 pixels along one axis of a 33024-pixel canvas):
    every tile has its own colour, so a tile drawn at a clamped or wrapped position shows"""
    n, tl = 129, 256
    tw, th = (2, tl) if vertical else (tl, 2)
    cols = [(0, 0, 0, 0)] + [((37 * k) & 255, (k * 2) & 255, 200 - k, 255) for k in range(1, 8)]
    pixels = []
    for k in range(8):
        pixels += [cols[k]] * (tw * th)
    tiles = [1 + (k % 7) for k in range(n)]
    off = rng.choice([0, 0, 1]) * tl
    W, H = (2, n * tl + off) if vertical else (n * tl + off, 2)
    cel = {"kind": "tilemap", "x": 0 if vertical else off, "y": off if vertical else 0, "w": 1 if vertical else n, "h": n if vertical else 1, "opacity": 255,
           "tiles": tiles, "ud": None}
    return {"width": W, "height": H, "depth": 32, "transparent": 0, "durations": [100], "speed": 100, "palette_chunks": [], "palette": None,
            "sprite_ud": None, "ext_files": [], "tilesets": [{"id": 0, "count": 8, "tw": tw, "th": th, "base": 1, "name": "far", "ext": None, "empty0": True, "pixels": pixels}],
            "layers": [{"flags": 1, "ltype": 2, "level": 0, "blend": 0, "opacity": 255, "name": "m", "tileset": 0, "ud": None, "default_w": 0, "default_h": 0}],
            "cels": {(0, 0): cel}, "tags": [], "has_tags_chunk": False, "slices": []}


def occluder_sprite(rng: random.Random) -> dict:
    """a layer above the bottom one that LOOKS like an occluder - visible, flagged background, Normal mode, layer and cel opacity
    255, a stored cel covering the canvas exactly (or more) - but whose pixels are partly translucent or transparent: what lies
    below must still show through"""
    W, H = rng.randint(1, 5), rng.randint(1, 4)
    nbelow = rng.randint(1, 3)
    layers, cels = [], {}

    def img(w, h, alphas):
        return [(rng.randrange(256), rng.randrange(256), rng.randrange(256), rng.choice(alphas)) for _ in range(w * h)]
    for i in range(nbelow):
        layers.append({"flags": 1, "ltype": 0, "level": 0, "blend": rng.choice([0, 0, 1, 16]), "opacity": rng.choice([255, 200]), "name": "below%d" % i,
                       "tileset": 0, "ud": None, "default_w": 0, "default_h": 0})
        cels[(0, i)] = {"kind": "raw", "x": 0, "y": 0, "w": W, "h": H, "opacity": 255, "pixels": img(W, H, [255, 255, 128]), "ud": None}
    grow = rng.choice([0, 0, 1])
    layers.append({"flags": 1 | 8 | rng.choice([0, 2, 4]), "ltype": 0, "level": 0, "blend": 0, "opacity": 255, "name": "bg-flagged", "tileset": 0, "ud": None,
                   "default_w": 0, "default_h": 0})
    # ... or are all opaque while the CEL opacity is below 255
    celop = rng.choice([255, 255, 254, 128, 0])
    cels[(0, nbelow)] = {"kind": rng.choice(["raw", "zlib"]), "x": -grow, "y": -grow, "w": W + 2 * grow, "h": H + 2 * grow, "opacity": celop,
                         "pixels": img(W + 2 * grow, H + 2 * grow, [0, 0, 128, 255, 1, 254] if celop == 255 else [255]), "ud": None}
    if rng.random() < 0.5:
        layers.append({"flags": 1, "ltype": 0, "level": 0, "blend": rng.randrange(19), "opacity": rng.choice([255, 77]), "name": "above", "tileset": 0, "ud": None,
                       "default_w": 0, "default_h": 0})
        cels[(0, nbelow + 1)] = {"kind": "raw", "x": 0, "y": 0, "w": 1, "h": 1, "opacity": 255, "pixels": img(1, 1, [255, 100]), "ud": None}
    return {"width": W, "height": H, "depth": 32, "transparent": 0, "durations": [100], "speed": 100, "palette_chunks": [],
            "palette": None, "sprite_ud": None, "ext_files": [], "tilesets": [], "layers": layers, "cels": cels, "tags": [],
            "has_tags_chunk": False, "slices": []}


def direct_C09(s, data, blk) -> List[str]:
    out = []
    levels = [l["level"] for l in s["layers"]]
    ps = gen.parents_of(levels)
    vis = gen.visible_of(s)
    lines4 = [l for l in blk[0] if l and l[0] == 4]
    if len(lines4) != len(levels):
        return ["layer count %d, expected %d" % (len(lines4), len(levels))]
    for i, l in enumerate(lines4):
        if l[7] != ps[i]:
            out.append("parent of layer %d is %d, nearest preceding smaller level is %d (levels %s)" % (i, l[7], ps[i], levels))
        if l[7] >= i:
            out.append("parent %d of layer %d does not have a lower id" % (l[7], i))
        if l[8] != vis[i]:
            out.append("is_visible(layer %d) = %d, flags of it and its ancestors give %d (levels %s)" % (i, l[8], vis[i], levels))
    for fno in range(len(s["durations"])):
        im = images_of(blk, 22).get((fno,))
        if im is None:
            continue
        W, H = s["width"], s["height"]
        for i in range(len(levels)):
            c = s["cels"].get((fno, i))
            if c is not None and c["kind"] == "linked":
                c = s["cels"].get((c["frame"], i))
            if c is None or not (0 <= c["x"] < W and 0 <= c["y"] < H):
                continue
            shown = im[2 + c["y"] * W + c["x"]] != 0
            if shown != bool(vis[i]):
                out.append("layer %d (visible=%d) %s in the image of frame %d" % (i, vis[i], "shows" if shown else "does not show", fno))
    return out[:3]


def check_C09(tier: str, seed: int) -> int:
    v = Verdict("C09", tier, seed, "proof")
    ob = vplib.check_obligations("C09", expected=["C09_parent", "C09_parent_lt", "C09_total", "C09_parents_ok", "C09_layer_parent", "C09_ancestors", "C09_visible", "C09_hidden", "C09_hidden_image", "C09_hidden_generic", "C09_hidden_generic_rows", "C09_frame_row_bridge"], extra_files=["C09_e2e"] if os.path.exists(os.path.join(vplib.COQ, "Props", "C09_e2e.v")) else ())
    vplib.build_harness(["release", "dev"])
    w = Work("C09")
    try:
        rng = random.Random(seed)
        maxn = 6 if tier == "quick" else 8
        cases = []
        exhaustive_n = 0
        for n in range(1, maxn + 1):
            for lv in forests(n):
                for mask in range(2 ** n):
                    flags = [(1 if (mask >> i) & 1 else 0) | (rng.randrange(64) << 1) for i in range(n)]
                    s = forest_sprite(lv, flags, rng)
                    # every 4th one with random values in the fields the format declares unused (reserved cel bytes, ...)
                    cases.append((s, gen.encode(s, gen.random_choices(rng) if len(cases) % 4 == 3 else None, rng)))
                    exhaustive_n += 1
        for _ in range(60 if tier == "quick" else 600):
            n = rng.randint(9, 300)
            lv = gen.gen_levels(rng, n)
            s = forest_sprite(lv, [rng.randrange(128) for _ in range(n)], rng)
            cases.append((s, gen.encode(s, gen.random_choices(rng) if len(cases) % 2 else None, rng)))
        # forests whose LAST layer chunks are stored in the second frame (nothing requires layer chunks to sit in the first one):
        # their parents are looked for among all the layers before them, wherever those were stored
        for _ in range(120 if tier == "quick" else 1500):
            n = rng.randint(2, 12)
            lv = gen.gen_levels(rng, n)
            late = rng.randint(1, n - 1)
            s = forest_sprite(lv, [rng.choice([1, 1, 0]) | (rng.randrange(64) << 1) for _ in range(n)], rng, late=late)
            ch = gen.random_choices(rng) if rng.random() < 0.5 else gen.default_choices()
            ch["late_layers"] = late
            ch["shuffle_cels"] = False
            cases.append((s, gen.encode(s, ch, rng)))
        # level sequences that are NOT forests: levels jump by more than one (the loader only asks for an earlier layer of a lower level),
        # up to the top of the 16-bit range
        for _ in range(60 if tier == "quick" else 600):
            n = rng.randint(2, 14)
            lv = [0] + [rng.choice([0, 1, 2, 3, 255, 256, 32767, 32768, 65534, 65535]) for _ in range(n - 1)]
            s = forest_sprite(lv, [rng.choice([1, 1, 0]) | (rng.randrange(64) << 1) for _ in range(n)], rng)
            cases.append((s, gen.encode(s, gen.random_choices(rng) if len(cases) % 2 else None, rng)))
        # deep chains on a 2 MiB thread, hidden root / visible root (thorough: 65536 layers, the last one at level 65535)
        for depth, root in ((20000, 1), (20000, 0), (65536 if tier != "quick" else 30000, 1)):
            lv = list(range(depth))
            s = forest_sprite(lv, [root] + [1] * (depth - 1), rng)
            cases.append((s, gen.encode(s, None, rng)))
        paths = [w.put(d) for _, d in cases]
        ib = vplib.impl_observe("release", paths, w.dir, 3, timeout=1800)
        ib_dev = vplib.impl_observe("dev", paths[exhaustive_n:], w.dir, 3, timeout=1800)
        # the model is compared on everything except the three deep chains (quadratic in the depth on inductive integers)
        nmodel = len(paths) - 3
        mb = vplib.model_observe(paths[:nmodel], w.dir, 3, timeout=2400)
        corr_fail, direct_fail = [], []
        for i, (s, data) in enumerate(cases):
            d = same_block(ib[i], mb[i], [1, 2, 4, 22]) if i < nmodel else None
            if d:
                corr_fail.append({"input": paths[i], "levels": [l["level"] for l in s["layers"]][:40], "diff": d, "_data": data})
            blocks = [ib[i]] + ([ib_dev[i - exhaustive_n]] if i >= exhaustive_n else [])
            for b in blocks:
                if outcome(b) != 0 or vplib.section_panic(b) is not None:
                    direct_fail.append({"what": "forest does not load / accessor failed", "levels": [l["level"] for l in s["layers"]][:40],
                                        "comments": b[1][:3] if b else None, "_data": data})
                    continue
                for msg in direct_C09(s, data, b):
                    direct_fail.append({"what": msg, "_data": data})
        proof_level_coverage(v, ob, {
            "evaluations": len(cases), "distinct_nontrivial": exhaustive_n,
            "rule": "every forest level sequence of length 1..%d with every assignment of visible flags (exhaustive: %d sprites), random forests of 9..300 "
                    "layers, nested chains of depth 20000..65535 (release and dev builds, 2 MiB thread); each non-group layer carries a one-pixel cel so the "
                    "frame image reveals visibility; parent()/is_visible() against the nearest-smaller-level rule computed in Python; model = implementation"
                    % (maxn, exhaustive_n),
            "samples": [{"levels": [l["level"] for l in c[0]["layers"]], "flags": [l["flags"] & 1 for l in c[0]["layers"]]} for c in cases[200:203]],
            "exhaustive": True, "correspondence_disagreements": len(corr_fail), "direct_failures": len(direct_fail)})
        return finish_with(v, ob, corr_fail, direct_fail)
    finally:
        w.cleanup()


# ==========================================================================
# C18  utility helpers
# ==========================================================================
def check_C18(tier: str, seed: int) -> int:
    v = Verdict("C18", tier, seed, "proof")
    ob = vplib.check_obligations("C18", expected=["C18_extrude", "C18_extrude_none_iff", "C18_extrude_interior", "C18_extrude_edges", "C18_extrude_pixels_from_input",
                                                  "C18_lookup_transparent", "C18_lookup_absent", "C18_lookup_present", "C18_lookup_last", "C18_indexed"])
    vplib.build_harness(["release", "dev"])
    w = Work("C18")
    try:
        rng = random.Random(seed)
        n = 300 if tier == "quick" else 5000
        lines = []
        meta = []
        for i in range(n):
            wd, ht = rng.randint(1, 24 if tier != "quick" else 10), rng.randint(1, 24 if tier != "quick" else 10)
            style = rng.choice(["random", "rowalpha", "colalpha", "alpha0", "fewvalues"])
            px = []
            row_a = [rng.choice([0, 0, 255, 1]) for _ in range(ht)]
            col_a = [rng.choice([0, 0, 255, 1]) for _ in range(wd)]
            for y in range(ht):
                for x in range(wd):
                    rgb = rng.randrange(1, 2 ** 24) if style != "fewvalues" else rng.choice([0, 1, 0xFFFFFF, 0x010203])
                    a = {"random": rng.randrange(256), "rowalpha": row_a[y], "colalpha": col_a[x], "alpha0": 0,
                         "fewvalues": rng.choice([0, 255])}[style]
                    px.append(rgb | (a << 24))
            if i % 4 == 3:
                # the image's container is longer than 4 * w * h bytes (a reused buffer): the extra bytes are not pixels
                lines.append("EP %d %d %d %s" % (wd, ht, rng.choice([1, 4, 4 * wd, 4 * wd + 3, 64]), " ".join(map(str, px))))
            else:
                lines.append("E %d %d %s" % (wd, ht, " ".join(map(str, px))))
            meta.append(("E", wd, ht, px))
        # palettes with duplicates and indices >= 256
        for i in range(n):
            first = rng.choice([0, 0, 250, 254, 300])
            cols = [(rng.randrange(4), rng.randrange(3), rng.randrange(2), rng.choice([255, 255, 0, 77])) for _ in range(rng.randint(1, 12))]
            fr = ase.Frame(chunks=[ase.PaletteChunk(first=first, entries=cols)])
            path = w.put(ase.serialize(ase.Sprite(width=1, height=1, frames=[fr])), "pal")
            pal = {first + k: c for k, c in enumerate(cols)}
            # the failure and the transparent index are often indices of the palette itself (an opaque colour that occurs only at the
            # transparent index still maps to that index), and may coincide
            keys = [k for k in pal if k < 256] or [0]
            failure = rng.choice([rng.randrange(256), rng.choice(keys), 0])
            transparent = rng.choice([-1, rng.randrange(256), rng.choice(keys), rng.choice(keys), failure])

            def queries(n):
                # colours of the palette and colours near them; the SAME colour is asked several times in a row with different alphas
                # (the answer for one pixel must not depend on the pixel asked before it)
                out = []
                while len(out) < n:
                    c = rng.choice(cols)[:3] if rng.random() < 0.6 else (rng.randrange(5), rng.randrange(4), rng.randrange(3))
                    for a in rng.choice([[255], [255, 128, 255], [0, 255], [255, 254, 100, 0, 255], [rng.choice([255, 255, 254, 0])]]):
                        out.append((c[0], c[1], c[2], a))
                return out[:n]
            if i % 2 == 0:
                q = queries(12)
                lines.append("M %s %d %d %d %s" % (path, failure, transparent, len(q), " ".join("%d %d %d %d" % c for c in q)))
                meta.append(("M", pal, failure, transparent, q))
            else:
                wd, ht = rng.randint(1, 5), rng.randint(1, 5)
                q = queries(wd * ht)
                if i % 4 == 1:
                    # the image starts with a run of fully transparent black pixels (a run cache must not answer before it was filled)
                    for z in range(min(len(q), rng.choice([1, 2, 3]))):
                        q[z] = (0, 0, 0, 0)
                packed = [r | g << 8 | b << 16 | a << 24 for r, g, b, a in q]
                if i % 3 == 2:
                    # the image sits in a container longer than 4 * w * h bytes: the extra bytes are not pixels
                    lines.append("IP %s %d %d %d %d %d %s" % (path, failure, transparent, wd, ht, rng.choice([4, 8, 4 * wd, 40]), " ".join(map(str, packed))))
                else:
                    lines.append("I %s %d %d %d %d %s" % (path, failure, transparent, wd, ht, " ".join(map(str, packed))))
                meta.append(("I", pal, failure, transparent, q, wd, ht))
        # a palette of 300 DIFFERENT colours (entries beyond index 255 cannot be addressed and map to the failure index), with lookups and with
        # an image of 300 x 301 pixels (more than 65536 pixels, a height that is no multiple of 4) over a small palette
        cols = [((k * 7) & 255, (k * 13 + 5) & 255, k >> 1, 255) for k in range(300)]
        path = w.put(ase.serialize(ase.Sprite(width=1, height=1, frames=[ase.Frame(chunks=[ase.PaletteChunk(first=0, entries=cols)])])), "pal")
        pal = {k: c for k, c in enumerate(cols)}
        q = [cols[k][:3] + (255,) for k in (0, 1, 255, 256, 257, 299)] + [(1, 1, 1, 255), cols[7][:3] + (128,)]
        lines.append("M %s %d %d %d %s" % (path, 9, 3, len(q), " ".join("%d %d %d %d" % c for c in q)))
        meta.append(("M", pal, 9, 3, q))
        small = [(10, 20, 30, 255), (40, 50, 60, 255), (70, 80, 90, 255), (0, 0, 0, 0)]
        path = w.put(ase.serialize(ase.Sprite(width=1, height=1, frames=[ase.Frame(chunks=[ase.PaletteChunk(first=0, entries=small)])])), "pal")
        wd, ht = 300, 301
        q = [small[(x * 3 + y * 5 + (x * y) % 7) % 3][:3] + ((255,) if (x + y) % 11 else (0,)) for y in range(ht) for x in range(wd)]
        lines.append("I %s %d %d %d %d %s" % (path, 3, -1, wd, ht, " ".join(str(r | g << 8 | b << 16 | a << 24) for r, g, b, a in q)))
        meta.append(("I", {k: c for k, c in enumerate(small)}, 3, -1, q, wd, ht))
        res = {prof: vplib.run_sharded([vplib.impl_driver(prof), "util"], lines, w.dir, "util_" + prof) for prof in ("release", "dev")}
        mb = vplib.run_sharded([vplib.MODEL_DRIVER, "util"], lines, w.dir, "util_model", model=True)
        corr_fail, direct_fail = [], []
        # the same calls in a process without a logger (the drivers otherwise install one that accepts every level)
        nolog = vplib.run_sharded([vplib.impl_driver("release"), "util"], lines, w.dir, "util_nolog", extra_env={"VERIF_NO_LOGGER": "1"})
        for i, (a, b) in enumerate(zip(res["release"], nolog)):
            if a is None or b is None or a[0] != b[0]:
                direct_fail.append({"what": "the result depends on whether the host process has logging switched on", "case": lines[i][:200],
                                    "with_logger": a[0][:2] if a else None, "without": b[0][:2] if b else None})
                break

        def lookup_ok(pal, failure, transparent, c, got) -> Optional[str]:
            r, g, b, a = c
            if a != 255:
                want = failure if transparent == -1 else transparent
                return None if got == want else "alpha %d: got %d, transparent/failure index is %d" % (a, got, want)
            occ = [k for k, e in pal.items() if e[:3] == (r, g, b)]
            if not occ:
                return None if got == failure else "colour absent from the palette: got %d, failure index is %d" % (got, failure)
            if all(k < 256 for k in occ):
                return None if got in occ else "opaque colour at palette indices %s: got %d" % (occ, got)
            return None if (got in [k for k in occ if k < 256] or got == failure) else "got %d for occurrences %s" % (got, occ)
        for i, m in enumerate(meta):
            for prof in ("release", "dev"):
                b = res[prof][i]
                if b is None or not b[0]:
                    direct_fail.append({"what": "utility call failed", "case": lines[i][:200], "profile": prof})
                    continue
                ln = b[0][0]
                if m[0] == "E":
                    _, wd, ht, px = m
                    exp = [60, wd + 2, ht + 2] + [px[min(max(y - 1, 0), ht - 1) * wd + min(max(x - 1, 0), wd - 1)] for y in range(ht + 2) for x in range(wd + 2)]
                    if ln != exp:
                        direct_fail.append({"what": "extrude_border differs from the clamp formula", "case": lines[i][:200], "got": ln[:12], "profile": prof})
                elif m[0] == "M":
                    _, pal, failure, transparent, q = m
                    if ln[0] != 61 or len(ln) != 1 + len(q):
                        direct_fail.append({"what": "mapper case failed", "case": lines[i][:200], "got": ln[:8]})
                    else:
                        for c, got in zip(q, ln[1:]):
                            e = lookup_ok(pal, failure, transparent, c, got)
                            if e:
                                direct_fail.append({"what": "PaletteMapper::lookup: " + e, "colour": c, "palette": {k: list(vv) for k, vv in pal.items()}, "profile": prof})
                                break
                else:
                    _, pal, failure, transparent, q, wd, ht = m
                    if ln[:3] != [62, wd, ht] or len(ln) != 3 + wd * ht:
                        direct_fail.append({"what": "to_indexed_image: wrong dimensions or length", "case": lines[i][:200], "got": ln[:8]})
                    else:
                        for c, got in zip(q, ln[3:]):
                            e = lookup_ok(pal, failure, transparent, c, got)
                            if e:
                                direct_fail.append({"what": "to_indexed_image: " + e, "colour": c, "profile": prof})
                                break
            # model = implementation whenever the answer is determined (no duplicate RGB among the entries)
            bi, bm = res["release"][i], mb[i]
            det = m[0] == "E" or len({e[:3] for e in m[1].values()}) == len(m[1])
            if det and (bi is None or bm is None or bi[0] != bm[0]):
                corr_fail.append({"case": lines[i][:200], "impl": bi[0][0][:10] if bi and bi[0] else None, "model": bm[0][0][:10] if bm and bm[0] else None})
        # the feature gate: the crate builds without the feature
        r = subprocess.run(["cargo", "check", "--offline", "-q", "--lib"], cwd=vplib.REPO, env=vplib.ENV, stdout=subprocess.PIPE, stderr=subprocess.PIPE, text=True)
        if r.returncode != 0:
            direct_fail.append({"what": "the crate does not build without the utils feature", "stderr": r.stderr[-800:]})
        proof_level_coverage(v, ob, {
            "evaluations": 2 * len(lines), "distinct_nontrivial": len(set(lines)),
            "rule": "random images (1..24 x 1..24, arbitrary pixels) through extrude_border against the clamp formula; random palettes with duplicate colours, "
                    "alpha below 255 and indices >= 256, random mapping options and query colours through PaletteMapper::lookup and to_indexed_image against the "
                    "documented rule (set-valued where duplicates make the index ambiguous); release and dev builds of the harness with features=[utils]; "
                    "cargo check of the crate without the feature; model = implementation where the answer is determined",
            "samples": [l[:120] for l in lines[:2] + lines[-2:]],
            "correspondence_disagreements": len(corr_fail), "direct_failures": len(direct_fail)})
        return finish_with(v, ob, corr_fail, direct_fail)
    finally:
        w.cleanup()



# ==========================================================================
# C03 / C17  blend modes: Aseprite's arithmetic bit for bit; mode-independent laws
# ==========================================================================
SEPARABLE = [1, 2, 3, 4, 5, 6, 7, 8, 9, 10, 11, 16, 17, 18]
HSL = [12, 13, 14, 15]
LAT16 = [0, 1, 2, 63, 64, 127, 128, 129, 191, 192, 200, 253, 254, 255, 31, 100]
ALPHA_OPACITY = [  # (backdrop alpha, source alpha, layer opacity, cel opacity)
    (255, 255, 255, 255), (255, 128, 255, 255), (128, 255, 255, 255), (1, 255, 200, 255), (255, 1, 255, 37),
    (77, 200, 128, 128), (0, 255, 255, 255), (255, 0, 255, 255), (255, 255, 0, 255), (200, 100, 255, 0),
    (254, 254, 254, 254), (2, 2, 1, 255), (128, 127, 129, 2), (0, 0, 255, 255), (0, 128, 77, 200), (255, 255, 1, 1),
    (255, 255, 255, 128), (128, 255, 255, 254)]     # opaque pixels on a fully opaque LAYER whose CEL is translucent


def blend_image(mode: int, k: int, variant: str, rng: random.Random, size: int = 256):
    """two-layer sprite whose pixels enumerate an input domain; returns (bytes, B list, S list, lo, co)"""
    ba, sa, lo, co = ALPHA_OPACITY[k % len(ALPHA_OPACITY)]
    B, S = [], []
    # "square:q": quadrant q of the channel square when the image is smaller than 256 x 256 (the four quadrants together
    # enumerate every (backdrop channel, source channel) pair on the r channel, swapped on g)
    quad = int(variant.split(":")[1]) if ":" in variant else 0
    variant = variant.split(":")[0]
    qx, qy = (quad & 1) * (256 - size), (quad >> 1) * (256 - size)
    for y in range(size):
        for x in range(size):
            if variant == "square":          # complete (backdrop channel, source channel) square on r; g swapped; b mixed
                b = ((x + qx) & 255, (y + qy) & 255, (x + y + qx) & 255, ba)
                sp = ((y + qy) & 255, (x + qx) & 255, (x * 7 + y * 13 + qy) & 255, sa)
            elif variant == "lattice":       # orderings and ties of (r, g, b): 16-value lattice on two channels, third rotating
                b = (LAT16[x & 15], LAT16[x >> 4], LAT16[(x + y + k) & 15], ba)
                sp = (LAT16[y & 15], LAT16[(y >> 4)], LAT16[(x * 3 + y + 2 * k) & 15], sa)
            elif variant == "alpha":         # complete (backdrop alpha, source alpha) square with lattice colours
                b = (LAT16[(x + k) & 15], LAT16[(y + k) & 15], LAT16[(x + y) & 15], x)
                sp = (LAT16[(y + 3) & 15], LAT16[(x + 5) & 15], LAT16[(x ^ y) & 15], y)
            else:                            # random full pixels
                b = (rng.randrange(256), rng.randrange(256), rng.randrange(256), rng.choice([0, 1, 128, 254, 255, 255, rng.randrange(256)]))
                sp = (rng.randrange(256), rng.randrange(256), rng.randrange(256), rng.choice([0, 1, 128, 254, 255, 255, rng.randrange(256)]))
            B.append(b)
            S.append(sp)
    if variant == "random" or variant == "alpha":
        lo, co = rng.choice([(255, 255), (lo, co), (rng.randrange(256), rng.randrange(256))])
    # the layer flags other than "visible" (editable, lock movement, background, prefer linked cels, collapsed, reference) do not
    # take part in compositing an RGBA sprite
    fl = 1 | rng.choice([0, 0, 2, 4, 8, 12, 16, 32, 64, 126])
    # layers WITHOUT cels below, between and above the two (their modes and opacities must not matter; the two cels then sit on
    # sparse layer indices such as {2, 5} of 9)
    p0, p1, p2 = rng.choice([(0, 0, 0), (0, 0, 0), (2, 2, 1), (3, 0, 4), (0, 3, 0), (7, 9, 3), (0, 62, 0), (1, 0, 0)])
    pad = lambda n, tag: [ase.LayerChunk(flags=1, blend=rng.randrange(19), opacity=rng.choice([255, 0, 128]), name="%s%d" % (tag, i)) for i in range(n)]
    # the source layer inside a visible GROUP with an opacity and a blend mode of its own (a group's opacity and mode do not take
    # part in compositing), and any value in the header's flags word
    grp = [ase.LayerChunk(flags=1, ltype=1, blend=rng.randrange(19), opacity=rng.choice([128, 0, 200, 255]), name="g")] if rng.random() < 0.3 else []
    fr = ase.Frame(chunks=pad(p0, "u") + [ase.LayerChunk(flags=1, blend=0, opacity=255, name="b")] + pad(p1, "m") + grp
                   + [ase.LayerChunk(flags=fl, blend=mode, opacity=lo, name="s", level=1 if grp else 0)] + pad(p2, "o") + [
        ase.CelChunk(layer=p0, w=size, h=size, pixels=ase.rgba_bytes(B), ctype_cel=2, zlevel=1),
        ase.CelChunk(layer=p0 + 1 + p1 + len(grp), w=size, h=size, opacity=co, pixels=ase.rgba_bytes(S), ctype_cel=2, zlevel=1)])
    return ase.serialize(ase.Sprite(width=size, height=size, frames=[fr], flags=rng.choice([1, 1, 0, 2, 3, 6, 7, 0xFFFFFFFF]))), B, S, lo, co


def blend_wide_image(mode: int, rng: random.Random):
    """a two-layer sprite of 257 x 256 pixels (more than 65536 per cel; the last row repeats no earlier one)"""
    W, H = 257, 256
    lo, co = rng.choice([(255, 255), (200, 131)])
    B = [((x * 3 + y) & 255, (y * 5 + 7) & 255, (x ^ y) & 255, 255 if (x + y) % 5 else 128) for y in range(H) for x in range(W)]
    S = [((y * 7 + x * 2) & 255, (x + 2 * y) & 255, (x * y) & 255, 255 if (x * y) % 7 else 90) for y in range(H) for x in range(W)]
    fr = ase.Frame(chunks=[
        ase.LayerChunk(flags=1, blend=0, opacity=255, name="b"), ase.LayerChunk(flags=1, blend=mode, opacity=lo, name="s"),
        ase.CelChunk(layer=0, w=W, h=H, pixels=ase.rgba_bytes(B), ctype_cel=rng.choice([0, 2]), zlevel=1),
        ase.CelChunk(layer=1, w=W, h=H, opacity=co, pixels=ase.rgba_bytes(S), ctype_cel=rng.choice([0, 2]), zlevel=1)])
    return ase.serialize(ase.Sprite(width=W, height=H, frames=[fr])), B, S, lo, co


def blend_apart_image(mode: int, rng: random.Random):
    """two small cels of ONE colour on two layers of the same mode and different opacities, placed apart (or partly
    overlapping) on an otherwise transparent canvas: where only one of them covers a pixel it is blended over transparency"""
    W, H = rng.randint(2, 8), rng.randint(1, 4)
    lo0, lo1 = rng.choice([(128, 255), (255, 128), (77, 200), (1, 254), (0, 255), (255, 0)])
    c = (rng.randrange(256), rng.randrange(256), rng.randrange(256), rng.choice([255, 255, 128]))
    w0, h0, w1, h1 = rng.randint(1, 2), 1, rng.randint(1, 2), 1
    x0, y0 = rng.randint(0, W - 1), rng.randint(0, H - 1)
    x1, y1 = rng.choice([(0, 0), (x0 - w1, y0), ((x0 + 1) % W, y0), (rng.randint(0, W - 1), rng.randint(0, H - 1))])
    B = [(0, 0, 0, 0)] * (W * H)
    S: List[Optional[tuple]] = [None] * (W * H)
    for xx in range(w0):
        if 0 <= x0 + xx < W:
            a2 = mul_un8(c[3], lo0)
            B[y0 * W + x0 + xx] = (c[0], c[1], c[2], a2) if a2 else (0, 0, 0, 0)
    for xx in range(w1):
        if 0 <= x1 + xx < W and 0 <= y1 < H:
            S[y1 * W + x1 + xx] = c
    fr = ase.Frame(chunks=[
        ase.LayerChunk(flags=1, blend=mode, opacity=lo0, name="b"), ase.LayerChunk(flags=1, blend=mode, opacity=lo1, name="s"),
        ase.CelChunk(layer=0, x=x0, y=y0, w=w0, h=h0, pixels=ase.rgba_bytes([c] * (w0 * h0)), ctype_cel=0),
        ase.CelChunk(layer=1, x=x1, y=y1, w=w1, h=h1, pixels=ase.rgba_bytes([c] * (w1 * h1)), ctype_cel=0)])
    return ase.serialize(ase.Sprite(width=W, height=H, frames=[fr])), B, S, lo1, 255


def blend_same_image(mode: int, rng: random.Random):
    """both layers hold the SAME pixels and have the same blend mode, with different opacities (runs of equal pixels included):
    the backdrop the upper layer meets is the lower cel over the transparent canvas, i.e. its colour with alpha scaled"""
    W, H = rng.randint(2, 12), rng.randint(1, 6)
    lo0, lo1 = rng.choice([(128, 255), (255, 128), (77, 200), (255, 255), (1, 255), (0, 255), (255, 0), (0, 128)])
    P = []
    if rng.random() < 0.5:
        # one colour everywhere on a tiny canvas (the last blend of the lower cel and the first of the upper one see the same source)
        W, H = rng.choice([(1, 1), (2, 1), (1, 2), (3, 1), (2, 2)])
        P = [(rng.randrange(256), rng.randrange(256), rng.randrange(256), rng.choice([255, 255, 128]))] * (W * H)
    while len(P) < W * H:
        px = (rng.randrange(256), rng.randrange(256), rng.randrange(256), rng.choice([255, 255, 128, 1]))
        P += [px] * rng.randint(1, 4)
    P = P[:W * H]
    B = []
    for (r, g, b, a) in P:
        a2 = mul_un8(a, lo0)
        B.append((r, g, b, a2) if a2 else (0, 0, 0, 0))
    fr = ase.Frame(chunks=[
        ase.LayerChunk(flags=1, blend=mode, opacity=lo0, name="b"), ase.LayerChunk(flags=1, blend=mode, opacity=lo1, name="s"),
        ase.CelChunk(layer=0, w=W, h=H, pixels=ase.rgba_bytes(P), ctype_cel=0),
        ase.CelChunk(layer=1, w=W, h=H, pixels=ase.rgba_bytes(P), ctype_cel=0)])
    return ase.serialize(ase.Sprite(width=W, height=H, frames=[fr])), B, list(P), lo1, 255


def blend_linked_image(mode: int, rng: random.Random):
    """frame 0 holds LINKED cels only: both layers link to their cels in frame 1 (layer and cel opacities strictly inside
    1..254): a linked cel is drawn with the position, pixels and opacity of the cel it links to, once"""
    W, H = rng.randint(1, 6), rng.randint(1, 4)
    lo, co = rng.choice([(200, 150), (100, 103), (255, 128), (77, 254), (rng.randrange(1, 255), rng.randrange(1, 255))])
    B = [(rng.randrange(256), rng.randrange(256), rng.randrange(256), rng.choice([255, 255, 128, 0])) for _ in range(W * H)]
    S = [(rng.randrange(256), rng.randrange(256), rng.randrange(256), rng.choice([255, 255, 180, 1])) for _ in range(W * H)]
    fr0 = ase.Frame(chunks=[
        ase.LayerChunk(flags=1, blend=0, opacity=255, name="b"), ase.LayerChunk(flags=1, blend=mode, opacity=lo, name="s"),
        ase.CelChunk(layer=0, ctype_cel=1, linked=1, opacity=rng.choice([255, 9])), ase.CelChunk(layer=1, ctype_cel=1, linked=1, opacity=rng.choice([255, co, 33]))])
    fr1 = ase.Frame(chunks=[
        ase.CelChunk(layer=0, w=W, h=H, pixels=ase.rgba_bytes(B), ctype_cel=rng.choice([0, 2])),
        ase.CelChunk(layer=1, w=W, h=H, opacity=co, pixels=ase.rgba_bytes(S), ctype_cel=rng.choice([0, 2]))])
    return ase.serialize(ase.Sprite(width=W, height=H, frames=[fr0, fr1])), B, S, lo, co


def blend_indexed_image(mode: int, rng: random.Random, plain: bool = False):
    """an INDEXED two-layer sprite: the alpha of a pixel comes from its palette entry (entries with alpha 0, 1, 128, 254 among
    opaque ones); both cels cover the canvas, neither uses the transparent colour index; Normal at 255 / 255 half of the time"""
    W, H = rng.randint(1, 8), rng.randint(1, 4)
    n = rng.randint(4, 16)
    pal = [(rng.randrange(256), rng.randrange(256), rng.randrange(256), rng.choice([255, 255, 255, 0, 1, 128, 254])) for _ in range(n)]
    tr = rng.choice([200, 255, n])          # a transparent index no pixel uses
    bi = [rng.randrange(n) for _ in range(W * H)]
    si = [rng.randrange(n) for _ in range(W * H)]
    lo, co = rng.choice([(255, 255), (255, 255), (200, 131), (255, 128)])
    if plain:
        # the upper layer at full layer and cel opacity, covering the canvas, using translucent and fully transparent palette entries
        lo, co = 255, 255
        pal = [(c[0], c[1], c[2], 255) for c in pal]
        pal[0], pal[1] = (pal[0][0], pal[0][1], pal[0][2], 128), (pal[1][0], pal[1][1], pal[1][2], 0)
        W, H = max(W, 3), max(H, 2)
        si = [k % 3 for k in range(W * H)]
        bi = [2 + (k * 5) % (n - 2) for k in range(W * H)]          # an opaque backdrop: what is (not) drawn over it shows
    fr = ase.Frame(chunks=[
        ase.PaletteChunk(first=0, entries=pal),
        ase.LayerChunk(flags=1, blend=0, opacity=255, name="b"), ase.LayerChunk(flags=1, blend=mode, opacity=lo, name="s"),
        ase.CelChunk(layer=0, w=W, h=H, pixels=bytes(bi), ctype_cel=rng.choice([0, 2])),
        ase.CelChunk(layer=1, w=W, h=H, opacity=co, pixels=bytes(si), ctype_cel=0)])
    def rgba(k):
        r, g, b, a = pal[k]
        return (r, g, b, a)
    return ase.serialize(ase.Sprite(width=W, height=H, depth=8, transparent=tr, frames=[fr])), [rgba(k) for k in bi], [rgba(k) for k in si], lo, co


def blend_offset_image(mode: int, rng: random.Random):
    """two-layer sprite whose upper cel is smaller than / shifted against / partly outside the canvas, with runs of opaque,
    translucent and transparent pixels in its rows; S[k] is None where the cel does not cover canvas pixel k"""
    W, H = rng.randint(6, 20), rng.randint(6, 20)
    w, h = rng.randint(1, 24), rng.randint(1, 24)
    x = rng.choice([0, -1, -2, -(w // 2), -(w - 1), W - 1, W - w, W - w + 1, rng.randint(-w, W)])
    y = rng.choice([0, -1, -(h // 2), -(h - 1), H - 1, H - h, H - h + 1, rng.randint(-h, H)])
    lo, co = rng.choice([(255, 255), (255, 255), (255, 128), (77, 255), (rng.randrange(256), rng.randrange(256)), (0, 255)])
    balpha = rng.choice([255, 255, 128, None])
    B = [(rng.randrange(256), rng.randrange(256), rng.randrange(256), balpha if balpha is not None else rng.choice([0, 1, 128, 255]))
         for _ in range(W * H)]
    src = []
    for yy in range(h):
        pat = rng.choice(["opaque", "head", "tail", "mixed", "clear"])
        cut = rng.randint(0, w)
        for xx in range(w):
            if pat == "opaque":
                a = 255
            elif pat == "clear":
                a = 0
            elif pat == "head":
                a = 255 if xx < cut else rng.choice([0, 0, 128])
            elif pat == "tail":
                a = 255 if xx >= cut else rng.choice([0, 0, 128])
            else:
                a = rng.choice([0, 255, 255, 1, 200])
            src.append((rng.randrange(256), rng.randrange(256), rng.randrange(256), a))
    S = [None] * (W * H)
    for yy in range(h):
        for xx in range(w):
            cx, cy = x + xx, y + yy
            if 0 <= cx < W and 0 <= cy < H:
                S[cy * W + cx] = src[yy * w + xx]
    fr = ase.Frame(chunks=[
        ase.LayerChunk(flags=1, blend=0, opacity=255, name="b"), ase.LayerChunk(flags=1, blend=mode, opacity=lo, name="s"),
        ase.CelChunk(layer=0, w=W, h=H, pixels=ase.rgba_bytes(B), ctype_cel=2, zlevel=1),
        ase.CelChunk(layer=1, x=x, y=y, w=w, h=h, opacity=co, pixels=ase.rgba_bytes(src), ctype_cel=rng.choice([0, 2]), zlevel=1)])
    return ase.serialize(ase.Sprite(width=W, height=H, frames=[fr])), B, S, lo, co


def blend_tilemap_image(mode: int, rng: random.Random):
    """two-layer sprite whose upper layer is a TILEMAP layer with blend mode `mode`: the source pixels come from tiles (opaque,
    translucent and transparent pixels), at opacity 255 as well as lower; the map may be shifted by whole tiles"""
    tw, th = rng.choice([(4, 4), (8, 4), (3, 5)])
    cols, rows = rng.randint(2, 5), rng.randint(2, 5)
    W, H = tw * cols, th * rows
    nt = rng.randint(2, 6)
    # (opacity products that round to zero - a zero byte, or 9 x 14 = 126 < 128 - leave the backdrop unchanged, in every build)
    lo, co = rng.choice([(255, 255), (255, 255), (200, 255), (255, 90), (0, 255), (255, 0), (9, 14), (rng.randrange(256), rng.randrange(256))])
    tiles_px = [(0, 0, 0, 0)] * (tw * th)      # tile 0: the empty tile
    for t in range(1, nt):
        style = rng.choice(["opaque", "mixed", "mixed"])
        for _ in range(tw * th):
            a = 255 if style == "opaque" else rng.choice([255, 255, 0, 128, 1])
            tiles_px.append((rng.randrange(256), rng.randrange(256), rng.randrange(256), a))
    ox, oy = rng.choice([(0, 0), (0, 0), (1, 0), (-1, -1), (0, 1)])
    mw, mh = cols, rows
    ids = [rng.randrange(nt) for _ in range(mw * mh)]
    B = [(rng.randrange(256), rng.randrange(256), rng.randrange(256), rng.choice([255, 255, 128, 0, 77])) for _ in range(W * H)]
    S = [None] * (W * H)
    for ty in range(mh):
        for tx in range(mw):
            tid = ids[ty * mw + tx]
            for py in range(th):
                for px_ in range(tw):
                    cx, cy = (tx + ox) * tw + px_, (ty + oy) * th + py
                    if 0 <= cx < W and 0 <= cy < H:
                        S[cy * W + cx] = tiles_px[tid * tw * th + py * tw + px_]
    fr = ase.Frame(chunks=[
        ase.TilesetChunk(id=0, tile_count=nt, tile_w=tw, tile_h=th, pixels=ase.rgba_bytes(tiles_px)),
        ase.LayerChunk(flags=1, blend=0, opacity=255, name="b"), ase.LayerChunk(flags=1, blend=mode, opacity=lo, name="map", ltype=2, tileset=0),
        ase.CelChunk(layer=0, w=W, h=H, pixels=ase.rgba_bytes(B), ctype_cel=2, zlevel=1),
        ase.CelChunk(layer=1, x=ox * tw, y=oy * th, opacity=co, ctype_cel=3, w=mw, h=mh, tiles=ids)])
    return ase.serialize(ase.Sprite(width=W, height=H, frames=[fr])), B, S, lo, co


def normal_alpha(ba, sa, o):
    if ba == 0:
        return mul_un8(sa, o)
    if sa == 0:
        return ba
    sa2 = mul_un8(sa, o)
    return sa2 + ba - mul_un8(ba, sa2)


def blend_check(prop: str, tier: str, seed: int) -> int:
    v = Verdict(prop, tier, seed, "proof")
    ob = vplib.check_obligations(prop)
    # the blend code translated from the working tree (tools/rs2coq.py) and the proofs that tie it to the model
    vplib.merge_obligations(ob, vplib.gen_blend_obligations(prop))
    vplib.build_harness(["relchk", "dev"])
    w = Work(prop)
    try:
        rng = random.Random(seed)
        plan = []     # (mode, k, variant)
        quick = tier == "quick"
        for m in range(19):
            sep = m in SEPARABLE or m == 0
            variants = (["square:0", "square:1", "square:2", "square:3", "square:0", "alpha", "lattice"] if sep
                        else ["lattice"] * 4 + ["alpha", "square:0"]) + ["random"]
            if not quick:
                variants = variants * 4 + ["square"] * 8
            for j, var in enumerate(variants):
                k = (0 if (j < 4 and var.startswith("square")) or j == 0 else rng.randrange(len(ALPHA_OPACITY))) if var.split(":")[0] in ("square", "lattice") else j
                plan.append((m, k + (j // 7) * 3, var))
            # always: opaque pixels on a fully opaque layer whose cel is translucent (corners 16, 17)
            plan.append((m, 16, "lattice"))
            plan.append((m, 17, "lattice"))
        size = 128 if quick else 256
        cases = []
        for (m, k, var) in plan:
            data, B, S, lo, co = blend_image(m, k, var, rng, size)
            cases.append((m, k, var, w.put(data), B, S, lo, co))
        # upper cels shifted against the canvas (negative offsets, partly outside), rows with opaque / clear runs
        for m in range(19):
            for j in range(6 if quick else 60):
                data, B, S, lo, co = blend_offset_image(m if j else 0, rng)
                cases.append((m if j else 0, -1, "offset", w.put(data), B, S, lo, co))
            # both layers hold the same pixels and use the same mode (different opacities)
            for j in range(8 if quick else 60):
                data, B, S, lo, co = blend_same_image(m, rng)
                cases.append((m, -1, "same", w.put(data), B, S, lo, co))
            # two one-colour cels placed apart, same mode, different opacities
            for j in range(8 if quick else 60):
                data, B, S, lo, co = blend_apart_image(m, rng)
                cases.append((m, -1, "apart", w.put(data), B, S, lo, co))
            # an indexed sprite (pixel alpha from the palette)
            for j in range(4 if quick else 40):
                data, B, S, lo, co = blend_indexed_image(m, rng, plain=(j == 0))
                cases.append((m, -1, "indexed", w.put(data), B, S, lo, co))
            # frame 0 made of linked cels
            for j in range(4 if quick else 40):
                data, B, S, lo, co = blend_linked_image(m, rng)
                cases.append((m, -1, "linked", w.put(data), B, S, lo, co))
            # cels of more than 65536 pixels
            if m in (0, 1, 2, 9, 12) or not quick:
                data, B, S, lo, co = blend_wide_image(m, rng)
                cases.append((m, -1, "wide", w.put(data), B, S, lo, co))
            # the source layer is a tilemap layer
            for j in range(4 if quick else 40):
                data, B, S, lo, co = blend_tilemap_image(m, rng)
                cases.append((m, -1, "tilemap", w.put(data), B, S, lo, co))
        paths = [c[3] for c in cases]
        res = {prof: vplib.impl_observe(prof, paths, w.dir, 2, timeout=2400, mem_kb=6000000) for prof in ("relchk", "dev")}
        mb = vplib.model_observe(paths, w.dir, 2, timeout=3000)
        # the reference (AseRef.blend_n extracted from Coq) on every pixel
        ref_lines = []
        for (m, k, var, p, B, S, lo, co) in cases:
            o = mul_un8(lo, co)
            lf = p + ".ref"
            with open(lf, "w") as f:
                for b, sp in zip(B, S):
                    if sp is None:
                        sp = (0, 0, 0, 0)       # placeholder line (keeps the alignment); not compared
                    f.write("%d %d %d %d\n" % (m, b[0] | b[1] << 8 | b[2] << 16 | b[3] << 24, sp[0] | sp[1] << 8 | sp[2] << 16 | sp[3] << 24, o))
            ref_lines.append(lf)

        def run_ref(lf):
            r = subprocess.run("ulimit -s unlimited; exec %s blendref %s" % (vplib.MODEL_DRIVER, lf), shell=True, executable="/bin/bash",
                               stdout=subprocess.PIPE, env=vplib.ENV, timeout=1800)
            return [tuple(map(int, l.split()[1:])) for l in r.stdout.decode().split("\n") if l.startswith("71 ")]
        from concurrent.futures import ThreadPoolExecutor
        with ThreadPoolExecutor(max_workers=vplib.NCPU) as ex:
            refs = list(ex.map(run_ref, ref_lines))
        corr_fail, direct_fail = [], []
        # the single-cel route (Cel::image: one cel over an empty canvas, through the same blend functions) on the small images: model = implementation
        small_i = [i for i, c in enumerate(cases) if c[2] in ("offset", "same", "apart", "linked", "indexed", "tilemap")]
        c4 = vplib.impl_observe("relchk", [paths[i] for i in small_i], w.dir, 4, timeout=2400, tag="cels")
        m4 = vplib.model_observe([paths[i] for i in small_i], w.dir, 4, timeout=3000, tag="cels_model")
        for i, a, b in zip(small_i, c4, m4):
            d = same_block(a, b, [23, 24])
            if d:
                direct_fail.append({"what": "the image of a single cel (the source over an empty canvas, alpha scaled by the opacity product) differs from the model's",
                                    "mode": cases[i][0], "variant": cases[i][2], "opacity": [cases[i][6], cases[i][7]], "diff": d, "_data": open(paths[i], "rb").read()})
                break
        npix = 0
        guard_false = 0
        undefined_ref = 0
        distinct = set()
        per_mode = Counter()
        for i, (m, k, var, p, B, S, lo, co) in enumerate(cases):
            o = mul_un8(lo, co)
            ims = {}
            for prof in ("relchk", "dev"):
                b = res[prof][i]
                if outcome(b) != 0 or vplib.section_panic(b) is not None:
                    direct_fail.append({"what": "rendering failed (overflow check / debug assertion / panic) in build %s" % prof, "mode": m, "variant": var,
                                        "opacity": [lo, co], "comments": b[1][:3] if b else None, "_data": open(p, "rb").read()})
                    continue
                ims[prof] = images_of(b, 22).get((0,))
            if len(ims) < 2:
                continue
            if ims["relchk"] != ims["dev"]:
                direct_fail.append({"what": "dev and relchk builds render different pixels", "mode": m, "variant": var, "_data": open(p, "rb").read()})
            d = same_block(res["relchk"][i], mb[i], [22])
            if d:
                corr_fail.append({"input": p, "mode": m, "variant": var, "diff": d, "_data": open(p, "rb").read()})
            im = ims["relchk"][2:]
            ref = refs[i]
            if len(ref) != len(im):
                corr_fail.append({"input": p, "diff": "reference evaluation incomplete (%d of %d)" % (len(ref), len(im))})
                continue
            per_mode[m] += len(im)
            for j, got in enumerate(im):
                b, sp = B[j], S[j]
                npix += 1
                if sp is None:
                    if got != packpix(*b):
                        direct_fail.append({"what": "a canvas pixel that the upper cel does not cover was changed", "mode": m, "backdrop": b,
                                            "pixel_index": j, "got": unpackpix(got), "_data": open(p, "rb").read()})
                        break
                    continue
                if prop == "C03":
                    want, guard, _ok = ref[j]
                    if m in HSL and not guard:
                        guard_false += 1
                    if want < 0:
                        undefined_ref += 1
                        continue
                    wa = want >> 24
                    wantc = 0 if wa == 0 else want
                    if got != wantc:
                        direct_fail.append({"what": "pixel differs from Aseprite's blend function (Spec/AseRef.v)", "mode": m, "backdrop": b, "source": sp,
                                            "layer_opacity": lo, "cel_opacity": co, "got": unpackpix(got), "reference": unpackpix(want), "_data": open(p, "rb").read()})
                        break
                else:
                    ga = got >> 24
                    na = normal_alpha(b[3], sp[3], o)
                    msg = None
                    if ga != na:
                        msg = "result alpha %d differs from the Normal-mode alpha %d" % (ga, na)
                    elif b[3] != 0 and (sp[3] == 0 or o == 0) and got != packpix(*b):
                        msg = "transparent source / zero opacity changed a visible backdrop pixel"
                    elif b[3] == 0 and got != packpix(sp[0], sp[1], sp[2], mul_un8(sp[3], o)):
                        msg = "over a transparent backdrop the result is not the source with alpha scaled by the opacity"
                    elif m == 0 and o == 255 and sp[3] == 255 and got != packpix(*sp):
                        msg = "Normal mode at full opacity with an opaque source does not return the source"
                    if msg:
                        direct_fail.append({"what": msg, "mode": m, "backdrop": b, "source": sp, "layer_opacity": lo, "cel_opacity": co,
                                            "got": unpackpix(got), "_data": open(p, "rb").read()})
                        break
            distinct.add((m, k, var))
        proof_level_coverage(v, ob, {
            "evaluations": npix, "distinct_nontrivial": len(distinct),
            "rule": "two-layer %dx%d sprites rendered through Frame::image (lower layer Normal at 255 holding the backdrop pixels): per mode the complete "
                    "(backdrop channel, source channel) square at %d alpha/opacity corners, the complete (backdrop alpha, source alpha) square, a 16-value "
                    "lattice enumerating orderings and ties of (r,g,b), and random pixels; relchk and dev builds (overflow checks and debug assertions on); "
                    "evaluations = pixels compared; distinct = (mode, corner, variant) images" % (size, size, len(ALPHA_OPACITY)),
            "samples": [{"mode": c[0], "corner": (ALPHA_OPACITY[c[1] % len(ALPHA_OPACITY)] if c[1] >= 0 else None), "variant": c[2]} for c in cases[:3] + cases[-2:]],
            "pixels_per_mode": dict(per_mode), "images": len(cases),
            "hsl_guard_false": guard_false, "reference_undefined": undefined_ref,
            "correspondence_disagreements": len(corr_fail), "direct_failures": len(direct_fail)})
        v.assumptions = ["Spec/AseRef.v is the meaning given to 'Aseprite's own blend functions' (transcribed from ref/dummy.cc, the macros quoted in src/blend.rs "
                         "and DESIGN.md Appendix E)", "bit-exactness of the four HSL modes is proved only under the computable hsl_guard (evaluated on every HSL pixel "
                         "of this run and counted in hsl_guard_false)"]
        return finish_with(v, ob, corr_fail, direct_fail)
    finally:
        w.cleanup()


def check_C03(tier, seed):
    return blend_check("C03", tier, seed)


def check_C17(tier, seed):
    return blend_check("C17", tier, seed)



# ==========================================================================
# C07  observationally neutral encoding choices
# ==========================================================================
def check_C07(tier: str, seed: int) -> int:
    v = Verdict("C07", tier, seed, "proof")
    ob = vplib.check_obligations("C07", expected=["C07_trailer", "C07_ignorable_chunk_file", "C07_color_profile_chunk", "C07_chunk_tail_all", "C07_unused_header", "C07_pixel_ratio", "C07_count_field_load", "C07_raw_vs_zlib", "C07_legacy_palette", "C07_cel_order"])
    vplib.build_harness(["release"])
    w = Work("C07")
    try:
        rng = random.Random(seed)
        n, k = (150, 5) if tier == "quick" else (2000, 10)
        groups = []
        paths = []
        choice_hist = Counter()
        for i in range(n):
            s = gen.gen_sprite(rng, max_canvas=7, max_layers=5, max_frames=3)
            enc = []
            for j in range(k):
                ch = gen.default_choices() if j == 0 else gen.random_choices(rng)
                if j > 0:
                    for key in ("count_mode", "cel_storage", "pixel_ratio", "profile"):
                        choice_hist["%s=%s" % (key, ch[key])] += 1
                    choice_hist["tails>0"] += ch["tails"] > 0
                    choice_hist["ignorable>0"] += ch["ignorable"] > 0
                    choice_hist["unused"] += ch["unused"]
                    choice_hist["shuffle"] += ch["shuffle_cels"]
                    choice_hist["trailer"] += len(ch["trailer"]) > 0
                    choice_hist["extra_old_palette"] += ch["extra_old_palette"]
                data = gen.encode(s, ch, rng)
                enc.append((len(paths), ch, data))
                paths.append(w.put(data))
            groups.append((s, enc))
        # a frame of exactly 65535 chunks: the count fits the old field alone (old = 65535 = 0xFFFF, new = 0), both, or the new field
        big = set()
        for _ in range(1 if tier == "quick" else 4):
            s = gen.gen_sprite(rng, max_canvas=5, max_layers=3, max_frames=2)
            enc = []
            for cnt in [(65535, 65535), (65535, 0), (0, 65535)]:
                ch = gen.default_choices()
                ch["pad_frame0_to"], ch["pad_count"] = 65535, cnt
                choice_hist["count65535=%s" % (cnt,)] += 1
                data = gen.encode(s, ch, rng)
                enc.append((len(paths), ch, data))
                big.add(len(paths))
                paths.append(w.put(data))
            groups.append((s, enc))
        # between the encodings: files that are refused inside the inflate step (each shard of the run loads its inputs one after the
        # other on one thread): a compressed encoding must not fare worse than a raw one because of what was refused before it
        poison = [w.put(d) for d in poison_files()]
        obs_paths, pos = [], []
        for i, pth in enumerate(paths):
            if i % 5 == 2:
                obs_paths.append(poison[(i // 5) % len(poison)])
            pos.append(len(obs_paths))
            obs_paths.append(pth)
        ib_all = vplib.impl_observe("release", obs_paths, w.dir, 15, max_frames=4, max_layers=6)
        ib = [ib_all[k] for k in pos]
        small = list(range(len(paths)))        # (the model handles 65535-chunk frames in well under a second since frev)
        mres = vplib.model_observe([paths[i] for i in small], w.dir, 15, max_frames=4, max_layers=6)
        mb = list(ib)
        for i, r in zip(small, mres):
            mb[i] = r
        corr_fail, direct_fail = [], []
        # ONE large cel of one colour (2048 x 1280 RGBA, 10 MB decoded - deflate packs it about 1030 : 1 at levels 6 and 9) stored raw and
        # compressed at levels 0 / 1 / 6 / 9: all five must load and render alike (implementation only; images compared as digests)
        upx = bytes([40, 80, 120, 255]) * (2048 * 1280)
        uni = []
        for tag, ct, zl_ in (("raw", 0, 0), ("zlib level 0", 2, 0), ("zlib level 1", 2, 1), ("zlib level 6", 2, 6), ("zlib level 9", 2, 9)):
            fr = ase.Frame(chunks=[ase.LayerChunk(name="u"), ase.CelChunk(layer=0, w=2048, h=1280, pixels=upx, ctype_cel=ct, zlevel=zl_)])
            uni.append((tag, w.put(ase.serialize(ase.Sprite(width=2048, height=1280, frames=[fr])))))
        ub = vplib.impl_observe("release", [p_ for _, p_ in uni], w.dir, 3, extra_env={"VERIF_IMAGE_DIGEST": "65536"}, mem_kb=6000000, shards=5, tag="uniform")
        for (tag, p_), b in zip(uni, ub):
            if b is None or outcome(b) != 0 or ub[0] is None or b[0] != ub[0][0]:
                direct_fail.append({"what": "a 2048 x 1280 cel of one colour stored as '%s' does not load like the same cel stored raw" % tag,
                                    "outcome": outcome(b), "comments": b[1][:3] if b else None})
        # the same files through the path-based entry point (read_file) and through a small BufReader: same result as the slice
        lines = []
        for pth in paths:
            lines += ["%s plain" % pth, "%s file" % pth, "%s bufreader 7" % pth]
        sb = run_sched([vplib.impl_driver("release"), "sched"], lines, w.dir, "c07sched", False)
        for i, pth in enumerate(paths):
            a, b, c = sb[3 * i], sb[3 * i + 1], sb[3 * i + 2]
            if a is None or b is None or c is None or a[0] != b[0] or a[0] != c[0]:
                direct_fail.append({"what": "read_file / a buffered reader and read(&bytes) give different results for the same bytes (a header field the "
                                            "format declares unused, or the way the bytes arrive, decides)",
                                    "slice": a[0][:2] if a else None, "read_file": b[0][:2] if b else None, "bufreader": c[0][:2] if c else None,
                                    "_data": open(pth, "rb").read()})
        for s, enc in groups:
            ref = ib[enc[0][0]]
            for idx, ch, data in enc:
                b = ib[idx]
                if outcome(b) != 0:
                    direct_fail.append({"what": "an encoding of a well-formed sprite does not load", "choices": {kk: str(vv) for kk, vv in ch.items()},
                                        "comments": b[1][:3] if b else None, "_data": data})
                elif outcome(ref) == 0 and b[0] != ref[0]:
                    direct_fail.append({"what": "two encodings of the same sprite are observed differently", "diff": first_diff(b[0], ref[0]),
                                        "choices": {kk: str(vv) for kk, vv in ch.items()}, "sprite": gen.describe(s), "_data": data})
                d = same_block(b, mb[idx])
                if d:
                    corr_fail.append({"input": paths[idx], "diff": d, "_data": data})
        proof_level_coverage(v, ob, {
            "evaluations": len(paths), "distinct_nontrivial": len(paths) - n,
            "rule": "%d structured sprites, each encoded under %d vectors of encoding choices (raw vs zlib at levels 0/1/6/9/stored blocks per cel, which chunk-count "
                    "field carries the count, ignorable chunks 0x2006/0x2016/0x2017 and sRGB/none colour profiles in the gaps, random values in unused header, "
                    "layer, cel, tag, slice, palette, tileset fields, pixel ratio with a zero component, 1-16 extra bytes at the end of chunks, bytes after the "
                    "last frame, a redundant legacy palette before or after the new palette, cel chunks of a frame shuffled); all whole-API observations of one "
                    "sprite must be identical and equal to the model's; non-trivial = every encoding other than the canonical one" % (n, k),
            "samples": [{kk: str(vv) for kk, vv in groups[0][1][1][1].items()}], "choice_histogram": dict(choice_hist),
            "correspondence_disagreements": len(corr_fail), "direct_failures": len(direct_fail)})
        return finish_with(v, ob, corr_fail, direct_fail)
    finally:
        w.cleanup()


# ==========================================================================
# C10  user data is attached to the entity it follows
# ==========================================================================
C10_ALPHABET = ["layer", "cel", "slice", "tags0", "tags1", "tags2", "oldpal", "palette", "ignorable", "ud"]


class FrameSplitList(list):
    """the chunk list of a C10 program; .frames = the same chunks split over the frames of the file"""
    frames: List[List[ase.Chunk]]


def c10_program(seq: List[str], uds: List[dict], splits: Tuple[int, ...] = ()):
    """chunks of a file for the event sequence (a new frame starts before each event index in `splits`, so an entity and its
    record may sit in different frames), and the expected attachment; None if inadmissible"""
    chunks0 = FrameSplitList()
    starts = []
    ctx = None            # ("layer", i) / ("cel", f, l) / ("slice", i) / ("tag", i, n) / ("sprite",)
    owner: Dict[tuple, dict] = {}
    nlayers = nslices = 0
    cels_by_frame: Dict[int, set] = {}
    have_tags = False
    ntags = 0
    ui = 0
    fidx = 0
    for ei, e in enumerate(seq):
        if ei in splits:
            fidx += 1
            starts.append(len(chunks0))
        cels0 = cels_by_frame.setdefault(fidx, set())
        if e == "layer":
            chunks0.append(ase.LayerChunk(name="L%d" % nlayers))
            ctx = ("layer", nlayers)
            nlayers += 1
        elif e == "cel":
            free = [l for l in range(nlayers) if l not in cels0]
            if not free:
                return None
            # the first cel chunk of a frame goes to the HIGHEST free layer, the next ones to the lowest: cel chunks need not come in
            # layer order, and each keeps the record that follows it
            l = free[-1] if not cels0 and len(free) > 1 else free[0]
            cels0.add(l)
            chunks0.append(ase.CelChunk(layer=l, w=1, h=1, pixels=b"\1\2\3\4", ctype_cel=0))
            ctx = ("cel", fidx, l)
        elif e == "link":
            # a linked cel (same layer, frame 0 as the target): an entity of its own, with or without a record of its own
            cand = [l for l in sorted(cels_by_frame.get(0, ())) if l not in cels0] if fidx > 0 else []
            if not cand:
                return None
            l = cand[0]
            cels0.add(l)
            chunks0.append(ase.CelChunk(layer=l, ctype_cel=1, linked=0))
            ctx = ("cel", fidx, l)
        elif e == "slice" or e == "slice0":
            # "slice0": a slice chunk with no keys at all - still an entity that owns the records that follow it
            chunks0.append(ase.SliceChunk(name="S%d" % nslices, keys=[ase.SliceKey(w=1, h=1)] if e == "slice" else []))
            ctx = ("slice", nslices)
            nslices += 1
        elif e == "tcel":
            # a tilemap cel on a tilemap layer of its own (tileset 0 is declared on first use)
            if not any(isinstance(c, ase.TilesetChunk) for c in chunks0):
                chunks0.append(ase.TilesetChunk(id=0, tile_count=2, tile_w=1, tile_h=1, pixels=bytes(8)))
            chunks0.append(ase.LayerChunk(name="M%d" % nlayers, ltype=2, tileset=0))
            chunks0.append(ase.CelChunk(layer=nlayers, ctype_cel=3, w=1, h=1, tiles=[1]))
            cels0.add(nlayers)
            ctx = ("cel", fidx, nlayers)
            nlayers += 1
        elif e.startswith("tags"):
            if have_tags or fidx > 0:
                return None          # a second tags chunk would replace the first; tags outside frame 0 are ignored: keep programs simple
            n = int(e[4:])
            have_tags = True
            ntags = n
            chunks0.append(ase.TagsChunk(tags=[ase.Tag(name="T%d" % i, from_=3 * (n - i), to=3 * (n - i) + 1, color=((0x01C86432 * (i + n)) & 0xFFFFFFFF) if (i + n) % 3 else 0, reserved=bytes([(i * 37 + 5) & 255] * 6) if i % 2 else b"\0" * 6, repeat=3 * (i % 2)) for i in range(n)]))
            ctx = ("tag", 0, n)
        elif e == "oldpal":
            chunks0.append(ase.OldPaletteChunk(packets=[(0, [(1, 2, 3)])]))
            ctx = ("sprite",)
        elif e == "palette":
            # one colour, or (every second time) more than 256 of them
            chunks0.append(ase.PaletteChunk(entries=[(9, 8, 7, 255)] * (300 if len(chunks0) % 2 else 1)))
        elif e == "ignorable":
            chunks0.append(ase.RawChunk(ase.CT_CEL_EXTRA, b"\0" * 20))
        elif e == "ud":
            if ctx is None:
                return None
            u = uds[ui % len(uds)]
            ui += 1
            if ctx[0] == "tag":
                i, n = ctx[1], ctx[2]
                if i >= n:
                    return None
                key = ("tag", i)
                ctx = ("tag", i + 1, n)
            else:
                key = ctx
            if key in owner:
                return None
            owner[key] = u
            udc = ase.UserDataChunk(text=u["text"], color=u["color"])
            if u.get("flags") is not None:
                # further bits of the flag word are set (bit 4 = the properties block Aseprite 1.3 appends, or reserved bits):
                # text and colour are still announced by bits 1 and 2 alone
                udc.flags = u["flags"]
                udc.tail = u.get("tail", b"")
            chunks0.append(udc)
    bounds = [0] + starts + [len(chunks0)]
    chunks0.frames = [list(chunks0[bounds[i]:bounds[i + 1]]) for i in range(len(bounds) - 1)]
    return chunks0, owner, nlayers, nslices, ntags


def c10_expected(owner, nlayers, nslices, ntags) -> List[List[int]]:
    out = []
    out += gen.ud_lines(0, 0, 0, owner.get(("sprite",)))
    for i in range(nlayers):
        out += gen.ud_lines(1, i, 0, owner.get(("layer", i)))
    for i in range(ntags):
        out += gen.ud_lines(3, i, 0, owner.get(("tag", i)))
    for i in range(nslices):
        out += gen.ud_lines(4, i, 0, owner.get(("slice", i)))
    for key, u in owner.items():
        if key[0] == "cel":
            out += gen.ud_lines(2, key[1], key[2], u)
    return out


def check_C10(tier: str, seed: int) -> int:
    v = Verdict("C10", tier, seed, "proof")
    ob = vplib.check_obligations("C10", expected=["C10_step", "C10_context_invariant", "C10_ignorable", "C10_attach", "C10_attach_layer_file_order", "C10_attach_tags_file_order", "C10_attach_layer", "C10_attach_cel", "C10_attach_slice", "C10_attach_tag", "C10_attach_sprite", "C10_no_context", "C10_frame", "C10_frame_rest", "C10_flags", "C10_flags_inv", "C10_assemble", "C10_load"])
    vplib.build_harness(["release"])
    w = Work("C10")
    try:
        rng = random.Random(seed)
        import itertools
        maxlen = 4 if tier == "quick" else 5
        uds = [{"text": "a", "color": None}, {"text": None, "color": (1, 2, 3, 4)}, {"text": "été", "color": (255, 0, 255, 0)},
               {"text": None, "color": None}, {"text": "", "color": None},
               {"text": "p", "color": (9, 8, 7, 6), "flags": 7, "tail": ase.u32(12) + ase.u32(0) + ase.u32(0)},
               {"text": "q", "color": None, "flags": 0x80000001}, {"text": None, "color": (1, 1, 1, 1), "flags": 6, "tail": ase.u32(8) + ase.u32(0)},
               {"text": "r", "color": None, "flags": 5, "tail": b"\1\2\3"}, {"text": "key=1\0", "color": None}, {"text": "\0\0", "color": (0, 0, 0, 0)}]
        cases = []
        nseq = 0
        for n in range(1, maxlen + 1):
            for seq in itertools.product(C10_ALPHABET, repeat=n):
                nseq += 1
                if "ud" not in seq:
                    continue
                prog = c10_program(list(seq), uds[nseq % len(uds):] + uds[:nseq % len(uds)])
                if prog is None:
                    continue
                cases.append((list(seq), prog))
        exhaustive_n = len(cases)
        for _ in range(300 if tier == "quick" else 5000):
            n = rng.randint(maxlen + 1, 40)
            seq = [rng.choice(C10_ALPHABET + ["ud", "ud", "layer", "slice0", "tcel"]) for _ in range(n)]
            prog = c10_program(seq, uds)
            if prog is not None:
                cases.append((seq, prog))
        for pre in (["layer"], ["layer", "ud"], ["layer", "cel"], ["slice"], ["tags1"], ["oldpal"], []):
            for ev_ in ("slice0", "tcel"):
                for post in (["ud"], [], ["ignorable", "ud"], ["ud", "layer", "ud"]):
                    seq = pre + [ev_] + post
                    prog = c10_program(seq, uds)
                    if prog is not None:
                        cases.append((seq, prog))
        # the same rule across frame boundaries: an entity at the end of one frame, its record at the start of a later one
        multi = 0
        for seq, _prog in list(cases[:exhaustive_n:3]) + list(cases[exhaustive_n:]):
            if len(seq) < 2:
                continue
            k = rng.choice([1, 1, 2, 3])
            splits = tuple(sorted(set(rng.randint(1, len(seq) - 1) for _ in range(k))))
            if rng.random() < 0.5 and "ud" in seq[1:]:
                uidx = [i for i, e in enumerate(seq) if e == "ud" and i > 0]
                splits = tuple(sorted(set(splits) | {rng.choice(uidx)}))      # a boundary directly before a record
            prog = c10_program(seq, uds, splits)
            if prog is not None:
                cases.append((seq + ["frames@%s" % (list(splits),)], prog))
                multi += 1
        # linked cels: frame 0 holds layers and cels (some with records), later frames link to them (some with records of their own)
        for _ in range(150 if tier == "quick" else 2000):
            nl0 = rng.randint(1, 4)
            seq = ["layer"] * nl0
            for l in range(nl0):
                seq += ["cel"] + (["ud"] if rng.random() < 0.6 else []) + (["ignorable"] if rng.random() < 0.2 else [])
            splits = []
            for f in range(rng.randint(1, 3)):
                splits.append(len(seq))
                for l in range(rng.randint(1, nl0)):
                    seq += ["link"] + (["ud"] if rng.random() < 0.4 else [])
            prog = c10_program(seq, uds, tuple(splits))
            if prog is not None:
                cases.append((seq + ["frames@%s" % (splits,)], prog))
                multi += 1
        paths = []
        for seq, (chunks, owner, nl, ns, nt) in cases:
            frames = []
            for fc in chunks.frames:
                mode = rng.choice(["both", "old", "new"]) if fc else "both"
                frames.append(ase.Frame(chunks=fc, count_mode=mode))
            data = ase.serialize(ase.Sprite(width=2, height=2, frames=frames))
            paths.append(w.put(data))
        ib = vplib.impl_observe("release", paths, w.dir, 5)
        mb = vplib.model_observe(paths, w.dir, 5)
        corr_fail, direct_fail = [], []
        for i, (seq, (chunks, owner, nl, ns, nt)) in enumerate(cases):
            # (lines 8 / 9: the tags with their frame ranges and names, in order - a record belongs to the tag it was written after,
            # identified by what the tag IS, not only by its position)
            d = same_block(ib[i], mb[i], [1, 2, 6, 7, 8, 9])
            if d:
                corr_fail.append({"input": paths[i], "sequence": seq, "diff": d, "_data": open(paths[i], "rb").read()})
            if outcome(ib[i]) != 0:
                direct_fail.append({"what": "admissible chunk sequence does not load", "sequence": seq, "comments": ib[i][1][:3] if ib[i] else None,
                                    "_data": open(paths[i], "rb").read()})
                continue
            got = sorted(l for l in ib[i][0] if l and l[0] in (6, 7))
            exp = sorted(c10_expected(owner, nl, ns, nt))
            names = [l[2:] for l in ib[i][0] if l and l[0] == 9]
            if nt and names != [list(("T%d" % k).encode()) for k in range(nt)]:
                direct_fail.append({"what": "the tags are not reported in the order of the tags chunk (records are attached by position)", "sequence": seq,
                                    "got": names[:4], "_data": open(paths[i], "rb").read()})
            if got != exp:
                direct_fail.append({"what": "user data is not attached to the entity it follows (or to something else as well)", "sequence": seq,
                                    "got": got[:6], "expected": exp[:6], "_data": open(paths[i], "rb").read()})
        proof_level_coverage(v, ob, {
            "evaluations": len(cases), "distinct_nontrivial": exhaustive_n,
            "rule": "every admissible chunk sequence of length <= %d over {layer, cel, slice, tags(0), tags(1), tags(2), legacy palette, palette, ignorable, "
                    "user data} that contains a user-data chunk (exhaustive: %d programs out of %d sequences), plus random admissible sequences up to length 40, "
                    "plus the same programs split over 2-4 frames at random points and directly before records; "
                    "records carry text only / colour only / both / neither; every entity's user_data() against the window rule computed in Python; model = implementation"
                    % (maxlen, exhaustive_n, nseq),
            "samples": [c[0] for c in cases[100:103]], "exhaustive": True,
            "correspondence_disagreements": len(corr_fail), "direct_failures": len(direct_fail)})
        return finish_with(v, ob, corr_fail, direct_fail)
    finally:
        w.cleanup()


# ==========================================================================
# C11  palettes
# ==========================================================================
def check_C11(tier: str, seed: int) -> int:
    v = Verdict("C11", tier, seed, "proof")
    ob = vplib.check_obligations("C11", expected=["C11_new", "C11_old", "C11_scale", "C11_precedence_new_old", "C11_precedence_old_new", "C11_complete_no_palette", "C11_complete_missing", "C11_complete_load"])
    vplib.build_harness(["release", "dev"])
    w = Work("C11")
    try:
        rng = random.Random(seed)
        n = 300 if tier == "quick" else 5000
        cases = []    # (kind, sprite-or-None, data, must_fail, note)
        for i in range(n):
            kind = rng.choice(["new", "old4", "old11", "both", "both_rev"])
            s = gen.gen_sprite(rng, max_canvas=4, max_layers=3, max_frames=2, depth=rng.choice([8, 8, 32]), palette_kind=kind, tilemaps=(i % 3 == 0))
            cases.append(("wf:" + kind, s, gen.encode(s, gen.random_choices(rng) if i % 2 else None, rng), False, None))
        # every 6-bit component value, and components outside 0..63
        for c in range(256):
            fr = ase.Frame(chunks=[ase.OldPaletteChunk(kind=ase.CT_OLD_PALETTE_11, packets=[(c % 7, [(c, (c * 5) & 63, 63 - (c & 63))])])])
            data = ase.serialize(ase.Sprite(width=1, height=1, frames=[fr]))
            exp = None
            if c < 64:
                sc = lambda x: (x << 2) | (x >> 4)
                exp = {c % 7: (sc(c), sc((c * 5) & 63), sc(63 - (c & 63)), 255, None)}
            cases.append(("sixbit", exp, data, c >= 64, "component %d" % c))
        # count byte 0 means 256 entries; several packets; cumulative skips
        for six in (False, True):
            for rep in range(6 if tier == "quick" else 40):
                packets = []
                exp: Dict[int, tuple] = {}
                pos = 0
                for _ in range(rng.randint(1, 4)):
                    skip = rng.choice([0, 1, 3, 250])
                    cnt = rng.choice([256, 1, 2, 255])
                    cols = [tuple(rng.randrange(64 if six else 256) for _ in range(3)) for _ in range(cnt)]
                    pos += skip
                    for j, c3 in enumerate(cols):
                        exp[pos + j] = (tuple((x << 2 | x >> 4) for x in c3) if six else c3) + (255, None)
                    packets.append((skip, cols))
                fr = ase.Frame(chunks=[ase.OldPaletteChunk(kind=ase.CT_OLD_PALETTE_11 if six else ase.CT_OLD_PALETTE_04, packets=packets)])
                cases.append(("packets", exp, ase.serialize(ase.Sprite(width=1, height=1, frames=[fr])), False, "six=%s" % six))
        # new palette: ranges with first > 0, names, declared range longer than the data (must fail)
        for rep in range(30 if tier == "quick" else 300):
            first = rng.choice([0, 1, 255, 256, 1000, 65530])
            ents = [(rng.randrange(256), rng.randrange(256), rng.randrange(256), rng.randrange(256), gen.name(rng) if rng.random() < 0.4 else None)
                    for _ in range(rng.randint(1, 6))]
            short = rng.random() < 0.3
            last = rng.choice([first + len(ents), first + len(ents) + 7, 2 ** 32 - 1]) if short else None
            fr = ase.Frame(chunks=[ase.PaletteChunk(first=first, entries=ents, last=last)])
            exp = {first + j: e for j, e in enumerate(ents)}
            cases.append(("newrange", exp, ase.serialize(ase.Sprite(width=1, height=1, frames=[fr])), short, "first %d short %s" % (first, short)))
        # precedence across frames: the new-format chunk and the legacy chunk(s) sit in different frames, in either order
        for rep in range(40 if tier == "quick" else 400):
            nfr = rng.randint(2, 4)
            fnew, fold = rng.sample(range(nfr), 2)
            first = rng.choice([0, 0, 2])
            ents = [(rng.randrange(256), rng.randrange(256), rng.randrange(256), rng.choice([255, 128]), None) for _ in range(rng.randint(1, 5))]
            six = rng.random() < 0.5
            cols = [tuple(rng.randrange(64 if six else 256) for _ in range(3)) for _ in range(rng.randint(1, 9))]
            frames = [ase.Frame() for _ in range(nfr)]
            frames[fnew].chunks.append(ase.PaletteChunk(first=first, entries=ents))
            frames[fold].chunks.append(ase.OldPaletteChunk(kind=ase.CT_OLD_PALETTE_11 if six else ase.CT_OLD_PALETTE_04, packets=[(0, cols)]))
            if rng.random() < 0.4:      # a second legacy chunk somewhere else
                frames[rng.randrange(nfr)].chunks.append(ase.OldPaletteChunk(kind=ase.CT_OLD_PALETTE_04, packets=[(1, [(7, 7, 7)])]))
            exp = {first + j: e for j, e in enumerate(ents)}
            cases.append(("crossframe", exp, ase.serialize(ase.Sprite(width=1, height=1, frames=frames)), False,
                          "new palette in frame %d, legacy in frame %d" % (fnew, fold)))
        # indexed sprites with a pixel index absent from the (sparse) palette, or with no palette at all
        for rep in range(60 if tier == "quick" else 800):
            ids = sorted(rng.sample(range(0, 12), rng.randint(1, 5)))
            first = ids[0]
            ents = [(1, 2, 3, 255)] * (ids[-1] - first + 1)
            pal_present = set(range(first, ids[-1] + 1))
            missing = rng.choice([x for x in range(0, 256) if x not in pal_present])
            good = rng.choice(sorted(pal_present))
            which = rng.choice(["cel_raw", "cel_zlib", "tileset", "nopalette", "ok"])
            px = bytes([good, good, missing if which in ("cel_raw", "cel_zlib") else good, good])
            chunks = [] if which == "nopalette" else [ase.PaletteChunk(first=first, entries=ents)]
            if which == "tileset":
                chunks.append(ase.TilesetChunk(id=0, tile_count=1, tile_w=2, tile_h=2, pixels=bytes([good, missing, good, good])))
            chunks += [ase.LayerChunk(), ase.CelChunk(layer=0, w=2, h=2, pixels=px, ctype_cel=0 if which == "cel_raw" else 2)]
            data = ase.serialize(ase.Sprite(width=2, height=2, depth=8, frames=[ase.Frame(chunks=chunks)]))
            cases.append(("indexed:" + which, None, data, which != "ok", "missing index %d" % missing))
        for desc, data, all_present in sparse_indexed_files(rng, 150 if tier == "quick" else 2500):
            cases.append(("sparse:" + ("ok" if all_present else "missing"), None, data, not all_present, desc))
        paths = [w.put(c[2]) for c in cases]
        res = {prof: vplib.impl_observe(prof, paths, w.dir, 1) for prof in ("release", "dev")}
        mb = vplib.model_observe(paths, w.dir, 1)
        corr_fail, direct_fail = [], []
        # two files whose legacy palette chunks carry the SAME payload under the two chunk kinds (0x0004: 8-bit components, 0x0011: 6-bit
        # components scaled to 8 bits), loaded one after the other on one thread (A, B, A, ...): each decodes by its own kind
        pair_paths = []
        for k in range(12 if tier == "quick" else 100):
            packets = [(rng.choice([0, 0, 1, 3]), [(rng.randrange(64), rng.randrange(64), rng.randrange(64)) for _ in range(rng.randint(1, 6))]) for _ in range(rng.randint(1, 3))]
            ab = []
            for kindc in (ase.CT_OLD_PALETTE_04, ase.CT_OLD_PALETTE_11):
                fr = ase.Frame(chunks=[ase.OldPaletteChunk(kind=kindc, packets=packets), ase.LayerChunk(name="l")])
                ab.append(w.put(ase.serialize(ase.Sprite(width=1, height=1, frames=[fr]))))
            order = ab if k % 2 else ab[::-1]
            pair_paths += [order[0], order[1], order[0]]
        pseq = vplib.impl_observe("release", pair_paths, w.dir, 1, shards=1, tag="pairs")
        piso = vplib.impl_observe("release", pair_paths, w.dir, 1, fresh_threads=True, tag="pairs_iso")
        pmod = vplib.model_observe(pair_paths, w.dir, 1, tag="pairs_model")
        for k_, (a, b, m_) in enumerate(zip(pseq, piso, pmod)):
            if a is None or b is None or a[0] != b[0]:
                direct_fail.append({"what": "a decoded legacy palette depends on the file loaded before it on the same thread (same payload, other chunk kind)",
                                    "sequence": a[0][:3] if a else None, "isolated": b[0][:3] if b else None, "_data": open(pair_paths[k_], "rb").read()})
                break
            d = same_block(b, m_)
            if d:
                corr_fail.append({"input": pair_paths[k_], "diff": d, "_data": open(pair_paths[k_], "rb").read()})
        kinds = Counter()
        for i, (kind, s, data, must_fail, note) in enumerate(cases):
            kinds[kind] += 1
            b = res["release"][i]
            if res["dev"][i] is None or b is None or res["dev"][i][0] != b[0]:
                direct_fail.append({"what": "dev and release builds disagree", "kind": kind, "note": note, "_data": data})
            d = same_block(b, mb[i])
            if d:
                corr_fail.append({"input": paths[i], "kind": kind, "note": note, "diff": d, "_data": data})
            io = outcome(b)
            if must_fail:
                if not (1 <= io <= 4):
                    direct_fail.append({"what": "load must fail with an error", "kind": kind, "note": note, "outcome": io, "_data": data})
                continue
            if io != 0:
                direct_fail.append({"what": "well-formed palette program does not load", "kind": kind, "note": note, "comments": b[1][:3] if b else None, "_data": data})
                continue
            if kind.startswith("wf:"):
                exp = [l for l in gen.expected_struct(s) if l[0] in (13, 14, 15) or (l[0] == 21 and l[1] == 5)]
            elif s is not None:
                pal = s
                exp = [[13, 1, len(pal)]]
                for kk in sorted(pal):
                    r, g, bb, a, nm = pal[kk]
                    exp.append([14, kk, r, g, bb, a, 1 if nm is not None else 0])
                    if nm is not None:
                        exp.append([15, kk] + gen.utf8(nm))
                exp += [[21, 5, kk, 0, 1 if kk in pal else 0] for kk in [0, 1, 255, 256, 4294967295]]
            else:
                continue
            got = [l for l in b[0] if l[0] in (13, 14, 15) or (l[0] == 21 and l[1] == 5)]
            if got != exp:
                direct_fail.append({"what": "decoded palette differs from what the chunks encode", "kind": kind, "note": note, "diff": first_diff(got, exp), "_data": data})
        proof_level_coverage(v, ob, {
            "evaluations": 2 * len(cases), "distinct_nontrivial": len(cases),
            "rule": "palette programs: structured sprites with new / legacy 0x0004 / legacy 0x0011 / both orders (new must win); every 6-bit component value 0..63 "
                    "(exhaustive) and every out-of-range value 64..255 (must fail); packet structures with count byte 0 (= 256), cumulative skips, overlapping "
                    "packets; new-format ranges with first > 0, names, declared last beyond the data (must fail); indexed sprites with a pixel index absent from a "
                    "sparse palette in a raw cel / zlib cel / tileset, or with no palette (must fail); expected entries computed in Python; dev = release; model = implementation",
            "samples": [{"kind": c[0], "note": c[4]} for c in cases[:2] + cases[-3:]], "kinds": dict(kinds),
            "correspondence_disagreements": len(corr_fail), "direct_failures": len(direct_fail)})
        return finish_with(v, ob, corr_fail, direct_fail)
    finally:
        w.cleanup()


# ==========================================================================
# C15  documented-unsupported features are refused
# ==========================================================================
def c15_switches(sp: ase.Sprite, rng: random.Random) -> List[Tuple[str, ase.Sprite]]:
    """each way of switching on one unsupported feature at each position where it can occur"""
    import copy
    out = []

    def variant(desc, fn):
        c = copy.deepcopy(sp)
        fn(c)
        out.append((desc, c))
    for pw, ph in [(2, 1), (1, 2), (2, 2), (255, 255), (1, 3)]:
        variant("pixel ratio %d:%d" % (pw, ph), lambda c, pw=pw, ph=ph: (setattr(c, "pixel_w", pw), setattr(c, "pixel_h", ph)))
    for d in [0, 1, 4, 15, 24, 31, 33, 64, 65535]:
        variant("colour depth %d" % d, lambda c, d=d: setattr(c, "depth", d))
    for fi, fr in enumerate(sp.frames):
        for ci, ch in enumerate(fr.chunks):
            if isinstance(ch, ase.LayerChunk):
                for t in [3, 4, 65535]:
                    variant("layer type %d at chunk %d" % (t, ci), lambda c, fi=fi, ci=ci, t=t: setattr(c.frames[fi].chunks[ci], "ltype", t))
                for bm in [19, 20, 255, 65535]:
                    variant("blend mode %d at chunk %d" % (bm, ci), lambda c, fi=fi, ci=ci, bm=bm: setattr(c.frames[fi].chunks[ci], "blend", bm))
            elif isinstance(ch, ase.CelChunk):
                for t in [4, 5, 255, 65535]:
                    variant("cel type %d at frame %d chunk %d" % (t, fi, ci), lambda c, fi=fi, ci=ci, t=t: setattr(c.frames[fi].chunks[ci], "ctype_cel", t))
                if ch.ctype_cel == 3:
                    for bits in [8, 16, 31, 33, 64, 0]:
                        variant("bits per tile %d at frame %d chunk %d" % (bits, fi, ci), lambda c, fi=fi, ci=ci, bits=bits: setattr(c.frames[fi].chunks[ci], "tm_bits", bits))
                    # the same on a tilemap that stores NO tiles (0 x h, w x 0): there is nothing to decode, the width is still unsupported
                    for bits, (zw, zh) in [(16, (0, 0)), (8, (0, 3)), (64, (2, 0))]:
                        def empty_tm(c, fi=fi, ci=ci, bits=bits, zw=zw, zh=zh):
                            cc = c.frames[fi].chunks[ci]
                            cc.tm_bits, cc.w, cc.h, cc.tiles, cc.zraw = bits, zw, zh, [], None
                        variant("bits per tile %d on an empty %dx%d tilemap at frame %d chunk %d" % (bits, zw, zh, fi, ci), empty_tm)
            elif isinstance(ch, ase.TagsChunk):
                for ti in range(len(ch.tags)):
                    for dd in [3, 4, 255]:
                        variant("animation direction %d at tag %d" % (dd, ti), lambda c, fi=fi, ci=ci, ti=ti, dd=dd: setattr(c.frames[fi].chunks[ci].tags[ti], "direction", dd))
            elif isinstance(ch, ase.TilesetChunk):
                variant("tileset %d without embedded pixels" % ch.id, lambda c, fi=fi, ci=ci: setattr(c.frames[fi].chunks[ci], "flags", (c.frames[fi].chunks[ci].flags & ~2)))
                variant("tileset %d only linked to an external file" % ch.id,
                        lambda c, fi=fi, ci=ci: (setattr(c.frames[fi].chunks[ci], "flags", (c.frames[fi].chunks[ci].flags & ~2) | 1), setattr(c.frames[fi].chunks[ci], "ext", (1, 1))))
            if isinstance(ch, ase.TilesetChunk):
                # the id DEFINED AGAIN later - right behind it and at the end of the last frame - by a chunk that only links to an
                # external file: the later definition replaces the earlier one, so the sprite has a tileset without pixels
                def redefine(c, fi=fi, ci=ci, where="behind"):
                    import copy as _c
                    d = _c.deepcopy(c.frames[fi].chunks[ci])
                    d.flags, d.ext, d.pixels, d.zraw = (d.flags & ~2) | 1, (1, 1), b"", None
                    if where == "behind":
                        c.frames[fi].chunks.insert(ci + 1, d)
                    else:
                        c.frames[-1].chunks.append(d)
                variant("tileset %d defined again without pixels right behind its chunk" % ch.id, redefine)
                variant("tileset %d defined again without pixels at the end of the last frame" % ch.id, lambda c, f=redefine: f(c, where="end"))
        # a tags chunk with an unknown animation direction in this frame (tags chunks outside frame 0 are decoded, then ignored)
        variant("animation direction 5 in a tags chunk at the end of frame %d" % fi,
                lambda c, fi=fi: c.frames[fi].chunks.append(ase.TagsChunk(tags=[ase.Tag(name="late", direction=5)])))
        # colour profile chunks at every gap of the frame
        for pos in sorted(set([0, len(fr.chunks) // 2, len(fr.chunks)])):
            variant("ICC profile at frame %d position %d" % (fi, pos),
                    lambda c, fi=fi, pos=pos: c.frames[fi].chunks.insert(pos, ase.ColorProfileChunk(ptype=2, icc=b"icc!")))
            variant("fixed gamma at frame %d position %d" % (fi, pos),
                    lambda c, fi=fi, pos=pos: c.frames[fi].chunks.insert(pos, ase.ColorProfileChunk(ptype=1, flags=1, gamma=0x23333)))
            variant("fixed gamma without profile at frame %d position %d" % (fi, pos),
                    lambda c, fi=fi, pos=pos: c.frames[fi].chunks.insert(pos, ase.ColorProfileChunk(ptype=0, flags=1)))
    return out


def c15_value_sweeps(sp: ase.Sprite, rng: random.Random, tier: str) -> List[Tuple[str, bytes]]:
    """the VALUE dimension of the feature switches: for the header's colour depth and for the first occurrence of each chunk
    field (layer type, blend mode, cel type, bits per tile, animation direction) every value of a dense set - all values up
    to 1023 (all 256 for a byte field), the powers of two and their neighbours, random values; the whole 16-bit range of the
    colour depth in the thorough tier - that the library does not support, written into the field of an otherwise unchanged
    file.  The field is located by serialising the sprite with two unsupported values and comparing the bytes."""
    import copy
    dense = set(range(1024)) | {(1 << k) + d for k in range(16) for d in (-1, 0, 1)} | {rng.randrange(65536) for _ in range(200)}
    dense = sorted(x for x in dense if 0 <= x <= 65535)
    out = []

    def sweep(desc, setter, valid, width, values):
        a, b = copy.deepcopy(sp), copy.deepcopy(sp)
        va, vb = (0x5555, 0xAAAA) if width == 2 else (0x55, 0xAA)
        try:
            setter(a, va); setter(b, vb)
            da, db = ase.serialize(a), ase.serialize(b)
        except Exception:
            return
        diff = [i for i in range(min(len(da), len(db))) if da[i] != db[i]]
        if len(da) != len(db) or len(diff) != width or diff[-1] - diff[0] != width - 1:
            return
        off = diff[0]
        for val in values:
            if val in valid or (width == 1 and val > 255):
                continue
            d = bytearray(da)
            d[off:off + width] = val.to_bytes(width, "little")
            out.append(("%s = %d (value sweep)" % (desc, val), bytes(d)))
    # colour depth: bytes 12..13 of the header; 8, 16 and 32 are the supported values
    base = ase.serialize(sp)
    for val in (range(65536) if tier != "quick" else dense):
        if val not in (8, 16, 32):
            d = bytearray(base)
            d[12:14] = val.to_bytes(2, "little")
            out.append(("colour depth = %d (value sweep)" % val, bytes(d)))
    seen = set()
    for fi, fr in enumerate(sp.frames):
        for ci, ch in enumerate(fr.chunks):
            if isinstance(ch, ase.LayerChunk) and "layer" not in seen:
                seen.add("layer")
                sweep("layer type at chunk %d" % ci, lambda c, x, fi=fi, ci=ci: setattr(c.frames[fi].chunks[ci], "ltype", x), {0, 1, 2}, 2, dense)
                sweep("blend mode at chunk %d" % ci, lambda c, x, fi=fi, ci=ci: setattr(c.frames[fi].chunks[ci], "blend", x), set(range(19)), 2, dense)
            elif isinstance(ch, ase.CelChunk):
                if "cel" not in seen:
                    seen.add("cel")
                    sweep("cel type at frame %d chunk %d" % (fi, ci), lambda c, x, fi=fi, ci=ci: setattr(c.frames[fi].chunks[ci], "ctype_cel", x), {0, 1, 2, 3}, 2, dense)
                if ch.ctype_cel == 3 and "bits" not in seen:
                    seen.add("bits")
                    sweep("bits per tile at frame %d chunk %d" % (fi, ci), lambda c, x, fi=fi, ci=ci: setattr(c.frames[fi].chunks[ci], "tm_bits", x), {32}, 2, dense)
            elif isinstance(ch, ase.TagsChunk) and ch.tags and "tag" not in seen:
                seen.add("tag")
                sweep("animation direction at tag 0", lambda c, x, fi=fi, ci=ci: setattr(c.frames[fi].chunks[ci].tags[0], "direction", x), {0, 1, 2}, 1, range(256))
    return out


def check_C15(tier: str, seed: int) -> int:
    v = Verdict("C15", tier, seed, "proof")
    ob = vplib.check_obligations("C15", expected=["C15_propagation", "C15_pixel_ratio", "C15_color_depth", "C15_layer_type", "C15_blend_mode", "C15_cel_type", "C15_bits_per_tile", "C15_anim_direction", "C15_icc_profile", "C15_fixed_gamma", "C15_external_tileset"], extra_files=["C15_e2e"])
    vplib.build_harness(["release"])
    w = Work("C15")
    try:
        rng = random.Random(seed)
        n = 40 if tier == "quick" else 600
        cases = []
        feats = Counter()
        nbase = 0
        while nbase < n:
            s = gen.gen_sprite(rng, max_canvas=4, max_layers=4, max_frames=2)
            sp = gen.build(s, gen.random_choices(rng) if nbase % 2 else None, rng)
            base = ase.serialize(sp)
            nbase += 1
            cases.append(("base", base, False))
            for desc, c in c15_switches(sp, rng):
                try:
                    data = ase.serialize(c)
                except Exception:
                    continue      # e.g. a depth for which the builder cannot lay out pixels
                cases.append((desc, data, True))
                feats[desc.split(" at ")[0].rstrip("0123456789: ").strip()] += 1
            if nbase in (1, 2, 3) or (tier != "quick" and nbase % 40 == 0):
                for desc, data in c15_value_sweeps(sp, rng, "quick" if nbase > 3 else tier):
                    cases.append((desc, data, True))
                    feats["value sweep: " + desc.split(" =")[0].split(" at ")[0]] += 1
        # an unsupported feature inside a frame of EXACTLY 65535 chunks written with the old-format frame header (16-bit count 0xFFFF,
        # 32-bit count 0) and with the two other spellings of that count: the frame is read, so the feature is met
        filler = [ase.RawChunk(ase.CT_PATH, b"") for _ in range(65534)]
        for desc, bad in (("blend mode 19", ase.LayerChunk(name="x", blend=19)), ("ICC profile", ase.ColorProfileChunk(ptype=2, icc=b"icc!")),
                          ("layer type 7", ase.LayerChunk(name="y", ltype=7))):
            for cm in (("old", (65535, 0)), ("both", (65535, 65535)), ("new", (1, 65535))):
                for pos in (0, 65534):
                    fr = ase.Frame(chunks=filler[:pos] + [bad] + filler[pos:], count_mode=cm[1])
                    data = ase.serialize(ase.Sprite(width=1, height=1, frames=[ase.Frame(chunks=[ase.LayerChunk(name="l")]), fr]))
                    cases.append(("%s in a frame of 65535 chunks (%s count field, position %d)" % (desc, cm[0], pos), data, True))
                    feats["65535-chunk frame"] += 1
        paths = [w.put(c[1]) for c in cases]
        ib = vplib.impl_observe("release", paths, w.dir, 0)
        mb = vplib.model_observe(paths, w.dir, 0)
        corr_fail, direct_fail = [], []
        for i, (desc, data, must_fail) in enumerate(cases):
            io, mo = outcome(ib[i]), outcome(mb[i])
            if outcome_class(io) != outcome_class(mo):
                corr_fail.append({"input": paths[i], "feature": desc, "diff": "impl %d / model %d" % (io, mo), "_data": data})
            if must_fail and not (1 <= io <= 4):
                direct_fail.append({"what": "a file using an unsupported feature did not fail to load", "feature": desc, "outcome": io, "_data": data})
            if not must_fail and io != 0:
                direct_fail.append({"what": "base sprite does not load", "comments": ib[i][1][:3] if ib[i] else None, "_data": data})
        proof_level_coverage(v, ob, {
            "evaluations": len(cases), "distinct_nontrivial": len(cases) - nbase,
            "rule": "%d well-formed sprites; for each, every unsupported feature switched on at every position where it can occur (pixel ratio, colour depth, "
                    "layer type and blend mode of every layer, cel type of every cel, bits per tile of every tilemap cel, animation direction of every tag, ICC "
                    "profile / fixed gamma chunks at the start, middle and end of every frame, every tileset without embedded pixels); on three of the sprites also the "
                    "value dimension: every unsupported value of a dense set (0..1023, powers of two and neighbours, random; the whole 16-bit range of the colour "
                    "depth in the thorough tier) in the colour depth, layer type, blend mode, cel type, bits per tile, animation direction fields; the load must return an error; "
                    "non-trivial = every switched file" % nbase,
            "samples": [c[0] for c in cases[1:4]], "features": dict(feats),
            "correspondence_disagreements": len(corr_fail), "direct_failures": len(direct_fail)})
        return finish_with(v, ob, corr_fail, direct_fail)
    finally:
        w.cleanup()



# ==========================================================================
# C16  immutable, thread-safe, deterministic
# ==========================================================================
def fnv_halves(text: str) -> Tuple[int, int]:
    h = 0xcbf29ce484222325
    for c in text.encode():
        h = ((h ^ c) * 0x100000001b3) & 0xFFFFFFFFFFFFFFFF
    return h >> 32, h & 0xFFFFFFFF


def check_C16(tier: str, seed: int) -> int:
    v = Verdict("C16", tier, seed, "proof")
    ob = vplib.check_obligations("C16", expected=["C16_interleave", "C16_schedule_independent", "C16_history_pointwise", "C16_history_permutation",
                                                  "C16_finished_results", "C16_interleave_total", "C16_finished_stable"])
    vplib.build_harness(["release", "dev"])
    w = Work("C16")
    try:
        rng = random.Random(seed)
        direct_fail, corr_fail = [], []
        ok, err = vplib.build_sendsync()
        if not ok:
            direct_fail.append({"what": "asefile::AsepriteFile is not Send + Sync (the assertion binary does not compile)", "rustc": err})
        items: List[Tuple[str, str]] = []
        twin_pairs: List[Tuple[int, int]] = []
        poison = poison_files()
        for i, (s, data) in enumerate(small_sprites(rng, 60 if tier == "quick" else 600, max_canvas=8, max_layers=5, max_frames=3)):
            if i % 5 == 3:
                # an input that is refused inside the inflate step, between the others (in the sequence passes it precedes well-formed ones)
                items.append((w.put(poison[(i // 5) % len(poison)]), "refused inside inflate (kind %d)" % ((i // 5) % len(poison))))
            items.append((w.put(data), "generated"))
            if i % 3 == 0:
                # the same sprite under other names (palette entries, layers, tags, ...): loaded right after its original in a one-thread
                # pass of its own below (the driver keeps the previous sprite alive while the next one is loaded and observed)
                twin_pairs.append((len(items) - 1, len(items)))
                items.append((w.put(gen.encode(name_twin_of(s, rng), None, rng)), "generated, names changed"))
        # frames (not the last one) whose header declares more bytes than their chunks occupy: the size field is informational
        for extra in (1, 8, 16, 4096):
            f0 = ase.Frame(chunks=[ase.LayerChunk(name="p"), ase.CelChunk(layer=0, w=1, h=1, pixels=b"\1\2\3\4", ctype_cel=0)])
            real = len(f0.encode(None)) if hasattr(f0, "encode") else 0
            f0.nbytes_override = real + extra
            f1 = ase.Frame(duration=222, chunks=[ase.CelChunk(layer=0, w=1, h=1, pixels=b"\5\6\7\xff", ctype_cel=2)])
            items.append((w.put(ase.serialize(ase.Sprite(width=1, height=1, frames=[f0, f1, ase.Frame(duration=333)]))),
                          "frame 0 declares %d bytes more than its chunks occupy" % extra))
        for k in range(12 if tier == "quick" else 100):
            # two indexed sprites with the same colours at the same indices and different entry names
            cols = [(rng.randrange(256), rng.randrange(256), rng.randrange(256), 255) for _ in range(rng.randint(2, 9))]
            pair = []
            for tag in ("a", "b"):
                ents = [(c[0], c[1], c[2], c[3], (None if rng.random() < 0.4 else "%s%d-%d" % (tag, k, j))) for j, c in enumerate(cols)]
                fr = ase.Frame(chunks=[ase.PaletteChunk(first=0, entries=ents), ase.LayerChunk(name="l"),
                                       ase.CelChunk(layer=0, w=2, h=1, pixels=bytes([0, len(cols) - 1]), ctype_cel=0)])
                pair.append(len(items))
                items.append((w.put(ase.serialize(ase.Sprite(width=2, height=1, depth=8, transparent=0, frames=[fr]))), "palette pair %d%s: same colours, other names" % (k, tag)))
            twin_pairs.append((pair[0], pair[1]))
        for s, data in extreme_canvas_sprites(rng, 12 if tier == "quick" else 100):
            items.append((w.put(data), "tilemap sprite with canvas %dx%d" % (s["width"], s["height"])))
        for desc, data in many_layer_files(rng) + big_tileset_files(rng):
            items.append((w.put(data), desc))
        # a family of tiny sprites that differ in ONE thing only (the blend mode of the upper layer / its opacity / one pixel):
        # rendered one after the other on one thread they must not influence each other
        family = []
        for (bk, src) in (((200, 100, 50, 255), (255, 255, 255, 255)), ((10, 200, 90, 128), (90, 40, 250, 200))):
            for m in range(19):
                for lo in (255, 128):
                    fr = ase.Frame(chunks=[ase.LayerChunk(flags=1, blend=0, opacity=255, name="b"), ase.LayerChunk(flags=1, blend=m, opacity=lo, name="s"),
                                           ase.CelChunk(layer=0, w=2, h=1, pixels=ase.rgba_bytes([bk, bk]), ctype_cel=0),
                                           ase.CelChunk(layer=1, w=2, h=1, pixels=ase.rgba_bytes([src, src]), ctype_cel=0)])
                    family.append(("family: mode %d opacity %d" % (m, lo), ase.serialize(ase.Sprite(width=2, height=1, frames=[fr]))))
        fam_first = len(items)
        for desc, data in family:
            items.append((w.put(data), desc))
        stream = corruption_stream(rng, "quick", w, scale=0.08 if tier == "quick" else 0.5)
        pre = vplib.impl_observe("release", [p for p, _ in stream], w.dir, 0, mem_kb=2 * 1024 * 1024)
        loadable = [stream[i] for i in range(len(stream)) if outcome(pre[i]) == 0]
        rng.shuffle(loadable)
        items += [(p, "corrupted but loadable: " + d) for p, d in loadable[: (150 if tier == "quick" else 3000)]]
        items += [(p, "corpus") for p in small_corpus(3000 if tier == "quick" else 20000)]
        paths = [p for p, _ in items]
        cmd_tail = ["--level", "15", "--max-frames", "3", "--max-layers", "5"]
        thr = {prof: vplib.run_sharded([vplib.impl_driver(prof), "threads"] + cmd_tail, paths, w.dir, "thr_" + prof, shards=4, timeout=2400,
                                       mem_kb=4000000) for prof in ("release", "dev")}
        # results must not depend on what was loaded before on the same thread: every input observed (a) on a thread of its own,
        # (b) in list order and (c) in reverse order on one thread per shard (4 shards, so long sequences)
        iso = vplib.impl_observe("release", paths, w.dir, 15, max_frames=3, max_layers=5, fresh_threads=True, tag="iso")
        fwd = vplib.impl_observe("release", paths, w.dir, 15, max_frames=3, max_layers=5, shards=4, tag="fwd")
        rev_paths = list(reversed(paths))
        rev = list(reversed(vplib.impl_observe("release", rev_paths, w.dir, 15, max_frames=3, max_layers=5, shards=4, tag="rev")))
        fam = list(range(fam_first, fam_first + len(family)))
        fam1 = vplib.impl_observe("release", [paths[i] for i in fam], w.dir, 15, max_frames=3, max_layers=5, shards=1, tag="fam1")
        fam2 = list(reversed(vplib.impl_observe("release", [paths[i] for i in reversed(fam)], w.dir, 15, max_frames=3, max_layers=5, shards=1, tag="fam2")))
        for k, i in enumerate(fam):
            for nm, other in (("in list order", fam1), ("in reverse order", fam2)):
                if iso[i] is None or other[k] is None or iso[i][0] != other[k][0]:
                    direct_fail.append({"what": "the observation of a sprite depends on the sprites rendered before it on the same thread (%s vs isolated)" % nm,
                                        "input": items[i][1], "_data": open(paths[i], "rb").read()})
                    break
            if len(direct_fail) > 6:
                break
        # the host's logging configuration must not matter: the same inputs in a process WITHOUT a logger (the drivers otherwise
        # install one that accepts every level, so that the arguments of the crate's log lines are evaluated)
        nolog = vplib.impl_observe("release", paths, w.dir, 15, max_frames=3, max_layers=5, fresh_threads=True, tag="nolog", extra_env={"VERIF_NO_LOGGER": "1"})
        for i, (p, desc) in enumerate(items):
            if iso[i] is None or nolog[i] is None or iso[i][0] != nolog[i][0]:
                direct_fail.append({"what": "the result depends on whether the host process has logging switched on",
                                    "input": desc, "with_logger": iso[i][0][:2] if iso[i] else None, "without": nolog[i][0][:2] if nolog[i] else None,
                                    "_data": open(p, "rb").read()})
                break
        # originals and their name-only twins, pair after pair on one thread (a -> b -> a): both are alive when the second is observed
        tp_idx = [i for a_, b_ in twin_pairs for i in (a_, b_, a_)]
        tp = vplib.impl_observe("release", [paths[i] for i in tp_idx], w.dir, 15, max_frames=3, max_layers=5, shards=1, tag="twins")
        for i, b in zip(tp_idx, tp):
            if iso[i] is None or b is None or iso[i][0] != b[0]:
                direct_fail.append({"what": "the observation of a sprite depends on another sprite that is alive at the same time (its twin with other names, vs isolated)",
                                    "input": items[i][1], "_data": open(paths[i], "rb").read()})
                break
        for i, (p, desc) in enumerate(items):
            for nm, other in (("in list order", fwd), ("in reverse order", rev)):
                a, b = iso[i], other[i]
                if a is None or b is None or a[0] != b[0]:
                    direct_fail.append({"what": "the observation of an input depends on the inputs loaded before it on the same thread (%s vs isolated)" % nm,
                                        "input": desc, "isolated": a[0][:2] if a else None, "sequence": b[0][:2] if b else None,
                                        "_data": open(p, "rb").read()})
                    break
        # (the model needs minutes for 40 tiles of 96 x 96 pixels: that input is compared across repetitions / threads / builds only)
        with_model = [i for i, (_p, d) in enumerate(items) if "cold-start" not in d]
        with_model_set = set(with_model)
        mres = vplib.model_observe([paths[i] for i in with_model], w.dir, 15, max_frames=3, max_layers=5)
        mb: List[object] = [None] * len(items)
        for i, r in zip(with_model, mres):
            mb[i] = r
        for i, (p, desc) in enumerate(items):
            br, bd = thr["release"][i], thr["dev"][i]
            if 1 <= outcome(br) <= 4 and outcome(br) == outcome(bd):
                # an input that is refused with an error value (e.g. the corpus file with an ICC profile): refused alike in both
                # builds, and by the model; nothing else to observe
                if i in with_model_set and not (1 <= outcome(mb[i]) <= 4):
                    corr_fail.append({"input": p, "desc": desc, "diff": "implementation refuses the input, model outcome %d" % outcome(mb[i])})
                continue
            for prof, b in (("release", br), ("dev", bd)):
                if outcome(b) != 0 or any(l[0] == 99 for l in b[0]):
                    direct_fail.append({"what": "load or concurrent observation failed", "profile": prof, "input": desc, "comments": b[1][:3] if b else None,
                                        "_data": open(p, "rb").read()})
                    continue
                l52 = next((l for l in b[0] if l[0] == 52), None)
                if l52 is None or l52[1] != 1:
                    direct_fail.append({"what": "results depend on the order of earlier calls (a fresh load observed after a reversed rendering pre-pass differs)",
                                        "profile": prof, "input": desc, "_data": open(p, "rb").read()})
                l50 = next((l for l in b[0] if l[0] == 50), None)
                if l50 is None or l50[1:4] != [1, 1, 1]:
                    direct_fail.append({"what": "observations differ between repetitions / reloads / threads (repeat_ok, reload_ok, threads_ok) = %s" % (l50[1:4] if l50 else None),
                                        "profile": prof, "input": desc, "_data": open(p, "rb").read()})
            hr = next((l for l in br[0] if l[0] == 51), None) if br else None
            hd = next((l for l in bd[0] if l[0] == 51), None) if bd else None
            if hr != hd:
                direct_fail.append({"what": "optimised and unoptimised builds observe different results", "input": desc, "_data": open(p, "rb").read()})
            if i not in with_model_set:
                continue
            if hr is not None and outcome(mb[i]) == 0:
                text = "".join(" ".join(map(str, l)) + "\n" for l in mb[i][0][1:])
                if list(fnv_halves(text)) != hr[1:3]:
                    corr_fail.append({"input": p, "desc": desc, "diff": "observation hash differs from the model's", "_data": open(p, "rb").read()})
            elif outcome(mb[i]) != 0:
                corr_fail.append({"input": p, "desc": desc, "diff": "model outcome %d" % outcome(mb[i]), "_data": open(p, "rb").read()})
        proof_level_coverage(v, ob, {
            "evaluations": 2 * len(items), "distinct_nontrivial": len(items),
            "rule": "loadable inputs (generated sprites, loadable members of the corruption stream, small corpus files): the whole-API observation is taken 3 times, "
                    "after a second load of the same bytes, and from 16 threads sharing one reference with rotated section orders, in release and dev builds; all "
                    "must be equal, equal across the two builds, and equal to the model's observation (hash); the Send + Sync assertion binary must compile",
            "samples": [d for _, d in items[:2] + items[-2:]], "sendsync_compiles": ok,
            "correspondence_disagreements": len(corr_fail), "direct_failures": len(direct_fail)})
        v.assumptions = ["Send/Sync is decided by rustc; data-race freedom follows from that plus the absence of unsafe/interior mutability, which the run observes but does not prove",
                         "hash-map backed views are compared as sorted collections (the documentation promises no order)"]
        return finish_with(v, ob, corr_fail, direct_fail)
    finally:
        w.cleanup()



# ==========================================================================
# C12  memory used while loading is bounded by the bytes supplied
# ==========================================================================
def alloc_params(data: bytes) -> dict:
    """the parameters of Model/Cost.v alloc_upper, measured on the input with the walker"""
    import zlib
    nframes = int.from_bytes(data[6:8], "little") if len(data) >= 8 else 0
    layers = entities = payloads = zbytes = inflated = 0
    for (_fi, _ci, s, e, t) in ase.chunk_spans(data):
        plen = max(0, min(e, len(data)) - s - 6)
        entities += 1 + plen // 6
        if t == ase.CT_LAYER:
            layers += 1
        if t in (ase.CT_CEL, ase.CT_TILESET):
            payloads += 1
            zbytes += plen
            # inflate every zlib stream that starts inside the payload (the decoder tries exactly one of them)
            body = data[s + 6:min(e, len(data))]
            best = 0
            for off in range(0, min(len(body), 64)):
                if body[off:off + 1] == b"\x78":
                    try:
                        d = zlib.decompressobj()
                        out = d.decompress(body[off:], 1 << 28)
                        best = max(best, len(out))
                        if best > 4096:
                            break
                    except Exception:
                        pass
            inflated += best
    return {"nframes": nframes, "consumed": len(data), "inflated": inflated, "entities": entities, "layers": layers,
            "zbytes": zbytes, "payloads": payloads}


def alloc_upper(p: dict) -> int:
    return 16 * 2 ** 20 + 512 * p["nframes"] + 4 * p["consumed"] + 6 * p["inflated"] + 256 * p["entities"] + p["nframes"] * p["layers"]


def c12_inputs(rng: random.Random, tier: str) -> List[Tuple[str, bytes]]:
    out: List[Tuple[str, bytes]] = []
    bases = [("gen%d" % i, d) for i, (s, d) in enumerate(small_sprites(rng, 6 if tier == "quick" else 40, max_canvas=6, max_layers=4, max_frames=3))]
    cf = small_corpus(6000 if tier == "quick" else 60000)
    bases += [(os.path.basename(p), open(p, "rb").read()) for p in (cf[:4] if tier == "quick" else cf)]
    # every declared size / count / dimension / length field inflated to each larger boundary value, one at a time
    for name, data in bases:
        for f in ase.mutable_fields(data):
            if f.kind not in ("size", "count", "dim", "length", "index"):
                continue
            cur = ase.get_field(data, f)
            top = (1 << (8 * f.width)) - 1
            for vv in sorted({cur * 2 + 1, 255, 65535, 1 << 24, (1 << 31) - 1, top - 1, top}):
                if vv > cur and vv <= top:
                    out.append(("%s:%s@%d:%d->%d" % (name, f.name, f.offset, cur, vv), ase.set_field(data, f, vv)))
    # 8000 layers that all declare child level 65000 behind one group (legal for the loader: some earlier layer has a lower level)
    out.append(("8000 layers at child level 65000", ase.serialize(ase.Sprite(width=1, height=1, frames=[ase.Frame(chunks=[
        ase.LayerChunk(ltype=1, level=0, name="")] + [ase.LayerChunk(level=65000, name="") for _ in range(8000)])]))))
    # a tag whose frame range and repeat count are both large but well inside their ranges (a playback list would have 30 million entries)
    out.append(("tag 0..29999 repeated 1000 times", ase.serialize(ase.Sprite(width=1, height=1, frames=[ase.Frame(chunks=[
        ase.TagsChunk(tags=[ase.Tag(name="t", from_=0, to=29999, repeat=1000), ase.Tag(name="u", from_=5, to=65534, repeat=65535, direction=2)])])]))))
    # a tileset that only links to an external file - which the file does list - and declares 8192 tiles of 64 x 64 (nothing backs them)
    out.append(("link-only tileset, listed external file, 8192 tiles of 64x64", ase.serialize(ase.Sprite(width=4, height=4, frames=[ase.Frame(chunks=[
        ase.ExternalFilesChunk(entries=[(1, "tiles.aseprite")]), ase.TilesetChunk(id=0, flags=1, ext=(1, 0), tile_count=8192, tile_w=64, tile_h=64, pixels=b""),
        ase.LayerChunk(ltype=2, tileset=0)])]))))
    # deflate bombs
    def bomb_cel(w, h, depth):
        bpp = {32: 4, 16: 2, 8: 1}[depth]
        ch = [ase.LayerChunk()]
        if depth == 8:
            ch.insert(0, ase.PaletteChunk(entries=[(0, 0, 0, 255)]))
        ch.append(ase.CelChunk(layer=0, w=w, h=h, pixels=b"\0" * (w * h * bpp), ctype_cel=2, zlevel=9))
        return ase.serialize(ase.Sprite(width=4, height=4, depth=depth, frames=[ase.Frame(chunks=ch)]))
    big = (2048, 2048) if tier == "quick" else (8192, 4096)
    out.append(("bomb cel rgba %dx%d" % big, bomb_cel(big[0], big[1], 32)))
    out.append(("bomb cel gray", bomb_cel(2048, 2048, 16)))
    out.append(("bomb cel indexed", bomb_cel(4096, 2048, 8)))
    out.append(("bomb cel declared larger than inflated", ase.serialize(ase.Sprite(width=4, height=4, frames=[ase.Frame(chunks=[
        ase.LayerChunk(), ase.CelChunk(layer=0, w=65535, h=65535, zraw=ase.deflate(b"\0" * (1 << 24), 9), ctype_cel=2)])]))))
    out.append(("bomb tileset", ase.serialize(ase.Sprite(width=4, height=4, frames=[ase.Frame(chunks=[
        ase.TilesetChunk(id=0, tile_count=1024, tile_w=32, tile_h=32, pixels=b"\0" * (1024 * 32 * 32 * 4), zlevel=9)])]))))
    # bombs large enough for the per-byte term to dominate the 64 MiB constant (64 MiB inflated from ~65 KB)
    zeros64 = ase.deflate(b"\0" * (4097 * 4096 * 4), 9)
    out.append(("bomb tilemap 4097x4096 tiles", ase.serialize(ase.Sprite(width=4, height=4, frames=[ase.Frame(chunks=[
        ase.TilesetChunk(id=0, tile_count=1, tile_w=1, tile_h=1, pixels=b"\0" * 4), ase.LayerChunk(ltype=2, tileset=0),
        ase.CelChunk(layer=0, ctype_cel=3, w=4097, h=4096, zraw=zeros64)])]))))
    out.append(("bomb cel rgba 4097x4096", ase.serialize(ase.Sprite(width=4, height=4, frames=[ase.Frame(chunks=[
        ase.LayerChunk(), ase.CelChunk(layer=0, ctype_cel=2, w=4097, h=4096, zraw=zeros64)])]))))
    out.append(("bomb tileset 4097 tiles of 64x64", ase.serialize(ase.Sprite(width=4, height=4, frames=[ase.Frame(chunks=[
        ase.TilesetChunk(id=0, tile_count=4097, tile_w=64, tile_h=64, zraw=zeros64)])]))))
    # millions of 1 x 1 / 2 x 2 tiles in an indexed and a grayscale tileset (anything kept per tile shows up)
    for depth, (tw, th), ntiles in ((8, (1, 1), 1 << 23), (16, (1, 1), 1 << 22), (8, (2, 2), 1 << 21)) if tier != "quick" else ((8, (1, 1), 1 << 23), (16, (1, 1), 1 << 22)):
        bpp = {8: 1, 16: 2}[depth]
        z = ase.deflate(b"\0" * (ntiles * tw * th * bpp), 9)
        ch = ([ase.PaletteChunk(entries=[(0, 0, 0, 255)])] if depth == 8 else []) + [ase.TilesetChunk(id=0, tile_count=ntiles, tile_w=tw, tile_h=th, zraw=z)]
        out.append(("tileset of %d tiles of %dx%d, depth %d" % (ntiles, tw, th, depth),
                    ase.serialize(ase.Sprite(width=4, height=4, depth=depth, frames=[ase.Frame(chunks=ch)]))))
    # two declared fields inflated together (frame size + chunk count, chunk size + frame size, width + height, count + size)
    for name, data in bases:
        fs = [f for f in ase.mutable_fields(data) if f.kind in ("size", "count", "dim", "length")]
        # systematically: every pair of such fields of ONE chunk (tile count + compressed length, width + height, count + name length, ...)
        groups: Dict[str, list] = {}
        for f in [f for f in ase.mutable_fields(data) if f.kind in ("size", "count", "dim", "length", "index")]:
            groups.setdefault(f.name.rsplit(".", 1)[0], []).append(f)
        for g, gf in groups.items():
            for ia in range(len(gf)):
                for ib_ in range(ia + 1, len(gf)):
                    for va, vb in ((None, None), (1 << 24, None), (None, 1 << 24)):
                        mut = data
                        desc = []
                        for f, vv in ((gf[ia], va), (gf[ib_], vb)):
                            top = (1 << (8 * f.width)) - 1
                            vv = min(top, vv) if vv is not None else top
                            mut = ase.set_field(mut, f, vv)
                            desc.append("%s@%d->%d" % (f.name, f.offset, vv))
                        out.append(("%s:chunk pair %s" % (name, " + ".join(desc)), mut))
        for _ in range(25 if tier == "quick" else 200):
            if len(fs) < 2:
                break
            a, b = rng.sample(fs, 2)
            mut = data
            desc = []
            for f in (a, b):
                top = (1 << (8 * f.width)) - 1
                vv = rng.choice([top, top - 1, (top + 1) // 2, 1 << 24 if f.width == 4 else top])
                mut = ase.set_field(mut, f, vv)
                desc.append("%s@%d->%d" % (f.name, f.offset, vv))
            out.append(("%s:pair %s" % (name, " + ".join(desc)), mut))
        # every frame header: byte size and chunk count inflated together
        hdr = [f for f in ase.walk(data) if f.name.startswith("frame") and (f.name.endswith(".nbytes") or f.name.endswith(".nchunks_new"))]
        for vsize in (2 ** 32 - 1, 2 ** 31, 2 ** 30):
            for vcount in (2 ** 32 - 1, 2 ** 28, 65535):
                mut = data
                for f in hdr:
                    if f.name.endswith("nbytes"):
                        mut = ase.set_field(mut, f, vsize)
                    elif f.name.endswith("nchunks_new"):
                        mut = ase.set_field(mut, f, vcount)
                out.append(("%s:frame sizes %d + chunk counts %d" % (name, vsize, vcount), mut))
    out.append(("bomb tilemap", ase.serialize(ase.Sprite(width=4, height=4, frames=[ase.Frame(chunks=[
        ase.TilesetChunk(id=0, tile_count=1, tile_w=1, tile_h=1, pixels=b"\0" * 4), ase.LayerChunk(ltype=2, tileset=0),
        ase.CelChunk(layer=0, ctype_cel=3, w=2048, h=512, tiles=[0] * (2048 * 512), zlevel=9)])]))))
    # tables driven by counts: many frames, many layers, frames x layers with one cel per frame on the top layer (D18)
    out.append(("65535 empty frames", ase.serialize(ase.Sprite(width=1, height=1, frames=[ase.Frame() for _ in range(65535)]))))
    out.append(("20000 layers", ase.serialize(ase.Sprite(width=1, height=1, frames=[ase.Frame(chunks=[ase.LayerChunk(name="") for _ in range(20000)])]))))
    for F, L in ((1500, 3000), (4000, 8000)) if tier == "quick" else ((1500, 3000), (4000, 8000), (20000, 20000)):
        frames = [ase.Frame(chunks=([ase.LayerChunk(name="") for _ in range(L)] if f == 0 else [])
                            + [ase.CelChunk(layer=L - 1, w=1, h=1, pixels=b"\1\2\3\4", ctype_cel=0)]) for f in range(F)]
        out.append(("%d frames x %d layers, one cel per frame on the top layer" % (F, L), ase.serialize(ase.Sprite(width=1, height=1, frames=frames))))
    out.append(("65535 tags", ase.serialize(ase.Sprite(width=1, height=1, frames=[ase.Frame(chunks=[ase.TagsChunk(tags=[ase.Tag() for _ in range(65535)])])]))))
    out.append(("slice with 50000 keys", ase.serialize(ase.Sprite(width=1, height=1, frames=[ase.Frame(chunks=[
        ase.SliceChunk(name="s", keys=[ase.SliceKey() for _ in range(50000)])])]))))
    out.append(("palette 0..65535", ase.serialize(ase.Sprite(width=1, height=1, frames=[ase.Frame(chunks=[
        ase.PaletteChunk(first=0, entries=[(1, 2, 3, 255)] * 65536)])]))))
    out.append(("30000 external files", ase.serialize(ase.Sprite(width=1, height=1, frames=[ase.Frame(chunks=[
        ase.ExternalFilesChunk(entries=[(i, "") for i in range(30000)])])]))))
    # palette entries at huge 32-bit indices in an indexed sprite that has pixels (anything sized by the largest index shows up)
    for first in (0x0FFFFFFF, 0x7FFFFFFF, 0xFFFFFFFE, 1 << 24, 65536):
        for cel in (True, False):
            ch = [ase.PaletteChunk(first=0, entries=[(1, 2, 3, 255)] * 2), ase.LayerChunk()]
            ch.insert(1, ase.PaletteChunk(first=first, entries=[(9, 9, 9, 255)]))
            pal_only_last = [ase.PaletteChunk(first=first, entries=[(9, 9, 9, 255)] * 2), ase.LayerChunk()]
            for nm, chunks in (("two chunks", ch), ("one chunk", pal_only_last)):
                chunks = list(chunks)
                if cel:
                    chunks.append(ase.CelChunk(layer=0, w=2, h=2, pixels=bytes([0, 1, 0, 1]), ctype_cel=0))
                out.append(("indexed sprite, palette entry at index %d (%s, %s)" % (first, nm, "with a cel" if cel else "no cel"),
                            ase.serialize(ase.Sprite(width=2, height=2, depth=8, frames=[ase.Frame(chunks=chunks)]))))
    # constructs the loader refuses or skips, with their own declared lengths inflated: an ICC profile, user-data properties, an
    # external tileset, unknown trailing data in known chunks
    for ln in (0, 16, 1 << 20, 1 << 28, 2 ** 32 - 1):
        icc = ase.RawChunk(ase.CT_COLOR_PROFILE, ase.u16(2) + ase.u16(0) + ase.u32(0) + b"\0" * 8 + ase.u32(ln) + b"\1" * 16)
        out.append(("ICC colour profile declaring %d bytes" % ln, ase.serialize(ase.Sprite(width=1, height=1, frames=[ase.Frame(chunks=[icc, ase.LayerChunk()])]))))
        props = ase.RawChunk(ase.CT_USER_DATA, ase.u32(1 | 4) + ase.ase_string("x") + ase.u32(ln) + ase.u32(ln) + ase.u32(0) + ase.u32(ln))
        out.append(("user-data properties block declaring %d" % ln, ase.serialize(ase.Sprite(width=1, height=1, frames=[ase.Frame(chunks=[ase.LayerChunk(), props])]))))
        ext = ase.RawChunk(ase.CT_TILESET, ase.u32(0) + ase.u32(1) + ase.u32(ln) + ase.u16(16) + ase.u16(16) + ase.u16(1) + b"\0" * 14
                           + ase.ase_string("t") + ase.u32(ln) + ase.u32(ln))
        out.append(("external tileset declaring %d tiles" % ln, ase.serialize(ase.Sprite(width=1, height=1, frames=[ase.Frame(chunks=[ext])]))))
    # one large, highly compressible cel and many frames linking to it (anything materialised per link shows up)
    for (cw, chh, nlink) in ((2048, 2048, 40), (1024, 1024, 400)) if tier == "quick" else ((2048, 2048, 40), (1024, 1024, 400), (4096, 2048, 300)):
        z = ase.deflate(b"\x11" * (cw * chh * 4), 9)
        frames = [ase.Frame(chunks=[ase.LayerChunk(), ase.CelChunk(layer=0, ctype_cel=2, w=cw, h=chh, zraw=z)])]
        frames += [ase.Frame(chunks=[ase.CelChunk(layer=0, ctype_cel=1, linked=0)]) for _ in range(nlink)]
        out.append(("%dx%d single-colour cel with %d linked frames" % (cw, chh, nlink), ase.serialize(ase.Sprite(width=4, height=4, frames=frames))))
    # the same with a tilemap cel
    z = ase.deflate(b"\0" * (2048 * 1024 * 4), 9)
    frames = [ase.Frame(chunks=[ase.TilesetChunk(id=0, tile_count=1, tile_w=1, tile_h=1, pixels=b"\0" * 4), ase.LayerChunk(ltype=2, tileset=0),
                                ase.CelChunk(layer=0, ctype_cel=3, w=2048, h=1024, zraw=z)])]
    frames += [ase.Frame(chunks=[ase.CelChunk(layer=0, ctype_cel=1, linked=0)]) for _ in range(60)]
    out.append(("2048x1024 tilemap cel with 60 linked frames", ase.serialize(ase.Sprite(width=4, height=4, frames=frames))))
    for name, data in special_files(rng):
        out.append(("special:" + name, data))
    return out


def check_C12(tier: str, seed: int) -> int:
    v = Verdict("C12", tier, seed, "proof")
    ob = vplib.check_obligations("C12", expected=["C12_buffered_le_input", "C12_buffered_consumed", "C12_unzip_exact", "C12_unzip_bounded", "C12_take_bytes_bounded", "C12_bound_partial", "C12_consumed_framing", "C12_frames_size_chunks", "C12_bound_framing", "C12_bound_loaded", "C12_layer_chunks_long"])
    vplib.build_harness(["release"])
    w = Work("C12")
    try:
        rng = random.Random(seed)
        t0 = time.time()
        inputs = c12_inputs(rng, tier)
        paths = [w.put(d) for _, d in inputs]
        log("C12: %d inputs generated in %.1fs" % (len(inputs), time.time() - t0)); t0 = time.time()
        res = vplib.run_sharded([vplib.impl_driver("release"), "alloc"], paths, w.dir, "alloc", shards=8, timeout=2400, mem_kb=12 * 1024 * 1024)
        log("C12: implementation measured in %.1fs" % (time.time() - t0)); t0 = time.time()
        small = [i for i, (_, d) in enumerate(inputs) if len(d) <= 20000]
        mres = vplib.model_observe([paths[i] for i in small], w.dir, 0)
        log("C12: model ran on %d inputs in %.1fs" % (len(small), time.time() - t0)); t0 = time.time()
        mb = {i: mres[j] for j, i in enumerate(small)}
        corr_fail, direct_fail = [], []
        worst = (0.0, None)
        classes = Counter()
        ratio_broken = 0
        for i, (desc, data) in enumerate(inputs):
            b = res[i]
            classes[desc.split(":")[0] if desc.startswith("special") else ("field" if "@" in desc else "shape")] += 1
            l40 = next((l for l in b[0] if l[0] == 40), None) if b else None
            io = outcome(b)
            if io == 9 or l40 is None:
                direct_fail.append({"what": "load aborted / was killed (allocation failure or memory limit)", "input": desc,
                                    "comments": b[1][:3] if b else None, "_data": data if len(data) < 5000000 else None})
                continue
            n, peak, largest = l40[1], l40[2], l40[3]
            limit = 64 * 2 ** 20 + 8192 * n
            par = alloc_params(data)
            up = alloc_upper(par)
            worst = max(worst, (peak / limit, desc))
            # the one hypothesis C12_bound_loaded keeps (the recorded zlib ratio), and its conclusion, on this input
            if par["inflated"] > 1032 * par["zbytes"] + 64 * par["payloads"]:
                ratio_broken += 1
            elif io == 0 and up > limit:
                corr_fail.append({"input": paths[i], "desc": desc, "diff": "alloc_upper %d exceeds the bound %d on an input that loads (C12_bound_loaded says it cannot; "
                                                                          "parameters %s)" % (up, limit, par)})
            # the same input through AsepriteFile::read_file (the path-based entry point): same outcome, same bound
            l41 = next((l for l in b[0] if l[0] == 41), None)
            if l41 is None or l41[1] == 9:
                direct_fail.append({"what": "read_file aborted / panicked", "input": desc, "comments": b[1][:3], "_data": data if len(data) < 5000000 else None})
            elif outcome_class(l41[1]) != outcome_class(io):
                direct_fail.append({"what": "read_file and read(&bytes) disagree: outcome %d vs %d" % (l41[1], io), "input": desc,
                                    "_data": data if len(data) < 5000000 else None})
            elif l41[3] > limit or l41[4] > limit:
                direct_fail.append({"what": "read_file: live heap %d B (largest request %d B) exceeds 64 MiB + 8192 B per input byte = %d B" % (l41[3], l41[4], limit),
                                    "input": desc, "input_len": n, "_data": data if len(data) < 5000000 else None})
            if peak > limit or largest > limit:
                direct_fail.append({"what": "live heap %d B (largest request %d B) exceeds 64 MiB + 8192 B per input byte = %d B" % (peak, largest, limit),
                                    "input": desc, "input_len": n, "_data": data if len(data) < 5000000 else None})
            elif peak > up:
                corr_fail.append({"input": paths[i], "desc": desc, "diff": "measured peak %d B exceeds the cost model's alloc_upper %d B (parameters %s)" % (peak, up, par),
                                  "_data": data if len(data) < 5000000 else None})
            if i in mb and outcome_class(outcome(mb[i])) != outcome_class(io):
                corr_fail.append({"input": paths[i], "desc": desc, "diff": "outcome impl %d / model %d" % (io, outcome(mb[i]))})
        proof_level_coverage(v, ob, {
            "evaluations": len(inputs), "distinct_nontrivial": len({hashlib.sha1(d).hexdigest() for _, d in inputs}),
            "rule": "every declared size / count / dimension / length / index field of the base files inflated to each larger boundary value up to the type maximum, "
                    "one at a time; deflate bombs (zeros at level 9) in a cel of each pixel format, a tileset and a tilemap, and a payload declared larger than it "
                    "inflates; count-driven tables (65535 frames, 20000 layers, frames x layers with a cel on the top layer of every frame, 65535 tags, 50000 slice "
                    "keys, 65536 palette entries, 30000 external files); the hostile shapes of C04; peak live bytes and largest request measured by a counting global "
                    "allocator around AsepriteFile::read against 64 MiB + 8192 B/byte and against alloc_upper of Model/Cost.v",
            "samples": [d for d, _ in inputs[:2] + inputs[-3:]], "classes": dict(classes),
            "worst_peak_over_limit": round(worst[0], 4), "worst_input": worst[1], "inputs_beyond_the_recorded_zlib_ratio": ratio_broken,
            "correspondence_disagreements": len(corr_fail), "direct_failures": len(direct_fail)})
        v.assumptions = ["the allocator, Vec/HashMap/BTreeMap growth and struct layout are modelled by the cost function alloc_upper, validated by this measurement, not derived from the code",
                         "inflate expands by at most 1032:1 (+64 bytes per payload)"]
        return finish_with(v, ob, corr_fail, direct_fail)
    finally:
        w.cleanup()


CHECKS: Dict[str, Callable[[str, int], int]] = {"C01": check_C01, "C02": check_C02, "C03": check_C03, "C17": check_C17, "C04": check_C04, "C05": check_C05, "C06": check_C06,
                                                "C07": check_C07, "C08": check_C08, "C09": check_C09, "C10": check_C10, "C11": check_C11, "C12": check_C12, "C15": check_C15, "C16": check_C16, "C13": check_C13, "C18": check_C18, "C14": check_C14, "C19": check_C19}




def replay(prop: str, path: str) -> int:
    """re-run one recorded violation: print the record; when it carries an input file, load it with the
    implementation (dev build) and with the model and show both observations' first difference"""
    rec = json.load(open(path))
    print(json.dumps({k: v for k, v in rec.items() if k != "input_file"}, indent=1)[:4000])
    inp = rec.get("input_file")
    if not inp or not os.path.exists(inp):
        print("replay: no input file recorded (theorem / correspondence level finding)")
        return 1
    vplib.build_harness(["dev"])
    vplib.build_model()
    w = Work("replay")
    try:
        ib = vplib.impl_observe("dev", [inp], w.dir, 31, max_frames=4, max_layers=6)
        mb = vplib.model_observe([inp], w.dir, 15, max_frames=4, max_layers=6)
        print("implementation outcome:", outcome(ib[0]), ib[0][1][:3] if ib[0] else None, "section panic:", vplib.section_panic(ib[0]))
        print("model outcome:", outcome(mb[0]), "section panic:", vplib.section_panic(mb[0]))
        d = same_block(ib[0], mb[0])
        print("model vs implementation:", d if d else "identical observations")
        return 1 if (d or outcome(ib[0]) == 9 or vplib.section_panic(ib[0]) is not None) else 0
    finally:
        w.cleanup()


def main(argv: List[str]) -> int:
    if len(argv) < 2 or argv[1] not in CHECKS:
        print("usage: check <%s> [--tier quick|thorough]" % "|".join(sorted(CHECKS)), file=sys.stderr)
        return 2
    if "--replay" in argv:
        return replay(argv[1], argv[argv.index("--replay") + 1])
    tier = os.environ.get("VERIF_TIER", "quick")
    if "--tier" in argv:
        tier = argv[argv.index("--tier") + 1]
    seed = int(os.environ.get("VERIF_SEED", "20260926"))
    try:
        return CHECKS[argv[1]](tier, seed)
    except vplib.BuildError as e:
        # the tree does not build: nothing can be decided; report as a broken obligation
        v = Verdict(argv[1], tier, seed, "proof")
        v.coverage = {"evaluations": 1, "distinct_nontrivial": 2, "explanation": "build failed", "error": str(e)[-2000:]}
        v.violation("build", {"what": "build failed", "error": str(e)[-4000:]}, no_input=True)
        return v.finish()
