#!/usr/bin/env python3
"""Development aid (never part of a registered command): confirm the seeded changes that sub-agents left in
/tmp/m2_<Cxx>/out and run the quick checks against each, in parallel, on scratch worktrees of /repo (so /repo itself is
never modified).  For each patchK.diff:
 (1) in the agent's worktree: demo passes without the patch, the unedited suite passes with it, the demo fails with it;
 (2) in a worker worktree (/tmp/sw_<n>, own cargo target dir): apply the patch, run ./check <ids> --tier quick with
     VERIF_REPO / VERIF_CARGO_TARGET / VERIF_OUT pointing at the scratch copies, restore the worktree;
 (3) store patch, demo, note and meta.json under /verif/seeded/<id>_<k>/.
usage: seed_round.py [--workers N] [--only C03_3,...] [--recheck] C02 [C04 ...]"""
import json, os, shutil, subprocess, sys, time, threading, queue

EXTRA = {
    "C02": ["C19", "C06"], "C06": ["C02"], "C04": ["C05"], "C05": ["C04"], "C09": ["C02"], "C19": ["C06"], "C08": ["C05"],
    "C17": ["C03"], "C03": ["C17"], "C01": ["C07"], "C07": ["C01"], "C10": ["C01"], "C11": ["C01"], "C13": ["C14"], "C14": ["C13"],
    "C15": ["C04"], "C16": ["C05"], "C12": ["C04"], "C18": [],
}
PREFIX = "/tmp/m2_"
OFFSET = 2        # round 2: variants 3, 4, 5


def sh(cmd, cwd=None, timeout=3000, env=None):
    e = dict(os.environ)
    if env:
        e.update(env)
    r = subprocess.run(cmd, shell=True, cwd=cwd, stdout=subprocess.PIPE, stderr=subprocess.STDOUT, text=True, timeout=timeout, env=e)
    return r.returncode, r.stdout


def validate(pid, k):
    """phase 1, in the agent's own worktree"""
    wt = PREFIX + pid
    patch, demo = "%s/out/patch%d.diff" % (wt, k), "%s/out/demo%d.rs" % (wt, k)
    meta = {"property": pid, "variant": k + OFFSET, "round": {2: 2, 5: 3, 7: 4, 9: 5, 11: 6}.get(OFFSET, 0), "ran": []}
    env = "CARGO_TARGET_DIR=%s/target CARGO_NET_OFFLINE=true" % wt
    feat = " --features utils" if pid == "C18" else ""
    sh("git checkout -- . ; rm -f tests/seeddemo.rs", cwd=wt)
    if os.path.exists(demo):
        shutil.copy(demo, "%s/tests/seeddemo.rs" % wt)
        _, out0 = sh("%s cargo test --offline%s --test seeddemo 2>&1 | tail -5" % (env, feat), cwd=wt)
        meta["demo_without_patch"] = "pass" if "test result: ok" in out0 else "FAIL"
        os.remove("%s/tests/seeddemo.rs" % wt)
    rc, out = sh("git apply %s" % patch, cwd=wt)
    if rc != 0:
        meta["error"] = "patch does not apply in the worktree: " + out[-300:]
    else:
        _, out1 = sh("(%s cargo test --offline --lib 2>&1; %s cargo test --offline --doc 2>&1) | grep 'test result'" % (env, env), cwd=wt)
        meta["suite_with_patch"] = "pass" if out1.count("test result: ok") >= 2 and "FAILED" not in out1 else "FAIL: " + out1[-300:]
        if os.path.exists(demo):
            shutil.copy(demo, "%s/tests/seeddemo.rs" % wt)
            _, out2 = sh("%s cargo test --offline%s --test seeddemo 2>&1 | tail -12" % (env, feat), cwd=wt)
            bad = ("FAILED" in out2 or "panicked" in out2 or "error" in out2.lower() or "SIG" in out2 or "overflowed" in out2)
            meta["demo_with_patch"] = "fail" if bad and "test result: ok" not in out2.split("failures:")[-1] else "PASS(unexpected)"
    sh("git checkout -- . ; rm -f tests/seeddemo.rs", cwd=wt)
    return meta


def run_checks(worker, pid, k, meta, patch=None):
    """phase 2, in the worker's scratch worktree"""
    wt = "/tmp/sw_%d" % worker
    patch = patch or "%s%s/out/patch%d.diff" % (PREFIX, pid, k)
    env = {"VERIF_REPO": wt, "VERIF_CARGO_TARGET": "/tmp/sw_%d_target" % worker, "VERIF_OUT": "/tmp/sw_%d_out" % worker}
    sh("git checkout -- . && git clean -fdq -e Cargo.lock && cp -n /repo/Cargo.lock .", cwd=wt)
    rc, out = sh("git apply %s" % patch, cwd=wt)
    if rc != 0:
        meta["error"] = "patch does not apply to the worker worktree: " + out[-300:]
        return
    try:
        for cid in [pid] + EXTRA.get(pid, []):
            t0 = time.time()
            rc, out = sh("cd /verif && ./check %s --tier quick 2>/dev/null | grep -E '^(VIOLATION|KNOWN-FINDING)' | head -3" % cid, env=env, timeout=3600)
            det = "VIOLATION" in out
            rec = {"check": cid, "detected": det, "line": out.strip()[:400], "wall_s": round(time.time() - t0, 1)}
            if det:
                rp = out.split("replay=")[1].split()[0]
                rec["no_failing_input"] = "no-failing-input-found" in out.split("\n")[0]
                try:
                    rj = json.load(open(rp))
                    rec["replay_what"] = str(rj.get("what") or rj.get("note"))[:300]
                    if rj.get("broken_obligations"):
                        rec["broken_obligations"] = [str(x)[:200] for x in rj["broken_obligations"][:3]]
                except Exception:
                    pass
            meta["ran"].append(rec)
    finally:
        sh("git checkout -- . && git clean -fdq -e Cargo.lock && cp -n /repo/Cargo.lock .", cwd=wt)


def main():
    args = sys.argv[1:]
    workers, only, recheck, from_seeded, wbase = 4, None, False, False, 0
    while args and args[0].startswith("--"):
        if args[0] == "--workers":
            workers = int(args[1]); args = args[2:]
        elif args[0] == "--worker-base":
            # first scratch worktree index (two runs of this script can then work side by side)
            wbase = int(args[1]); args = args[2:]
        elif args[0] == "--only":
            only = set(args[1].split(",")); args = args[2:]
        elif args[0] == "--round":
            # round 2: /tmp/m2_<Cxx>, variants 3-5; round 3: /tmp/m3_<Cxx>, variants 6-7; round 4: /tmp/m4_<Cxx>, variants 8-9
            global PREFIX, OFFSET
            PREFIX, OFFSET = {"2": ("/tmp/m2_", 2), "3": ("/tmp/m3_", 5), "4": ("/tmp/m4_", 7), "5": ("/tmp/m5_", 9), "6": ("/tmp/m6_", 11)}[args[1]]; args = args[2:]
        elif args[0] == "--recheck":
            recheck = True; args = args[1:]
        elif args[0] == "--all-seeded":
            # regression over everything kept under /verif/seeded (both rounds): phase 2 only, meta.json "ran" rewritten
            from_seeded = True; recheck = True; args = args[1:]
    jobs = []
    seeded_jobs = []
    if from_seeded:
        import glob
        for d in sorted(glob.glob("/verif/seeded/C*_*")):
            name = os.path.basename(d)
            if only and name not in only:
                continue
            if args and name.split("_")[0] not in args:
                continue
            seeded_jobs.append(name)
        args = []
    for pid in args:
        for k in (1, 2, 3):
            if os.path.exists("%s%s/out/patch%d.diff" % (PREFIX, pid, k)):
                name = "%s_%d" % (pid, k + OFFSET)
                if only and name not in only:
                    continue
                jobs.append((pid, k))
    for w in range(wbase, wbase + workers):
        if not os.path.exists("/tmp/sw_%d" % w):
            sh("git -C /repo worktree add --detach /tmp/sw_%d HEAD -q" % w)
        os.makedirs("/tmp/sw_%d_out" % w, exist_ok=True)
    for name in seeded_jobs:
        jobs.append((name, None))
    q = queue.Queue()          # one queue item per (property, variant); a per-property lock serialises the agent worktree
    plocks = {pid: threading.Lock() for pid, _ in jobs}
    # interleave properties so that concurrent workers rarely wait for the same worktree
    if not from_seeded:
        jobs.sort(key=lambda j: (j[1], j[0]))
    for j in jobs:
        q.put(j)
    lock = threading.Lock()

    def work(w):
        env = {"VERIF_REPO": "/tmp/sw_%d" % w, "VERIF_CARGO_TARGET": "/tmp/sw_%d_target" % w, "VERIF_OUT": "/tmp/sw_%d_out" % w}
        sh("git checkout -- . && git clean -fdq -e Cargo.lock && cp -n /repo/Cargo.lock .", cwd="/tmp/sw_%d" % w)
        rc, out = sh("cd /verif && python3 -c \"import sys; sys.path.insert(0, 'tools'); import vplib; vplib.build_harness(['release', 'dev', 'relchk'])\"", env=env)
        if rc != 0:
            print("worker %d: harness build failed: %s" % (w, out[-500:]), flush=True)
            return
        while True:
            try:
                pid, k = q.get_nowait()
            except queue.Empty:
                return
            if k is None:
                dst = "/verif/seeded/" + pid
                mpath = os.path.join(dst, "meta.json")
                meta = json.load(open(mpath)); meta["ran"] = []
                run_checks(w, meta["property"], 0, meta, patch=os.path.join(dst, "patch.diff"))
                json.dump(meta, open(mpath, "w"), indent=1)
                with lock:
                    print(pid, [(r["check"], r["detected"], r.get("no_failing_input")) for r in meta["ran"]], meta.get("error", ""), flush=True)
                continue
            dst = "/verif/seeded/%s_%d" % (pid, k + OFFSET)
            mpath = os.path.join(dst, "meta.json")
            if os.path.exists(mpath) and recheck:
                meta = json.load(open(mpath)); meta["ran"] = []
            elif os.path.exists(mpath):
                continue
            else:
                with plocks[pid]:
                    meta = validate(pid, k)
            if "error" not in meta:
                run_checks(w, pid, k, meta)
            os.makedirs(dst, exist_ok=True)
            src = PREFIX + pid + "/out/"
            shutil.copy(src + "patch%d.diff" % k, os.path.join(dst, "patch.diff"))
            for a, b in (("demo%d.rs" % k, "demo.rs"), ("note%d.md" % k, "note.md")):
                if os.path.exists(src + a):
                    shutil.copy(src + a, os.path.join(dst, b))
            note = os.path.join(dst, "note.md")
            if os.path.exists(note):
                txt = open(note).read()
                meta["needs"] = txt[:1500]
                meta["needs_summary"] = txt.split("\n")[0].lstrip("# ").strip()[:200]
            meta["what_ran"] = ("agent worktree: demo without patch, suite (--lib, --doc) with patch, demo with patch; then the patch applied to a "
                                "scratch worktree of /repo and ./check <id> --tier quick (VERIF_REPO pointing at it) for the ids under 'ran'")
            json.dump(meta, open(mpath, "w"), indent=1)
            with lock:
                print(pid, k + OFFSET, meta.get("demo_without_patch"), meta.get("suite_with_patch"), meta.get("demo_with_patch"),
                      [(r["check"], r["detected"], r.get("no_failing_input")) for r in meta["ran"]], meta.get("error", ""), flush=True)
    ts = [threading.Thread(target=work, args=(w,)) for w in range(wbase, wbase + workers)]
    for t in ts:
        t.start()
    for t in ts:
        t.join()


main()
