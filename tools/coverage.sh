#!/bin/bash
# Development aid (never part of a registered command): line coverage of /repo/src under the quick checks, to see which
# code the correspondence runs never execute.  Needs the nightly toolchain's llvm-tools (llvm-profdata, llvm-cov).
# usage: tools/coverage.sh [ids...]   (default: all 19)    output: /tmp/cov_out/report.txt, /tmp/cov_out/uncovered.txt
set -u
NB=$(dirname "$(rustup which --toolchain nightly rustc)")/../lib/rustlib/x86_64-unknown-linux-gnu/bin
IDS=${*:-C01 C02 C03 C04 C05 C06 C07 C08 C09 C10 C11 C12 C13 C14 C15 C16 C17 C18 C19}
mkdir -p /tmp/cov_prof /tmp/cov_out; rm -f /tmp/cov_prof/*.profraw
cd /verif
for c in $IDS; do
  RUSTUP_TOOLCHAIN=nightly RUSTFLAGS="-C instrument-coverage" VERIF_CARGO_TARGET=/tmp/cov_target VERIF_OUT=/tmp/cov_out \
    LLVM_PROFILE_FILE=/tmp/cov_prof/%p-%m.profraw ./check $c --tier quick > /tmp/cov_out/$c.log 2>&1
  echo "$c exit=$?"
done
"$NB/llvm-profdata" merge -sparse /tmp/cov_prof/*.profraw -o /tmp/cov_prof/all.profdata
OBJ=""; first=""
for d in debug release relchk; do
  [ -f /tmp/cov_target/$d/impl_driver ] || continue
  if [ -z "$first" ]; then first=/tmp/cov_target/$d/impl_driver; else OBJ="$OBJ -object /tmp/cov_target/$d/impl_driver"; fi
done
"$NB/llvm-cov" report -instr-profile=/tmp/cov_prof/all.profdata $first $OBJ 2>/dev/null | grep "repo/src" \
  | awk '{print $1, "regions", $2, "missed", $3, $4, " lines", $8, "missed", $9, $10}' | tee /tmp/cov_out/report.txt
"$NB/llvm-cov" show -instr-profile=/tmp/cov_prof/all.profdata $first $OBJ -sources /repo/src/ 2>/dev/null \
  | awk '/^\/repo\/src.*:$/ {file=$0} /^ +[0-9]+\| +0\|/ {print file " " $0}' > /tmp/cov_out/uncovered.txt
wc -l /tmp/cov_out/uncovered.txt
