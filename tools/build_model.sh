#!/bin/bash
# Build the Coq development (full .vo), extract the model and compile the OCaml driver.
set -e
cd /verif/coq
[ -f Makefile ] || coq_makefile -f _CoqProject -o Makefile >/dev/null
coq_makefile -f _CoqProject -o Makefile >/dev/null
timeout 3000 make -j16 2>&1 | grep -v '^COQC\|^COQDEP\|^CHECK' || true
# make's status is lost through the pipe; verify the .vo files
for v in $(grep '\.v$' _CoqProject); do [ "${v%.v}.vo" -nt "$v" ] || { echo "build_model: $v not compiled"; exit 1; }; done
mkdir -p /verif/.build/ocaml
cd /verif/.build/ocaml
if [ ! -x model_driver ] || [ -n "$(find /verif/coq /verif/driver \( -name '*.vo' -o -name '*.ml' -o -name 'Extract.v' \) -newer model_driver 2>/dev/null | head -1)" ]; then
  timeout 600 coqc -Q /verif/coq Ase -w -all /verif/coq/Extract/Extract.v -o /verif/.build/ocaml/Extract.vo >/dev/null
  cp /verif/driver/main.ml .
  # linked under another name and renamed into place: a driver that is being executed by a running check is never half written
  timeout 600 ocamlfind ocamlopt -O3 -rectypes -thread -package coq-core.kernel,unix -linkpkg model.mli model.ml main.ml -o model_driver.new 2>&1 | grep -i 'error' && exit 1
  [ -x model_driver.new ] && mv -f model_driver.new model_driver
  [ -x model_driver ]
fi
echo "build_model: ok"
