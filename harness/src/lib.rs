//! Shared code of the `asefile` test harness (binaries: `impl_driver`,
//! `zoracle`, `sendsync`).
//!
//! Everything here uses the PUBLIC API of `asefile` only.  The observation
//! format is specified in `/verif/tools/SCHEMA.md`; the section generators
//! below follow that document line by line.
//!
//! Contents:
//!   * counting global allocator (installed by `impl_driver`)
//!   * silent panic hook + "last panic message" store
//!   * 2 MiB worker thread helper
//!   * observation generator (sections STRUCT, FRAMES, CELS, TILES, EXTRA)
//!   * FNV-1a 64 hash, io::ErrorKind <-> integer code tables

use std::alloc::{GlobalAlloc, Layout, System};
use std::fmt::{self, Write};
use std::io;
use std::panic::{catch_unwind, AssertUnwindSafe};
use std::sync::atomic::{AtomicBool, AtomicI64, AtomicU64, Ordering};
use std::sync::Mutex;

use asefile::{
    AnimationDirection, AsepriteFile, AsepriteParseError, BlendMode, Cel, ExternalFileId,
    LayerType, PixelFormat, Tileset, UserData,
};
use image::{Rgba, RgbaImage};

// ===========================================================================
// Counting allocator
// ===========================================================================

/// Global allocator wrapper around `std::alloc::System` that keeps statistics
/// while [`ENABLED`] is set.  The `#[global_allocator]` static itself lives in
/// `impl_driver.rs`; the type and the counters live here so that the panic
/// hook can pause the counting while it formats its message.
pub struct CountingAlloc;

/// Counting is active only while this flag is set.
pub static ENABLED: AtomicBool = AtomicBool::new(false);

// Live bytes is signed: memory that was allocated before counting started and
// is freed while counting would otherwise wrap around.
static LIVE: AtomicI64 = AtomicI64::new(0);
static PEAK: AtomicI64 = AtomicI64::new(0);
static LARGEST: AtomicU64 = AtomicU64::new(0);
static TOTAL: AtomicU64 = AtomicU64::new(0);
static COUNT: AtomicU64 = AtomicU64::new(0);

/// Snapshot of the allocation counters.
#[derive(Debug, Clone, Copy, Default)]
pub struct AllocStats {
    /// Highest number of simultaneously live bytes.
    pub peak_live: u64,
    /// Largest single request (for `realloc`: the new total size).
    pub largest_request: u64,
    /// Sum of all requested bytes (for `realloc`: only the growth).
    pub total_requested: u64,
    /// Number of `alloc` / `alloc_zeroed` / `realloc` calls.
    pub num_allocs: u64,
}

/// Reset all counters to zero ("baseline live = 0").
pub fn alloc_reset() {
    LIVE.store(0, Ordering::SeqCst);
    PEAK.store(0, Ordering::SeqCst);
    LARGEST.store(0, Ordering::SeqCst);
    TOTAL.store(0, Ordering::SeqCst);
    COUNT.store(0, Ordering::SeqCst);
}

/// Bytes allocated since the last [`alloc_reset`] that are still live (0 when more was freed than allocated).
pub fn alloc_live_now() -> u64 {
    LIVE.load(Ordering::SeqCst).max(0) as u64
}

/// Read the counters.
pub fn alloc_stats() -> AllocStats {
    AllocStats {
        peak_live: PEAK.load(Ordering::SeqCst).max(0) as u64,
        largest_request: LARGEST.load(Ordering::SeqCst),
        total_requested: TOTAL.load(Ordering::SeqCst),
        num_allocs: COUNT.load(Ordering::SeqCst),
    }
}

/// A request of `size` bytes is about to be made (counted even if it fails).
#[inline]
fn note_request(size: usize, counted_bytes: usize) {
    COUNT.fetch_add(1, Ordering::Relaxed);
    TOTAL.fetch_add(counted_bytes as u64, Ordering::Relaxed);
    LARGEST.fetch_max(size as u64, Ordering::Relaxed);
}

/// The number of live bytes changed by `delta`.
#[inline]
fn note_live(delta: i64) {
    let live = LIVE.fetch_add(delta, Ordering::Relaxed) + delta;
    if delta > 0 {
        PEAK.fetch_max(live, Ordering::Relaxed);
    }
}

unsafe impl GlobalAlloc for CountingAlloc {
    unsafe fn alloc(&self, layout: Layout) -> *mut u8 {
        let on = ENABLED.load(Ordering::Relaxed);
        if on {
            note_request(layout.size(), layout.size());
        }
        let p = System.alloc(layout);
        if on && !p.is_null() {
            note_live(layout.size() as i64);
        }
        p
    }

    unsafe fn alloc_zeroed(&self, layout: Layout) -> *mut u8 {
        let on = ENABLED.load(Ordering::Relaxed);
        if on {
            note_request(layout.size(), layout.size());
        }
        let p = System.alloc_zeroed(layout);
        if on && !p.is_null() {
            note_live(layout.size() as i64);
        }
        p
    }

    unsafe fn dealloc(&self, ptr: *mut u8, layout: Layout) {
        if ENABLED.load(Ordering::Relaxed) {
            note_live(-(layout.size() as i64));
        }
        System.dealloc(ptr, layout)
    }

    unsafe fn realloc(&self, ptr: *mut u8, layout: Layout, new_size: usize) -> *mut u8 {
        let on = ENABLED.load(Ordering::Relaxed);
        let old = layout.size();
        if on {
            // One allocation event; only the growth counts as newly requested
            // bytes, the "single request size" is the new total size.
            note_request(new_size, new_size.saturating_sub(old));
        }
        let p = System.realloc(ptr, layout, new_size);
        if on && !p.is_null() {
            note_live(new_size as i64 - old as i64);
        }
        p
    }
}

// ===========================================================================
// Panic hook
// ===========================================================================

static LAST_PANIC: Mutex<Option<String>> = Mutex::new(None);

/// Install a panic hook that prints NOTHING to stderr and instead remembers
/// `"<message> at <file>:<line>:<col>"` of the most recent panic.
pub fn install_quiet_panic_hook() {
    std::panic::set_hook(Box::new(|info| {
        // Do not let the bookkeeping of the hook show up in `alloc` mode.
        let was_counting = ENABLED.swap(false, Ordering::SeqCst);
        let msg: String = if let Some(s) = info.payload().downcast_ref::<&str>() {
            (*s).to_string()
        } else if let Some(s) = info.payload().downcast_ref::<String>() {
            s.clone()
        } else {
            "<non-string panic payload>".to_string()
        };
        let text = match info.location() {
            Some(l) => format!("{} at {}:{}:{}", msg, l.file(), l.line(), l.column()),
            None => msg,
        };
        *LAST_PANIC.lock().unwrap_or_else(|e| e.into_inner()) = Some(text);
        ENABLED.store(was_counting, Ordering::SeqCst);
    }));
}

/// Fetch (and clear) the message of the most recent panic.
pub fn take_last_panic() -> Option<String> {
    LAST_PANIC.lock().unwrap_or_else(|e| e.into_inner()).take()
}

/// Like [`take_last_panic`] but never empty and guaranteed to be one line
/// (usable after `# panic: `).
pub fn last_panic_line() -> String {
    one_line(&take_last_panic().unwrap_or_else(|| "<unknown panic>".to_string()))
}

/// Replace line breaks so that the text can be used in a `#` comment line.
pub fn one_line(s: &str) -> String {
    s.replace(['\n', '\r'], " ")
}

// ===========================================================================
// Worker thread
// ===========================================================================

/// Stack size of the thread every input is processed on.
pub const WORKER_STACK: usize = 2 * 1024 * 1024;

/// Run `f` on a freshly spawned thread with a 2 MiB stack inside
/// `catch_unwind`.  `Err(message)` when `f` panicked.  (A stack overflow is
/// not a panic: it kills the whole process, which is what the framing
/// protocol expects.)
pub fn on_worker<T, F>(f: F) -> Result<T, String>
where
    F: FnOnce() -> T + Send + 'static,
    T: Send + 'static,
{
    let handle = std::thread::Builder::new()
        .stack_size(WORKER_STACK)
        .spawn(move || catch_unwind(AssertUnwindSafe(f)))
        .expect("cannot spawn worker thread");
    match handle.join() {
        Ok(Ok(v)) => Ok(v),
        Ok(Err(_)) | Err(_) => Err(last_panic_line()),
    }
}

type Job = Box<dyn FnOnce() -> Box<dyn std::any::Any + Send> + Send>;
type JobResult = Result<Box<dyn std::any::Any + Send>, String>;

struct SharedWorker {
    tx: std::sync::mpsc::Sender<Job>,
    rx: std::sync::mpsc::Receiver<JobResult>,
}

static SHARED_WORKER: std::sync::Mutex<Option<SharedWorker>> = std::sync::Mutex::new(None);

fn spawn_shared_worker() -> SharedWorker {
    let (tx, rx_job) = std::sync::mpsc::channel::<Job>();
    let (tx_res, rx) = std::sync::mpsc::channel::<JobResult>();
    std::thread::Builder::new()
        .stack_size(WORKER_STACK)
        .spawn(move || {
            for job in rx_job {
                let r = catch_unwind(AssertUnwindSafe(job)).map_err(|_| last_panic_line());
                if tx_res.send(r).is_err() {
                    break;
                }
            }
        })
        .expect("cannot spawn worker thread");
    SharedWorker { tx, rx }
}

/// Like [`on_worker`], but ALL calls of one driver process run one after the other on the SAME long-lived thread
/// (2 MiB stack, each call inside `catch_unwind`): whatever the library keeps between loads - thread-locals,
/// statics, a poisoned lock after a panic - then shows up as a result that depends on the inputs processed before.
/// With the environment variable `VERIF_FRESH_THREADS=1` every call gets a thread of its own instead (the isolated
/// reference).
pub fn on_shared_worker<T, F>(f: F) -> Result<T, String>
where
    F: FnOnce() -> T + Send + 'static,
    T: Send + 'static,
{
    if std::env::var("VERIF_FRESH_THREADS").map_or(false, |v| v == "1") {
        return on_worker(f);
    }
    let mut guard = SHARED_WORKER.lock().unwrap_or_else(|e| e.into_inner());
    if guard.is_none() {
        *guard = Some(spawn_shared_worker());
    }
    let job: Job = Box::new(move || Box::new(f()) as Box<dyn std::any::Any + Send>);
    let sent = guard.as_ref().unwrap().tx.send(job).is_ok();
    let res = if sent { guard.as_ref().unwrap().rx.recv().ok() } else { None };
    match res {
        Some(Ok(b)) => Ok(*b.downcast::<T>().expect("shared worker: result type")),
        Some(Err(msg)) => Err(msg),
        None => {
            // the worker thread is gone (cannot normally happen): start a new one for the next call
            *guard = None;
            Err("worker thread lost".to_string())
        }
    }
}

// ===========================================================================
// Small tables
// ===========================================================================

/// Outcome code `c` of line `1 c` for a parse error.
pub fn error_code(e: &AsepriteParseError) -> u32 {
    match e {
        AsepriteParseError::InvalidInput(_) => 1,
        AsepriteParseError::UnsupportedFeature(_) => 2,
        AsepriteParseError::InternalError(_) => 3,
        AsepriteParseError::IoError(_) => 4,
    }
}

/// Outcome code of a load result (0 = loaded).
pub fn outcome_code(r: &Result<AsepriteFile, AsepriteParseError>) -> u32 {
    match r {
        Ok(_) => 0,
        Err(e) => error_code(e),
    }
}

/// `std::io::ErrorKind` -> integer code (0 = anything not in the table).
pub fn iokind_code(k: io::ErrorKind) -> u32 {
    use io::ErrorKind::*;
    match k {
        UnexpectedEof => 1,
        InvalidInput => 2,
        InvalidData => 3,
        Interrupted => 4,
        BrokenPipe => 5,
        ConnectionReset => 6,
        TimedOut => 7,
        PermissionDenied => 8,
        Other => 9,
        WouldBlock => 10,
        NotFound => 11,
        _ => 0,
    }
}

/// Integer code -> `std::io::ErrorKind`.  Codes outside the table (including
/// 0) become `Unsupported`, which maps back to code 0.
pub fn iokind_from_code(c: u32) -> io::ErrorKind {
    use io::ErrorKind::*;
    match c {
        1 => UnexpectedEof,
        2 => InvalidInput,
        3 => InvalidData,
        4 => Interrupted,
        5 => BrokenPipe,
        6 => ConnectionReset,
        7 => TimedOut,
        8 => PermissionDenied,
        9 => Other,
        10 => WouldBlock,
        11 => NotFound,
        _ => Unsupported,
    }
}

fn blend_code(b: BlendMode) -> u32 {
    match b {
        BlendMode::Normal => 0,
        BlendMode::Multiply => 1,
        BlendMode::Screen => 2,
        BlendMode::Overlay => 3,
        BlendMode::Darken => 4,
        BlendMode::Lighten => 5,
        BlendMode::ColorDodge => 6,
        BlendMode::ColorBurn => 7,
        BlendMode::HardLight => 8,
        BlendMode::SoftLight => 9,
        BlendMode::Difference => 10,
        BlendMode::Exclusion => 11,
        BlendMode::Hue => 12,
        BlendMode::Saturation => 13,
        BlendMode::Color => 14,
        BlendMode::Luminosity => 15,
        BlendMode::Addition => 16,
        BlendMode::Subtract => 17,
        BlendMode::Divide => 18,
    }
}

fn direction_code(d: AnimationDirection) -> u32 {
    match d {
        AnimationDirection::Forward => 0,
        AnimationDirection::Reverse => 1,
        AnimationDirection::PingPong => 2,
    }
}

/// `(type, opt(tileset id))` of a layer type.
fn layer_type_code(t: LayerType) -> (u32, i64) {
    match t {
        LayerType::Image => (0, -1),
        LayerType::Group => (1, -1),
        LayerType::Tilemap(id) => (2, id as i64),
    }
}

fn format_code(f: PixelFormat) -> u32 {
    match f {
        PixelFormat::Rgba => 0,
        PixelFormat::Grayscale => 1,
        PixelFormat::Indexed { .. } => 2,
    }
}

/// 64-bit FNV-1a.
pub fn fnv1a64(data: &[u8]) -> u64 {
    let mut h: u64 = 0xcbf2_9ce4_8422_2325;
    for &b in data {
        h ^= b as u64;
        h = h.wrapping_mul(0x0000_0100_0000_01b3);
    }
    h
}

/// `(high 32 bits, low 32 bits)` of the FNV-1a 64 hash of `text`.
pub fn hash_halves(text: &str) -> (u32, u32) {
    let h = fnv1a64(text.as_bytes());
    ((h >> 32) as u32, h as u32)
}

// ===========================================================================
// Observation: options and encodings
// ===========================================================================

pub const STRUCT: u32 = 1;
pub const FRAMES: u32 = 2;
pub const CELS: u32 = 4;
pub const TILES: u32 = 8;
pub const EXTRA: u32 = 16;
/// Section bits in canonical (output) order.
pub const SECTIONS: [u32; 5] = [STRUCT, FRAMES, CELS, TILES, EXTRA];

/// Options of the observation generator (`--level`, `--max-frames`,
/// `--max-layers`).
#[derive(Debug, Clone, Copy)]
pub struct ObsOpts {
    pub level: u32,
    pub max_frames: Option<u64>,
    pub max_layers: Option<u64>,
}

/// The *selected* indices of a collection of size `n`: `i < max` or
/// `i = n - 1`, ascending.  `None` = unlimited.
pub fn selected(n: u32, max: Option<u64>) -> Vec<u32> {
    match max {
        None => (0..n).collect(),
        Some(m) => {
            let head = (n as u64).min(m) as u32;
            let mut v: Vec<u32> = (0..head).collect();
            if head < n {
                v.push(n - 1); // n >= 1 here
            }
            v
        }
    }
}

/// `pix(r,g,b,a)` of the schema: 0 for fully transparent pixels, otherwise the
/// packed value.
#[inline]
pub fn pix(p: &Rgba<u8>) -> u32 {
    if p.0[3] == 0 {
        0
    } else {
        pack_exact(p)
    }
}

/// `r + 256*g + 65536*b + 16777216*a` without canonicalisation (`util` mode).
#[inline]
pub fn pack_exact(p: &Rgba<u8>) -> u32 {
    p.0[0] as u32 | (p.0[1] as u32) << 8 | (p.0[2] as u32) << 16 | (p.0[3] as u32) << 24
}

/// Inverse of [`pack_exact`].
#[inline]
pub fn unpack_exact(v: u32) -> Rgba<u8> {
    Rgba([v as u8, (v >> 8) as u8, (v >> 16) as u8, (v >> 24) as u8])
}

/// ` b0 b1 ...`: the UTF-8 bytes of `s`, each preceded by a space.
fn put_bytes<W: Write>(w: &mut W, s: &str) -> fmt::Result {
    for b in s.bytes() {
        write!(w, " {}", b)?;
    }
    Ok(())
}

/// ` w h p_0 ... p_{w*h-1}` (row-major), each integer preceded by a space.
/// A logger that accepts every record and discards it.  With it installed at the `Trace` level the arguments of the
/// crate's `debug!` / `trace!` lines are evaluated, as they are in an application that has logging switched on, so a
/// log line that indexes or unwraps shows up as the panic it would be there.
struct DiscardLogger;
impl log::Log for DiscardLogger {
    fn enabled(&self, _: &log::Metadata) -> bool {
        true
    }
    fn log(&self, record: &log::Record) {
        // format the message: that is what evaluates the arguments
        use std::fmt::Write as _;
        let mut sink = NullSink;
        let _ = write!(sink, "{}", record.args());
    }
    fn flush(&self) {}
}
struct NullSink;
impl std::fmt::Write for NullSink {
    fn write_str(&mut self, _: &str) -> std::fmt::Result {
        Ok(())
    }
}
pub fn install_discard_logger() {
    // VERIF_NO_LOGGER=1: leave the process without a logger (the other host configuration; results must not differ)
    if std::env::var_os("VERIF_NO_LOGGER").is_some() {
        return;
    }
    static LOGGER: DiscardLogger = DiscardLogger;
    if log::set_logger(&LOGGER).is_ok() {
        log::set_max_level(log::LevelFilter::Trace);
    }
}

/// VERIF_IMAGE_DIGEST=<n>: an image with more than n pixels is printed as `w h -1 lo hi` (lo, hi: the two 31-bit halves
/// of an FNV-1a hash of its pixels) instead of w * h pixel words.  Only the C05 walk sets it, for the canvases of
/// several million pixels that corrupted size fields produce; two builds still have to agree on the digest.
fn image_digest_limit() -> Option<u64> {
    static LIMIT: std::sync::OnceLock<Option<u64>> = std::sync::OnceLock::new();
    *LIMIT.get_or_init(|| std::env::var("VERIF_IMAGE_DIGEST").ok().and_then(|v| v.parse().ok()))
}

fn put_img<W: Write>(w: &mut W, img: &RgbaImage) -> fmt::Result {
    write!(w, " {} {}", img.width(), img.height())?;
    if let Some(n) = image_digest_limit() {
        if img.width() as u64 * img.height() as u64 > n {
            let mut h: u64 = 0xcbf29ce484222325;
            for p in img.pixels() {
                for b in p.0 {
                    h = (h ^ b as u64).wrapping_mul(0x100000001b3);
                }
            }
            return write!(w, " -1 {} {}", h & 0x7fff_ffff, (h >> 32) & 0x7fff_ffff);
        }
    }
    // `pixels()` iterates row by row, left to right.
    for p in img.pixels() {
        write!(w, " {}", pix(p))?;
    }
    Ok(())
}

/// Lines 6 / 7 for a user data record (nothing when `ud` is `None`).
fn put_user_data<W: Write>(
    w: &mut W,
    kind: u32,
    i: u32,
    j: u32,
    ud: Option<&UserData>,
) -> fmt::Result {
    let ud = match ud {
        Some(ud) => ud,
        None => return Ok(()),
    };
    let has_text = ud.text.is_some() as u32;
    let (has_color, r, g, b, a) = match ud.color {
        Some(c) => (1, c.0[0], c.0[1], c.0[2], c.0[3]),
        None => (0, 0, 0, 0, 0),
    };
    writeln!(
        w,
        "6 {} {} {} {} {} {} {} {} {}",
        kind, i, j, has_text, has_color, r, g, b, a
    )?;
    if let Some(text) = &ud.text {
        write!(w, "7 {} {} {}", kind, i, j)?;
        put_bytes(w, text)?;
        writeln!(w)?;
    }
    Ok(())
}

fn opt_u32(x: Option<u32>) -> i64 {
    x.map_or(-1, |v| v as i64)
}

/// Tilesets sorted by ascending id.
fn sorted_tilesets(file: &AsepriteFile) -> Vec<&Tileset> {
    let mut v: Vec<&Tileset> = file.tilesets().iter().collect();
    v.sort_by_key(|t| t.id());
    v
}

// ===========================================================================
// Section STRUCT (level bit 1)
// ===========================================================================

pub fn section_struct<W: Write>(file: &AsepriteFile, w: &mut W) -> fmt::Result {
    let num_frames = file.num_frames();
    let num_layers = file.num_layers();
    let num_tags = file.num_tags();
    let slices = file.slices();

    // 2 width height num_frames fmt transp is_indexed num_layers num_tags num_slices
    writeln!(
        w,
        "2 {} {} {} {} {} {} {} {} {}",
        file.width(),
        file.height(),
        num_frames,
        format_code(file.pixel_format()),
        opt_u32(file.transparent_color_index().map(|v| v as u32)),
        file.is_indexed_color() as u32,
        num_layers,
        num_tags,
        slices.len()
    )?;
    // sprite user data (kind 0) right after line 2
    put_user_data(w, 0, 0, 0, file.sprite_user_data())?;

    // 97 k ..: two public routes to one value disagree (printed only then, so that model and expectation, which have
    // no such line, differ from the observation): 1 size() vs width()/height(), 2 PixelFormat::transparent_color_index
    // vs AsepriteFile::transparent_color_index, 3 f: Frame::id, 4 id: ColorPaletteEntry::raw_rgba8
    if file.size() != (file.width(), file.height()) {
        writeln!(w, "97 1")?;
    }
    if file.pixel_format().transparent_color_index() != file.transparent_color_index() {
        writeln!(w, "97 2")?;
    }

    // 3 f duration
    for f in 0..num_frames {
        let fr = file.frame(f);
        if fr.id() != f {
            writeln!(w, "97 3 {}", f)?;
        }
        writeln!(w, "3 {} {}", f, fr.duration())?;
    }

    // 4 / 5 / user data (kind 1) per layer
    for id in 0..num_layers {
        let layer = file.layer(id);
        let (ty, tileset) = layer_type_code(layer.layer_type());
        writeln!(
            w,
            "4 {} {} {} {} {} {} {} {} {}",
            layer.id(),
            layer.flags().bits(),
            blend_code(layer.blend_mode()),
            layer.opacity(),
            ty,
            tileset,
            opt_u32(layer.parent().map(|p| p.id())),
            layer.is_visible() as u32,
            layer.is_tilemap() as u32
        )?;
        write!(w, "5 {}", id)?;
        put_bytes(w, layer.name())?;
        writeln!(w)?;
        put_user_data(w, 1, id, 0, layer.user_data())?;
    }

    // 8 / 9 / user data (kind 3) per tag
    for id in 0..num_tags {
        let tag = file.tag(id);
        writeln!(
            w,
            "8 {} {} {} {} {}",
            id,
            tag.from_frame(),
            tag.to_frame(),
            direction_code(tag.animation_direction()),
            tag.repeat().map_or(0, |n| n.get())
        )?;
        write!(w, "9 {}", id)?;
        put_bytes(w, tag.name())?;
        writeln!(w)?;
        put_user_data(w, 3, id, 0, tag.user_data())?;
    }

    // 10 / 11 / user data (kind 4) / 12 per slice
    for (id, slice) in slices.iter().enumerate() {
        writeln!(w, "10 {} {}", id, slice.keys.len())?;
        write!(w, "11 {}", id)?;
        put_bytes(w, &slice.name)?;
        writeln!(w)?;
        put_user_data(w, 4, id as u32, 0, slice.user_data.as_ref())?;
        for (k, key) in slice.keys.iter().enumerate() {
            // 12 slice key from_frame ox oy w h has9 cx cy cw ch has_pivot px py
            let (has9, cx, cy, cw, ch) = match &key.slice9 {
                Some(s9) => (
                    1,
                    s9.center_x as i64,
                    s9.center_y as i64,
                    s9.center_width as i64,
                    s9.center_height as i64,
                ),
                None => (0, 0, 0, 0, 0),
            };
            let (has_pivot, px, py) = match key.pivot {
                Some((x, y)) => (1, x, y),
                None => (0, 0, 0),
            };
            writeln!(
                w,
                "12 {} {} {} {} {} {} {} {} {} {} {} {} {} {} {}",
                id,
                k,
                key.from_frame,
                key.origin.0,
                key.origin.1,
                key.size.0,
                key.size.1,
                has9,
                cx,
                cy,
                cw,
                ch,
                has_pivot,
                px,
                py
            )?;
        }
    }

    // 13 present num_colors, 14 / 15 per palette entry (ascending id)
    match file.palette() {
        None => writeln!(w, "13 0 0")?,
        Some(pal) => {
            let n = pal.num_colors();
            writeln!(w, "13 1 {}", n)?;
            // There is no public iterator over the entries: probe the ids
            // 0..65536 and stop once all `n` entries were seen.  Entries with
            // an id >= 65536 are not printed (accepted limitation).
            let mut found = 0u32;
            let mut k = 0u32;
            while found < n && k < 65536 {
                if let Some(e) = pal.color(k) {
                    found += 1;
                    if e.raw_rgba8() != [e.red(), e.green(), e.blue(), e.alpha()] {
                        writeln!(w, "97 4 {}", e.id())?;
                    }
                    writeln!(
                        w,
                        "14 {} {} {} {} {} {}",
                        e.id(),
                        e.red(),
                        e.green(),
                        e.blue(),
                        e.alpha(),
                        e.name().is_some() as u32
                    )?;
                    if let Some(name) = e.name() {
                        write!(w, "15 {}", e.id())?;
                        put_bytes(w, name)?;
                        writeln!(w)?;
                    }
                }
                k += 1;
            }
        }
    }

    // 16 id bytes(name): external files, ascending id
    let mut ext_ids: Vec<u32> = file.external_files().map().keys().map(|k| k.value()).collect();
    ext_ids.sort_unstable();
    for &id in &ext_ids {
        let ef = &file.external_files().map()[&ExternalFileId::new(id)];
        write!(w, "16 {}", id)?;
        put_bytes(w, ef.name())?;
        writeln!(w)?;
    }

    // 17 / 18 per tileset, ascending id
    let tilesets = sorted_tilesets(file);
    for ts in &tilesets {
        let (has_ext, ext_file, ext_ts) = match ts.external_file() {
            Some(r) => (1, r.external_file_id().value(), r.tileset_id()),
            None => (0, 0, 0),
        };
        writeln!(
            w,
            "17 {} {} {} {} {} {} {} {} {}",
            ts.id(),
            ts.empty_tile_is_id_zero() as u32,
            ts.tile_count(),
            ts.tile_size().width(),
            ts.tile_size().height(),
            ts.base_index(),
            has_ext,
            ext_file,
            ext_ts
        )?;
        write!(w, "18 {}", ts.id())?;
        put_bytes(w, ts.name())?;
        writeln!(w)?;
    }

    // ---- lookups (line 21) ------------------------------------------------

    // 21 0 id 0 r: layer_by_name(name of layer id)
    for id in 0..num_layers {
        // copy the name so that no `Layer` temporary outlives the statement
        let name = file.layer(id).name().to_string();
        let r = opt_u32(file.layer_by_name(&name).map(|l| l.id()));
        writeln!(w, "21 0 {} 0 {}", id, r)?;
    }
    let r = opt_u32(file.layer_by_name("\u{1}no such layer").map(|l| l.id()));
    writeln!(w, "21 0 -1 0 {}", r)?;

    // 21 1 id 0 r: tag_by_name(name of tag id); index found by identity
    let tag_index = |t: Option<&asefile::Tag>| -> i64 {
        match t {
            None => -1,
            Some(found) => (0..num_tags)
                .find(|&i| std::ptr::eq(file.tag(i), found))
                .map_or(-1, |i| i as i64),
        }
    };
    for id in 0..num_tags {
        let r = tag_index(file.tag_by_name(file.tag(id).name()));
        writeln!(w, "21 1 {} 0 {}", id, r)?;
    }
    let r = tag_index(file.tag_by_name("\u{1}no such tag"));
    writeln!(w, "21 1 -1 0 {}", r)?;

    // 21 2 k 0 r: get_tag(k).is_some()
    let mut ks: Vec<u64> = vec![0];
    if num_tags >= 1 {
        ks.push(num_tags as u64 - 1);
    }
    ks.push(num_tags as u64);
    ks.push(num_tags as u64 + 1);
    ks.push(4294967295);
    for k in ks {
        // (num_tags + 1 cannot exceed u32::MAX in practice; truncate like a
        // caller using u32 arithmetic would)
        let r = file.get_tag(k as u32).is_some() as u32;
        writeln!(w, "21 2 {} 0 {}", k, r)?;
    }

    // 21 3 k 0 r: external_file_by_id(k).is_some()
    for k in [0u32, 1, 2, 4294967295].iter().chain(ext_ids.iter()) {
        let r = file.external_file_by_id(&ExternalFileId::new(*k)).is_some() as u32;
        writeln!(w, "21 3 {} 0 {}", k, r)?;
    }

    // 21 4 k 0 r: tilesets().get(k).is_some()
    let ts_ids: Vec<u32> = tilesets.iter().map(|t| t.id()).collect();
    for k in [0u32, 1, 2, 4294967295].iter().chain(ts_ids.iter()) {
        let r = file.tilesets().get(*k).is_some() as u32;
        writeln!(w, "21 4 {} 0 {}", k, r)?;
    }

    // 21 5 k 0 r: palette().color(k).is_some() (0 without palette)
    for k in [0u32, 1, 255, 256, 4294967295] {
        let r = file.palette().map_or(false, |p| p.color(k).is_some()) as u32;
        writeln!(w, "21 5 {} 0 {}", k, r)?;
    }

    // 21 6 n 0 0, then 21 6 -1 i id for the i-th item of layers()
    let iter_ids: Vec<u32> = file.layers().map(|l| l.id()).collect();
    writeln!(w, "21 6 {} 0 0", iter_ids.len())?;
    for (i, id) in iter_ids.iter().enumerate() {
        writeln!(w, "21 6 -1 {} {}", i, id)?;
    }

    // 21 7 len is_empty 0
    writeln!(
        w,
        "21 7 {} {} 0",
        file.tilesets().len(),
        file.tilesets().is_empty() as u32
    )?;

    // 21 8 k 0 r: the iterator protocol of layers(): count(), last(), nth(1), next() and
    // last() after a full drain, skip(num_layers).last() (-1 = None)
    let id_or = |l: Option<asefile::Layer>| l.map_or(-1i64, |l| l.id() as i64);
    writeln!(w, "21 8 0 0 {}", file.layers().count())?;
    writeln!(w, "21 8 1 0 {}", id_or(file.layers().last()))?;
    writeln!(w, "21 8 2 0 {}", id_or(file.layers().nth(1)))?;
    let mut it = file.layers();
    while it.next().is_some() {}
    writeln!(w, "21 8 3 0 {}", id_or(it.next()))?;
    let mut it = file.layers();
    for _ in 0..num_layers {
        it.next();
    }
    writeln!(w, "21 8 4 0 {}", id_or(it.last()))?;
    writeln!(w, "21 8 5 0 {}", id_or(file.layers().skip(num_layers as usize).last()))?;
    Ok(())
}

// ===========================================================================
// Section FRAMES (level bit 2)
// ===========================================================================

pub fn section_frames<W: Write>(file: &AsepriteFile, opts: &ObsOpts, w: &mut W) -> fmt::Result {
    for f in selected(file.num_frames(), opts.max_frames) {
        let img = file.frame(f).image();
        write!(w, "22 {}", f)?;
        put_img(w, &img)?;
        writeln!(w)?;
    }
    Ok(())
}

// ===========================================================================
// Section CELS (level bit 4)
// ===========================================================================

pub fn section_cels<W: Write>(file: &AsepriteFile, opts: &ObsOpts, w: &mut W) -> fmt::Result {
    let frames = selected(file.num_frames(), opts.max_frames);
    let layers = selected(file.num_layers(), opts.max_layers);
    for &f in &frames {
        for &l in &layers {
            // `Frame::layer` / `Layer::frame` tie the lifetime of the returned
            // `Cel` to the `Frame` / `Layer` value, so those must stay alive.
            let frame_ref = file.frame(f);
            let layer_ref = file.layer(l);
            for route in 0..3u32 {
                let cel: Cel = match route {
                    0 => frame_ref.layer(l),
                    1 => layer_ref.frame(f),
                    _ => file.cel(f, l),
                };
                let (x, y) = cel.top_left();
                // 23 ro f l cel.frame() cel.layer() is_empty x y is_tilemap
                writeln!(
                    w,
                    "23 {} {} {} {} {} {} {} {} {}",
                    route,
                    f,
                    l,
                    cel.frame(),
                    cel.layer(),
                    cel.is_empty() as u32,
                    x,
                    y,
                    cel.is_tilemap() as u32
                )?;
                if route == 0 {
                    // cel user data (kind 2), then the cel image
                    put_user_data(w, 2, f, l, cel.user_data())?;
                    let img = cel.image();
                    write!(w, "24 {} {}", f, l)?;
                    put_img(w, &img)?;
                    writeln!(w)?;
                }
            }
        }
    }
    Ok(())
}

// ===========================================================================
// Section TILES (level bit 8)
// ===========================================================================

/// Coordinates probed on both axes after the grid in line 26.
const LAT: [u32; 7] = [0, 1, 65535, 65536, 2147483647, 2147483648, 4294967295];

pub fn section_tiles<W: Write>(file: &AsepriteFile, opts: &ObsOpts, w: &mut W) -> fmt::Result {
    // Tilesets, ascending id: 19 id img(image()), 20 id t img(tile_image(t))
    for ts in sorted_tilesets(file) {
        let id = ts.id();
        let img = ts.image();
        write!(w, "19 {}", id)?;
        put_img(w, &img)?;
        writeln!(w)?;
        let count = ts.tile_count();
        // t in 0..count with t < 64 or t = count - 1
        let mut ts_idx: Vec<u32> = (0..count.min(64)).collect();
        if count > 64 {
            ts_idx.push(count - 1);
        }
        for t in ts_idx {
            let img = ts.tile_image(t);
            write!(w, "20 {} {}", id, t)?;
            put_img(w, &img)?;
            writeln!(w)?;
        }
    }

    // Tilemaps: selected layers (outer) x selected frames (inner)
    let frames = selected(file.num_frames(), opts.max_frames);
    let layers = selected(file.num_layers(), opts.max_layers);
    for &l in &layers {
        for &f in &frames {
            match file.tilemap(l, f) {
                None => writeln!(w, "25 {} {} 0 0 0 0 0 0 0 0 0", l, f)?,
                Some(tm) => {
                    let (tw, th) = tm.tile_size();
                    let (ox, oy) = tm.tile_offsets();
                    let (px, py) = tm.pixel_offsets();
                    let (mw, mh) = (tm.width(), tm.height());
                    // 25 l f present w h tw th ofs_x ofs_y px_x px_y
                    writeln!(
                        w,
                        "25 {} {} 1 {} {} {} {} {} {} {} {}",
                        l, f, mw, mh, tw, th, ox, oy, px, py
                    )?;
                    // 26 l f n id_0 ... id_{n-1}
                    let gw = (mw + 2).min(20);
                    let gh = (mh + 2).min(20);
                    let n = gw as usize * gh as usize + LAT.len() * LAT.len();
                    write!(w, "26 {} {} {}", l, f, n)?;
                    for y in 0..gh {
                        for x in 0..gw {
                            write!(w, " {}", tm.tile(x, y).id())?;
                        }
                    }
                    for &y in &LAT {
                        for &x in &LAT {
                            write!(w, " {}", tm.tile(x, y).id())?;
                        }
                    }
                    writeln!(w)?;
                    // 27 l f img(tilemap.image())
                    let img = tm.image();
                    write!(w, "27 {} {}", l, f)?;
                    put_img(w, &img)?;
                    writeln!(w)?;
                }
            }
        }
    }

    // Out-of-range probes, printed last: 25 -1 -1 r1 r2 0 0 0 0 0 0 0
    let r1 = file.tilemap(file.num_layers(), 0).is_some() as u32;
    let r2 = file.tilemap(0, file.num_frames()).is_some() as u32;
    writeln!(w, "25 -1 -1 {} {} 0 0 0 0 0 0 0", r1, r2)?;
    Ok(())
}

// ===========================================================================
// Section EXTRA (level bit 16)
// ===========================================================================

/// A `fmt::Write` sink that only counts.  `{:?}` cannot tell it apart from
/// the `String` behind `format!`, but huge pixel dumps cost no memory.
struct CountSink(u64);

impl Write for CountSink {
    fn write_str(&mut self, s: &str) -> fmt::Result {
        self.0 += s.len() as u64;
        Ok(())
    }
}

pub fn section_extra<W: Write>(file: &AsepriteFile, opts: &ObsOpts, w: &mut W) -> fmt::Result {
    let frames = selected(file.num_frames(), opts.max_frames);
    let layers = selected(file.num_layers(), opts.max_layers);
    let mut sink = CountSink(0);

    write!(sink, "{:?}", file)?;
    for &f in &frames {
        write!(sink, "{:?}", file.frame(f))?;
    }
    for &l in &layers {
        write!(sink, "{:?}", file.layer(l))?;
    }
    for &f in &frames {
        for &l in &layers {
            write!(sink, "{:?}", file.cel(f, l))?;
        }
    }
    for t in 0..file.num_tags() {
        write!(sink, "{:?}", file.tag(t))?;
    }
    for s in file.slices() {
        write!(sink, "{:?}", s)?;
    }
    write!(sink, "{:?}", file.tilesets())?;
    for ts in file.tilesets().iter() {
        write!(sink, "{:?}", ts)?;
    }
    write!(sink, "{:?}", file.external_files())?;
    write!(sink, "{:?}", file.external_files().map())?;
    write!(sink, "{:?}", file.palette())?;
    write!(sink, "{:?}", file.pixel_format())?;
    std::hint::black_box(sink.0);

    // SCHEMA.md writes this line as `98 ok`; lines must consist of integers,
    // so "ok" is encoded as 1.
    writeln!(w, "98 1")?;
    Ok(())
}

// ===========================================================================
// Observation: assembling sections
// ===========================================================================

/// Text of ONE section.  Panics of the library propagate to the caller.
pub fn section_text(file: &AsepriteFile, bit: u32, opts: &ObsOpts) -> String {
    let mut s = String::new();
    let r = match bit {
        STRUCT => section_struct(file, &mut s),
        FRAMES => section_frames(file, opts, &mut s),
        CELS => section_cels(file, opts, &mut s),
        TILES => section_tiles(file, opts, &mut s),
        EXTRA => section_extra(file, opts, &mut s),
        _ => Ok(()),
    };
    r.expect("writing to a String cannot fail");
    s
}

/// Observation of a loaded file.
pub struct Observation {
    /// Section lines in canonical order (every line `\n`-terminated).  Does
    /// NOT contain the outcome line `1 0` and contains no comment lines.  When
    /// a section panicked the text ends with the line `99 <section-bit>`.
    pub text: String,
    /// `(section bit, panic message)` when a section panicked.
    pub panic: Option<(u32, String)>,
}

/// Produce the sections selected by `opts.level` in canonical order, each one
/// inside `catch_unwind`.  A panicking section contributes no lines; it is
/// replaced by `99 <bit>` and the observation ends there.
pub fn observe_file(file: &AsepriteFile, opts: &ObsOpts) -> Observation {
    let mut text = String::new();
    for &bit in SECTIONS.iter() {
        if opts.level & bit == 0 {
            continue;
        }
        match catch_unwind(AssertUnwindSafe(|| section_text(file, bit, opts))) {
            Ok(s) => text.push_str(&s),
            Err(_) => {
                let _ = writeln!(text, "99 {}", bit);
                return Observation {
                    text,
                    panic: Some((bit, last_panic_line())),
                };
            }
        }
    }
    Observation { text, panic: None }
}

/// Same text as [`observe_file`] for a file whose accessors do not panic, but
/// WITHOUT catching panics, and producing the sections in the order
/// `SECTIONS` rotated left by `rotation` (each section into its own string,
/// concatenated in canonical order afterwards).  Used by `threads` mode.
pub fn observe_file_rotated(file: &AsepriteFile, opts: &ObsOpts, rotation: usize) -> String {
    let n = SECTIONS.len();
    let mut parts: Vec<String> = vec![String::new(); n];
    for step in 0..n {
        let idx = (step + rotation) % n;
        let bit = SECTIONS[idx];
        if opts.level & bit != 0 {
            parts[idx] = section_text(file, bit, opts);
        }
    }
    parts.concat()
}
